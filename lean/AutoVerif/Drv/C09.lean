import AutoVerif.Drv.Round
import AutoVerif.Spec.C01
import AutoVerif.Spec.C05
import AutoVerif.Spec.C09
import AutoVerif.Spec.C04
import AutoVerif.Model.Net
import AutoVerif.Drv.C06
open Lean AutoVerif.Codec
namespace AutoVerif.C09
open AutoVerif.Outcome AutoVerif.Round

def natList (j : Json) : R (List Nat) := listOf asNat j

def decodeTrace (j : Json) : R Trace := do
  let pipeline ← listF (fun e => do pure ({ node := ← natF e "node", res := ← checkResult (← field e "res") } : PipeEntry)) j "pipeline"
  let rounds ← listF (fun r => do
      let obs ← listOf (fun o => do
        pure ({ oracle := ← natF o "oracle", byz := ← boolF o "byz", valid := ← boolF o "valid",
                perf := ← listOf checkResult (fieldD o "perf" .null) } : AObs)) (fieldD r "obs" .null)
      pure ({ obs := obs, agreed := ← listOf checkResult (fieldD r "agreed" .null),
              reports := ← natList (fieldD r "reports" .null), disagree := ← boolF r "disagree" } : Round)) j "rounds"
  let reports ← listF (fun r => do
      pure ({ id := ← natF r "id", round := ← natF r "round", upkeeps := ← listOf checkResult (fieldD r "upkeeps" .null) } : Report)) j "reports"
  let queries ← listF (fun q => do
      pure ({ round := ← natF q "round", node := ← natF q "node", report := ← natF q "report", isAccept := ← boolF q "isAccept",
              accept := ← boolF q "accept", transmit := ← boolF q "transmit", pre := ← boolF q "pre" } : Query)) j "queries"
  let events ← listOf (fun e => do
      pure ({ round := ← natF e "round", node := ← natF e "node", wid := ← strF e "wid", checkBlock := ← natF e "cb" } : EvSeen)) (fieldD j "events" .null)
  pure { events := events, n := ← natF j "n", f := ← natF j "f", honest := ← natList (fieldD j "honest" .null),
         correct := ← natList (fieldD j "correct" .null), pipeline := pipeline, rounds := rounds, reports := reports, queries := queries }


/-! ### replay of a recorded network run on the network model (`Model/Net`)

The trace carries (since the model exists) the run as one totally ordered list of operations with virtual times:
rounds, every `ShouldAccept…` / `ShouldTransmit…` call of every member with its answer, every answer of a member's
transmit event provider (= one `checkEvents` run of its coordinator) and every restart.  The list is replayed through
`Net.step` — the function `Net.run` folds, i.e. after `k` operations the state is `Net.run cfg` of the first `k`
steps — and compared with the implementation:

  * round: the model's agreed performables and reports (`Outcome.outcome` ∘ `C04.reports` inside `Net.step`) against
    the recorded ones.  Only the performables of the observations are recorded, so an observation the real
    `ValidateObservation` rejected enters as undecodable (`none`); the keyed shuffle is not reproducible in Lean and is
    supplied from the implementation's result (`key` = position in the recorded agreed list), as is the tie-break
    between two quorum results for one unit of work (`uid` orders recorded-agreed results first).  The per-round
    cases (`kind = round`) compare the outcome with the real shuffle keys and `UniqueID`s.
  * accept / transmit: the model's answer for that member and report against the recorded answer.

The members' clocks are the recorded virtual times (`tick` before every operation of a member). -/

structure NetOp where
  time : Nat
  kind : String
  node : Nat
  report : Nat
  ans : Bool
  evs : List C06.Event

def decodeOps (tj : Json) : R (List NetOp) :=
  listOf (fun o => do
    pure ({ time := ← natF o "at", kind := ← strF o "k", node := ← natF o "node", report := ← natF o "report",
            ans := ← boolF o "ans", evs := ← listOf C06.eventOf (fieldD o "evs" .null) } : NetOp)) (fieldD tj "ops" .null)

/-- `simutil.GetUpkeepType` on the hex rendering of an upkeep id: bytes 4..14 zero ⇒ byte 15 is the type -/
def utgHex (uid : String) : UpkeepType :=
  let cs := uid.toList
  if ((cs.drop 8).take 22).all (· == '0') then
    match (cs.drop 30).take 2 with
    | ['0', '0'] => .condition
    | ['0', '1'] => .log
    | _ => .other
  else .condition

def renderTrigger (t : Trigger) : String :=
  s!"{t.blockNumber}/{t.blockHash}/" ++ (match t.ext with
    | some e => s!"{e.txHash}.{e.index}.{e.blockHash}.{e.blockNumber}"
    | none => "-")

/-- injective rendering of a check result -/
def renderResult (r : CheckResult) : String :=
  s!"{r.workID}|{r.upkeepID}|{renderTrigger r.trigger}|{r.gas}|{r.performData}|{r.fastGasWei}|{r.linkNative}|{r.pes}|{r.retryable}|{r.eligible}|{r.reason}"

def padNat (n : Nat) : String :=
  let s := toString n
  "".pushn '0' (8 - s.length) ++ s

structure Replay where
  net : Net.Net := Net.Net.init
  refs : Std.HashMap Nat Net.Ref := {}
  modelRounds : Nat := 0
  errs : List String := []
  nQueries : Nat := 0
  nPolls : Nat := 0
  nEvents : Nat := 0

def Replay.err (rp : Replay) (m : String) : Replay := { rp with errs := if rp.errs.length < 5 then rp.errs ++ [m] else rp.errs }

/-- bring member `i`'s clock to the recorded time -/
def Replay.tick (cfg : Net.Cfg) (rp : Replay) (i tm : Nat) : Replay :=
  let now := (rp.net.nodes i).st.now
  if tm > now then { rp with net := Net.step cfg rp.net (.tick i (tm - now)) }
  else if tm < now then rp.err s!"member {i}: recorded time {tm} before the member's clock {now}"
  else rp

def replayOp (cfg : Net.Cfg) (t : Trace) (rp : Replay) (op : NetOp) : Replay :=
  match op.kind with
  | "round" =>
    match t.rounds[op.report]? with
    | none => rp.err s!"round {op.report} not in the trace"
    | some rd =>
      let idx : Std.HashMap String Nat := (rd.agreed.zipIdx).foldl (fun m (r, i) => m.insert r.workID i) {}
      let key : String → String := fun w => match idx.get? w with | some i => padNat i | none => "~" ++ w
      let aobs : Net.AttrObs := rd.obs.map fun o =>
        (o.oracle, if o.valid then some { performable := o.perf, proposals := [], blockHistory := [] } else none)
      let os := Outcome.validObs (cfg.ctx key) cfg.lim (aobs.map (·.2))
      let net := Net.step cfg rp.net (.round op.report key aobs (Outcome.resKeys (cfg.ctx key) os) [])
      let rp := { rp with net := net, modelRounds := rp.modelRounds + 1 }
      match net.rounds.getLast? with
      | none => rp.err "round step appended nothing"
      | some mr =>
        let rp := if mr.out.agreed = rd.agreed then rp
          else rp.err s!"round {op.report}: model agreed {mr.out.agreed.map showResult} impl {rd.agreed.map showResult}"
        let implReps := rd.reports.map fun id => (reportOf t id).map (·.upkeeps)
        let rp := if !op.ans || implReps = mr.reports.map some then rp
          else rp.err s!"round {op.report}: model reports {mr.reports.map (·.map showResult)} impl {implReps.map (fun r => (r.getD []).map showResult)}"
        let mi := rp.modelRounds - 1
        { rp with refs := (rd.reports.zipIdx).foldl (fun m (id, j) => m.insert id ⟨mi, j⟩) rp.refs }
  | "restart" =>
    let rp := rp.tick cfg op.node op.time
    { rp with net := Net.step cfg rp.net (.restart op.node) }
  | "poll" =>
    let rp := rp.tick cfg op.node op.time
    { rp with net := Net.step cfg rp.net (.events op.node op.evs), nPolls := rp.nPolls + 1, nEvents := rp.nEvents + op.evs.length }
  | k =>
    if k != "accept" && k != "transmit" then rp.err s!"unknown operation {k}" else
    match rp.refs.get? op.report with
    | none => rp.err s!"{k} of report {op.report} on member {op.node}: the report is not in the model's log"
    | some ref =>
      let rp := rp.tick cfg op.node op.time
      let n0 := rp.net.answers.length
      let net := Net.step cfg rp.net (if k == "accept" then .accept op.node ref else .transmitQuery op.node ref)
      let rp := { rp with net := net, nQueries := rp.nQueries + 1 }
      let got : Option Bool := if net.answers.length = n0 + 1 then
          (match net.answers.getLast? with
           | some (.accept _ _ a) => some a
           | some (.transmit _ _ a) => some a
           | none => none)
        else none
      match got with
      | none => rp.err s!"{k} of report {op.report} on member {op.node}: the model logged no answer"
      | some a =>
        if a = op.ans then rp
        else rp.err s!"{k} of report {op.report} on member {op.node} at {op.time} ns: model answers {a}, implementation {op.ans}"

def replayNet (tj : Json) (t : Trace) : R (Option Replay) := do
  let ops ← decodeOps tj
  if ops.isEmpty then return none
  let window ← asNat (fieldD tj "windowNs" (.num 0))
  let minConf ← asInt (fieldD tj "minConf" (.num 0))
  let batch ← asInt (fieldD tj "batch" (.num 1))
  -- work-id generator: a table of every (upkeep id, trigger) ↦ work id occurring in a validated observation or a report
  let allRes : List CheckResult := (t.rounds.flatMap fun rd => (rd.obs.filter (·.valid)).flatMap (·.perf)) ++ t.reports.flatMap (·.upkeeps)
  let wgT : Std.HashMap String String := allRes.foldl (fun m r => m.insert (r.upkeepID ++ "|" ++ renderTrigger r.trigger) r.workID) {}
  let agreedSet : Std.HashMap String Unit := (t.rounds.flatMap (·.agreed)).foldl (fun m r => m.insert (renderResult r) ()) {}
  let cfg : Net.Cfg :=
    { F := t.f, utg := utgHex,
      wg := fun u tr => (wgT.get? (u ++ "|" ++ renderTrigger tr)).getD "\x00unknown",
      uid := fun r => let s := renderResult r; (if agreedSet.contains s then "0" else "1") ++ s,
      lim := limits, rep := C04.ensureDefaults batch 0 0,
      coord := { minConf := minConf, window := window } }
  pure (some (ops.foldl (replayOp cfg t) {}))

def handleRound (input impl : Json) : R Reply := do
  let rd ← decode input
  let want := modelOutcome rd
  let os := validObs rd.ctx limits rd.obs
  match fieldD impl "outcome" .null with
  | .null => pure { agree := false, specModel := true, specImpl := false, fail := "round without outcome", nontrivial := false }
  | oj =>
    let got ← outcome oj
    let agree := decide (got = want)
    let s1 := C01.spec rd.ctx limits os got.agreed
    let s5 := C05.spec rd.ctx limits rd.prev os got.agreed got.surfaced
    -- reports of the network runs: batch size 3, default gas limit and overhead (config of harness/net_test.go)
    let ncfg := C04.ensureDefaults 3 0 0
    let hasReports := (fieldD impl "hasReports" (.bool false)) == .bool true
    let reps ← listOf (listOf checkResult) (fieldD impl "reports" .null)
    let s4 := !hasReports || C04.spec ncfg got.agreed reps
    pure { agree := agree, specModel := C01.spec rd.ctx limits os want.agreed && C05.spec rd.ctx limits rd.prev os want.agreed want.surfaced,
           specImpl := s1 && s5 && s4,
           diff := if agree then "" else s!"model: {showOutcome want} impl: {showOutcome got}",
           fail := if !s1 then C01.explain rd.ctx limits os got.agreed else if !s5 then C05.explain rd.ctx limits rd.prev os got.agreed got.surfaced
                   else if !s4 then "reports: " ++ C04.explain ncfg got.agreed reps else "",
           nontrivial := !got.agreed.isEmpty || !got.surfaced.flatten.isEmpty, tags := "net-round" :: (roundTags rd want ++ (if got.agreed.any (fun r => decide (r.gas > 5000000)) then ["over-limit-upkeep-agreed"] else [])) }

/-! ### sampling coverage runs (`kind = cover`)

The harness states the run's parameters (members, registry size, the sampling ratio the factory computes from the
off-chain config as an exact fraction, the sample size it derives from it) and what it saw (per live member: sampling
ticks, the registry positions the sampling flow handed to the pipeline, smallest / largest tick; which eligible upkeeps
were reported).  The model side: `Sample.sampleSize` of the ratio must be the stated size and no tick may hand on more
than that (correspondence); the clauses F1–F3 of `Spec/C09` are the oracle. -/
def handleCover (input impl : Json) : R Reply := do
  let members ← listOf (fun m => do
      pure ({ id := ← natF m "id", ticks := ← natF m "ticks", covered := ← natList (fieldD m "covered" .null),
              minTick := ← natF m "minTick", maxTick := ← natF m "maxTick", upMs := ← natF m "upMs" } : CoverMember))
      (fieldD impl "members" .null)
  let c : CoverRun :=
    { n := ← natF input "n", f := ← natF input "f", k := ← natF input "k", num := ← natF input "ratioNum",
      den := ← natF input "ratioDen", size := ← natF input "size", eligible := ← natList (fieldD input "eligible" .null),
      slack := ← natF input "slack", members := members, reported := ← natList (fieldD impl "reported" .null),
      roundTicks := ← natF impl "roundTicks" }
  let want := Sample.sampleSize c.num c.den c.k
  let tooMany := c.members.filter (fun m => decide (m.maxTick > want))
  let enough := decide (2 * c.f + 1 ≤ c.members.length)
  let agree := decide (want = c.size) && tooMany.isEmpty && enough
  let diff := if want != c.size then s!"model: OfInt of ratio {c.num}/{c.den} over {c.k} upkeeps is {want}; harness: {c.size}"
    else if !enough then s!"only {c.members.length} live members for f = {c.f}"
    else match tooMany.head? with
      | some m => s!"member {m.id}: a tick of the sampling flow handed {m.maxTick} upkeeps to the pipeline; the model's sample has {want} of {c.k}"
      | none => ""
  let ok := coverSpec c
  let cuts := decide (c.size < c.k)
  let due := c.members.all (fun m => Sample.coverageDue c.k c.size c.members.length m.ticks) &&
    (reportDue c || c.eligible.all (fun i => c.reported.contains i))
  let tags := ["net-cover"] ++ (if cuts then ["ratio-cuts"] else ["ratio-does-not-cut"]) ++
    (if due then ["cover-due"] else ["cover-not-due"]) ++
    (if c.members.length < c.n then ["cover-members-down"] else []) ++
    (if c.eligible.contains (c.k - 1) then ["cover-tail-eligible"] else []) ++
    (if c.eligible.isEmpty then ["cover-nothing-eligible"] else [])
  pure { agree := agree, diff := diff, specModel := true, specImpl := ok, fail := if ok then "" else coverExplain c,
         nontrivial := cuts && due, tags := tags,
         key := s!"cover-{c.n}-{c.f}-{c.members.length}-{c.k}-{c.size}-{c.eligible.length}" }

def handle (input impl : Json) : R Reply := do
  let kind ← strF input "kind"
  if kind == "cover" then
    handleCover input impl
  else if kind == "round" then
    handleRound (← field input "round") impl
  else
    let tj ← field input "trace"
    let t ← decodeTrace tj
    let restarts : List (Nat × Nat) ← match fieldD tj "restarts" .null with
      | .obj kvs => kvs.foldlM (init := []) fun acc k v => do
          let rs ← listOf asNat v
          pure (acc ++ rs.map (fun r => (k.toNat!, r)))
      | _ => pure []
    let si := spec t restarts
    let rp ← replayNet tj t
    let (agree, diff, rtags, rkey) := match rp with
      | none => (true, "", ["no-replay-info"], "")
      | some rp => (rp.errs.isEmpty, "; ".intercalate rp.errs,
          ["net-replay"] ++ (if rp.nEvents > 0 then ["net-replay-events"] else []),
          s!"-{rp.modelRounds}-{rp.nQueries}-{rp.nPolls}-{rp.nEvents}")
    let nTrue := (t.queries.filter (fun q => !q.isAccept && q.transmit)).length
    let tags :=
      (if t.honest.length < t.n then ["byzantine-member"] else []) ++
      (if t.correct.length < t.honest.length then ["crashing-member"] else []) ++
      (if t.queries.any (fun q => q.isAccept && !q.accept) then ["report-not-accepted"] else []) ++
      (if t.rounds.any (fun r => r.obs.any (fun o => !o.valid)) then ["invalid-observation"] else []) ++
      (if t.reports.any (fun r => decide (r.upkeeps.length > 1)) then ["multi-upkeep-report"] else []) ++
      (if decide (nTrue > 0) then ["transmit-willing"] else [])
    -- liveness needs every open member to keep consuming transmit events: the coordinator polls its provider once a
    -- second; the harness measures the longest virtual time an open honest member went without a poll
    let gap ← asNat (fieldD impl "maxPollGapMs" (.num 0))
    let pollOk := decide (gap ≤ 2500)
    let qm ← asNat (fieldD impl "quorumMismatch" (.num 0))
    let ex := if qm > 0 then s!"observation-quorum: ObservationQuorum answered differently from 'at least 2f+1 observations' {qm} time(s) (n={t.n}, f={t.f}): with 2f+1 live honest members rounds would never produce an outcome" else explain t restarts
    let si := si && decide (qm = 0)
    -- liveness also needs every member to keep feeding conditional upkeeps into its pipeline: the sampling flow is the
    -- only way in for them; the harness counts members that were up for the whole run (> 13 s, sampling cadence 3 s),
    -- had conditional upkeeps registered and never asked their pipeline about one
    let starved ← asNat (fieldD impl "samplingStarved" (.num 0))
    let ex := if starved > 0 && qm == 0 then s!"sampling-stopped: {starved} honest member(s) that stayed up with conditional upkeeps registered never sent one to the check pipeline: no conditional upkeep can ever be proposed, agreed or reported" else ex
    let si := si && decide (starved = 0)
    let fail := if !pollOk && (si || ex.startsWith "two-reports-one-work/") then
        s!"polling-stopped: an open honest member went {gap} ms without asking its transmit event provider (cadence 1000 ms): transmit events are no longer consumed, performed work stays in flight"
      else if si then "" else ex
    pure { agree := agree, diff := diff, specModel := true, specImpl := si && pollOk, fail := fail,
           nontrivial := decide (t.reports.length ≥ 2 ∧ nTrue ≥ 2), tags := "net-trace" :: (tags ++ rtags),
           key := s!"{t.n}-{t.f}-{t.rounds.length}-{t.reports.length}-{t.pipeline.length}-{t.queries.length}{rkey}" }

end AutoVerif.C09
