import AutoVerif.Drv.Round
import AutoVerif.Spec.C01
import AutoVerif.Spec.C05
import AutoVerif.Spec.C09
import AutoVerif.Spec.C04
open Lean AutoVerif.Codec
namespace AutoVerif.C09
open AutoVerif.Outcome AutoVerif.Round

def natList (j : Json) : R (List Nat) := listOf asNat j

def decodeTrace (j : Json) : R Trace := do
  let pipeline ← listF (fun e => do pure ({ node := ← natF e "node", res := ← checkResult (← field e "res") } : PipeEntry)) j "pipeline"
  let rounds ← listF (fun r => do
      let obs ← listOf (fun o => do
        pure ({ oracle := ← natF o "oracle", byz := ← boolF o "byz", valid := ← boolF o "valid",
                perf := ← listOf checkResult (fieldD o "perf" .null) } : AObs)) (fieldD r "obs" .null)
      pure ({ obs := obs, agreed := ← listOf checkResult (fieldD r "agreed" .null),
              reports := ← natList (fieldD r "reports" .null), disagree := ← boolF r "disagree" } : Round)) j "rounds"
  let reports ← listF (fun r => do
      pure ({ id := ← natF r "id", round := ← natF r "round", upkeeps := ← listOf checkResult (fieldD r "upkeeps" .null) } : Report)) j "reports"
  let queries ← listF (fun q => do
      pure ({ round := ← natF q "round", node := ← natF q "node", report := ← natF q "report", isAccept := ← boolF q "isAccept",
              accept := ← boolF q "accept", transmit := ← boolF q "transmit", pre := ← boolF q "pre" } : Query)) j "queries"
  let events ← listOf (fun e => do
      pure ({ round := ← natF e "round", node := ← natF e "node", wid := ← strF e "wid", checkBlock := ← natF e "cb" } : EvSeen)) (fieldD j "events" .null)
  pure { events := events, n := ← natF j "n", f := ← natF j "f", honest := ← natList (fieldD j "honest" .null),
         correct := ← natList (fieldD j "correct" .null), pipeline := pipeline, rounds := rounds, reports := reports, queries := queries }

def handleRound (input impl : Json) : R Reply := do
  let rd ← decode input
  let want := modelOutcome rd
  let os := validObs rd.ctx limits rd.obs
  match fieldD impl "outcome" .null with
  | .null => pure { agree := false, specModel := true, specImpl := false, fail := "round without outcome", nontrivial := false }
  | oj =>
    let got ← outcome oj
    let agree := decide (got = want)
    let s1 := C01.spec rd.ctx limits os got.agreed
    let s5 := C05.spec rd.ctx limits rd.prev os got.agreed got.surfaced
    -- reports of the network runs: batch size 3, default gas limit and overhead (config of harness/net_test.go)
    let ncfg := C04.ensureDefaults 3 0 0
    let hasReports := (fieldD impl "hasReports" (.bool false)) == .bool true
    let reps ← listOf (listOf checkResult) (fieldD impl "reports" .null)
    let s4 := !hasReports || C04.spec ncfg got.agreed reps
    pure { agree := agree, specModel := C01.spec rd.ctx limits os want.agreed && C05.spec rd.ctx limits rd.prev os want.agreed want.surfaced,
           specImpl := s1 && s5 && s4,
           diff := if agree then "" else s!"model: {showOutcome want} impl: {showOutcome got}",
           fail := if !s1 then C01.explain rd.ctx limits os got.agreed else if !s5 then C05.explain rd.ctx limits rd.prev os got.agreed got.surfaced
                   else if !s4 then "reports: " ++ C04.explain ncfg got.agreed reps else "",
           nontrivial := !got.agreed.isEmpty || !got.surfaced.flatten.isEmpty, tags := "net-round" :: (roundTags rd want ++ (if got.agreed.any (fun r => decide (r.gas > 5000000)) then ["over-limit-upkeep-agreed"] else [])) }

def handle (input impl : Json) : R Reply := do
  let kind ← strF input "kind"
  if kind == "round" then
    handleRound (← field input "round") impl
  else
    let tj ← field input "trace"
    let t ← decodeTrace tj
    let restarts : List (Nat × Nat) ← match fieldD tj "restarts" .null with
      | .obj kvs => kvs.foldlM (init := []) fun acc k v => do
          let rs ← listOf asNat v
          pure (acc ++ rs.map (fun r => (k.toNat!, r)))
      | _ => pure []
    let si := spec t restarts
    let nTrue := (t.queries.filter (fun q => !q.isAccept && q.transmit)).length
    let tags :=
      (if t.honest.length < t.n then ["byzantine-member"] else []) ++
      (if t.correct.length < t.honest.length then ["crashing-member"] else []) ++
      (if t.queries.any (fun q => q.isAccept && !q.accept) then ["report-not-accepted"] else []) ++
      (if t.rounds.any (fun r => r.obs.any (fun o => !o.valid)) then ["invalid-observation"] else []) ++
      (if t.reports.any (fun r => decide (r.upkeeps.length > 1)) then ["multi-upkeep-report"] else []) ++
      (if decide (nTrue > 0) then ["transmit-willing"] else [])
    pure { agree := true, specModel := true, specImpl := si, fail := if si then "" else explain t restarts,
           nontrivial := decide (t.reports.length ≥ 2 ∧ nTrue ≥ 2), tags := "net-trace" :: tags,
           key := s!"{t.n}-{t.f}-{t.rounds.length}-{t.reports.length}-{t.pipeline.length}-{t.queries.length}" }

end AutoVerif.C09
