import AutoVerif.Drv.Round
import AutoVerif.Spec.C01
open Lean AutoVerif.Codec
namespace AutoVerif.C01
open AutoVerif.Outcome AutoVerif.Round

def handle (input impl : Json) : R Reply := do
  let rd ← decode input
  let want := modelOutcome rd
  let os := validObs rd.ctx limits rd.obs
  let err := (fieldD impl "err" (.str "")).getStr?.toOption.getD ""
  match fieldD impl "outcome" .null with
  | .null => pure (refusedReply rd err)
  | oj =>
    let got ← outcome oj
    if acceptedBadPrev rd then
      -- a broken correspondence, not by itself a failing input of this property (its statement speaks of valid inputs)
      return { agree := false, specModel := true, specImpl := true,
               diff := s!"the previous outcome ({rd.prevMode}) does not decode and validate, yet Outcome returned {showOutcome got}",
               fail := "",
               nontrivial := true, tags := ["accepted-bad-prev:" ++ rd.prevMode] }
    let agree := decide (got.agreed = want.agreed)
    let si := spec rd.ctx limits os got.agreed
    let threshold := rd.ctx.F + 1
    let all := (os.flatMap (·.performable)).eraseDups
    let tags := roundTags rd want ++
      (if all.any (fun r => decide (votes os r = threshold)) then ["votes=f+1"] else []) ++
      (if all.any (fun r => decide (votes os r + 1 = threshold)) then ["votes=f"] else []) ++
      (if (tally rd.ctx os).any (fun s => s.key.endsWith "+") then ["uid-collision-probed"] else []) ++
      (if decide ((want.agreed.length) < ((tally rd.ctx os).filter (fun s => decide (s.count ≥ threshold))).length) then ["quorum-result-displaced"] else [])
    pure { agree := agree, specModel := spec rd.ctx limits os want.agreed, specImpl := si,
           diff := if agree then "" else s!"model: {showOutcome want} impl: {showOutcome got}",
           fail := if si then "" else explain rd.ctx limits os got.agreed,
           nontrivial := decide (all.length ≥ 2), tags := tags }

end AutoVerif.C01
