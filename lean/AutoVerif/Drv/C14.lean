import AutoVerif.Drv.Codec
import AutoVerif.Spec.C14
/-
Driver for C14.  The implementation's observation (real WorkerGroup in a synctest
bubble, see harness/c14_test.go) is judged by `Spec.C14.spec` (oracle Ω).

Model side: the executable transition system of `Model/C14.lean` is RUN under a
pseudo-random scheduler derived from the case (the same `step` function the
theorems are about), with `Stop` / the cancellations injected where the case
says; its final observation is judged by the same predicate (`spec_model`).

`agree`: the real scheduler is not controlled, so outcomes are compared
* exactly (per caller: returned, number of identified results, of skipped
  results, of started jobs, the jobs that panicked and their error results; goroutines left; and
  the concurrency bound every model run satisfies, `workers_le_max`) in the modes whose outcome is
  schedule-independent (none, stop-before, cancel-before, stop-after, cancel-after);
* as membership in the model's envelope otherwise (stop / cancel / both after k
  yields): the observation must satisfy every relation the theorems prove of ALL
  final model states (that is `spec`, including "no skipped job without Stop").
-/
open Lean AutoVerif.Codec
namespace AutoVerif.C14

/-- rebuild the caller table as a flat list lookup (the model updates it by closure chaining) -/
def normalize (cfg : Cfg) (s : State) : State :=
  let l := (List.range cfg.ncallers).map s.callers
  { s with callers := fun k => l.getD k {} }

def callerLabels (g : Nat) : List Label :=
  [.subAdd g, .subLoopEnd g, .subCtx g, .subRLock g, .subClosed g, .subSend g, .subSelCtx g, .subSelStop g,
   .subRUnlockOk g, .subRUnlockFail g, .subFailDone g, .subWait g, .subRemove g, .subCloseEnd g]

def readerLabels (s : State) (g : Nat) : List Label :=
  [.rdNotify g, .rdEnd g, .rdResults g, .rdBatchEnd g] ++
  (match s.rbatch.find? (fun k => k.grp == g) with
   | some j => [.rdDeliver j]
   | none => [])

/-- a finite list containing every enabled non-environment label of `s` -/
def candidates (cfg : Cfg) (s : State) (withCallers : Bool) : List Label :=
  (if withCallers then (List.range cfg.ncallers).flatMap callerLabels else []) ++
  (List.range cfg.ncallers).flatMap (readerLabels s) ++
  ((optList s.input).flatMap fun j => [.qRecv j, .qDrainRecv j]) ++
  (s.q.hand.flatMap fun j => [.qAdd j, .qDrainAdd j]) ++
  [.qNotify, .qDrainEmpty, .qSendStop, .pNotify, .pLen false, .pLen true, .pPopEmpty false, .pPopEmpty true] ++
  (match s.queue.head? with
   | some j => [.pPop false j, .pPop true j]
   | none => []) ++
  (s.p.hand.flatMap fun j => [.pSpawnNew false j, .pSpawnNew true j, .pSpawnReuse false j, .pSpawnReuse true j]) ++
  (s.wStart.flatMap fun j => [.wCheckOk j, .wCheckErr j]) ++
  (s.wRun.map .wRun) ++ (s.wStore.map .wStore) ++
  [.wPut, .tLockReq, .tLockAcq, .tSet, .tUnlock, .tSend]

def rotate {α} (l : List α) (n : Nat) : List α :=
  let k := if l.length = 0 then 0 else n % l.length
  l.drop k ++ l.take k

def firstEnabled (cfg : Cfg) (s : State) : List Label → Option State
  | [] => none
  | l :: ls => match step cfg s l with
    | some s' => some s'
    | none => firstEnabled cfg s ls

def nextRand (x : Nat) : Nat := (x * 6364136223846793005 + 1442695040888963407) % 18446744073709551616

structure Run where
  s : State
  rnd : Nat
  maxConc : Nat := 0
  steps : Nat := 0

/-- at most `fuel` scheduler steps (stops early at quiescence); returns whether quiescent -/
def runSteps (cfg : Cfg) (withCallers : Bool) : Nat → Run → Run × Bool
  | 0, r => (r, false)
  | fuel + 1, r =>
    let cands := rotate (candidates cfg r.s withCallers) (r.rnd / 65536)
    match firstEnabled cfg r.s cands with
    | none => (r, true)
    | some s' =>
      let s' := normalize cfg s'
      runSteps cfg withCallers fuel
        { s := s', rnd := nextRand r.rnd, maxConc := max r.maxConc s'.wRun.length, steps := r.steps + 1 }

def applyEnv (cfg : Cfg) (r : Run) (ls : List Label) : Run :=
  ls.foldl (fun r l => match step cfg r.s l with
    | some s' => { r with s := normalize cfg s' }
    | none => r) r

def allCancels (cfg : Cfg) : List Label := (List.range cfg.ncallers).map .cancel

/-- the model run for one case; returns the observation (returned flags taken at the verdict point) -/
def modelRun (cfg : Cfg) (mode : String) (k salt : Nat) : Obs :=
  let big := measure cfg (init cfg) + 64
  let r0 : Run := { s := normalize cfg (init cfg), rnd := nextRand (salt + 12345) }
  let toQuiet (wc : Bool) (r : Run) : Run := (runSteps cfg wc big r).1
  let r1 : Run :=
    match mode with
    | "stop-before" => toQuiet true (toQuiet false (applyEnv cfg r0 [.stopBegin]))
    | "cancel-before" => toQuiet true (applyEnv cfg r0 (allCancels cfg))
    | "stop" => toQuiet true (applyEnv cfg (runSteps cfg true k r0).1 [.stopBegin])
    | "cancel" => toQuiet true (applyEnv cfg (runSteps cfg true k r0).1 (allCancels cfg))
    | "both" => toQuiet true (applyEnv cfg (runSteps cfg true k r0).1 (.stopBegin :: allCancels cfg))
    | _ => toQuiet true r0
  let verdict := observe cfg r1.s r1.maxConc
  -- the harness then injects the "-after" event and releases everything (cancel all, Stop)
  let r2 := toQuiet true (applyEnv cfg r1 (.stopBegin :: allCancels cfg))
  let fin := observe cfg r2.s r2.maxConc
  { fin with callers := (fin.callers.zip verdict.callers).map fun (f, v) => { f with returned := v.returned } }

def callerObs (jobs : Nat) (j : Json) : R CallerObs := do
  let ar ← intF j "deliveredAtReturn"
  pure { jobs := jobs, returned := ← boolF j "returned", delivered := ← listF asNat j "delivered",
         anon := ← natF j "anon", started := ← listF asNat j "started",
         atReturn := if ar < 0 then none else some ar.toNat, late := ← natF j "late",
         panicked := ← listOf asNat (fieldD j "panicked" .null),
         errDelivered := ← listOf asNat (fieldD j "errDelivered" .null) }

def summary (o : Obs) : String :=
  let cs := o.callers.map fun c => s!"(ret={c.returned} del={c.delivered.length} anon={c.anon} started={c.started.length} panicked={c.panicked.length})"
  s!"{cs} leaked={o.leaked} maxConc={o.maxConc}"

def handle (input impl : Json) : R Reply := do
  let workers ← natF input "workers"
  let jobs ← listF asNat input "jobs"
  let k ← natF input "k"
  let mode ← strF input "mode"
  let kind ← strF input "jobKind"
  let salt ← natF input "salt"
  let quiet := mode == "none" || mode == "stop-after" || mode == "cancel-after"
  let noStop := quiet || mode == "cancel" || mode == "cancel-before"
  let cs : Case := { workers := workers, quiet := quiet, noStop := noStop }
  let crashed := (← boolF impl "crashed") || (fieldD impl "panic" (.str "")) != .str ""
  let callersJ ← asList (fieldD impl "callers" .null)
  if callersJ.length ≠ jobs.length && !crashed then throw "impl.callers does not match input.jobs"
  let callers ← if callersJ.length ≠ jobs.length then pure [] else (callersJ.zip jobs).mapM fun (j, n) => callerObs n j
  let got : Obs := { callers := callers, maxConc := ← natF impl "maxConc", leaked := ← natF impl "leaked", crashed := crashed }
  -- job indices (per caller) whose job function panics; the other job kinds (yield, hold: released by
  -- the harness whenever everything is blocked) only shape the real schedule
  let panicAt ← listOf (listOf asNat) (fieldD input "panicAt" .null)
  let cfg : Cfg := { fixed := true, maxWorkers := workers, ncallers := jobs.length,
                     jobs := fun g => jobs.getD g 0, blocking := fun _ => kind == "block",
                     panics := fun j => (panicAt.getD j.grp []).contains j.idx }
  let total := jobs.foldl (· + ·) 0
  -- the model is run on every case of moderate size (a run costs ~30 scheduler steps per job)
  let runModel := decide (total ≤ 400)
  let want := if runModel then modelRun cfg mode k salt else got
  let deterministic := quiet || mode == "stop-before" || mode == "cancel-before"
  let proj (o : Obs) := (o.callers.map fun c => (c.returned, c.delivered.length, c.anon, c.started.length,
    c.panicked.mergeSort, c.errDelivered.mergeSort), o.leaked)
  let si := spec cs got
  let sm := !runModel || spec cs want
  let agree := if deterministic && runModel then proj got == proj want && decide (got.maxConc ≤ workers) else si
  let stuck := got.callers.any (fun c => !c.returned)
  let tags :=
    [s!"mode:{mode}", s!"kind:{kind}"] ++
    (if runModel then ["model-run"] else ["model-skipped-large"]) ++
    (if deterministic then ["exact-compare"] else ["envelope-compare"]) ++
    (if stuck then ["stuck"] else []) ++
    (if got.callers.any (fun c => decide (c.anon > 0)) then ["skipped-results"] else []) ++
    (if got.callers.any (fun c => !c.panicked.isEmpty) then ["job-panicked"] else []) ++
    (if got.callers.any (fun c => !c.panicked.isEmpty) && decide (got.maxConc = workers) then ["panic-then-saturated"] else []) ++
    (if got.callers.any (fun c => decide (0 < c.total) && decide (c.total < c.jobs)) then ["partial-acceptance"] else []) ++
    (if got.callers.all (fun c => decide (c.total = c.jobs)) then ["all-accepted"] else []) ++
    (if got.callers.any (fun c => decide (c.total = 0) && decide (0 < c.jobs)) then ["none-accepted"] else []) ++
    (if decide (got.maxConc = workers) then ["workers-saturated"] else [])
  pure { agree := agree, specModel := sm, specImpl := si,
         diff := if agree then "" else s!"model={summary want} impl={summary got}",
         fail := if si then "" else explain cs got,
         nontrivial := decide (total ≥ 2) && mode != "none",
         tags := tags,
         key := s!"w{workers}/j{jobs}/k{k}/{mode}/{kind}/{proj got}" }

end AutoVerif.C14
