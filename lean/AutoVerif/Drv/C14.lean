import AutoVerif.Drv.Codec
import AutoVerif.Spec.C14
import Std.Data.HashSet
/-
Driver for C14.  The implementation's observation (real WorkerGroup in a synctest
bubble, see harness/c14_test.go) is judged by `Spec.C14.spec` (oracle Ω).

Model side: the executable transition system of `Model/C14.lean` is RUN under a
pseudo-random scheduler derived from the case (the same `step` function the
theorems are about), with `Stop` / the cancellations injected where the case
says; its final observation is judged by the same predicate (`spec_model`).

`agree`: the real scheduler is not controlled, so outcomes are compared
* exactly (per caller: returned, number of identified results, of skipped
  results, of started jobs, the jobs that panicked and their error results; goroutines left; and
  the concurrency bound every model run satisfies, `workers_le_max`) in the modes whose outcome is
  schedule-independent (none, stop-before, cancel-before, stop-after, cancel-after);
* as membership in the model's envelope otherwise (stop / cancel / both after k
  yields): the observation must satisfy every relation the theorems prove of ALL
  final model states (that is `spec`, including "no skipped job without Stop").
* RUNNER cases (`input.via` = runner-v3 / runner-v2): the same observation taken on a worker group
  built by the runner's public constructor (Workers != WorkerQueueLength), one job = one batch of the
  check pipeline; the model is the same with `maxWorkers := Workers` — the bound must hold for the
  group as the runner builds it.
* TRACE cases (`impl.events`, recorded through the `verif` hooks of pkg/util/worker.go by
  harness/c14_trace_test.go): exact refinement check.  The log must be — in some reordering that keeps
  every goroutine's order, the order of the events logged under `wg.mu`, and real time as far as the
  log determines it — a path of `step` from `init`, every event matching the model's outcome
  (`Spec.C14.traceOk`; theorem `trace_sound`).  The state the trace leads to must in addition show
  the counts the harness observed from outside.  A trace that is not a path is a correspondence
  failure: `agree = false`, `diff` names the first event that cannot be placed.
* DIRECT cases (`input.via = "direct"`): the exported API of the group and `Queue` driven call by call, compared
  exactly with the store model that keeps map entries (`handleDirect` below).
-/
open Lean AutoVerif.Codec
namespace AutoVerif.C14

/-- rebuild the caller table as a flat array lookup (the model updates it by closure chaining) -/
def normalize (cfg : Cfg) (s : State) : State :=
  let a := ((List.range cfg.ncallers).map s.callers).toArray
  { s with callers := fun k => a.getD k {} }

def callerLabels (g : Nat) : List Label :=
  [.subAdd g, .subLoopEnd g, .subCtx g, .subRLock g, .subClosed g, .subSend g, .subSelCtx g, .subSelStop g,
   .subRUnlockOk g, .subRUnlockFail g, .subFailDone g, .subWait g, .subRemove g, .subCloseEnd g]

def readerLabels (s : State) (g : Nat) : List Label :=
  [.rdNotify g, .rdEnd g, .rdResults g, .rdBatchEnd g] ++
  (match s.rbatch.find? (fun k => k.grp == g) with
   | some j => [.rdDeliver j]
   | none => [])

/-- a finite list containing every enabled non-environment label of `s` -/
def candidates (cfg : Cfg) (s : State) (withCallers : Bool) : List Label :=
  (if withCallers then (List.range cfg.ncallers).flatMap callerLabels else []) ++
  (List.range cfg.ncallers).flatMap (readerLabels s) ++
  ((optList s.input).flatMap fun j => [.qRecv j, .qDrainRecv j]) ++
  (s.q.hand.flatMap fun j => [.qAdd j, .qDrainAdd j]) ++
  [.qNotify, .qDrainEmpty, .qSendStop, .pNotify, .pLen false, .pLen true, .pPopEmpty false, .pPopEmpty true] ++
  (match s.queue.head? with
   | some j => [.pPop false j, .pPop true j]
   | none => []) ++
  (s.p.hand.flatMap fun j => [.pSpawnNew false j, .pSpawnNew true j, .pSpawnReuse false j, .pSpawnReuse true j]) ++
  (s.wStart.flatMap fun j => [.wCheckOk j, .wCheckErr j]) ++
  (s.wRun.map .wRun) ++ (s.wStore.map .wStore) ++
  [.wPut, .tLockReq, .tLockAcq, .tSet, .tUnlock, .tSend]

def rotate {α} (l : List α) (n : Nat) : List α :=
  let k := if l.length = 0 then 0 else n % l.length
  l.drop k ++ l.take k

def firstEnabled (cfg : Cfg) (s : State) : List Label → Option State
  | [] => none
  | l :: ls => match step cfg s l with
    | some s' => some s'
    | none => firstEnabled cfg s ls

def nextRand (x : Nat) : Nat := (x * 6364136223846793005 + 1442695040888963407) % 18446744073709551616

structure Run where
  s : State
  rnd : Nat
  maxConc : Nat := 0
  steps : Nat := 0

/-- at most `fuel` scheduler steps (stops early at quiescence); returns whether quiescent -/
def runSteps (cfg : Cfg) (withCallers : Bool) : Nat → Run → Run × Bool
  | 0, r => (r, false)
  | fuel + 1, r =>
    let cands := rotate (candidates cfg r.s withCallers) (r.rnd / 65536)
    match firstEnabled cfg r.s cands with
    | none => (r, true)
    | some s' =>
      let s' := normalize cfg s'
      runSteps cfg withCallers fuel
        { s := s', rnd := nextRand r.rnd, maxConc := max r.maxConc s'.wRun.length, steps := r.steps + 1 }

def applyEnv (cfg : Cfg) (r : Run) (ls : List Label) : Run :=
  ls.foldl (fun r l => match step cfg r.s l with
    | some s' => { r with s := normalize cfg s' }
    | none => r) r

def allCancels (cfg : Cfg) : List Label := (List.range cfg.ncallers).map .cancel

/-- the model run for one case; returns the observation (returned flags taken at the verdict point) -/
def modelRun (cfg : Cfg) (mode : String) (k salt : Nat) : Obs :=
  let big := measure cfg (init cfg) + 64
  let r0 : Run := { s := normalize cfg (init cfg), rnd := nextRand (salt + 12345) }
  let toQuiet (wc : Bool) (r : Run) : Run := (runSteps cfg wc big r).1
  let r1 : Run :=
    match mode with
    | "stop-before" => toQuiet true (toQuiet false (applyEnv cfg r0 [.stopBegin]))
    | "cancel-before" => toQuiet true (applyEnv cfg r0 (allCancels cfg))
    | "stop" => toQuiet true (applyEnv cfg (runSteps cfg true k r0).1 [.stopBegin])
    | "cancel" => toQuiet true (applyEnv cfg (runSteps cfg true k r0).1 (allCancels cfg))
    | "both" => toQuiet true (applyEnv cfg (runSteps cfg true k r0).1 (.stopBegin :: allCancels cfg))
    | _ => toQuiet true r0
  let verdict := observe cfg r1.s r1.maxConc
  -- the harness then injects the "-after" event and releases everything (cancel all, Stop)
  let r2 := toQuiet true (applyEnv cfg r1 (.stopBegin :: allCancels cfg))
  let fin := observe cfg r2.s r2.maxConc
  { fin with callers := (fin.callers.zip verdict.callers).map fun (f, v) => { f with returned := v.returned } }


/-! ### trace validation: find an admissible reordering of the log that is a model path

Depth-first search over the events that may come next (`Spec.C14.wellOrdered`: the head of a
goroutine whose previous event was logged after everything still pending before it), tried in log
order, with a memo of the configurations (per-goroutine positions) already known to fail and a node
budget.  The search only PROPOSES an order; acceptance is decided by `Spec.C14.traceOk` on it. -/

structure Search where
  cfg : Cfg
  evs : Array Ev
  thr : Array Nat            -- goroutine number of every event
  prev : Array (Option Nat)  -- previous event of the same goroutine
  next : Array (Option Nat)  -- next event of the same goroutine
  pmu : Array (Option Nat)   -- previous event logged under wg.mu (for events logged under wg.mu)
  recvs : Array Nat          -- groups of the items runQueuing received, in its order
  rqTid : Option Nat         -- goroutine number of runQueuing
  rqFull : Array Bool        -- for an event of runQueuing: its next notification attempt (from this event on) finds the channel full

structure SearchSt where
  failed : Std.HashSet (Array Nat) := {}
  nodes : Nat := 0
  backtracks : Nat := 0
  deepest : Nat := 0          -- most events ever placed
  stuckAt : Nat := 0          -- first pending log index at the deepest point

def mkSearch (cfg : Cfg) (evs : Array Ev) : Search × Array (Option Nat) := Id.run do
  let mut ids : List ((Nat × Nat) × Nat) := []
  let mut thr : Array Nat := #[]
  let mut last : Array (Option Nat) := #[]
  let mut heads : Array (Option Nat) := #[]
  let mut prev : Array (Option Nat) := #[]
  let mut next : Array (Option Nat) := Array.replicate evs.size none
  for i in [0:evs.size] do
    let th := evs[i]!.thread
    let tid ← match ids.find? (fun p => p.1 == th) with
      | some p => pure p.2
      | none => do
        let t := ids.length
        ids := (th, t) :: ids
        last := last.push none
        heads := heads.push none
        pure t
    thr := thr.push tid
    match last[tid]! with
    | none => heads := heads.set! tid (some i)
    | some p => next := next.set! p (some i)
    prev := prev.push last[tid]!
    last := last.set! tid (some i)
  let mut pmu : Array (Option Nat) := #[]
  let mut lastMu : Option Nat := none
  let mut recvs : Array Nat := #[]
  for i in [0:evs.size] do
    let e := evs[i]!
    if e.underMu then
      pmu := pmu.push lastMu
      lastMu := some i
    else pmu := pmu.push none
    if e.pt == "rq.recv" || e.pt == "rq.drain-recv" then recvs := recvs.push e.a
  let mut rqFull : Array Bool := Array.replicate evs.size false
  let mut cur := false
  for k in [0:evs.size] do
    let i := evs.size - 1 - k
    let e := evs[i]!
    if e.thread == (2, 0) then
      if e.pt == "rq.notify-full" then cur := true
      else if e.pt == "rq.notified" then cur := false
      rqFull := rqFull.set! i cur
  let rqTid := (ids.find? (fun p => p.1 == (2, 0))).map (·.2)
  return ({ cfg := cfg, evs := evs, thr := thr, prev := prev, next := next, pmu := pmu, recvs := recvs,
            rqTid := rqTid, rqFull := rqFull }, heads)

partial def firstPending (done : Array Bool) (i : Nat) : Nat :=
  if i < done.size && done[i]! then firstPending done (i + 1) else i

partial def dfs (sr : Search) (budget : Nat) (t : TState) (heads : Array (Option Nat)) (done : Array Bool)
    (first placed : Nat) (acc : List Nat) : StateM SearchSt (Option (List Nat)) := do
  if placed == sr.evs.size then return some acc.reverse
  let st ← get
  if st.nodes > budget then return none
  let key := heads.map (fun h => h.getD sr.evs.size)
  if st.failed.contains key then return none
  set { st with nodes := st.nodes + 1,
                deepest := max st.deepest placed,
                stuckAt := if placed ≥ st.deepest then first else st.stuckAt }
  -- eligible heads in log order (the first pending event is always one of them)
  let cands := (heads.toList.filterMap id).filter (fun h =>
    (match sr.prev[h]! with
     | none => true
     | some p => p ≤ first) &&
    (match sr.pmu[h]! with
     | none => true
     | some p => done[p]!) &&
    -- look-ahead (speeds the search up, excludes no model path): `input` has capacity 1 and one
    -- receiver, so the n-th send is the n-th item runQueuing receives
    (sr.evs[h]!.pt != "do.sent" ||
      (let n := t.s.accepted.length
       n ≥ sr.recvs.size || sr.recvs[n]! == sr.evs[h]!.a)) &&
    -- look-ahead (excludes no model path either): only runQueuing puts a token on `chInputNotify` and only
    -- "rp.notify" takes it; if runQueuing's NEXT attempt reports the channel full, the token that is there
    -- now must still be there then (in a crowd of callers the log entry of the send that runQueuing is
    -- waiting for comes late, and the search would otherwise let the processing loop run ahead)
    (sr.evs[h]!.pt != "rp.notify" ||
      (match sr.rqTid.bind (fun q => heads[q]!) with
       | some qh => !sr.rqFull[qh]!
       | none => true)) &&
    -- look-ahead (excludes no model path either): `queueClosed` is written under the write lock, so it
    -- cannot change between a submitter's RLock and its closed-check: the check's reported outcome
    -- must already hold when the read lock is taken
    (sr.evs[h]!.pt != "do.rlock" ||
      (match sr.next[h]! with
       | some nx =>
         let np := sr.evs[nx]!.pt
         (np != "do.closed" || t.s.queueClosed) && (np != "do.open" || !t.s.queueClosed)
       | none => true)))
  let cands := cands.mergeSort
  let norm (t' : TState) : TState := { t' with s := normalize sr.cfg t'.s }
  -- the enabled ones, with their successor states
  let en : List (Nat × TState) := cands.filterMap fun h => (tstep sr.cfg t sr.evs[h]!).map fun t' => (h, norm t')
  -- conflict-aware order: if taking X first makes an enabled Y impossible while X stays possible
  -- after Y (e.g. X = `queue.Add`, Y = "Len() == 0"), Y's action came first: try Y before X.
  -- (A heuristic for the order of exploration only; every alternative is still tried.)
  let beats (y x : Nat × TState) : Bool :=
    (tstep sr.cfg x.2 sr.evs[y.1]!).isNone && (tstep sr.cfg y.2 sr.evs[x.1]!).isSome
  -- (evaluated lazily: whether a candidate is beaten is only looked at when its turn comes; the order of
  -- exploration is: the unbeaten candidates in log order, then the beaten ones in log order)
  let mut tried := 0
  let mut beaten : Array (Nat × TState) := #[]
  for x in en do
    if en.length > 1 && (en.any fun y => y.1 != x.1 && beats y x) then
      beaten := beaten.push x
    else
      let (h, t') := x
      let heads' := heads.set! sr.thr[h]! sr.next[h]!
      let done' := done.set! h true
      let first' := firstPending done' first
      if tried > 0 then modify fun st => { st with backtracks := st.backtracks + 1 }
      tried := tried + 1
      match ← dfs sr budget t' heads' done' first' (placed + 1) (h :: acc) with
      | some w => return some w
      | none => pure ()
  for (h, t') in beaten do
    let heads' := heads.set! sr.thr[h]! sr.next[h]!
    let done' := done.set! h true
    let first' := firstPending done' first
    if tried > 0 then modify fun st => { st with backtracks := st.backtracks + 1 }
    tried := tried + 1
    match ← dfs sr budget t' heads' done' first' (placed + 1) (h :: acc) with
    | some w => return some w
    | none => pure ()
  modify fun st => { st with failed := st.failed.insert key }
  return none

structure TraceVerdict where
  ok : Bool
  /-- the search ran out of budget before it found a path or exhausted the orders: nothing is known about the trace -/
  inconclusive : Bool := false
  msg : String := ""
  nodes : Nat := 0
  backtracks : Nat := 0
  final : Option State := none

def showEv (e : Ev) : String := s!"{e.pt}({e.a},{e.b},{e.c})"

/-- node budget of the search.  A node costs time (and, when it fails, memory) proportional to the number
of goroutines in the log (one search thread per caller, reader and worker execution; one candidate per
thread that may move, each tried on a state with `ncallers` entries).  The budget of the traces the
generators produced so far (up to 4 callers, up to ~128 goroutines) is the constant it always was; for a
WIDE trace (a crowd of callers, hundreds of worker executions) it shrinks with the 4th power of the width
(nodes x cost per node x candidates per node stays within what a narrow trace may use), but
never below four nodes per event (a log that is nearly a path needs one node per event).  A search that
runs out of budget decides nothing. -/
def searchBudget (cfg : Cfg) (threads n : Nat) : Nat :=
  let w := max threads (32 * cfg.ncallers)
  4 * n + (3000000 + 500 * n) * (128 * 128 * 128 * 128) / max (128 * 128 * 128 * 128) (w * w * w * w)

def checkTrace (cfg : Cfg) (evs : Array Ev) : TraceVerdict :=
  let (sr, heads) := mkSearch cfg evs
  let t0 : TState := { s := normalize cfg (init cfg) }
  let budget := searchBudget cfg heads.size evs.size
  let (res, st) := (dfs sr budget t0 heads (Array.replicate evs.size false) 0 0 []).run {}
  match res with
  | some order =>
    -- the decision is taken by the checker the theorem `trace_sound` is about
    if traceOk cfg evs order then
      { ok := true, nodes := st.nodes, backtracks := st.backtracks,
        final := (replay cfg evs { s := init cfg } order).map (·.s) }
    else { ok := false, msg := "internal: proposed order rejected by Spec.traceOk", nodes := st.nodes }
  | none =>
    let e := evs.getD st.stuckAt default
    let out := decide (st.nodes > budget)
    let why := if out then "search budget exhausted; " else ""
    { ok := false, inconclusive := out, nodes := st.nodes, backtracks := st.backtracks,
      msg := s!"{why}no admissible reordering of the log is a model path: stuck after {st.deepest} of {evs.size} events; first event that cannot be placed: #{st.stuckAt} {showEv e} (goroutine {e.thread}); context: {(List.range 6).map fun k => showEv (evs.getD (st.stuckAt + k - 2) default)}" }

def evOf (j : Json) : R Ev := do
  let l ← asList j
  match l with
  | [p, a, b, c] => pure { pt := ← asStr p, a := ← asNat a, b := ← asNat b, c := ← asNat c }
  | _ => throw "bad event"

def callerObs (jobs : Nat) (j : Json) : R CallerObs := do
  let ar ← intF j "deliveredAtReturn"
  pure { jobs := jobs, returned := ← boolF j "returned", delivered := ← listF asNat j "delivered",
         anon := ← natF j "anon", started := ← listF asNat j "started",
         atReturn := if ar < 0 then none else some ar.toNat, late := ← natF j "late",
         panicked := ← listOf asNat (fieldD j "panicked" .null),
         errDelivered := ← listOf asNat (fieldD j "errDelivered" .null) }

def summary (o : Obs) : String :=
  let cs := o.callers.map fun c => s!"(ret={c.returned} del={c.delivered.length} anon={c.anon} started={c.started.length} panicked={c.panicked.length})"
  s!"{cs} leaked={o.leaked} maxConc={o.maxConc}"

/-! ### direct use of the public API (`input.via = "direct"`)

The harness drives `Do` / `NotifyResult` / `Results` / `RemoveGroup` of a real worker group and a real
`Queue` value call by call (harness/c14_direct_test.go) and reports the outcome of every call.  The model
(`Model/C14.lean` `dstep`: the store WITH its map entries) is run on the same calls; outcomes are compared
exactly, and the Spec predicate for direct histories (`Spec/C14.lean` `directSpec`, the entry-less monitor)
is evaluated on both (`Props/C14.lean` `direct_spec_of_model`). -/

def dopOf (j : Json) : R DOp := do
  let op ← strF j "op"
  let g ← natF j "g"
  let v ← natF j "v"
  match op with
  | "submit" => pure (.submit g v)
  | "submit-cancelled" => pure (.submitCancelled g)
  | "finish" => pure (.finish g v)
  | "remove" => pure (.remove g)
  | "results" => pure (.results g)
  | "poll" => pure (.poll g)
  | "q-add" => pure (.qAdd (← listOf asNat (fieldD j "vs" .null)))
  | "q-pop" => pure .qPop
  | "q-len" => pure .qLen
  | "watch" => pure (.watch g)
  | "poll-held" => pure (.pollHeld g)
  | _ => throw s!"unknown direct op {op}"

def doutOf (j : Json) : R DOut := do
  let k ← strF j "k"
  match k with
  | "accepted" => pure (.accepted (← natF j "n"))
  | "refused" => pure .refused
  | "finished" => pure (.finished (← natF j "n"))
  | "unit" => pure .unit
  | "vals" => pure (.vals (← listOf asNat (fieldD j "vals" .null)))
  | "token" => pure (.token (← boolF j "b"))
  | "popped" =>
    let isNone ← boolF j "none"
    let n ← natF j "n"
    pure (.popped (if isNone then none else some n))
  | "len" => pure (.len (← natF j "n"))
  | _ => throw s!"unknown direct outcome {k}"

def showDOut : DOut → String
  | .accepted r => s!"accepted(running={r})" | .refused => "refused" | .finished r => s!"finished(running={r})"
  | .unit => "unit" | .vals l => s!"vals{l}" | .token b => s!"token({b})"
  | .popped o => s!"popped({o})" | .len n => s!"len({n})"

def showDOp : DOp → String
  | .submit g v => s!"submit(g{g},job{v})" | .submitCancelled g => s!"submit-cancelled(g{g})"
  | .finish g v => s!"finish(g{g},job{v})" | .remove g => s!"remove(g{g})" | .results g => s!"results(g{g})"
  | .poll g => s!"poll(g{g})" | .qAdd vs => s!"q-add{vs}" | .qPop => "q-pop" | .qLen => "q-len"
  | .watch g => s!"watch(g{g})" | .pollHeld g => s!"poll-held(g{g})"

/-- which branches of the code the calls go through, according to the model (for the evidence) -/
def directTags (workers : Nat) : DState → List DOp → List String
  | _, [] => []
  | d, op :: ops =>
    (match op with
     | .finish g _ =>
       (if (d.store.data g).isNone then ["store:data-entry-missing"] else []) ++
       (if (d.store.notify g).isNone then ["store:notify-entry-missing"] else []) ++
       (if (d.store.notify g) == some true then ["store:notify-full"] else [])
     | .results g => if (d.store.data g).isNone then ["results:entry-missing"] else []
     | .poll g => if (d.store.notify g).isNone then ["poll:entry-missing"] else []
     | .submit g _ => if (d.store.data g).isNone then ["do:creates-entries"] else ["do:entries-exist"]
     | .qPop => if d.queue.isEmpty then ["queue:pop-empty"] else ["queue:pop"]
     | .remove g => (if ((d.store.data g).getD []).isEmpty then ["remove:nothing-stored"] else ["remove:wipes-results"]) ++
       (if d.held g == .attached then ["remove:cuts-off-kept-channel"] else []) ++
       (if (List.range 2048).any (fun k => k != g && d.held k == .attached && (d.store.notify k) == some false &&
            ((d.store.data k).getD []).isEmpty) then ["remove:while-another-group-waits"] else [])
     | .pollHeld g => (match d.held g with
       | .none => ["poll-held:no-channel"]
       | .attached => if (d.store.notify g) == some true then ["poll-held:woken"] else ["poll-held:nothing-yet"]
       | .detached b => if b then ["poll-held:dead-channel-with-token"] else ["poll-held:dead-channel"])
     | _ => []) ++ directTags workers (dstep workers d op).2 ops

def firstDiff (ops : List DOp) (a b : List DOut) : String :=
  match ((List.range ops.length).zip (ops.zip (a.zip b))).find? (fun p => p.2.2.1 != p.2.2.2) with
  | some (i, op, x, y) => s!"call #{i} {showDOp op}: model {showDOut x}, implementation {showDOut y}"
  | none => s!"model has {a.length} outcomes, implementation {b.length}"

/-- the contract of the generator (not of the code): job ids are fresh and `finish` names a job whose
function is RUNNING (jobs start in acceptance order as workers are free).  A history that breaks it — the
shrinker produces such when it drops calls — claims nothing. -/
def directWellFormed (workers : Nat) : List (Nat × Nat) → List (Nat × Nat) → List Nat → List DOp → Bool
  | _, _, _, [] => true
  | running, queued, used, op :: ops =>
    match op with
    | .submit g v =>
      decide (v ≥ 1) && !used.contains v &&
      (if running.length < workers then directWellFormed workers (running ++ [(g, v)]) queued (v :: used) ops
       else directWellFormed workers running (queued ++ [(g, v)]) (v :: used) ops)
    | .finish g v =>
      running.contains (g, v) &&
      (match queued with
       | [] => directWellFormed workers (running.erase (g, v)) [] used ops
       | q :: qs => directWellFormed workers (running.erase (g, v) ++ [q]) qs used ops)
    | _ => directWellFormed workers running queued used ops

def handleDirect (input impl : Json) : R Reply := do
  let workers ← natF input "workers"
  let ops ← listOf dopOf (fieldD input "ops" .null)
  if !directWellFormed workers [] [] [] ops || workers == 0 then
    return { agree := true, specModel := true, specImpl := true, nontrivial := false,
             tags := ["via:direct", "direct:ill-formed-history-skipped"], key := "direct/ill-formed" }
  let outs ← listOf doutOf (fieldD impl "outs" .null)
  let crashed := (← boolF impl "crashed") || (fieldD impl "panic" (.str "")) != .str ""
  let leaked ← natF impl "leaked"
  let want := drun workers {} ops
  let si := directSpec workers ops outs && !crashed && leaked == 0
  let sm := directSpec workers ops want
  let agree := want == outs && !crashed && leaked == 0
  let groups := (ops.filterMap fun o => match o with
    | .submit g _ => some g | .watch g => some g | _ => none).eraseDups
  let longest : Nat := (outs.map fun o => match o with
    | .vals l => l.length | _ => 0).foldl max 0
  let tags := (directTags workers {} ops).eraseDups ++
    (if groups.length > 64 then ["direct:groups>64"] else []) ++
    (if longest > 256 then ["direct:results-in-one-call>256"] else [])
  pure { agree := agree, specModel := sm, specImpl := si,
         diff := if agree then "" else if crashed then "the run crashed" else if leaked != 0 then s!"{leaked} goroutines left after Stop"
                 else firstDiff ops want outs,
         fail := if si then "" else if crashed then "the run crashed" else if leaked != 0 then "goroutines left after Stop"
                 else directExplain workers ops outs,
         nontrivial := decide (ops.length ≥ 2),
         tags := ["via:direct", "exact-compare"] ++ tags,
         key := s!"direct/w{workers}/{ops.map showDOp}" }

def handle (input impl : Json) : R Reply := do
  if fieldD input "via" (.str "") == .str "direct" then return ← handleDirect input impl
  let workers ← natF input "workers"
  let jobs ← listF asNat input "jobs"
  let k ← natF input "k"
  let mode ← strF input "mode"
  let kind ← strF input "jobKind"
  let salt ← natF input "salt"
  -- a DEADLINE on a caller's ctx is a cancellation the run brings about itself; a job function (or the
  -- result callback) that calls Stop() is a Stop the run brings about itself
  let deadlines ← listOf asNat (fieldD input "deadlineMs" .null)
  let stopJobs ← listOf (listOf asNat) (fieldD input "stopJobs" .null)
  let selfCancel := deadlines.any (· > 0)
  let selfStop := stopJobs.any (!·.isEmpty)
  let quiet := (mode == "none" || mode == "stop-after" || mode == "cancel-after") && !selfCancel && !selfStop
  let noStop := (mode == "none" || mode == "stop-after" || mode == "cancel-after" || mode == "cancel" ||
    mode == "cancel-before") && !selfStop
  let cs : Case := { workers := workers, quiet := quiet, noStop := noStop }
  let crashed := (← boolF impl "crashed") || (fieldD impl "panic" (.str "")) != .str ""
  let callersJ ← asList (fieldD impl "callers" .null)
  if callersJ.length ≠ jobs.length && !crashed then throw "impl.callers does not match input.jobs"
  let callers ← if callersJ.length ≠ jobs.length then pure [] else (callersJ.zip jobs).mapM fun (j, n) => callerObs n j
  let got : Obs := { callers := callers, maxConc := ← natF impl "maxConc", leaked := ← natF impl "leaked", crashed := crashed }
  -- job indices (per caller) whose job function panics; the other job kinds (yield, hold: released by
  -- the harness whenever everything is blocked) only shape the real schedule
  let panicAt ← listOf (listOf asNat) (fieldD input "panicAt" .null)
  let cfg : Cfg := { fixed := true, maxWorkers := workers, ncallers := jobs.length,
                     jobs := fun g => jobs.getD g 0, blocking := fun _ => kind == "block",
                     panics := fun j => (panicAt.getD j.grp []).contains j.idx }
  let total := jobs.foldl (· + ·) 0
  -- the model is run on every case of moderate size (a run costs ~30 scheduler steps per job, and the
  -- scheduler looks at every caller's labels in every step); VOLUME cases beyond that (crowds of callers,
  -- thousands of jobs) are judged by the black-box clauses `spec` alone
  let runModel := decide (total ≤ 400) && decide (jobs.length ≤ 16)
  let want := if runModel then modelRun cfg mode k salt else got
  let deterministic := quiet || mode == "stop-before" || mode == "cancel-before"
  let proj (o : Obs) := (o.callers.map fun c => (c.returned, c.delivered.length, c.anon, c.started.length,
    c.panicked.mergeSort, c.errDelivered.mergeSort), o.leaked)
  let si := spec cs got
  let sm := !runModel || spec cs want
  let agree := if deterministic && runModel then proj got == proj want && decide (got.maxConc ≤ workers) else si
  -- exact trace validation (cases recorded with the instrumentation hooks)
  let evs ← listOf evOf (fieldD impl "events" .null)
  let traced := !evs.isEmpty
  let tcfg : Cfg := { cfg with blocking := fun _ => false }
  let tv : TraceVerdict := if traced then checkTrace tcfg evs.toArray else { ok := true }
  -- the state the accepted trace leads to must show what the harness observed from outside
  let traceObs : String :=
    match tv.final with
    | none => ""
    | some s =>
      let m := observe tcfg s 0
      let pm := (m.callers.map fun c => (c.total, c.started.length, c.anon), m.leaked)
      let pg := (got.callers.map fun c => (c.total, c.started.length, c.anon), got.leaked)
      if pm == pg then "" else s!"state after the trace {pm} differs from the observation {pg}"
  -- a search that ran out of budget decides nothing (the order is only PROPOSED by the search; real goroutine
  -- interleavings differ from run to run and a rare log needs a long search): such a trace is counted, not judged
  let traceGood := (tv.ok && traceObs == "") || tv.inconclusive
  let agree := agree && traceGood
  let stuck := got.callers.any (fun c => !c.returned)
  let tags :=
    [s!"mode:{mode}", s!"kind:{kind}"] ++
    (if runModel then ["model-run"] else ["model-skipped-large"]) ++
    (if deterministic then ["exact-compare"] else ["envelope-compare"]) ++
    (if stuck then ["stuck"] else []) ++
    (if selfCancel then ["ctx-deadline"] else []) ++
    (if selfStop then ["stop-from-inside"] else []) ++
    (match fieldD input "via" (.str "") with
     | .str "" => []
     | .str v => [s!"via:{v}"] ++ (if decide (got.maxConc = workers) then ["runner-workers-saturated"] else [])
     | _ => []) ++
    (if traced then [if tv.inconclusive then "trace-search-inconclusive" else if traceGood then "trace-accepted" else "trace-rejected"] else []) ++
    (if traced && tv.backtracks > 0 then ["trace-reordered-with-backtracking"] else []) ++
    (if traced && tv.nodes > 20 * evs.length then ["trace-search-heavy"] else []) ++
    (if got.callers.any (fun c => decide (c.anon > 0)) then ["skipped-results"] else []) ++
    (if got.callers.any (fun c => !c.panicked.isEmpty) then ["job-panicked"] else []) ++
    (if got.callers.any (fun c => !c.panicked.isEmpty) && decide (got.maxConc = workers) then ["panic-then-saturated"] else []) ++
    (if got.callers.any (fun c => decide (0 < c.total) && decide (c.total < c.jobs)) then ["partial-acceptance"] else []) ++
    (if got.callers.all (fun c => decide (c.total = c.jobs)) then ["all-accepted"] else []) ++
    (if got.callers.any (fun c => decide (c.total = 0) && decide (0 < c.jobs)) then ["none-accepted"] else []) ++
    (if decide (got.maxConc = workers) then ["workers-saturated"] else [])
  pure { agree := agree, specModel := sm, specImpl := si,
         diff := if agree then "" else if !traceGood then s!"trace: {tv.msg}{traceObs}"
                 else s!"model={summary want} impl={summary got}",
         fail := if si then "" else explain cs got,
         nontrivial := decide (total ≥ 2) && mode != "none",
         tags := tags,
         key := s!"w{workers}/j{jobs}/k{k}/{mode}/{kind}/{proj got}" ++ (if traced then s!"/trace:{evs.length}ev/{tv.nodes}nodes" else "") }

end AutoVerif.C14
