import AutoVerif.Drv.Round
import AutoVerif.Spec.C05
open Lean AutoVerif.Codec
namespace AutoVerif.C05
open AutoVerif.Outcome AutoVerif.Round

def handle (input impl : Json) : R Reply := do
  let rd ← decode input
  let want := modelOutcome rd
  let os := validObs rd.ctx limits rd.obs
  let err := (fieldD impl "err" (.str "")).getStr?.toOption.getD ""
  match fieldD impl "outcome" .null with
  | .null => pure (refusedReply rd err)
  | oj =>
    let got ← outcome oj
    if acceptedBadPrev rd then
      -- a broken correspondence, not by itself a failing input of this property (its statement speaks of valid inputs)
      return { agree := false, specModel := true, specImpl := true,
               diff := s!"the previous outcome ({rd.prevMode}) does not decode and validate, yet Outcome returned {showOutcome got}",
               fail := "",
               nontrivial := true, tags := ["accepted-bad-prev:" ++ rd.prevMode] }
    let agree := decide (got.surfaced = want.surfaced)
    -- the spec is evaluated with the implementation's own agreed performables (C01 judges those)
    let si := spec rd.ctx limits rd.prev os got.agreed got.surfaced
    let sm := spec rd.ctx limits rd.prev os want.agreed want.surfaced
    let q := quorumBlocks (rd.ctx.F + 1) os
    let tags := roundTags rd want ++
      (if q.isEmpty then ["no-quorum-block"] else ["quorum-block"]) ++
      (if decide (q.length > 1) then ["several-quorum-blocks"] else []) ++
      (if q.any (fun b => q.any (fun c => decide (b.number = c.number) && b.hash != c.hash)) then ["quorum-fork"] else []) ++
      (if q.any (fun b => b.hash == zeroHash) then ["zero-hash-quorum"] else []) ++
      (if (carryOver want.agreed rd.prev.surfaced) != rd.prev.surfaced then ["performed-removed-from-history"] else []) ++
      (match want.surfaced with | l :: _ => (if l.isEmpty then [] else ["new-proposals"]) | [] => [])
    pure { agree := agree, specModel := sm, specImpl := si,
           diff := if agree then "" else s!"model: {showOutcome want} impl: {showOutcome got}",
           fail := if si then "" else explain rd.ctx limits rd.prev os got.agreed got.surfaced,
           nontrivial := decide ((os.flatMap (·.proposals)).length + rd.prev.surfaced.flatten.length ≥ 2), tags := tags }

end AutoVerif.C05
