import AutoVerif.Drv.Round
import AutoVerif.Spec.C08
/-
Driver for C08 cases (harness/c08_test.go).  `input.x` is what the harness fed to the two plugin instances and what
should therefore be staged / in flight / proposed / known as block history; `impl.nodes[i]` is the observation each
instance returned (decoded with goccy/go-json) together with `len(bytes)` and the length of the same observation
re-encoded with `Performable = nil`.
-/
open Lean AutoVerif.Codec
namespace AutoVerif.C08
open AutoVerif.Outcome AutoVerif.Round

/-- per-result encoded length assumed for the on-chain cap of 10 000 bytes of perform data (`observation_fits_onchain_cap`) -/
def lmaxOnchain : Nat := 14500
def bmaxOnchain : Nat := 900000

structure NodeIn where
  view : NodeView
  inflightIds : List String
  readd : List Proposal   -- added by a flow while Observation ran: after the pre-build hooks, before the views
  histAlt : Option (List BlockKey)  -- a second view the store held during the call (an update arrived while Observation ran)

structure NodeOut where
  obs : Observation
  len : Nat
  base : Nat

/-- what identifies ONE check result for the purpose of its encoded length: every field the encoding depends on.  (A unit of
work — a work id — can be in the pool in several versions: the first check and re-checks on higher blocks.) -/
def lenKey (r : CheckResult) : String :=
  s!"{r.workID}@{r.trigger.blockNumber}/{r.trigger.blockHash}/{r.gas}/{r.fastGasWei}/{r.linkNative}/{r.performData}"

structure Case where
  ctx : Ctx
  seq : Nat
  prev : Option Outcome
  lenOf : Std.HashMap String Nat
  nodes : List NodeIn
  outs : List (Option NodeOut)
  errs : List String
  evalErrs : List String   -- the instance evaluated Outcome / Reports on the round's inputs after observing, and that failed

def decodeCase (input impl : Json) : R Case := do
  let x ← field input "x"
  let aux ← field x "aux"
  let keyM ← strMap (fieldD aux "key" .null)
  let utgM ← natMap (fieldD aux "utg" .null)
  let poolJ ← listF (fun j => pure j) x "pool"
  let mut pool : Array CheckResult := #[]
  let mut lenOf : Std.HashMap String Nat := {}
  for pj in poolJ do
    let r ← checkResult pj
    pool := pool.push r
    lenOf := lenOf.insert (lenKey r) (← natF pj "len")
  let nodesJ ← listF (fun j => pure j) x "nodes"
  let mut nodes : List NodeIn := []
  for nj in nodesJ do
    let idx ← listF asNat nj "staged"
    let staged := idx.filterMap (fun i => pool[i]?)
    let v : NodeView :=
      { staged := staged, logProps := ← listF proposal nj "log", condProps := ← listF proposal nj "cond",
        hist := ← listF blockKey nj "hist" }
    nodes := nodes ++ [{ view := v, inflightIds := ← listF asStr nj "inflight",
                         readd := ← listOf proposal (fieldD nj "readd" .null),
                         histAlt := ← optOf (listOf blockKey) (fieldD nj "histAlt" .null) }]
  let prev ← match fieldD x "prev" .null with
    | .null => pure none
    | j => some <$> outcome j
  let outsJ ← listF (fun j => pure j) impl "nodes"
  let mut outs : List (Option NodeOut) := []
  let mut errs : List String := []
  let mut evalErrs : List String := []
  for oj in outsJ do
    let err := (fieldD oj "err" (.str "")).getStr?.toOption.getD ""
    errs := errs ++ [err]
    evalErrs := evalErrs ++ [(fieldD oj "evalErr" (.str "")).getStr?.toOption.getD ""]
    match fieldD oj "obs" .null with
    | .null => outs := outs ++ [none]
    | ob => outs := outs ++ [some { obs := ← observation ob, len := ← natF oj "len", base := ← natF oj "base" }]
  let ctx : Ctx :=
    { F := ← natF x "f"
      utg := fun u => match utgM.get? u with | some t => utypeOf t | none => .other
      wg := fun _ _ => ""
      key := fun w => (keyM.get? w).getD w
      uid := fun r => r.workID }
  pure { ctx := ctx, seq := ← natF x "seq", prev := prev, lenOf := lenOf, nodes := nodes, outs := outs, errs := errs,
         evalErrs := evalErrs }

def inflightOf (ids : List String) : CheckResult → Bool :=
  let s : Std.HashSet String := ids.foldl (fun s w => s.insert w) {}
  fun r => s.contains r.workID

def inflightPOf (ids : List String) : Proposal → Bool :=
  let s : Std.HashSet String := ids.foldl (fun s w => s.insert w) {}
  fun p => s.contains p.workID

def showObs (o : Observation) : String :=
  s!"perf={o.performable.map (fun r => (r.workID.take 6).toString)} props={o.proposals.map (fun p => (p.workID.take 6).toString)} hist={o.blockHistory.length}"

structure NodeVerdict where
  agree : Bool
  specModel : Bool
  specImpl : Bool
  diff : String
  fail : String
  tags : List String
  staged : List CheckResult
  inflight : CheckResult → Bool
  trimmed : Bool
  withinCap : Bool

def judgeNode (c : Case) (ni : NodeIn) (out : NodeOut) : NodeVerdict :=
  let maxLen := Gen.maxObservationLength
  let v0 := match c.prev with | some p => preBuild c.ctx p ni.view | none => ni.view
  -- "the block history of an observation is ONE view the store held during the call": when an update arrived during the
  -- call, the view the observation was built from is whichever of the two it matches (none: the first, and Ω fails)
  let histUsed := match ni.histAlt with
    | some h => if decide (out.obs.blockHistory = h.take limits.obsBlockHistory) then h else v0.hist
    | none => v0.hist
  let v : NodeView :=
    { v0 with hist := histUsed, logProps := v0.logProps ++ ni.readd.filter (fun p => c.ctx.utg p.upkeepID = .log)
              condProps := v0.condProps ++ ni.readd.filter (fun p => c.ctx.utg p.upkeepID = .condition) }
  let inflight := inflightOf ni.inflightIds
  let inflightP := inflightPOf ni.inflightIds
  let si : SizeInfo := { base := out.base, encLen := fun r => (c.lenOf.get? (lenKey r)).getD 0 }
  let lc := out.obs.proposals.filter (fun p => c.ctx.utg p.upkeepID = .log)
  let cc := out.obs.proposals.filter (fun p => c.ctx.utg p.upkeepID = .condition)
  let want := observationOf c.ctx limits maxLen v.staged inflight lc cc v.hist si
  let canon := canonical c.ctx v.staged inflight
  let full := min limits.obsPerformables canon.length
  let wantLen := sizeOf si canon want.performable.length
  let availLog := available v.logProps inflightP
  let availCond := available v.condProps inflightP
  let agree := decide (want = out.obs) && decide (wantLen = out.len)
  let withinCap := canon.all (fun r => decide (si.encLen r ≤ lmaxOnchain)) && decide (si.base ≤ bmaxOnchain)
  let stuck := decide (1 ≤ want.performable.length) && stuckAt maxLen si.base (sizeOf si canon) want.performable.length
  let sm := spec c.ctx limits maxLen v.staged inflight availLog availCond v.hist si want wantLen
  let si' := spec c.ctx limits maxLen v.staged inflight availLog availCond v.hist si out.obs out.len
  -- beyond the on-chain cap the `limit <= 0` exit is reachable; such cases are outside the property's quantifier
  let excused := !withinCap && stuck
  let trimmed := decide (sizeOf si canon full > maxLen)
  let tags :=
    (if trimmed then ["byte-limit-trim"] else []) ++
    (if decide (canon.length > limits.obsPerformables) then ["cap-100"] else []) ++
    (if decide (canon.length = limits.obsPerformables) then ["exactly-100"] else []) ++
    (if decide (canon.length < v.staged.length) then ["inflight-filtered"] else []) ++
    (if decide (v.staged.length < ni.view.staged.length) then ["prev-agreed-removed"] else []) ++
    (if decide (v0.logProps.length + v0.condProps.length < ni.view.logProps.length + ni.view.condProps.length) then ["prev-surfaced-removed"] else []) ++
    (if !ni.readd.isEmpty then ["proposal-readded-during-observation"] else []) ++
    (if ni.histAlt.isSome then ["history-update-during-observation"] else []) ++
    (if decide (availLog.length > limits.obsLogProposals) then ["log-proposals-capped"] else []) ++
    (if decide (availCond.length > limits.obsCondProposals) then ["cond-proposals-capped"] else []) ++
    (if decide (availLog.length < v.logProps.length) || decide (availCond.length < v.condProps.length) then ["proposal-inflight-filtered"] else []) ++
    (if decide (v.hist.length > limits.obsBlockHistory) then ["history-capped"] else []) ++
    (if !withinCap then ["beyond-onchain-cap"] else []) ++
    (if stuck then ["limit<=0-exit"] else []) ++
    (if canon.isEmpty then ["no-candidates"] else [])
  { agree := agree, specModel := sm || excused, specImpl := si' || (excused && agree),
    diff := if agree then "" else s!"model: {showObs want} len={wantLen} impl: {showObs out.obs} len={out.len}",
    fail := if si' || (excused && agree) then "" else
      explain c.ctx limits maxLen v.staged inflight availLog availCond v.hist si out.obs out.len,
    tags := tags, staged := v.staged, inflight := inflight, trimmed := trimmed, withinCap := withinCap }

def handle (input impl : Json) : R Reply := do
  let c ← decodeCase input impl
  let mut agree := true
  let mut sm := true
  let mut si := true
  let mut diff := ""
  let mut fail := ""
  let mut tags : List String := []
  let mut vs : List (NodeVerdict × NodeOut) := []
  for (ni, (out, err)) in c.nodes.zip (c.outs.zip c.errs) do
    match out with
    | none =>
      agree := false; si := false
      diff := s!"Observation failed: {err}"
      fail := s!"Observation returned an error: {err}"
    | some o =>
      let v := judgeNode c ni o
      agree := agree && v.agree
      sm := sm && v.specModel
      si := si && v.specImpl
      if diff.isEmpty then diff := v.diff
      if fail.isEmpty then fail := v.fail
      tags := tags ++ v.tags.filter (fun t => !tags.contains t)
      vs := vs ++ [(v, o)]
  -- the pair: same candidates ⇒ same list (up to a byte-limit cut with different base lengths)
  match vs with
  | [(va, oa), (vb, ob)] =>
    let pok := pairOk c.ctx va.staged vb.staged va.inflight vb.inflight oa.base ob.base va.trimmed vb.trimmed oa.obs ob.obs
    let ca := canonical c.ctx va.staged va.inflight
    let cb := canonical c.ctx vb.staged vb.inflight
    let same := ca.all (cb.contains ·) && cb.all (ca.contains ·)
    tags := tags ++ (if same then ["same-candidates"] else ["different-candidates"]) ++
      (if same && decide (va.staged ≠ vb.staged) then ["different-insertion-order"] else []) ++
      (if same && decide (oa.base ≠ ob.base) then ["base-differs"] else [])
    if !pok then
      si := false
      if fail.isEmpty then
        fail := "two nodes holding the same candidates sent different performable lists"
  | _ => pure ()
  for (e, i) in c.evalErrs.zipIdx do
    if !e.isEmpty then
      si := false
      if fail.isEmpty then fail := s!"instance {i}, after its observation: {e}"
  let info ← natMap (fieldD (← field input "x") "info" .null)
  let infoTag (k tag : String) : List String := if (info.get? k).getD 0 > 0 then [tag] else []
  tags := tags ++ (if c.seq % 10 == 9 || c.seq % 10 == 0 then ["seq-at-/10-boundary"] else []) ++
    (if c.prev.isSome then ["has-prev"] else []) ++
    infoTag "expired" "expired-results-fed" ++ infoTag "old-but-live" "old-results-still-live" ++
    infoTag "withheld" "payloads-withheld-by-coordinator" ++ infoTag "bad" "ineligible-or-failed-results-fed" ++
    infoTag "proposal-expired" "expired-proposals-fed" ++
    infoTag "empty-round-at-window-start" "script:empty-round-at-window-start" ++
    infoTag "same-work-candidates-again" "script:same-work-candidates-again" ++
    infoTag "same-head-reorg" "script:same-head-reorg" ++ infoTag "tail-corrected" "script:history-tail-corrected" ++
    infoTag "restaged-on-newer-block" "script:restaged-on-newer-check-block" ++
    infoTag "older-check-ignored" "script:older-check-arrives-late" ++
    infoTag "recheck-bytes-grown" "script:re-check-encodes-longer-than-the-replaced-result" ++
    infoTag "recheck-bytes-shrunk" "script:re-check-encodes-shorter-than-the-replaced-result" ++
    infoTag "rerun-on-same-previous-outcome" "script:round-run-again-on-the-same-previous-outcome" ++
    infoTag "at-ttl-boundary" "script:observation-at-ttl-boundary" ++
    infoTag "history-burst" "script:history-views-queued-back-to-back" ++
    infoTag "surfaced-result-in-flight-on-one-node" "script:surfaced-result-in-flight-on-one-node" ++
    (if c.evalErrs.any (fun e => !e.isEmpty) then ["evaluation-after-observation-failed"] else []) ++
    infoTag "staged-at-a-collector-tick" "script:staged-at-a-collector-tick" ++
    infoTag "proposal-reproposed-after-expiry" "proposal-reproposed-after-expiry" ++
    (if c.nodes.any (fun n => n.view.staged.any (fun r => decide (r.workID.length > 64))) then ["work-ids-longer-than-64"] else []) ++
    (if c.nodes.any (fun n => n.view.staged.any (fun r => c.ctx.utg r.upkeepID == .other)) then ["third-upkeep-type-staged"] else []) ++
    (if (info.get? "distinct-ids-in-window").getD 0 > 16384 then ["script:>2^14-work-ids-in-one-window"] else [])
  let nontrivial := c.nodes.any (fun n => decide (n.view.staged.length ≥ 2))
  pure { agree := agree, specModel := sm, specImpl := si, diff := diff, fail := fail,
         nontrivial := nontrivial, tags := tags }

end AutoVerif.C08
