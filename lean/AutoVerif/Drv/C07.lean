import AutoVerif.Drv.C06
/-
Driver for C07: same replay engine as C06 (Drv/C06.lean); the oracle is
"each filter output = Spec filter of its input w.r.t. the history".

Flow cases (`kind = "flow"`): a plugin built by the public factory accepted a
report for `w` (and possibly polled an event for it); `w` is then offered again
through one path (log provider, recoverable provider, surfaced proposals of the
previous outcome, conditional sampler, retry queue) or was staged / proposed
before the acceptance.  The model says whether `w` may be processed / proposed in
that situation; the implementation's check-pipeline call log and next
observation must agree, and Ω demands that withheld work appears in neither.
-/
open Lean AutoVerif.Codec
namespace AutoVerif.C07
open AutoVerif.C06

def flowReply (input impl : Json) : R Reply := do
  let path ← strF input "path"
  let ty ← natF input "type"
  let phase ← strF input "phase"
  let cfg ← cfgOf (← field input "cfg")
  let b ← natF input "b"
  let tb ← natF input "tb"
  let ety ← natF input "ety"
  let cb ← natF input "cb"
  -- shape of the report that put `w` in flight.  A report is the sequential composition of
  -- `Accept` over its upkeeps (Props/C06 `report_any_of_accept`) and the other upkeeps have
  -- other work ids, so for `w` the history is the same whatever the shape.
  let rn ← asNat (fieldD input "n" (.num 1))
  let rpos ← asNat (fieldD input "pos" (.num 0))
  let firstRefused := match fieldD input "firstRefused" .null with | .bool b => b | _ => false
  let utype : String → UpkeepType := fun _ => utypeOfNat ty
  let ev (t : Nat) : Event := { workID := "w", txHash := "07", ttype := t, transmitBlock := tb, checkBlock := b, conf := cfg.minConf }
  let ops : List Op ← match phase with
    | "pending" => pure [Op.accept "w" b, .advance 1000000000]
    | "performed" => pure [Op.accept "w" b, .advance 1000000000, .poll [ev performEvent], .advance 1000000000]
    | "failed" => pure [Op.accept "w" b, .advance 1000000000, .poll [ev ety], .advance 1000000000]
    | "expired" => pure [Op.accept "w" b, .advance (cfg.window + 1000000)]
    | _ => throw s!"unknown phase {phase}"
  let sys := run cfg ops
  let mayProcess := specProcess utype cfg sys.log sys.st.now "w" "u" cb
  let mayPropose := specPropose utype cfg sys.log sys.st.now "w" "u"
  -- the model's own answers (theorems shouldProcess_eq_spec / proposalAllowed_eq_spec)
  let specM := (shouldProcess utype sys.st "w" "u" cb == mayProcess) && (proposalAllowed utype sys.st "w" "u" == mayPropose)
  let accepted ← boolF impl "accepted"
  let wChecked ← boolF impl "wChecked"
  let ctlChecked ← boolF impl "ctlChecked"
  let wResult ← boolF impl "wResult"
  let ctlResult ← boolF impl "ctlResult"
  let wProposal ← boolF impl "wProposal"
  let ctlProposal ← boolF impl "ctlProposal"
  let err := match fieldD impl "err" .null with | .str s => s | _ => ""
  let offered := path != "staged-result" && path != "staged-proposal"
  -- correspondence: the control work went through, and `w` did exactly when the model allows it
  let (agree, diff) :=
    if !err.isEmpty then (false, s!"harness error: {err}")
    else if !accepted then (false, "the report was not accepted")
    else if offered then
      if !ctlChecked then (false, s!"the {path} path did not deliver the control work to the check pipeline")
      else if wChecked != mayProcess then (false, s!"{path}: model process={mayProcess} impl checked={wChecked}")
      else (true, "")
    else if path == "staged-result" then
      if !ctlResult then (false, "the staged control result is not in the observation")
      else if wResult != mayProcess then (false, s!"staged result: model keep={mayProcess} impl in observation={wResult}")
      else (true, "")
    else
      if !ctlProposal then (false, "the control proposal is not in the observation")
      else if wProposal != mayPropose then (false, s!"staged proposal: model keep={mayPropose} impl in observation={wProposal}")
      else (true, "")
  let fail :=
    if !mayProcess && wChecked then s!"in-flight work reached the check pipeline through the {path} flow"
    else if !mayProcess && wResult then s!"in-flight work is a performable of the observation ({path})"
    else if !mayPropose && wProposal then s!"in-flight work is a proposal of the observation ({path})"
    -- "... or the lockout window has expired, the work is processed again": the release direction
    else if accepted && offered && ctlChecked && mayProcess && !wChecked then
      s!"released work (phase {phase}) did not reach the check pipeline through the {path} flow"
    else if accepted && path == "staged-result" && ctlResult && mayProcess && !wResult then
      s!"released work (phase {phase}) is missing from the observation's performables although its result is staged"
    else if accepted && path == "staged-proposal" && ctlProposal && mayPropose && !wProposal then
      s!"released work (phase {phase}) is missing from the observation's proposals"
    else ""
  pure { agree := agree, specModel := specM, specImpl := fail.isEmpty, diff := diff, fail := fail,
         nontrivial := (if offered then ctlChecked else ctlResult || ctlProposal),
         tags := [s!"flow:{path}", s!"flow:type={ty}", s!"flow:{phase}",
                  s!"flow:{if mayProcess then "released" else "withheld"}",
                  s!"flow:report-size={max rn 1}",
                  s!"flow:w-at={if rn ≤ 1 then "only" else if rpos = 0 then "first" else if rpos + 1 = rn then "last" else "middle"}"] ++
                 (if firstRefused then ["flow:first-upkeep-refused"] else []) ++
                 (match fieldD input "decoy" .null with | .null => [] | _ => ["flow:decoy-first"]),
         key := s!"flow/{path}/{ty}/{phase}/{b}/{tb}/{cb}/{cfg.minConf}/{cfg.window}/{rn}/{rpos}/{firstRefused}/{(fieldD input "decoy" .null).compress}" }

def handle (input impl : Json) : R Reply := do
  if let some k := isRace input then
    if k == "flow" then return ← flowReply input impl
    if k == "capacity" then return ← capacityReply input impl
    return ← raceReply k input impl
  let e ← replay true input impl
  pure { agree := e.agree, specModel := e.specM, specImpl := e.specI, diff := e.diff, fail := e.fail,
         nontrivial := decide (e.nKnownItems ≥ 1),
         tags := e.tags.reverse }

end AutoVerif.C07
