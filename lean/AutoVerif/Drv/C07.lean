import AutoVerif.Drv.C06
/-
Driver for C07: same replay engine as C06 (Drv/C06.lean); the oracle is
"each filter output = Spec filter of its input w.r.t. the history".
-/
open Lean AutoVerif.Codec
namespace AutoVerif.C07
open AutoVerif.C06

def handle (input impl : Json) : R Reply := do
  if let some k := isRace input then return ← raceReply k input impl
  let e ← replay true input impl
  pure { agree := e.agree, specModel := e.specM, specImpl := e.specI, diff := e.diff, fail := e.fail,
         nontrivial := decide (e.nKnownItems ≥ 1),
         tags := e.tags.reverse }

end AutoVerif.C07
