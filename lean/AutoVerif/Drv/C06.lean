import AutoVerif.Drv.Codec
import AutoVerif.Gen.Consts
import AutoVerif.Spec.C07
/-
Driver for C06 (and the replay engine shared with C07).

Input  = configuration + a timed script of harness operations (absolute virtual
         nanoseconds since the bubble started; the coordinator is created and
         started at 0, after a `restart` at that operation's time).
Impl   = the real coordinator's answer per operation + the polls its event
         provider observed (time, number of events returned).

The engine replays the script on the model.  Polls are *derived*: an instance
started at `S` polls at `S + k·cadence` (`cadence` regenerated from the code) and
sees the provider content set by the latest `events` operation; the derived poll
schedule is compared with the observed one.  The cache GC (every
`defaultCacheClean`) is replayed as `Op.gc`.

Oracle Ω: the Spec predicates are evaluated on a log that carries the
*implementation's* `Accept` answers and the model's event dispositions (which
the API does not expose).
-/
open Lean AutoVerif.Codec
namespace AutoVerif.C06

/-- compact item of a payload / result / proposal list -/
structure JItem where
  w   : String
  uid : String
  ty  : Nat      -- upkeep type byte as returned by the harness' type getter
  b   : Nat      -- trigger block number
  tag : Nat      -- identity of the item (position in the generated list)
deriving DecidableEq, Repr

inductive HOp where
  | accept (w : String) (b : Nat)
  | transmit (w : String) (b : Nat)
  | events (evs : List Event)
  | chain (evs : List Event) (look : Nat)   -- emitted on chain: returned by the next `look` polls, confirmations growing
  | perr (mode : String) (n : Nat)          -- the provider answers the next `n` polls with an error
  | restart
  | acceptReport (ups : List (String × Nat))
  | transmitReport (ups : List (String × Nat))
  | pre (items : List JItem)
  | results (items : List JItem)
  | proposals (items : List JItem)

structure TOp where
  t : Nat
  op : HOp

inductive Ans where
  | none
  | bool (b : Bool)
  | items (l : List (String × String × Nat × Nat))   -- (w, uid, b, tag)
  | bools (l : List Bool)      -- plugin level: answer for the whole report, then the twin's answer per upkeep

def eventOf (j : Json) : R Event := do
  pure { workID := ← strF j "w", txHash := ← strF j "tx", ttype := ← natF j "ty",
         transmitBlock := ← natF j "tb", checkBlock := ← natF j "cb", conf := ← intF j "conf" }

def upOf (j : Json) : R (String × Nat) := do pure (← strF j "w", ← natF j "b")

/-- ids of list items are indices into the case's dictionary `ids` -/
def idAt (ids : Array String) (j : Json) (ki ks : String) : R String := do
  match fieldD j ki .null with
  | .num n =>
    if n.exponent == 0 ∧ n.mantissa ≥ 0 then
      match ids[n.mantissa.toNat]? with
      | some s => pure s
      | none => throw s!"id index {n.mantissa} out of range"
    else strF j ks      -- -1: not in the dictionary, spelled out
  | _ => strF j ks

def itemOf (ids : Array String) (j : Json) : R JItem := do
  pure { w := ← idAt ids j "wi" "w", uid := ← idAt ids j "ui" "uid", ty := ← natF j "ty", b := ← natF j "b", tag := ← natF j "tag" }

def outItemOf (ids : Array String) (j : Json) : R (String × String × Nat × Nat) := do
  pure (← idAt ids j "wi" "w", ← idAt ids j "ui" "uid", ← natF j "b", ← natF j "tag")

def topOf (ids : Array String) (j : Json) : R TOp := do
  let at_ ← natF j "at"
  let k ← strF j "k"
  let op ← match k with
    | "accept" => pure (HOp.accept (← asStr (fieldD j "w" (.str ""))) (← natF j "b"))
    | "transmit" => pure (HOp.transmit (← asStr (fieldD j "w" (.str ""))) (← natF j "b"))
    | "events" => pure (HOp.events (← listOf eventOf (fieldD j "evs" .null)))
    | "chain" => pure (HOp.chain (← listOf eventOf (fieldD j "evs" .null)) (← asNat (fieldD j "look" (.num 1))))
    | "perr" => pure (HOp.perr (← asStr (fieldD j "mode" (.str "plain"))) (← asNat (fieldD j "look" (.num 1))))
    | "restart" => pure HOp.restart
    | "acceptReport" => pure (HOp.acceptReport (← listOf upOf (fieldD j "ups" .null)))
    | "transmitReport" => pure (HOp.transmitReport (← listOf upOf (fieldD j "ups" .null)))
    | "pre" => pure (HOp.pre (← listOf (itemOf ids) (fieldD j "items" .null)))
    | "results" => pure (HOp.results (← listOf (itemOf ids) (fieldD j "items" .null)))
    | "proposals" => pure (HOp.proposals (← listOf (itemOf ids) (fieldD j "items" .null)))
    | _ => throw s!"unknown op kind {k}"
  pure { t := at_, op := op }

def ansOf (ids : Array String) (j : Json) : R Ans :=
  match j with
  | .null => pure .none
  | .bool b => pure (.bool b)
  | .arr a =>
    match a.toList with
    | .bool _ :: _ => do pure (.bools (← listOf asBool j))
    | _ => do pure (.items (← listOf (outItemOf ids) j))
  | _ => throw s!"bad answer {j}"

def cfgOf (j : Json) : R Cfg := do
  pure { minConf := ← intF j "minConf", window := (← natF j "windowMs") * 1000000 }

def utypeOfNat : Nat → UpkeepType
  | 0 => .condition
  | 1 => .log
  | _ => .other

/-- the upkeep type getter of a case: table from all items of the script -/
def utypeTable (ops : List TOp) : List (String × Nat) :=
  ops.foldl (fun acc o => match o.op with
    | .pre is | .results is | .proposals is => is.foldl (fun a i => (i.uid, i.ty) :: a) acc
    | _ => acc) []

def utypeFn (tbl : List (String × Nat)) (uid : String) : UpkeepType :=
  match tbl.lookup uid with
  | some t => utypeOfNat t
  | none => .other

def itemPayload (i : JItem) : Payload :=
  { upkeepID := i.uid, trigger := { blockNumber := i.b, blockHash := toString i.tag, ext := none }, workID := i.w }
def itemResult (i : JItem) : CheckResult :=
  { (default : CheckResult) with upkeepID := i.uid, trigger := { blockNumber := i.b, blockHash := toString i.tag, ext := none }, workID := i.w }
def itemProposal (i : JItem) : Proposal :=
  { upkeepID := i.uid, trigger := { blockNumber := i.b, blockHash := toString i.tag, ext := none }, workID := i.w }
def itemKey (i : JItem) : String × String × Nat × Nat := (i.w, i.uid, i.b, i.tag)
def tagOfHash (h : String) : Nat := h.toNat?.getD 0
def payloadKey (p : Payload) : String × String × Nat × Nat := (p.workID, p.upkeepID, p.trigger.blockNumber, tagOfHash p.trigger.blockHash)
def resultKey (p : CheckResult) : String × String × Nat × Nat := (p.workID, p.upkeepID, p.trigger.blockNumber, tagOfHash p.trigger.blockHash)
def proposalKey (p : Proposal) : String × String × Nat × Nat := (p.workID, p.upkeepID, p.trigger.blockNumber, tagOfHash p.trigger.blockHash)

/-- engine state -/
structure Eng where
  sys      : Sys
  ilog     : List LogE            -- Ω log
  provider : List Event
  chain    : List (Event × Nat × Nat) := []   -- look-back content: (event, polls since emission, polls left)
  unknownVids : List String := []              -- events once skipped because no record existed
  start    : Nat                  -- start time of the running instance
  nextPoll : Nat
  polls    : List (Nat × Nat × String)  -- derived polls (time, #events, error kind), newest first
  errMode  : String := ""
  errLeft  : Nat := 0
  tags     : List String
  agree    : Bool := true
  specM    : Bool := true
  specI    : Bool := true
  diff     : String := ""
  fail     : String := ""
  nAcceptOk : Nat := 0
  nQueries  : Nat := 0
  nProcessed : Nat := 0
  nKnownItems : Nat := 0

def Eng.tag (e : Eng) (t : String) : Eng := if e.tags.contains t then e else { e with tags := t :: e.tags }

def Eng.noteDiff (e : Eng) (ok : Bool) (msg : String) : Eng :=
  if ok then e else { e with agree := false, diff := if e.diff.isEmpty then msg else e.diff }
def Eng.noteSpecM (e : Eng) (ok : Bool) : Eng := if ok then e else { e with specM := false }
def Eng.noteSpecI (e : Eng) (ok : Bool) (msg : String) : Eng :=
  if ok then e else { e with specI := false, fail := if e.fail.isEmpty then msg else e.fail }

def dispName : Disp → String
  | .lowConf => "lowConf" | .visited => "visited" | .unknown => "unknown"
  | .same => "same" | .newer => "newer" | .old => "old"

def advanceTo (cfg : Cfg) (sys : Sys) (t : Nat) : Sys := step cfg sys (.advance (t - sys.st.now))

/-- where a time lies relative to the end of a window that started at `t` -/
def boundaryTag (cfg : Cfg) (t now : Nat) : Option String :=
  if cfg.window = 0 then none
  else if now + 1 = t + cfg.window then some "boundary:-1ns"
  else if now = t + cfg.window then some "boundary:=0"
  else if now = t + cfg.window + 1 then some "boundary:+1ns"
  else none

/-- one derived poll of the running instance (plus the cache GC when it is due) -/
def pollOnce (cfg : Cfg) (e : Eng) : Eng :=
  let t := e.nextPoll
  if e.errLeft > 0 then
    -- `GetLatestEvents` fails: `checkEvents` returns before looking at anything, the run loop logs the
    -- error and re-arms its timer (only the service's own context ends the loop): nothing is processed
    -- at this tick, and the next tick comes one cadence later
    let sys1 := advanceTo cfg e.sys t
    let sys2 := if (t - e.start) % Gen.coordinatorCacheCleanNs = 0 then step cfg sys1 .gc else sys1
    ({ e with sys := sys2, nextPoll := t + Gen.coordinatorCadenceNs, polls := (t, 0, e.errMode) :: e.polls,
              errLeft := e.errLeft - 1 }.tag s!"provider-error:{e.errMode}")
  else
  let e := if e.errMode != "" then (e.tag s!"poll-after-provider-error:{e.errMode}") else e
  let content := e.provider ++ e.chain.map fun (ev, age, _) => { ev with conf := ev.conf + (age : Int) }
  let chain' := (e.chain.filter fun (_, _, left) => decide (left > 1)).map fun (ev, age, left) => (ev, age + 1, left - 1)
  let sys1 := advanceTo cfg e.sys t
  let sys2 := step cfg sys1 (.poll content)
  let newEntries := sys2.log.take (sys2.log.length - sys1.log.length)
  let sys3 := if (t - e.start) % Gen.coordinatorCacheCleanNs = 0 then step cfg sys2 .gc else sys2
  let e := { e with sys := sys3, ilog := newEntries ++ e.ilog, nextPoll := t + Gen.coordinatorCadenceNs,
                    polls := (t, content.length, "") :: e.polls, chain := chain' }
  let e := content.foldl (fun (e : Eng) ev =>
    match lastWrite ev.workID sys1.log with
    | some (_, tw) => (match boundaryTag cfg tw t with | some s => e.tag ("poll-" ++ s) | none => e)
    | none => e) e
  newEntries.reverse.foldl (fun e ent => match ent with
    | .event _ ev d =>
      let e := e.tag s!"disp:{dispName d}"
      let e := if d == .unknown && !e.unknownVids.contains (visitedID ev) then
          { e with unknownVids := visitedID ev :: e.unknownVids } else e
      let e := if d.processed && e.unknownVids.contains (visitedID ev) then
          e.tag (if d.updating then "early-event-processed-after-accept" else "early-event-old-after-accept") else e
      if d.processed then { e with nProcessed := e.nProcessed + 1 } else e
    | _ => e) e

/-- all polls strictly before `limit` -/
def pollTo (cfg : Cfg) (e : Eng) (limit : Nat) : Eng :=
  if e.nextPoll < limit then
    let n := (limit - 1 - e.nextPoll) / Gen.coordinatorCadenceNs + 1
    (List.range n).foldl (fun e _ => pollOnce cfg e) e
  else e

def Eng.tagBoundary (e : Eng) (cfg : Cfg) (w : String) : Eng :=
  match lastWrite w e.sys.log with
  | some (_, t) => match boundaryTag cfg t e.sys.st.now with
    | some s => e.tag s
    | none => e
  | none => e

def ansBool (a : Ans) : R Bool :=
  match a with
  | .bool b => pure b
  | _ => throw "expected a boolean answer"

def ansBools (a : Ans) (n : Nat) : R (Bool × List Bool) :=
  match a with
  | .bools (b :: singles) => if singles.length = n then pure (b, singles) else throw "wrong number of per-upkeep answers"
  | _ => throw "expected [whole, per-upkeep…] answers"

def ansItems (a : Ans) : R (List (String × String × Nat × Nat)) :=
  match a with
  | .items l => pure l
  | .none => pure []
  | _ => throw "expected a list answer"

def showKeys (l : List (String × String × Nat × Nat)) : String :=
  toString (l.map fun (_, _, _, tag) => tag)

/-- classify an accept for the input distribution -/
def acceptTag (cfg : Cfg) (sys : Sys) (w : String) (b : Nat) : String :=
  match lastWrite w sys.log with
  | none => "accept:first"
  | some (r, t) =>
    if !liveAt cfg t sys.st.now then "accept:after-expiry"
    else if r.checkBlock < b then (if r.pending then "accept:higher" else "accept:higher-after-event")
    else if r.checkBlock = b then (if r.pending then "accept:refused-equal" else "accept:refused-equal-after-event")
    else "accept:refused-lower"

def transmitTag (cfg : Cfg) (sys : Sys) (w : String) (b : Nat) : String :=
  match lastWrite w sys.log with
  | none => "transmit:never-accepted"
  | some (r, t) =>
    if !liveAt cfg t sys.st.now then "transmit:expired"
    else if b < r.checkBlock then "transmit:superseded"
    else if b = r.checkBlock then (if r.pending then "transmit:yes" else "transmit:confirmed")
    else "transmit:higher-than-awaited"

/-- execute one scripted operation (the engine is already at the operation's time) -/
def execOp (cfg : Cfg) (utype : String → UpkeepType) (checkC07 : Bool) (e : Eng) (i : Nat) (op : HOp) (ans : Ans) : R Eng := do
  let now := e.sys.st.now
  match op with
  | .accept w b =>
    let a ← ansBool ans
    let e := (e.tag (acceptTag cfg e.sys w b)).tagBoundary cfg w
    let m := (accept cfg e.sys.st w b).2
    let e := e.noteDiff (a == m) s!"op {i}: Accept({w.take 8},{b}) model={m} impl={a}"
    let e := e.noteSpecM (!m || acceptOk false cfg e.sys.log now w b)
    let e := if checkC07 then e else e.noteSpecI (!a || acceptOk false cfg e.ilog now w b) (explainAccept cfg e.ilog now w b)
    let sys' := stepAccept cfg e.sys w b
    pure { e with sys := sys', ilog := .accept now w b a :: e.ilog, nAcceptOk := e.nAcceptOk + (if m then 1 else 0) }
  | .transmit w b =>
    let a ← ansBool ans
    let e := (e.tag (transmitTag cfg e.sys w b)).tagBoundary cfg w
    let m := shouldTransmit e.sys.st w b
    let e := e.noteDiff (a == m) s!"op {i}: ShouldTransmit({w.take 8},{b}) model={m} impl={a}"
    let e := e.noteSpecM (!m || transmitOk cfg e.sys.log now w b)
    let e := if checkC07 then e else e.noteSpecI (!a || transmitOk cfg e.ilog now w b) (explainTransmit cfg e.ilog now w b)
    pure { e with nQueries := e.nQueries + 1 }
  | .events evs => pure { e with provider := evs }
  | .perr mode n => pure { e with errMode := mode, errLeft := n }
  | .chain evs look => pure { (e.tag "provider:look-back") with chain := e.chain ++ evs.map fun ev => (ev, 0, look) }
  | .restart =>
    let sys' := step cfg e.sys .restart
    pure { (e.tag "restart") with sys := sys', ilog := .restart :: e.ilog, start := now,
                                  nextPoll := now + Gen.coordinatorCadenceNs }
  | .acceptReport ups =>
    let (a, singles) ← ansBools ans ups.length
    -- model: Accept per upkeep in order; Ω log: the twin instance's per-upkeep answers
    let (sys', answers, okM, ilog', okI, failI) := (ups.zip singles).foldl
      (fun (acc : Sys × List Bool × Bool × List LogE × Bool × String) (us : (String × Nat) × Bool) =>
        let (sys, answers, okM, ilog, okI, failI) := acc
        let (u, ai) := us
        let m := (accept cfg sys.st u.1 u.2).2
        let okM' := !m || acceptOk false cfg sys.log sys.st.now u.1 u.2
        let okI' := !ai || acceptOk false cfg ilog now u.1 u.2
        (stepAccept cfg sys u.1 u.2, answers ++ [m], okM && okM', .accept now u.1 u.2 ai :: ilog, okI && okI',
          if okI' || !failI.isEmpty then failI else explainAccept cfg ilog now u.1 u.2))
      (e.sys, [], true, e.ilog, true, "")
    let m := (acceptReport cfg e.sys.st ups false).2
    let e := e.tag s!"report:accept:{ups.length}"
    let e := if answers.any id && answers.any (!·) then e.tag "report:accept:mixed" else e
    let e := if (ups.map (·.1)).eraseDups.length != ups.length then e.tag "report:repeated-work-id" else e
    let e := e.noteDiff (a == m && decide (singles = answers))
      s!"op {i}: ShouldAcceptAttestedReport model={m} per upkeep {answers} impl={a} per upkeep {singles}"
    let e := e.noteSpecM (okM && (m == answers.any id))
    let e := e.noteSpecI okI failI
    let e := e.noteSpecI (a == singles.any id)
      "report accepted as a whole although none of its upkeeps is (or refused although one is)"
    pure { e with sys := sys', ilog := ilog', nAcceptOk := e.nAcceptOk + (answers.filter id).length }
  | .transmitReport ups =>
    let (a, singles) ← ansBools ans ups.length
    let answers := ups.map fun u => shouldTransmit e.sys.st u.1 u.2
    let m := transmitReport e.sys.st ups false
    let e := e.tag s!"report:transmit:{ups.length}"
    let e := if answers.any id && answers.any (!·) then e.tag "report:transmit:mixed" else e
    let e := e.noteDiff (a == m && decide (singles = answers))
      s!"op {i}: ShouldTransmitAcceptedReport model={m} per upkeep {answers} impl={a} per upkeep {singles}"
    let e := e.noteSpecM (m == answers.any id && (ups.zip answers).all fun (u, x) => !x || transmitOk cfg e.sys.log now u.1 u.2)
    let e := (ups.zip singles).foldl (fun (e : Eng) (us : (String × Nat) × Bool) =>
      e.noteSpecI (!us.2 || transmitOk cfg e.ilog now us.1.1 us.1.2) (explainTransmit cfg e.ilog now us.1.1 us.1.2)) e
    let e := e.noteSpecI (a == singles.any id)
      "report transmitted as a whole although none of its upkeeps is (or withheld although one is)"
    pure { e with nQueries := e.nQueries + 1 }
  | .pre items | .results items | .proposals items =>
    let a ← ansItems ans
    let (kind, m) := match op with
      | .pre _ => ("PreProcess", (preProcess utype e.sys.st (items.map itemPayload)).map payloadKey)
      | .results _ => ("FilterResults", (filterResults utype e.sys.st (items.map itemResult)).map resultKey)
      | _ => ("FilterProposals", (filterProposals utype e.sys.st (items.map itemProposal)).map proposalKey)
    let isProp := match op with | .proposals _ => true | _ => false
    let specOf (log : List LogE) := (items.filter fun it =>
        if isProp then C07.specPropose utype cfg log now it.w it.uid
        else C07.specProcess utype cfg log now it.w it.uid it.b).map itemKey
    let e := e.noteDiff (decide (a = m)) s!"op {i}: {kind} model keeps {showKeys m} impl keeps {showKeys a}"
    let e := e.noteSpecM (decide (m = specOf e.sys.log))
    let e := if checkC07 then
        e.noteSpecI (decide (a = specOf e.ilog))
          (if a.all (fun k => (items.map itemKey).contains k) then
            s!"{kind}: output is not the filter of its input (an item that must be withheld was kept, a released one dropped, or order changed)"
           else s!"{kind}: output contains an item that was not in the input")
      else e
    -- branch coverage of the decision per item
    let e := items.foldl (fun (e : Eng) it =>
      let pfx := if isProp then "prop" else "proc"
      match known cfg e.sys.log now it.w with
      | none =>
        match lastWrite it.w e.sys.log with
        | some _ => e.tag s!"{pfx}:expired"
        | none => e.tag s!"{pfx}:unknown-work"
      | some r =>
        let e := { e with nKnownItems := e.nKnownItems + 1 }
        let e := match lastWrite it.w e.sys.log with
          | some (_, t) => (match boundaryTag cfg t now with | some s => e.tag s | none => e)
          | none => e
        if r.pending then e.tag s!"{pfx}:pending"
        else if r.ttype = performEvent then
          match utypeOfNat it.ty with
          | .log => e.tag s!"{pfx}:performed-log"
          | .condition =>
            if isProp then e.tag s!"{pfx}:performed-conditional"
            else if it.b + 1 = r.tblock then e.tag s!"{pfx}:performed-conditional:block-1"
            else if it.b = r.tblock then e.tag s!"{pfx}:performed-conditional:block=0"
            else if it.b < r.tblock then e.tag s!"{pfx}:performed-conditional:before"
            else e.tag s!"{pfx}:performed-conditional:after"
          | .other => e.tag s!"{pfx}:performed-other-type"
        else e.tag s!"{pfx}:failed-event:{r.ttype}") e
    -- shape of the withheld items: adjacent runs, first / last position, repeated work ids
    let keepFlags := items.map fun it =>
        if isProp then C07.specPropose utype cfg e.sys.log now it.w it.uid
        else C07.specProcess utype cfg e.sys.log now it.w it.uid it.b
    let adjacent := (keepFlags.zip keepFlags.tail).any fun (a, b) => !a && !b
    let e := if adjacent then e.tag s!"{kind}:adjacent-withheld" else e
    let e := if keepFlags.head? == some false then e.tag s!"{kind}:withheld-first" else e
    let e := if keepFlags.getLast? == some false then e.tag s!"{kind}:withheld-last" else e
    let e := if (items.map (·.w)).eraseDups.length != items.length then e.tag s!"{kind}:repeated-work-id" else e
    let e := e.tag s!"{kind}:n={if items.length = 0 then "0" else if items.length ≤ 10 then "1-10" else if items.length ≤ 50 then "11-50" else "51-200"}"
    pure { e with nQueries := e.nQueries + 1 }

/-- replay a whole case -/
def replay (checkC07 : Bool) (input impl : Json) : R Eng := do
  let cfg ← cfgOf (← field input "cfg")
  let ids := (← listOf asStr (fieldD input "ids" .null)).toArray
  let ops ← listF (topOf ids) input "ops"
  let endT ← natF input "end"
  let answers ← listF (ansOf ids) impl "ans"
  if answers.length ≠ ops.length then throw s!"{answers.length} answers for {ops.length} ops"
  let utype := utypeFn (utypeTable ops)
  -- plugin mode with a decoy: the instance under test is created at `t0` (nothing of the decoy carries over)
  let t0 ← asNat (fieldD input "t0" (.num 0))
  let e0 : Eng := { sys := advanceTo cfg Sys.init t0, ilog := [], provider := [], start := t0,
                    nextPoll := t0 + Gen.coordinatorCadenceNs, polls := [],
                    tags := (match fieldD input "decoy" .null with | .null => [] | _ => ["plugin:decoy-first"]) }
  let mut e := e0
  let mut i := 0
  for (o, a) in ops.zip answers do
    if o.t < e.sys.st.now then throw s!"op {i}: time goes backwards"
    e := pollTo cfg e o.t
    if e.nextPoll = o.t then throw s!"op {i}: scripted on the poll grid"
    e := { e with sys := advanceTo cfg e.sys o.t }
    e ← execOp cfg utype checkC07 e i o.op a
    i := i + 1
  e := pollTo cfg e endT
  -- derived poll schedule against the observed one
  let obs ← listF (fun j => do pure ((← natF j "at"), (← natF j "n"), (← asStr (fieldD j "err" (.str ""))))) impl "polls"
  let want := e.polls.reverse
  -- a running coordinator keeps polling: a failed poll is followed by the next tick's poll
  let stopped := obs.length < want.length && decide (obs = want.take obs.length) &&
    (match obs.getLast? with | some (_, _, err) => err != "" | none => false)
  e := e.noteSpecI (!stopped) "event polling stopped after a provider error although the coordinator is running (no poll at the next tick)"
  e := e.noteDiff (decide (obs = want)) s!"poll schedule: model {want.length} polls, impl {obs.length}; first difference at {(want.zip obs).find? (fun p => p.1 != p.2)}"
  pure e

/-- batch-race cases (harness/c06_lin_test.go): `Accept` threads racing the event loop while it
    works through ONE long provider answer, on a real started coordinator; the harness reports the
    distinct outcomes per unit of work.  Model side: the episode for one unit of work "w" — state
    after the setup acceptances (at 137 ms), thread 0 = the events of the answer that concern the
    unit of work in answer order (events of other, unknown upkeeps are skipped without effect
    wherever they stand, Props/C06 `unknown_events_skipped`; records of other work ids never
    disturb a record, `other_accepts_preserve`), the other threads = the `Accept` calls, all at the
    poll instant 1 s.  Oracle: `Spec.linOk` — every reported outcome must be the observation of
    SOME sequential order of these operations (Props/C06 `finished_is_linearization`,
    `finished_observation_allowed`; the lost update is rejected: `lost_update_not_linearizable`). -/
def batchRaceReply (input impl : Json) : R Reply := do
  let cfg ← cfgOf (← field input "cfg")
  let uty ← natF input "uty"
  let batch ← natF input "batch"
  let setup ← listF asNat input "setup"
  let threads ← listF (listOf asNat) input "threads"
  let evsRaw ← listF (fun j => do pure ((← natF j "at"), (← natF j "ty"), (← natF j "tb"), (← natF j "cb"), (← intF j "conf"))) input "events"
  let evsIdx := (List.range evsRaw.length).zip evsRaw
  let placed := evsIdx.mergeSort fun a b => decide (a.2.1 * batch / 1000 ≤ b.2.1 * batch / 1000)
  let evJobs : List Job := placed.map fun (i, _, ty, tb, cb, conf) =>
    Job.event { workID := "w", txHash := s!"ee{i}", ttype := ty, transmitBlock := tb, checkBlock := cb, conf := conf }
  let progs : List (List Job) := evJobs :: threads.map fun bs => bs.map (Job.accept "w")
  if totalJobs progs > 9 then throw s!"batch-race: {totalJobs progs} operations in one episode (at most 9 are enumerated)"
  let s1 : St := St.init 137000000
  let s2 := setup.foldl (fun s b => (accept cfg s "w" b).1) s1
  let s0 : St := { s2 with now := 1000000000 }
  let utype : String → UpkeepType := fun _ => utypeOfNat (uty % 2)
  let pr : Probes := { transmit := ← listF asNat input "probeT", process := ← listF asNat input "probeP",
                       reaccept := ← listF asNat input "probeA" }
  let allowed := (linOutcomes cfg utype s0 progs "w" "u" pr).eraseDups
  let seen ← listF (fun j => do
      let o ← field j "o"
      let obs : RaceObs := { answers := [] :: (← listF (listOf asBool) o "ans"), transmit := ← listF asBool o "t",
                             process := ← listF asBool o "p", reaccept := ← listF asBool o "a" }
      pure (obs, (← natF j "n"), (← natF j "first"))) impl "outcomes"
  let bad := seen.filter fun (o, _, _) => !(linOk cfg utype s0 progs "w" "u" pr o)
  let total := seen.foldl (fun a x => a + x.2.1) 0
  let nbad := bad.foldl (fun a x => a + x.2.1) 0
  let showB (l : List Bool) : String := String.join (l.map fun b => if b then "T" else "f")
  let showO (o : RaceObs) : String :=
    s!"Accept answers per thread {o.answers.tail.map showB}, ShouldTransmit(w, b) for b={pr.transmit}: {showB o.transmit}, " ++
    s!"ShouldProcess(w, b) for b={pr.process}: {showB o.process}, then Accept(w, b) for b={pr.reaccept}: {showB o.reaccept}"
  let ok := bad.isEmpty
  let diff := match bad with
    | [] => ""
    | (o, n, first) :: _ =>
      s!"batch-race: {nbad} of {total} units of work ended with an outcome outside the {allowed.length} sequential one(s); " ++
      s!"e.g. {n}× (first in trial {first}): {showO o}; sequential orders give: {allowed.map showO}"
  pure { agree := ok, specModel := true, specImpl := ok, diff := diff,
         fail := if ok then "" else "coordinator: Accept racing the processing of one batch of transmit events ended in a state / with answers that NO sequential order of the racing operations produces (lost update: a decision taken on a record read before the other operation's write was applied after it)",
         nontrivial := decide (totalJobs progs ≥ 2 ∧ total > 0),
         tags := ["batch-race", s!"lin:threads={threads.length}", s!"lin:events={evJobs.length}",
                  s!"lin:sequential-outcomes={min allowed.length 4}{if allowed.length > 4 then "+" else ""}",
                  (if allowed.length > 1 then "lin:operations-do-not-commute" else "lin:operations-commute")] }

/-- stress cases on the real `util.Cache` / coordinator: `ClearExpired` racing a `Set` of an
    expired key (model side: `gc_two_phase_refines` — a write between scan and delete is
    never lost), and `Accept` racing the event loop at the poll instant (model side:
    `atomic_refines` — with both bodies atomic every schedule equals a sequential order, and
    both sequential orders of the stress end in the same state).  Expected losses: 0. -/
def raceReply (kind : String) (input impl : Json) : R Reply := do
  if kind == "batch-race" then return ← batchRaceReply input impl
  let trials ← natF input "trials"
  let lost ← natF impl "lost"
  let ok := decide (lost = 0)
  let msg := if kind == "cache-race" then
      "cache: a fresh entry written during ClearExpired was deleted (scan/delete race)"
    else if kind == "cache-read-race" then
      "cache: a fresh entry written while a reader looked at the expired one was deleted (Get is not read-only)"
    else if kind == "coordinator-read-race" then
      "coordinator: a report accepted while ShouldTransmit / the filters read its expired record was forgotten (a read evicted the fresh record)"
    else if kind == "coordinator-poll-race" then
      "coordinator: an Accept issued while transmit events were processed was overwritten or overwrote the event's record (the event body's read and write are not atomic w.r.t. Accept)"
    else "coordinator: a report accepted while the cache GC ran was forgotten (scan/delete race)"
  pure { agree := ok, specModel := true, specImpl := ok,
         diff := if ok then "" else s!"{kind}: model loses 0 of {trials}, impl lost {lost}",
         fail := if ok then "" else msg,
         nontrivial := decide (trials > 0), tags := [kind], key := kind }

/-- volume case: many distinct work ids accepted inside one window, one poll whose answer is
    longer than any plausible batch bound with the relevant events at its end.  Model side: records
    of other work ids never disturb a record (`other_accepts_preserve`), events for unknown work ids
    are skipped without effect wherever they stand (`unknown_events_skipped`), and there is no bound
    anywhere in the model: all four counters are 0. -/
def capacityReply (input impl : Json) : R Reply := do
  let works ← natF input "works"
  let refused ← natF impl "refused"
  let notOffered ← natF impl "notOffered"
  let eventMissed ← natF impl "eventMissed"
  let notWithheld ← natF impl "notWithheld"
  let fail :=
    if refused > 0 then "capacity: Accept refused a work id it had never seen"
    else if notOffered > 0 then "capacity: an accepted, unconfirmed report inside its lockout window is no longer known (record evicted while live)"
    else if eventMissed > 0 then "capacity: a confirmed transmit event at the end of a long provider answer was not processed (batch cut off)"
    else if notWithheld > 0 then "capacity: in-flight work passed a filter (record evicted while live)"
    else ""
  pure { agree := fail.isEmpty, specModel := true, specImpl := fail.isEmpty,
         diff := if fail.isEmpty then "" else s!"capacity ({works} work ids): refused={refused} notOffered={notOffered} eventMissed={eventMissed} notWithheld={notWithheld}; model: all 0",
         fail := fail, nontrivial := decide (works > 0), tags := ["capacity"], key := "capacity" }

def isRace (input : Json) : Option String :=
  match fieldD input "kind" .null with
  | .str k => some k
  | _ => none

def handle (input impl : Json) : R Reply := do
  if let some k := isRace input then
    if k == "capacity" then return ← capacityReply input impl
    return ← raceReply k input impl
  let e ← replay false input impl
  pure { agree := e.agree, specModel := e.specM, specImpl := e.specI, diff := e.diff, fail := e.fail,
         nontrivial := decide (e.nAcceptOk ≥ 1 ∧ e.nQueries ≥ 1 ∧ e.nProcessed ≥ 1),
         tags := e.tags.reverse }

end AutoVerif.C06
