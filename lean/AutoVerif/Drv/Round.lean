import AutoVerif.Drv.Codec
import AutoVerif.Model.Outcome
import AutoVerif.Gen.Consts
import Std.Data.HashMap
/-
Decoding of a round case (`JRound` of harness/round_test.go) into the model's
`Ctx`, limits, previous outcome and attributed observations.
-/
open Lean AutoVerif.Codec
namespace AutoVerif.Round
open AutoVerif.Outcome

/-- the limits as regenerated from /repo -/
def limits : Limits :=
  { obsPerformables := Gen.observationPerformablesLimit
    obsLogProposals := Gen.observationLogRecoveryProposalsLimit
    obsCondProposals := Gen.observationConditionalsProposalsLimit
    obsBlockHistory := Gen.observationBlockHistoryLimit
    agreedLimit := Gen.outcomeAgreedPerformablesLimit
    perRound := Gen.outcomeSurfacedProposalsLimit
    roundHistory := Gen.outcomeSurfacedProposalsRoundHistoryLimit }

structure Round where
  ctx : Ctx
  n : Nat
  seq : Nat
  prev : Outcome
  hasPrev : Bool
  prevIn : PrevIn          -- the previous outcome as the byte slice `Outcome` receives (nil / empty / undecodable / decoded)
  prevMode : String
  obs : List (Option Observation)
  oracles : List Nat
  lens : List Nat := []    -- length in bytes of every attributed observation of the case (0 = not recorded)

def utypeOf (n : Nat) : UpkeepType := if n = 0 then .condition else if n = 1 then .log else .other

def strMap (j : Json) : R (Std.HashMap String String) := do
  match j with
  | .obj kvs => kvs.foldlM (init := {}) fun m k v => do pure (m.insert k (← asStr v))
  | .null => pure {}
  | _ => throw "expected object"

def natMap (j : Json) : R (Std.HashMap String Nat) := do
  match j with
  | .obj kvs => kvs.foldlM (init := {}) fun m k v => do pure (m.insert k (← asNat v))
  | .null => pure {}
  | _ => throw "expected object"

def decode (input : Json) : R Round := do
  let f ← natF input "f"
  let n ← natF input "n"
  let aux ← field input "aux"
  let keyM ← strMap (fieldD aux "key" .null)
  let utgM ← natMap (fieldD aux "utg" .null)
  let wgL ← listOf (fun j => do pure ((← strF j "uid", ← trigger (← field j "trig")), ← strF j "wid")) (fieldD aux "wg" .null)
  let obsJ ← listF (fun j => pure j) input "obs"
  let mut obs : List (Option Observation) := []
  let mut oracles : List Nat := []
  let mut uidT : List (CheckResult × String) := []
  let mut lens : List Nat := []
  for oj in obsJ do
    oracles := oracles ++ [← natF oj "oracle"]
    let len ← asNat (fieldD oj "len" (.num 0))
    lens := lens ++ [len]
    if ← boolF oj "ok" then
      let o ← observation (← field oj "o")
      let uids ← listOf asStr (fieldD oj "uids" .null)
      uidT := uidT ++ (o.performable.zip uids)
      obs := obs ++ [some o]
    else
      obs := obs ++ [none]
  let prevJ := fieldD input "prev" .null
  let prev ← match prevJ with
    | .null => pure ({ agreed := [], surfaced := [] } : Outcome)
    | j => outcome j
  let ctx : Ctx :=
    { F := f
      utg := fun u => match utgM.get? u with | some t => utypeOf t | none => .other
      wg := fun u t => match wgL.find? (fun e => e.1.1 == u && e.1.2 == t) with | some e => e.2 | none => "\x00unknown"
      key := fun w => (keyM.get? w).getD w
      uid := fun r => match uidT.find? (fun e => e.1 == r) with | some e => e.2 | none => "" }
  let prevMode := (fieldD input "prevMode" (.str "")).getStr?.toOption.getD ""
  let prevRaw := (fieldD input "prevRaw" (.str "")).getStr?.toOption.getD ""
  let prevIn : PrevIn :=
    if prevMode == "empty" then { nonNil := true, len := 0, decoded := none }
    else if prevMode == "garbage" then { nonNil := true, len := prevRaw.length / 2, decoded := none }
    else if prevJ == .null then { nonNil := false, len := 0, decoded := none }
    else { nonNil := true, len := 1, decoded := some prev }   -- an encoded outcome is never empty; only `len ≠ 0` matters
  pure { ctx := ctx, n := n, seq := ← natF input "seq", prev := prev, hasPrev := prevJ != .null, prevIn := prevIn,
         prevMode := prevMode,
         -- libocr's part of the contract (`Outcome.delivered`): a message longer than the advertised
         -- `MaxObservationLength` (the regenerated constant) is never handed to the plugin; one of exactly that length is
         obs := delivered Gen.maxObservationLength (lens.zip obs), oracles := oracles, lens := lens }

/-- the model's outcome for the round, with the canonical iteration orders -/
def modelOutcome (rd : Round) : Outcome :=
  let os := validObs rd.ctx limits rd.obs
  outcome rd.ctx limits rd.prev rd.obs (resKeys rd.ctx os) (blkKeys os)

/-- the model's answer to the `Outcome` call of the round (`none` = the call fails on its previous outcome) -/
def modelOutcomeCall (rd : Round) : Option Outcome :=
  let os := validObs rd.ctx limits rd.obs
  outcomeCall rd.ctx limits rd.prevIn rd.obs (resKeys rd.ctx os) (blkKeys os)

/-- reply for a round on which the implementation returned an error instead of an outcome -/
def refusedReply (rd : Round) (err : String) : Reply :=
  let refused := (modelOutcomeCall rd).isNone
  { agree := refused, specModel := true, specImpl := refused,
    diff := if refused then "" else s!"implementation error: {err}; the model computes an outcome",
    fail := if refused then "" else s!"Outcome failed: {err}",
    nontrivial := refused, tags := ["impl-error", "prev-refused:" ++ rd.prevMode] }

/-- the implementation returned an outcome although the previous outcome is one `Outcome` must refuse -/
def acceptedBadPrev (rd : Round) : Bool := (modelOutcomeCall rd).isNone

/-- the same with both iteration orders reversed (any permutation must give the same outcome) -/
def modelOutcomeRev (rd : Round) : Outcome :=
  let os := validObs rd.ctx limits rd.obs
  outcome rd.ctx limits rd.prev rd.obs (resKeys rd.ctx os).reverse (blkKeys os).reverse

def showProposal (p : Proposal) : String := s!"{p.workID.take 8}@{p.trigger.blockNumber}"
def showOutcome (o : Outcome) : String :=
  s!"agreed={o.agreed.map (fun r => (r.workID.take 8).toString ++ "@" ++ toString r.trigger.blockNumber)} surfaced={o.surfaced.map (·.map showProposal)}"

def roundTags (rd : Round) (o : Outcome) : List String :=
  let os := validObs rd.ctx limits rd.obs
  (if os.length < rd.obs.length then ["invalid-observation-skipped"] else []) ++
  (if rd.obs.any (·.isNone) then ["undecodable-observation"] else []) ++
  (if rd.lens.any (fun l => decide (l = Gen.maxObservationLength)) then ["observation-length=max"] else []) ++
  (if rd.lens.any (fun l => decide (l + 1 = Gen.maxObservationLength)) then ["observation-length=max-1"] else []) ++
  (if rd.lens.any (fun l => decide (l > Gen.maxObservationLength)) then ["observation-over-length-not-delivered"] else []) ++
  (if o.agreed.length ≥ limits.agreedLimit then ["agreed-capped"] else []) ++
  (if !o.agreed.isEmpty then ["agreed-nonempty"] else []) ++
  (if rd.hasPrev then ["has-prev"] else []) ++
  (if o.surfaced.length ≥ limits.roundHistory then ["history-full"] else []) ++
  (if o.surfaced.any (fun r => r.length ≥ limits.perRound) then ["round-capped"] else [])

end AutoVerif.Round
