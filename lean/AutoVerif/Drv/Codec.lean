import Lean.Data.Json
import AutoVerif.Model.Types
/-
JSON codecs for the line protocol between the Go harness and the driver.
Not part of any theorem; part of the trusted correspondence machinery.
-/
open Lean
namespace AutoVerif.Codec

abbrev R := Except String

def field (j : Json) (k : String) : R Json :=
  match j.getObjVal? k with
  | .ok v => pure v
  | .error _ => throw s!"missing field {k}"

def fieldD (j : Json) (k : String) (d : Json) : Json :=
  match j.getObjVal? k with
  | .ok v => v
  | .error _ => d

def asNat (j : Json) : R Nat :=
  match j with
  | .num n => if n.exponent == 0 ∧ n.mantissa ≥ 0 then pure n.mantissa.toNat else throw s!"not a nat: {j}"
  | .str s => match s.toNat? with
    | some n => pure n
    | none => throw s!"not a nat string: {s}"
  | _ => throw s!"not a nat: {j}"

def asInt (j : Json) : R Int :=
  match j with
  | .num n => if n.exponent == 0 then pure n.mantissa else throw s!"not an int: {j}"
  | .str s => match s.toInt? with
    | some n => pure n
    | none => throw s!"not an int string: {s}"
  | _ => throw s!"not an int: {j}"

def asStr (j : Json) : R String :=
  match j with
  | .str s => pure s
  | _ => throw s!"not a string: {j}"

def asBool (j : Json) : R Bool :=
  match j with
  | .bool b => pure b
  | _ => throw s!"not a bool: {j}"

def asList (j : Json) : R (List Json) :=
  match j with
  | .arr a => pure a.toList
  | .null => pure []
  | _ => throw s!"not an array: {j}"

def listOf {α} (f : Json → R α) (j : Json) : R (List α) := do
  (← asList j).mapM f

def optOf {α} (f : Json → R α) (j : Json) : R (Option α) :=
  match j with
  | .null => pure none
  | _ => some <$> f j

def natF (j : Json) (k : String) : R Nat := do asNat (← field j k)
def intF (j : Json) (k : String) : R Int := do asInt (← field j k)
def strF (j : Json) (k : String) : R String := do asStr (← field j k)
def boolF (j : Json) (k : String) : R Bool := do asBool (← field j k)
def listF {α} (f : Json → R α) (j : Json) (k : String) : R (List α) := do listOf f (← field j k)

def logExt (j : Json) : R LogExt := do
  pure { txHash := ← strF j "tx", index := ← natF j "idx", blockHash := ← strF j "bh", blockNumber := ← natF j "bn" }

def trigger (j : Json) : R Trigger := do
  pure { blockNumber := ← natF j "bn", blockHash := ← strF j "bh", ext := ← optOf logExt (fieldD j "ext" .null) }

def checkResult (j : Json) : R CheckResult := do
  pure {
    pes := ← natF j "pes", retryable := ← boolF j "retryable", eligible := ← boolF j "eligible",
    reason := ← natF j "reason", upkeepID := ← strF j "uid", trigger := ← trigger (← field j "trig"),
    workID := ← strF j "wid", gas := ← natF j "gas", performData := ← strF j "pd",
    fastGasWei := ← optOf asInt (fieldD j "fgw" .null), linkNative := ← optOf asInt (fieldD j "ln" .null) }

def proposal (j : Json) : R Proposal := do
  pure { upkeepID := ← strF j "uid", trigger := ← trigger (← field j "trig"), workID := ← strF j "wid" }

def blockKey (j : Json) : R BlockKey := do
  pure { number := ← natF j "n", hash := ← strF j "h" }

def observation (j : Json) : R Observation := do
  pure { performable := ← listF checkResult j "perf", proposals := ← listF proposal j "props",
         blockHistory := ← listF blockKey j "hist" }

def outcome (j : Json) : R Outcome := do
  pure { agreed := ← listF checkResult j "agreed", surfaced := ← listF (listOf proposal) j "surfaced" }

def payload (j : Json) : R Payload := do
  pure { upkeepID := ← strF j "uid", trigger := ← trigger (← field j "trig"), workID := ← strF j "wid" }

/-- short rendering for diffs -/
def showResult (r : CheckResult) : String := s!"{r.workID}@{r.trigger.blockNumber}/g{r.gas}"

def jstrs (l : List String) : Json := .arr (l.map Json.str).toArray

/-- the uniform reply of a handler -/
structure Reply where
  agree : Bool
  specModel : Bool
  specImpl : Bool
  diff : String := ""
  fail : String := ""
  nontrivial : Bool := true
  tags : List String := []
  key : String := ""       -- distinctness key (hash of the case shape); empty = use the input itself

def Reply.toJson (r : Reply) (case : Json) : Json :=
  Json.mkObj [("case", case), ("agree", .bool r.agree), ("spec_model", .bool r.specModel),
    ("spec_impl", .bool r.specImpl), ("diff", .str r.diff), ("fail", .str r.fail),
    ("nontrivial", .bool r.nontrivial), ("tags", jstrs r.tags), ("key", .str r.key)]

end AutoVerif.Codec
