import AutoVerif.Drv.Codec
import AutoVerif.Spec.C15
/-
Driver side of C15.  Converts `Lean.Json` to the model's tree type `J`, rebuilds
`utg` / `wg` from the tables the harness sends (the real getter / generator are
parameters of the model), runs the model's decoder on the very bytes the Go
decoder saw, and evaluates the Spec clauses on both answers.

Modes (input.mode):
  valid     Go-encoded valid value: model decode of the parsed bytes = Go's
            decode = the value; `toJson value` ≈ parsed tree (direction 2).
  violate   valid value with exactly one rule broken: both reject, same rule.
  lenient   tree-level mutation inside the modelled leniencies: bare unmarshal
            and final answer compared for equality.
  malformed arbitrary / mutated bytes: only "no panic" and "accepted ⇒ all rules".
  gcstress  repeated decodes of the zero-fill crash witness while the GC runs: no crash.
  encstress concurrent Encode calls: every caller still holds the bytes it was given.
  decstress concurrent Decode calls (long overlapping block histories; outcomes): sequential answers, no crash.
In valid / violate / lenient mode the same bytes are decoded again after the first result has been
overwritten (`impl.again`, `impl.back` = the model's answer) and under a second (utg, wg) pair
(`impl.alt` = the model's answer under `altUtg` / `altWg`).  Cases with `input.pad` are decoded once
more with insignificant white space added up to that size; `impl.ws` must be empty (same answer).
In valid / violate mode the harness keeps the first encoding while a second message of the
same length is encoded and reports in `impl.alias` if the kept bytes (or, after the input
buffer has been overwritten, the decoded value) changed.
In the last three modes `impl.oob` (explicit-zeros probe of the harness) must be empty.
-/
open Lean AutoVerif.Codec
namespace AutoVerif.C15

partial def ofJson : Json → R J
  | .null => pure .null
  | .bool b => pure (.bool b)
  | .num n => if n.exponent == 0 then pure (.num n.mantissa) else throw s!"non-integer number {n}"
  | .str s => pure (.str s)
  | .arr a => do pure (.arr (← a.toList.mapM ofJson))
  | .obj kvs => do
    let l := (kvs.foldl (fun acc k v => (k, v) :: acc) []).reverse
    pure (.obj (← l.mapM fun (k, v) => do pure (k, ← ofJson v)))

/-- tree equality modulo object key order and Go's nil-vs-empty rendering
(`null` for a nil slice / nil `[]byte`, `[]` / `""` for an empty one) -/
partial def jEqv : J → J → Bool
  | .null, .null => true
  | .null, .arr [] => true
  | .arr [], .null => true
  | .null, .str "" => true
  | .str "", .null => true
  | .bool a, .bool b => a == b
  | .num a, .num b => a == b
  | .str a, .str b => a == b
  | .arr a, .arr b => a.length == b.length && (a.zip b).all fun (x, y) => jEqv x y
  | .obj a, .obj b =>
    a.length == b.length && a.all fun (k, v) =>
      match b.lookup k with
      | some w => jEqv v w
      | none => false
  | _, _ => false

def ruleName : Rule → String
  | .blockHistoryOverLimit => "blockHistoryOverLimit"
  | .dupBlockNumber => "dupBlockNumber"
  | .performablesOverLimit => "performablesOverLimit"
  | .failedState => "failedState"
  | .ineligible => "ineligible"
  | .typeMismatchResult => "typeMismatchResult"
  | .wrongWorkIDResult => "wrongWorkIDResult"
  | .zeroGas => "zeroGas"
  | .fastGasMissing => "fastGasMissing"
  | .fastGasRange => "fastGasRange"
  | .linkNativeMissing => "linkNativeMissing"
  | .linkNativeRange => "linkNativeRange"
  | .dupPerformableWorkID => "dupPerformableWorkID"
  | .proposalsOverLimit => "proposalsOverLimit"
  | .typeMismatchProposal => "typeMismatchProposal"
  | .wrongWorkIDProposal => "wrongWorkIDProposal"
  | .dupProposalWorkID => "dupProposalWorkID"
  | .conditionalProposalsOverLimit => "conditionalProposalsOverLimit"
  | .logProposalsOverLimit => "logProposalsOverLimit"
  | .agreedOverLimit => "agreedOverLimit"
  | .dupAgreedWorkID => "dupAgreedWorkID"
  | .roundsOverLimit => "roundsOverLimit"
  | .roundProposalsOverLimit => "roundProposalsOverLimit"

def allRules : List Rule :=
  [.blockHistoryOverLimit, .dupBlockNumber, .performablesOverLimit, .failedState, .ineligible,
   .typeMismatchResult, .wrongWorkIDResult, .zeroGas, .fastGasMissing, .fastGasRange, .linkNativeMissing,
   .linkNativeRange, .dupPerformableWorkID, .proposalsOverLimit, .typeMismatchProposal, .wrongWorkIDProposal,
   .dupProposalWorkID, .conditionalProposalsOverLimit, .logProposalsOverLimit, .agreedOverLimit,
   .dupAgreedWorkID, .roundsOverLimit, .roundProposalsOverLimit]

def ruleOfName (s : String) : Option Rule := allRules.find? fun r => ruleName r == s

def answerStr {α} : Answer α → String
  | .accepted _ => "ok"
  | .malformed => "malformed"
  | .rejected r => ruleName r
  | .panicked => "panic"

/-- `utg` / `wg` as finite tables computed by the harness with the real functions -/
structure Env where
  types : List (String × UpkeepType)
  wids  : List (String × Trigger × String)

def Env.utg (e : Env) (uid : String) : UpkeepType := (e.types.lookup uid).getD .other
def Env.wg (e : Env) (uid : String) (t : Trigger) : String :=
  match e.wids.find? fun (u, t', _) => u == uid && t' == t with
  | some (_, _, w) => w
  | none => "\x00no-such-entry"

def envOf (impl : Json) : R Env := do
  let types ← (← asList (fieldD impl "utg" .null)).mapM fun j => do
    let t := match ← natF j "t" with | 0 => UpkeepType.condition | 1 => .log | _ => .other
    pure (← strF j "uid", t)
  let wids ← (← asList (fieldD impl "wg" .null)).mapM fun j => do
    pure (← strF j "uid", ← trigger (← field j "trig"), ← strF j "wid")
  pure { types := types, wids := wids }

/-- everything that differs between the two message kinds -/
structure Ops (α : Type) where
  key      : String
  dec      : Json → R α
  toJ      : α → J
  fromJ    : Codec → J → Option α
  decode   : Codec → (String → UpkeepType) → (String → Trigger → String) → J → Except DecodeErr α
  validate : (String → UpkeepType) → (String → Trigger → String) → α → V
  wf       : α → Bool
  size     : α → Nat
  shape    : α → List String

/-- the all-zero extension (what `"LogTriggerExtension":{}` decodes to) -/
def zeroExt (t : Trigger) : Bool :=
  match t.ext with
  | none => false
  | some e => e.index == 0 && e.blockNumber == 0 && e.txHash.all (· == '0') && e.blockHash.all (· == '0')

/-- upkeep ids of the entries that carry a log extension: a repetition = one log upkeep with several logs -/
def logIds (ts : List (String × Trigger)) : List String := (ts.filter (·.2.ext.isSome)).map (·.1)

def obsOps : Ops Observation where
  key := "obs"
  dec := observation
  toJ := obsToJson
  fromJ := obsFromJson
  decode := decodeObservation
  validate := validateObservation
  wf := wfObs
  size o := o.performable.length + o.proposals.length + o.blockHistory.length
  shape o :=
    (if o.performable.any (·.trigger.ext.isSome) || o.proposals.any (·.trigger.ext.isSome) then ["has-log-ext"] else []) ++
    (if o.performable.any (·.trigger.ext.isNone) || o.proposals.any (·.trigger.ext.isNone) then ["has-no-ext"] else []) ++
    (if !decide (logIds (o.performable.map (fun r => (r.upkeepID, r.trigger)) ++ o.proposals.map (fun p => (p.upkeepID, p.trigger)))).Nodup
      then ["repeated-log-upkeep"] else []) ++
    (if o.performable.any (zeroExt ·.trigger) || o.proposals.any (zeroExt ·.trigger) then ["zero-ext"] else []) ++
    (if o.performable.any (·.performData == "") then ["empty-perform-data"] else []) ++
    (if o.performable.any (fun r => decide (r.performData.length > 2000)) then ["long-perform-data"] else []) ++
    (if o.performable.any (fun r => r.fastGasWei == some uint256Max || r.linkNative == some uint256Max) then ["price=uint256max"] else []) ++
    (if o.performable.any (fun r => r.fastGasWei == some 0 || r.linkNative == some 0) then ["price=0"] else []) ++
    (if o.performable.length == Gen.observationPerformablesLimit then ["perf=limit"] else []) ++
    (if o.blockHistory.length == Gen.observationBlockHistoryLimit then ["hist=limit"] else []) ++
    (if o.proposals.length == Gen.observationConditionalsProposalsLimit + Gen.observationLogRecoveryProposalsLimit then ["props=limit"] else [])

def outcomeOps : Ops Outcome where
  key := "outcome"
  dec := outcome
  toJ := outcomeToJson
  fromJ := outcomeFromJson
  decode := decodeOutcome
  validate := validateOutcome
  wf := wfOutcome
  size o := o.agreed.length + (o.surfaced.map (·.length)).sum
  shape o :=
    (if o.agreed.any (·.trigger.ext.isSome) || o.surfaced.any (·.any (·.trigger.ext.isSome)) then ["has-log-ext"] else []) ++
    (if o.agreed.any (·.trigger.ext.isNone) || o.surfaced.any (·.any (·.trigger.ext.isNone)) then ["has-no-ext"] else []) ++
    (if !decide (logIds (o.agreed.map (fun r => (r.upkeepID, r.trigger)) ++ o.surfaced.flatten.map (fun p => (p.upkeepID, p.trigger)))).Nodup
      then ["repeated-log-upkeep"] else []) ++
    (if o.agreed.any (zeroExt ·.trigger) || o.surfaced.any (·.any (zeroExt ·.trigger)) then ["zero-ext"] else []) ++
    (if o.agreed.any (·.performData == "") then ["empty-perform-data"] else []) ++
    (if o.agreed.length == Gen.outcomeAgreedPerformablesLimit then ["agreed=limit"] else []) ++
    (if o.surfaced.length == Gen.outcomeSurfacedProposalsRoundHistoryLimit then ["rounds=limit"] else []) ++
    (if o.surfaced.any (fun r => r.length == Gen.outcomeSurfacedProposalsLimit) then ["round=limit"] else []) ++
    (if o.surfaced.any (·.isEmpty) then ["empty-round"] else [])

def implAnswer {α} (ops : Ops α) (impl : Json) : R (Answer α) := do
  if (← strF impl "panic") != "" then return .panicked
  let e ← strF impl "err"
  if e == "ok" then return .accepted (← ops.dec (← field impl ops.key))
  if e == "malformed" then return .malformed
  match ruleOfName e with
  | some r => return .rejected r
  | none => throw s!"unknown error class {e}"

/-- the second (utg, wg) pair of a run, derived from the first exactly as the
harness does (`c15UtgAlt`, `c15WgAlt`): condition and log swap, work ids get a prefix -/
def altUtg (utg : String → UpkeepType) (uid : String) : UpkeepType :=
  match utg uid with
  | .condition => .log
  | .log => .condition
  | .other => .other

def altWg (wg : String → Trigger → String) (uid : String) (t : Trigger) : String := "alt:" ++ wg uid t

/-- a repeated answer (`impl.again` / `alt` / `back`); `same` = the value of the first answer -/
def repeatAnswer {α} (ops : Ops α) (impl : Json) (name : String) (first : Answer α) : R (Option (Answer α)) := do
  match fieldD impl name .null with
  | .null => pure none
  | j =>
    if (fieldD j "same" (.bool false)) == .bool true then
      match first with
      | .accepted v => pure (some (.accepted v))
      | _ => throw s!"{name}: `same` without an accepted first answer"
    else pure (some (← implAnswer ops j))

/-- the repeated decodes: `(agree, spec, fail, tags)` — `again` and `back` must be the model's
answer under the first pair, `alt` the model's answer under the second pair -/
def checkRepeats {α} [DecidableEq α] (ops : Ops α) (impl : Json) (ia ma ma2 : Answer α)
    (specOwn : Answer α → Bool) (specAlt : Answer α → Bool) : R (Bool × Bool × String × List String) := do
  let again ← repeatAnswer ops impl "again" ia
  let alt ← repeatAnswer ops impl "alt" ia
  let back ← repeatAnswer ops impl "back" ia
  let okOwn (a : Option (Answer α)) := match a with | none => true | some a => specOwn a
  let eqOwn (a : Option (Answer α)) := match a with | none => true | some a => decide (a = ma)
  let altOk := match alt with | none => true | some a => specAlt a
  let altEq := match alt with | none => true | some a => decide (a = ma2)
  let ownOk := okOwn again && okOwn back
  let fail := if !ownOk then explainRepeat else if !altOk then explainAltPair else ""
  let tags := (if again.isSome then ["repeat-decode"] else []) ++
    (match alt with
      | some (.accepted _) => ["alt-pair:accepted"]
      | some _ => ["alt-pair:rejected"]
      | none => [])
  pure (eqOwn again && eqOwn back && altEq, ownOk && altOk, fail, tags)

def parseTree (impl : Json) : R J := do
  match Json.parse (← strF impl "text") with
  | .ok j => ofJson j
  | .error e => throw s!"impl.text does not parse: {e}"

def handleK {α} [DecidableEq α] (ops : Ops α) (input impl : Json) : R Reply := do
  let mode ← strF input "mode"
  let env ← envOf impl
  let utg := env.utg
  let wg := env.wg
  let ia ← implAnswer ops impl
  let kind := ops.key
  -- which JSON package decodes the envelope in the repository (probed by the harness)
  let c : Codec := match fieldD impl "codec" .null with | .str "std" => .std | _ => .goccy
  let oobText := match fieldD impl "oob" .null with | .str s => s | _ => ""
  let oob := oobText != ""
  let aliasText := match fieldD impl "alias" .null with | .str s => s | _ => ""
  let alias := aliasText != ""
  let wsText := match fieldD impl "ws" .null with | .str s => s | _ => ""
  let ws := wsText != ""
  let padded := match fieldD input "pad" .null with | .num n => decide (n.mantissa > 0) | _ => false
  let crashTags :=
    (if ws then ["ws-dependent"] else []) ++ (if padded then [s!"{kind}:padded"] else []) ++
    (if alias then ["aliasing"] else []) ++
    (if oob then ["oob-zero-fill"] else []) ++
    (match ia with
      | .panicked =>
        let p := match fieldD impl "panic" .null with | .str s => s | _ => ""
        [if p.startsWith "fatal" then "crash:fatal" else if p == "timeout" then "crash:timeout" else "crash:panic"]
      | _ => [])
  match mode with
  | "valid" =>
    let x ← ops.dec (← field input kind)
    let tree ← parseTree impl
    let ma := answerOf (ops.decode c utg wg tree)
    let treeEq := jEqv (ops.toJ x) tree
    let pureRT := decide (ops.fromJ c (ops.toJ x) = some x)
    let sm := specRoundTrip x ma && pureRT
    let ma2 := answerOf (ops.decode c (altUtg utg) (altWg wg) tree)
    let (rAgree, rSpec, rFail, rTags) ← checkRepeats ops impl ia ma ma2 (specRoundTrip x)
      (specArbitrary (ops.validate (altUtg utg) (altWg wg)))
    let si := specRoundTrip x ia && specRetained alias && rSpec && specWhitespace ws
    let agree := decide (ma = ia) && treeEq && rAgree
    pure { agree := agree, specModel := sm, specImpl := si,
           diff := if agree then "" else
             (if treeEq then "" else "toJson(value) differs from the tree of the Go bytes; ") ++
             s!"model={answerStr ma} impl={answerStr ia}",
           fail := if si then "" else if !specRoundTrip x ia then explainRoundTrip ia
                   else if ws then explainWs ++ ": " ++ wsText
                   else if !rSpec then rFail ++ (if alias then ": " ++ aliasText else "")
                   else if alias then explainAlias ++ ": " ++ aliasText else explainRoundTrip ia,
           nontrivial := decide (ops.size x ≥ 1),
           tags := [s!"{kind}:valid"] ++ (ops.shape x).map (fun s => s!"{kind}:{s}") ++
                   (if ops.wf x then [] else ["ill-formed-input"]) ++ rTags.map (fun t => s!"{kind}:{t}") ++ crashTags }
  | "violate" =>
    let x ← ops.dec (← field input kind)
    let want ← strF input "rule"
    let tree ← parseTree impl
    let ma := answerOf (ops.decode c utg wg tree)
    let mv := ops.validate utg wg x
    let treeEq := jEqv (ops.toJ x) tree
    let sm := specRejected ma && !mv.isOk
    let ma2 := answerOf (ops.decode c (altUtg utg) (altWg wg) tree)
    let (rAgree, rSpec, rFail, rTags) ← checkRepeats ops impl ia ma ma2 specRejected
      (specArbitrary (ops.validate (altUtg utg) (altWg wg)))
    let si := specRejected ia && specRetained alias && rSpec && specWhitespace ws
    let agree := decide (ma = ia) && answerStr ma == want && treeEq && rAgree
    pure { agree := agree, specModel := sm, specImpl := si,
           diff := if agree then "" else s!"rule broken={want} model={answerStr ma} impl={answerStr ia} treeEq={treeEq}",
           fail := if si then "" else if !specRejected ia then explainRejected ia ++ s!" (rule {want})"
                   else if ws then explainWs ++ ": " ++ wsText
                   else if !rSpec then rFail ++ s!" (rule {want})"
                   else if alias then explainAlias ++ ": " ++ aliasText else explainRejected ia ++ s!" (rule {want})",
           nontrivial := true,
           tags := [s!"{kind}:violate", s!"{kind}:rule:{want}"] ++
                   ((ops.shape x).filter (fun t => t == "zero-ext" || t == "repeated-log-upkeep")).map (fun t => s!"{kind}:violate:{t}") ++
                   rTags.map (fun t => s!"{kind}:violate:{t}") ++ crashTags }
  | "lenient" =>
    let tree ← parseTree impl
    let mu := ops.fromJ c tree
    let iu : Option α ← if (← boolF impl "unmOk") then some <$> ops.dec (← field impl "unm") else pure none
    let ma := answerOf (ops.decode c utg wg tree)
    let sm := specArbitrary (ops.validate utg wg) ma
    let ma2 := answerOf (ops.decode c (altUtg utg) (altWg wg) tree)
    let (rAgree, rSpec, rFail, rTags) ← checkRepeats ops impl ia ma ma2 (specArbitrary (ops.validate utg wg))
      (specArbitrary (ops.validate (altUtg utg) (altWg wg)))
    let si := specArbitrary (ops.validate utg wg) ia && specNoCrash ia oob && rSpec && specRetained alias && specWhitespace ws
    let agree := decide (mu = iu) && decide (ma = ia) && rAgree
    pure { agree := agree, specModel := sm, specImpl := si,
           diff := if agree then "" else
             s!"unmarshal model={mu.isSome} impl={iu.isSome} equal={decide (mu = iu)}; answer model={answerStr ma} impl={answerStr ia}",
           fail := if si then "" else if oob then explainOob ++ ": " ++ oobText
                   else if ws then explainWs ++ ": " ++ wsText
                   else if !rSpec then rFail else if alias then explainRepeat ++ ": " ++ aliasText else explainArbitrary ia,
           nontrivial := true,
           tags := [s!"{kind}:lenient", s!"{kind}:lenient:{answerStr ia}"] ++ rTags.map (fun t => s!"{kind}:lenient:{t}") ++ crashTags }
  | "encstress" =>
    -- concurrent encoders: every goroutine still holds what it encoded
    let si := specRetained alias && specNoCrash ia false
    pure { agree := true, specModel := true, specImpl := si,
           fail := if si then "" else if alias then explainAlias ++ ": " ++ aliasText else explainArbitrary ia,
           nontrivial := true,
           tags := [s!"{kind}:encstress"] ++ crashTags }
  | "decstress" =>
    -- concurrent decoders: every answer is the sequential answer, nobody dies
    let si := specRetained alias && specNoCrash ia false
    pure { agree := true, specModel := true, specImpl := si,
           fail := if si then "" else if alias then explainRepeat ++ ": " ++ aliasText else explainArbitrary ia,
           nontrivial := true,
           tags := [s!"{kind}:decstress"] ++ crashTags }
  | "gcstress" =>
    -- crash witness of the array zero-fill: repeated decodes while the collector runs
    let si := specNoCrash ia oob
    pure { agree := true, specModel := true, specImpl := si,
           fail := if si then "" else explainArbitrary ia ++ " (pointer-typed zero-fill store under the GC write barrier)",
           nontrivial := true,
           tags := [s!"{kind}:gcstress"] ++ crashTags }
  | "malformed" =>
    let si := specArbitrary (ops.validate utg wg) ia && specNoCrash ia oob && specRetained alias && specWhitespace ws
    let cls := match ia with
      | .accepted _ => "accepted"
      | .malformed => "malformed"
      | .rejected _ => "rule"
      | .panicked => "panic"
    pure { agree := true, specModel := true, specImpl := si,
           fail := if si then "" else if oob then explainOob ++ ": " ++ oobText
                   else if ws then explainWs ++ ": " ++ wsText
                   else if alias then explainRepeat ++ ": " ++ aliasText else explainArbitrary ia,
           nontrivial := cls != "malformed",
           tags := [s!"{kind}:arbitrary:{cls}"] ++ crashTags }
  | m => throw s!"unknown mode {m}"

def handle (input impl : Json) : R Reply := do
  match ← strF input "kind" with
  | "obs" => handleK obsOps input impl
  | "outcome" => handleK outcomeOps input impl
  | k => throw s!"unknown kind {k}"

end AutoVerif.C15
