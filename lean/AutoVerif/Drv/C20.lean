import AutoVerif.Drv.Codec
import AutoVerif.Spec.C20
/-
Driver for C20.  `input.kind` selects the sub-check:
  "plan"   save → load of one plan through Encode / DecodeSimulationPlan
  "expect" expected-perform count registered by NewOCR3TransmitLoader
  "stats"  the statistics block of Group.ReportResults on a vector of check counts
  "track"  the real ProgressTelemetry under a scripted schedule (virtual time)
  "sim"    one run of the real simulator (child process): verdict, summary, record
  "perform" the real transmit loader wired to the real telemetry, forced performs, verdict
  "resave"  save → save → load through run.SetupOutput / run.LoadSimulationPlan into one directory
  "transmit" un-timed concurrent stress of the real OCR3TransmitLoader (child process)
  "churn"  subscribers (plugin instances) coming and going on a node's running block source (child process)
-/
open Lean AutoVerif.Codec
namespace AutoVerif.C20

/-! ### decoding the harness' canonical forms -/

/-- fields the Go side omits when empty -/
def natFD (j : Json) (k : String) : R Nat := asNat (fieldD j k (.num 0))
def listFD {α} (f : Json → R α) (j : Json) (k : String) : R (List α) := listOf f (fieldD j k .null)

def leafOf (j : Json) : R Leaf := do
  let k ← strF j "k"
  let v ← strF j "v"
  match k with
  | "null" => pure .null
  | "int" => match v.toInt? with
    | some n => pure (.int n)
    | none => throw s!"bad int leaf {v}"
  | "dur" => match v.toInt? with
    | some n => pure (.dur n)
    | none => throw s!"bad dur leaf {v}"
  | "str" => pure (.str v)
  | "flt" => pure (.flt v)
  | _ => throw s!"unknown leaf kind {k}"

def planOf (j : Json) : R Plan := do
  pure { node := ← listF leafOf j "node", network := ← listF leafOf j "p2pNetwork", rpc := ← listF leafOf j "rpc",
         blocks := ← listF leafOf j "blocks", configEvents := ← listF (listOf leafOf) j "config",
         generateUpkeeps := ← listF (listOf leafOf) j "gen", logEvents := ← listF (listOf leafOf) j "logs" }

def kindName : Kind → String
  | .int => "int" | .big => "big" | .str => "str" | .dur => "dur" | .flt => "flt"

def schemaStr (sch : List Field) : List String :=
  sch.map fun f => s!"{f.key}:{kindName f.kind}:{f.omitEmpty}"

def fieldOf (j : Json) : R String := do
  pure s!"{← strF j "key"}:{← strF j "kind"}:{← boolF j "omit"}"

/-- the reflected Go schema must be the one the model was written for -/
def schemaDrift (j : Json) : R (List String) := do
  let chk (name : String) (sch : List Field) : R (List String) := do
    let got ← listF fieldOf j name
    pure (if got = schemaStr sch then [] else [s!"{name}: go={got} model={schemaStr sch}"])
  let top ← listF asStr j "top"
  let topOk := if top = ["node", "p2pNetwork", "rpc", "blocks"] then [] else [s!"top: go={top}"]
  pure ((← chk "node" nodeSchema) ++ (← chk "p2pNetwork" networkSchema) ++ (← chk "rpc" rpcSchema) ++
        (← chk "blocks" blocksSchema) ++ (← chk "ocr3config" configSchema) ++ (← chk "generateUpkeeps" genSchema) ++
        (← chk "logTrigger" logSchema) ++ topOk)

def upkeepOf (j : Json) : R Upkeep := do
  let ty ← natF j "type"
  pure { expected := ← boolF j "expected", type := if ty = 0 then .conditional else .logTrigger,
         eligibleAt := ← listF asInt j "eligible_at", createInBlock := ← intF j "create",
         triggeredBy := ← strF j "by", alwaysEligible := ← boolF j "always" }

def logOf (j : Json) : R LogEv := do
  pure { triggerAt := ← intF j "at", triggerValue := ← strF j "value" }

def errName : DecErr → String × Nat
  | .notObject => ("decode", 0) | .header => ("decode", 0) | .events => ("decode", 0)
  | .event i => ("event", i) | .typed i => ("typed", i) | .unrecognized i => ("unrecognized", i)

def showLeaf : Leaf → String
  | .null => "null" | .int n => s!"{n}" | .str s => s!"\"{s}\"" | .dur d => s!"{d}ns" | .flt t => t

def showEvents (l : List (List Leaf)) : String := toString (l.map fun e => e.map showLeaf)

def showLoaded : Except DecErr Plan → String
  | .ok q => s!"ok cfg={showEvents q.configEvents} gen={showEvents q.generateUpkeeps} log={showEvents q.logEvents} hdr={(q.node ++ q.network ++ q.rpc ++ q.blocks).map showLeaf}"
  | .error e => s!"error {(errName e).1} {(errName e).2}"

/-! ### "plan" -/

def handlePlan (input impl : Json) : R Reply := do
  let p ← planOf (← field input "plan")
  if !p.wf then throw "input plan does not conform to the schemas (harness error)"
  let drift ← schemaDrift (← field impl "schema")
  let tree := encode p
  let modelLoaded := decode tree
  -- implementation side
  let encErr ← strF impl "enc_err"
  let decKind ← strF impl "dec_err"
  let decIdx ← natF impl "dec_idx"
  let implLoaded : Except DecErr Plan ←
    if encErr ≠ "" then pure (.error .notObject)
    else if decKind = "" then (do pure (.ok (← planOf (← field impl "decoded"))))
    else pure (.error (match decKind with
      | "unrecognized" => .unrecognized decIdx | "event" => .event decIdx | "typed" => .typed decIdx | _ => .notObject))
  let skelImpl ← field impl "skel"
  let topImpl ← listF asStr skelImpl "top"
  let evImpl ← listF (optOf (listOf asStr)) skelImpl "events"
  let (topModel, evModel) := (skeleton tree).getD ([], [])
  let sameLoaded := decide (modelLoaded = implLoaded)
  let sameSkel := decide (topModel = topImpl) && decide (evModel = evImpl)
  let agree := sameLoaded && sameSkel && drift.isEmpty
  let sm := roundtripOk p modelLoaded
  let reenc ← boolF impl "reenc_same"
  let si := roundtripOk p implLoaded && (reenc || encErr ≠ "" || decKind ≠ "")
  let n := p.configEvents.length + p.generateUpkeeps.length + p.logEvents.length
  let oldFails := match decode (encodeOld p) with
    | .error _ => true
    | .ok _ => false
  let tags :=
    (if p.savedForm then ["saved-form"] else ["not-saved-form"]) ++
    (if n = 0 then ["no-events"] else []) ++
    (if p.configEvents.length + p.generateUpkeeps.length > 0 then ["cfg-or-gen-events"] else []) ++
    (if p.logEvents.isEmpty then [] else ["log-events"]) ++
    (if evModel.any (fun e => match e with | some ks => !ks.contains "comment" | none => false) then ["comment-omitted"] else []) ++
    (if evModel.any (fun e => match e with | some ks => ks.contains "expected" | none => false) then ["expected-written"] else []) ++
    (if oldFails then ["old-encoder-unloadable"] else [])
  let diff :=
    if !drift.isEmpty then s!"schema drift: {drift}"
    else if !sameSkel then s!"skeleton: model top={topModel} events={evModel} impl top={topImpl} events={evImpl}"
    else if !sameLoaded then s!"loaded: model={showLoaded modelLoaded} impl={showLoaded implLoaded}"
    else ""
  let fail :=
    if si then ""
    else if encErr ≠ "" then s!"saving the plan failed: {encErr}"
    else match implLoaded with
      | .error e => s!"saved plan cannot be loaded ({(errName e).1} event at index {(errName e).2})"
      | .ok _ => if !reenc then "saved plan changes when saved again after loading" else "loaded plan differs from the saved plan"
  pure { agree := agree, specModel := sm, specImpl := si, diff := diff, fail := fail,
         nontrivial := decide (n ≥ 1), tags := "plan" :: tags }

/-! ### "expect" -/

def handleExpect (input impl : Json) : R Reply := do
  let ups ← listFD upkeepOf input "upkeeps"
  let logs ← listFD logOf input "logs"
  let want := expectedPerforms ups logs
  let err ← strF impl "err"
  let got ← intF impl "expected"
  let ns ← strF impl "namespace"
  let genSame ← boolF impl "gen_same"
  let nsWant := transmitNamespace want
  let agree := err = "" && got = (want : Int) && ns = nsWant && genSame
  let sm := registeredOk ups logs want nsWant
  let si := err = "" && registeredOk ups logs got ns
  let periodicLog := ups.any fun u => u.type == .logTrigger && !u.alwaysEligible && !u.eligibleAt.isEmpty
  let fail :=
    if si then ""
    else if err ≠ "" then s!"the transmit loader could not be created: {err}"
    else s!"registered expected-perform count {got} ({ns}) differs from the count the plan expects {expectedSpec ups logs} ({transmitNamespace (expectedSpec ups logs)})"
  pure { agree := agree, specModel := sm, specImpl := si, fail := fail,
         diff := if agree then "" else s!"expected performs: model={want} ns={nsWant} impl={got} ns={ns} err={err} gen_same={genSame}",
         nontrivial := decide (ups.length ≥ 1),
         tags := "expect" :: ((if want = 0 then ["negative-assert"] else ["positive-assert"]) ++
           (if ups.any (fun u => u.type == .logTrigger && u.expected) then ["log-upkeeps"] else []) ++
           (if periodicLog then ["periodic-log-upkeep"] else []) ++
           (if periodicLog && ups.any (fun u => u.type == .logTrigger && !u.alwaysEligible && u.expected &&
                logs.any (fun l => logCounts u l && u.eligibleAt.head?.any (fun b => decide (b < l.triggerAt)))) then
              ["log-after-first-eligible-block"] else []) ++
           (if ups.any (fun u => !u.expected) then ["unexpected-upkeeps"] else [])) }

/-! ### "stats" -/

def handleStats (input impl : Json) : R Reply := do
  let counts ← listFD asInt input "counts"
  let data := sortCounts counts
  let model := summary data
  let panic ← strF impl "panic"
  let ended ← boolF impl "end"
  let si := panic = "" && ended
  let sm := summaryOk model
  let oldPanics := (summaryOld data).isNone
  let tags := ["stats", s!"len={if counts.length ≤ 8 then toString counts.length else if counts.length ≤ 20 then "9-20" else "21-50"}"] ++
    (if oldPanics then ["old-code-out-of-range"] else [])
  match model with
  | none => pure { agree := !si, specModel := sm, specImpl := si, diff := "model: index out of range", tags := tags,
                   fail := if si then "" else s!"summary crashed: {panic}" }
  | some m =>
    if !si then
      pure { agree := false, specModel := sm, specImpl := false, diff := s!"impl panicked: {panic}",
             fail := s!"run summary crashed or was not finished: {panic}", tags := tags }
    else
      let pr ← field impl "printed"
      let got : List Int := [← intF pr "q1x4", ← intF pr "medx4", ← intF pr "q3x4", ← intF pr "iqrx4", ← intF pr "lfx4",
        ← intF pr "ufx4", ← intF pr "lowest", ← intF pr "low_n", ← intF pr "highest", ← intF pr "high_n"]
      let want : List Int := [2 * m.q1x2, 2 * m.medx2, 2 * m.q3x2, 2 * m.iqrx2, m.lowFence4, m.highFence4,
        m.lowest, m.lowOutliers, m.highest, m.highOutliers]
      let agree := decide (got = want) && decide ((← natF impl "total_ids") = counts.length)
      pure { agree := agree, specModel := sm, specImpl := si,
             diff := if agree then "" else s!"[q1,med,q3,iqr,lf,uf (x4), lowest,nlow,highest,nhigh]: model={want} impl={got}",
             nontrivial := decide (counts.length ≥ 1), tags := tags }

/-! ### "track" -/

structure TrackIn where
  total : Nat
  incs : List (Nat × Nat)   -- (virtual ms, amount), before the close

def trackInOf (j : Json) : R TrackIn := do
  let incs ← listF (fun x => do pure ((← natF x "at_ms"), (← natF x "n"))) j "incs"
  pure { total := ← natF j "total", incs := incs }

/-- the schedule the harness enforces: `Start`; `pre_ms` of virtual time; the registrations; the increments at
distinct instants (each followed by more than one render/tick period); `Close`; every loop sees the close;
`finish`.  Ticks are inserted wherever one can fire. -/
def scriptedTrace (preMs : Nat) (ts : List TrackIn) : List Ev :=
  let pre := List.replicate (preMs / 100) Ev.tick
  let regs := ts.map (fun t => Ev.register t.total)
  let tagged : List (Nat × Nat × Nat) := ((List.range ts.length).zip ts).flatMap fun (i, t) => t.incs.map fun (ms, n) => (ms, i, n)
  let ordered := tagged.mergeSort (fun a b => decide (a.1 ≤ b.1))
  let incs := ordered.flatMap fun (_, i, n) => [Ev.sel i (.inc n), Ev.tick]
  pre ++ regs ++ [Ev.tick] ++ incs ++ [Ev.close] ++ (List.range ts.length).map (fun i => Ev.sel i .done) ++ [Ev.tick, Ev.finish]

def handleTrack (input impl : Json) : R Reply := do
  let preMs ← natFD input "pre_ms"
  let ts ← listFD trackInOf input "trackers"
  let early ← boolF impl "early"
  -- `early` (verdict taken before anything was registered) is impossible in the model of the current tree;
  -- it is what `stepOld` does on `earlyExit`
  let tr := scriptedTrace preMs ts
  let got ← boolF impl "success"
  let races := (natF impl "races").toOption.getD 0
  let raceSites := (listF asStr impl "race_sites").toOption.getD []
  let raceBuild := (boolF impl "race_build").toOption.getD false
  let crash := (strF impl "crash").toOption.getD ""
  let model := if early then none else verdict tr
  let consumed : List (Nat × List Sel) := ts.map fun t =>
    (t.total, ((t.incs.mergeSort (fun a b => decide (a.1 ≤ b.1))).map fun (_, n) => Sel.inc n) ++ [.done])
  let want := expectedVerdict consumed
  let agree := decide (model = some got)
  let sm := match model with
    | some v => verdictFaithful consumed v
    | none => false
  let si := verdictFaithful consumed got && races = 0 && crash = ""
  let late := decide (preMs ≥ 100)
  let racesIgnored := (listF asStr impl "races_ignored").toOption.getD []
  let tags := ["track"] ++ (if raceBuild then ["race-build"] else []) ++
    (racesIgnored.eraseDups.map fun site => s!"ignored-go-pretty-race:{site}") ++ (if late then ["late-register"] else []) ++ (if early then ["start-race"] else []) ++
    (if ts.any (fun t => t.total = 0) then ["zero-total"] else []) ++
    (if ts.any (fun t => t.total > 0 && decide ((t.incs.map (·.2)).sum > t.total)) then ["overshoot"] else []) ++
    (if ts.any (fun t => t.total > 0 && decide ((t.incs.map (·.2)).sum = t.total)) then ["exact"] else []) ++
    (if ts.any (fun t => t.total > 0 && decide ((t.incs.map (·.2)).sum + 1 = t.total)) then ["one-short"] else []) ++
    (if want then ["expect-success"] else ["expect-failure"])
  let fail :=
    if si then ""
    else if races ≠ 0 then s!"data race in repository code ({races}): {raceSites.eraseDups}"
    else if crash ≠ "" then s!"progress telemetry scenario crashed: {crash}"
    else if early then
      (if got then "success reported although a counter was not satisfied (checkProgress left its loop before Render started)"
       else "failure reported although every counter was satisfied (checkProgress left its loop before Render started)")
    else if got && late then "success reported although a counter was not satisfied (verdict taken before the counters were registered)"
    else if got then "success reported although a counter was not satisfied"
    else "failure reported although every counter was satisfied"
  pure { agree := agree, specModel := sm, specImpl := si,
         diff := if agree then "" else s!"verdict: model={model} impl={got} (expected by the property: {want})",
         fail := fail, nontrivial := decide (ts.length ≥ 1), tags := tags }

/-! ### "sim" -/

def rowOf (j : Json) : R Row := do
  let b ← strF j "block"
  pure { included := b ≠ "<nil>", block := b.toNat?.getD 0, round := ← natF j "round", sender := ← strF j "sender",
         upkeep := ← strF j "upkeep", checkBlock := ← natF j "check_block" }

def checkOf (j : Json) : R CheckRec := do
  pure { node := ← natF j "node", upkeep := ← strF j "upkeep", block := ← natF j "block", eligible := ← boolF j "eligible" }

def sentOf (j : Json) : R Sent := do
  pure { sender := ← strF j "sender", round := ← natF j "round" }

def leafInt : Leaf → Int
  | .int n => n
  | .dur n => n
  | _ => 0

/-- group sizes of a list of block numbers, in ascending block order -/
def groupCounts (blocks : List Int) : List Nat :=
  let sorted := blocks.mergeSort (fun a b => decide (a ≤ b))
  (sorted.eraseDups).map fun b => (sorted.filter (· == b)).length

def handleSim (input impl : Json) : R Reply := do
  let p ← planOf (← field input "plan")
  let ups ← listFD upkeepOf input "upkeeps"
  let logs ← listFD logOf input "logs"
  let res ← field impl "result"
  let stage ← strF res "stage"
  let resErr := (strF res "err").toOption.getD ""
  let got ← boolF res "verdict"
  let exit ← intF res "exit"
  let rows ← listF rowOf impl "rows"
  let sent ← listF sentOf impl "sent"
  let checks ← listF checkOf impl "checks"
  let configLoads ← natF impl "config_loads"
  let blocksSeen ← natF impl "blocks_seen"
  let summaryEnd ← boolF impl "summary_end"
  let savedOk ← boolF impl "saved_plan_ok"
  let races ← natF impl "races"
  let racesIgnored := (listF asStr impl "races_ignored").toOption.getD []
  let raceSites := (listF asStr impl "race_sites").toOption.getD []
  let raceBuild ← boolF impl "race_build"
  let crash := (strF impl "crash").toOption.getD ""
  let crashAt := (strF impl "crash_at").toOption.getD ""
  let crashInSummary := (boolF impl "crash_in_summary").toOption.getD false
  let childExit0 ← intF impl "child_exit"
  -- the race detector makes the child leave with 66 after it has reported; that is not a crash of the simulator
  let childExit : Int := if raceBuild && decide (races + racesIgnored.length > 0) && childExit0 = 66 then 0 else childExit0
  -- the plan's counters, in NewGroup's order
  let genesis := leafInt (p.blocks.getD 0 .null)
  let duration := leafInt (p.blocks.getD 3 .null)
  let padding := leafInt (p.blocks.getD 4 .null)
  let limit := genesis + duration + padding
  let inRange (b : Int) : Bool := decide (genesis ≤ b) && decide (b ≤ limit)
  let expected := expectedPerforms ups logs
  -- performed ON THE SIMULATED CHAIN: included in one of the blocks genesis … limit that the chain produced
  let offChain := rows.filter fun r => !onChain genesis limit r
  let performIncs := groupCounts ((rows.filter fun r => r.included && onChain genesis limit r).map fun r => (r.block : Int))
  let upkeepIncs := groupCounts ((ups.map (·.createInBlock)).filter inRange)
  let logIncs := groupCounts ((logs.map (·.triggerAt)).filter inRange)
  let mk (total : Nat) (incs : List Nat) : Nat × List Sel := (total, incs.map Sel.inc ++ [.done])
  let trackers : List (Nat × List Sel) :=
    [mk expected performIncs, mk p.configEvents.length (List.replicate configLoads 1), mk ups.length upkeepIncs,
     mk logs.length logIncs, mk (duration + padding).toNat (List.replicate blocksSeen 1)]
  -- the model's own run of the same record (all increments, then the close)
  let trace : List Ev := trackers.map (fun t => Ev.register t.1) ++
    (((List.range trackers.length).zip trackers).flatMap fun (i, t) => t.2.dropLast.map fun e => Ev.sel i e) ++
    [Ev.tick, Ev.close] ++ (List.range trackers.length).map (fun i => Ev.sel i .done) ++ [Ev.tick, Ev.finish]
  let model := verdict trace
  let finished := stage = "done"
  -- the finished trackers as the progress writer printed them, against `track` on the same record
  let names := ["upkeep perform events", "Emitting OCR3 config transactions", "Emitting create upkeep transactions",
    "Emitting log events", "Broadcasting simulated blocks"]
  let printed ← listF (fun j => do pure ((← strF j "msg"), (← strF j "state"), (← strF j "value"))) impl "trackers"
  let lineDiffs : List String := ((names.zip trackers).filterMap fun (name, t) =>
    match printed.find? (fun l => (l.1.splitOn name).length > 1) with
    | none => some s!"{name}: no finished line printed"
    | some (_, st, val) =>
      let ts := track t.1 t.2
      let wantSt := if ts.tr.err then "fail" else "done"
      if st ≠ wantSt then some s!"{name}: printed {st}, model {wantSt}"
      else match val.toNat? with
        | some v => if v = ts.tr.value then none else some s!"{name}: printed value {v}, model {ts.tr.value}"
        | none => none)
  let agree := finished && decide (model = some got) && decide (exit = (exitCode got : Int)) && lineDiffs.isEmpty
  -- a plan may re-configure the network: a report is attested under the configuration in force when it was agreed, so
  -- the record must hold for the smallest f of the plan's configurations (one config event: its f)
  let fs : List Nat := p.configEvents.map fun e => (leafInt (e.getD 3 .null)).toNat
  let f : Nat := match fs with
    | [] => 0
    | x :: xs => xs.foldl min x
  let switches := (natF impl "switches").toOption.getD 0
  let recOk := recordOk f checks sent rows
  let verdictOk := verdictFaithful trackers got
  let si := finished && childExit = 0 && verdictOk && summaryEnd && savedOk && recOk && races = 0 && offChain.isEmpty
  let sm := match model with
    | some v => verdictFaithful trackers v
    | none => false
  let fail :=
    if si then ""
    else if races ≠ 0 then s!"data race in repository code ({races}): {raceSites.eraseDups}"
    else if crash ≠ "" && races = 0 && crashInSummary then s!"run summary crashed: {crash} at {crashAt}"
    else if crash ≠ "" && races = 0 then s!"simulation crashed: {crash} at {crashAt}"
    else if stage = "hang" then s!"the run hangs: {resErr} — no exit status"
    else if !finished || childExit ≠ 0 then s!"simulation did not terminate normally (stage {stage}, child exit {childExit}): {resErr}"
    else if !summaryEnd then "run summary crashed or was not finished"
    else if !offChain.isEmpty then
      s!"{offChain.length} transmitted upkeep(s) recorded (and counted) in block {(offChain.head?.map (·.block)).getD 0}, which the chain never produced (last block {limit}); verdict {got}, performed on chain {performIncs.sum} of {expected} expected"
    else if !verdictOk then
      (if got then "success reported although a counter was not satisfied" else "failure reported although every counter was satisfied")
    else if !savedOk then "saved plan cannot be loaded back unchanged"
    else explainRecord f checks sent rows
  let performed := performIncs.sum
  let tags := ["sim", s!"nodes={leafInt (p.node.getD 0 .null)}", s!"f={f}"] ++
    (if expected = 0 then ["negative-assert"] else ["positive-assert"]) ++
    (if got then ["verdict-success"] else ["verdict-failure"]) ++
    (if rows.isEmpty then ["no-transmits"] else ["transmits"]) ++
    (if rows.any (fun r => !r.included) then ["transmit-never-included"] else []) ++
    (if !offChain.isEmpty then ["transmit-in-phantom-block"] else []) ++
    (if decide (duration + padding > 101) then ["blocks>101"] else []) ++
    (if decide (performed > expected) && expected > 0 then ["overshoot"] else []) ++
    (if ups.length ≤ 2 then [s!"upkeeps={ups.length}"] else ["upkeeps>2"]) ++
    (if raceBuild then ["race-build"] else []) ++
    (if (boolF input "realtime").toOption.getD false then ["real-clock"] else []) ++
    (if p.configEvents.length ≥ 2 then [s!"config-events={p.configEvents.length}"] else []) ++
    (if decide (switches > 0) then ["plugin-instances-replaced"] else []) ++
    (if crash ≠ "" then [if crashInSummary then "summary-crash" else "crash"] else []) ++
    (racesIgnored.eraseDups.map fun site => s!"ignored-go-pretty-race:{site}")
  pure { agree := agree, specModel := sm, specImpl := si,
         diff := if agree then "" else s!"verdict: model={model} impl={got} exit={exit} stage={stage} expected={expected} performed={performed} counters={trackers.map (·.1)} lines={lineDiffs}",
         fail := fail, nontrivial := true, tags := tags,
         key := s!"sim:{(strF input "name").toOption.getD ""}:{expected}:{performed}:{got}" }

/-! ### "perform" -/

def handlePerform (input impl : Json) : R Reply := do
  let ups ← listFD upkeepOf input "upkeeps"
  let logs ← listFD logOf input "logs"
  let listed ← listFD (fun x => do pure ((← natF x "at_ms"), (← natF x "n"))) input "performs"
  let tailBlocks ← natFD input "tail_blocks"
  let tailN ← natFD input "tail_n"
  -- the tail blocks follow the listed performs, 53 ms apart
  let lastAt := (listed.map (·.1)).foldl max 0
  let performs := listed ++ (List.range tailBlocks).map fun k => (lastAt + 53 * (k + 1), tailN)
  let hang := (boolF impl "hang").toOption.getD false
  let hangBlock := (natF impl "hang_block").toOption.getD 0
  let expected := expectedPerforms ups logs
  let err ← strF impl "err"
  let got ← boolF impl "success"
  let early ← boolF impl "early"
  let t : TrackIn := { total := expected, incs := performs }
  let model := if early then none else verdict (scriptedTrace 0 [t])
  let sels : List Sel := ((performs.mergeSort (fun a b => decide (a.1 ≤ b.1))).map fun (_, n) => Sel.inc n) ++ [.done]
  let consumed := [(expectedSpec ups logs, sels)]
  let want := expectedVerdict consumed
  let loadedPerf ← natF impl "loaded_perf"
  let loadedTxs ← natF impl "loaded_txs"
  let results ← natF impl "results"
  let countsOk := loadedPerf = (performs.map (·.2)).sum && loadedTxs = performs.length && results = performs.length
  -- the finished line of the perform counter, against `track`
  let lines ← listF (fun j => do pure ((← strF j "msg"), (← strF j "state"), (← strF j "value"))) impl "lines"
  let ts := track expected sels
  let lineOk := match lines.find? (fun l => (l.1.splitOn "upkeep perform events").length > 1) with
    | none => false
    | some (msg, st, val) =>
      msg = transmitNamespace expected && st = (if ts.tr.err then "fail" else "done") &&
      (match val.toNat? with
        | some v => v = ts.tr.value
        | none => true)
  -- in the model `Increment` never blocks its caller (`go func() { ch <- count }()`), so `Load` always returns
  let agree := err = "" && !hang && decide (model = some got) && countsOk && lineOk
  let sm := match model with
    | some v => verdictFaithful consumed v
    | none => false
  let si := err = "" && !hang && verdictFaithful consumed got && countsOk
  let performed := (performs.map (·.2)).sum
  let fail :=
    if si then ""
    else if err ≠ "" then s!"transmit loader: {err}"
    else if hang then s!"the run hangs: OCR3TransmitLoader.Load did not return within 30 s (virtual time) for perform-carrying block {hangBlock} of {performs.length} — block production stops, no summary, no verdict, no exit status ({expectedSpec ups logs} performs expected by the plan)"
    else if !countsOk then s!"performs forced into blocks were not all loaded and recorded once: loaded {loadedTxs} transmits / {loadedPerf} results, results {results}, forced {performs.length} / {performed}"
    else if got then s!"success reported although a counter was not satisfied ({performed} performed on chain, {expectedSpec ups logs} expected by the plan)"
    else s!"failure reported although every counter was satisfied ({performed} performed on chain, {expectedSpec ups logs} expected by the plan)"
  pure { agree := agree, specModel := sm, specImpl := si, fail := fail,
         diff := if agree then "" else s!"perform: model={model} impl={got} expected={expected} performed={performed} lines={lines} counts loaded={loadedTxs}/{loadedPerf} results={results} err={err}",
         nontrivial := true,
         tags := ["perform"] ++ (if expected = 0 then ["negative-assert"] else ["positive-assert"]) ++
           (if expected = 0 && !performs.isEmpty then ["negative-with-perform"] else []) ++
           (if expected = 0 && performs.any (fun p => p.2 = 0) then ["empty-report"] else []) ++
           (if expected > 0 && performed = expected then ["exact"] else []) ++
           (if expected > 0 && performed + 1 = expected then ["one-short"] else []) ++
           (if expected > 0 && decide (performed > expected) then ["overshoot"] else []) ++
           (if tailBlocks > 100 then ["long-tail"] else []) ++
           (if hang then ["hang"] else []) ++
           (if want then ["expect-success"] else ["expect-failure"]) }

/-! ### "resave" -/

def handleResave (input impl : Json) : R Reply := do
  let a ← planOf (← field input "plan")
  let b ← planOf (← field input "plan2")
  if !a.wf || !b.wf then throw "input plan does not conform to the schemas (harness error)"
  let drift ← schemaDrift (← field impl "schema")
  let err1 ← strF impl "err1"
  let err2 ← strF impl "err2"
  let decKind ← strF impl "dec_err"
  let decIdx ← natF impl "dec_idx"
  let size1 ← natF impl "size1"
  let size2 ← natF impl "size2"
  let fileSize ← natF impl "file_size"
  -- model: the second save truncates, so the file is the second plan's encoding
  let modelLoaded := decode (encode b)
  let implLoaded : Except DecErr Plan ←
    if err1 ≠ "" || err2 ≠ "" then pure (.error .notObject)
    else if decKind = "" then (do pure (.ok (← planOf (← field impl "decoded"))))
    else pure (.error (match decKind with
      | "unrecognized" => .unrecognized decIdx | "event" => .event decIdx | "typed" => .typed decIdx | _ => .notObject))
  let agree := decide (modelLoaded = implLoaded) && drift.isEmpty && fileSize = size2
  let sm := roundtripOk b modelLoaded
  let si := roundtripOk b implLoaded && fileSize = size2
  let fail :=
    if si then ""
    else if err1 ≠ "" || err2 ≠ "" then s!"saving the plan into the output directory failed: {err1}{err2}"
    else match implLoaded with
      | .error _ => s!"a plan saved over an older plan in the same output directory cannot be loaded back ({(strF impl "dec_msg").toOption.getD ""}); file has {fileSize} bytes, the plan {size2}, the older plan {size1}"
      | .ok _ => if fileSize ≠ size2 then s!"simulation_plan.json keeps bytes of the older plan: {fileSize} bytes for a plan of {size2} (older plan {size1})"
                 else "plan loaded from the output directory differs from the plan saved last"
  pure { agree := agree, specModel := sm, specImpl := si, fail := fail,
         diff := if agree then "" else s!"resave: model={showLoaded modelLoaded} impl={showLoaded implLoaded} sizes {size1} → {size2}, file {fileSize} drift={drift}",
         nontrivial := decide (size2 < size1),
         tags := ["resave"] ++ (if size2 < size1 then ["second-shorter"] else if size2 = size1 then ["same-length"] else ["second-longer"]) }

/-! ### "collector" -/

def handleCollector (input impl : Json) : R Reply := do
  let nUp ← natF input "n_upkeep"
  let nBlock ← natF input "n_block"
  let nodes ← natF input "nodes"
  let rounds ← natF input "rounds"
  let crash := (strF impl "crash").toOption.getD ""
  let races ← natF impl "races"
  let raceSites := (listF asStr impl "race_sites").toOption.getD []
  let ids ← natF impl "ids"
  let minLen ← intF impl "min_len"
  let maxLen ← intF impl "max_len"
  let dup ← boolF impl "dup"
  let done ← boolF impl "done"
  -- every node walks the whole grid at least once when rounds ≥ n_upkeep · n_block: every upkeep, every block
  let covered := decide (rounds ≥ nUp * nBlock) && decide (nodes ≥ 1)
  let countsOk := done && ids = nUp && minLen = (nBlock : Int) && maxLen = (nBlock : Int) && !dup
  let si := crash = "" && races = 0 && (countsOk || !covered)
  let fail :=
    if si then ""
    else if races ≠ 0 then s!"data race in repository code ({races}): {raceSites.eraseDups}"
    else if crash ≠ "" then s!"contract-event collector crashed while the summary reads it: {crash} at {(strF impl "crash_at").toOption.getD ""}"
    else s!"merged check record is wrong: {ids} upkeeps with {minLen}..{maxLen} blocks each (duplicates: {dup}) instead of {nUp} with {nBlock}"
  pure { agree := si, specModel := true, specImpl := si, fail := fail,
         diff := if si then "" else s!"collector: ids={ids} len={minLen}..{maxLen} dup={dup} done={done} crash={crash} races={races}",
         nontrivial := covered,
         tags := ["collector", s!"nodes={nodes}"] ++ (if (boolF impl "race_build").toOption.getD false then ["race-build"] else []),
         key := s!"collector:{nodes}:{nUp}:{nBlock}:{rounds}" }

/-! ### "pipeline" -/

structure PipeUp where
  log : Bool
  always : Bool
  eligibleAt : List Int
  createAt : Int

def handlePipeline (input impl : Json) : R Reply := do
  let pj ← field input "pipeline"
  let nodes ← natF pj "nodes"
  let ups ← listF (fun j => do
      let isLog ← boolF j "log"
      let alw ← boolF j "always"
      let el ← listF asInt j "eligible_at"
      let cr ← intF j "create_at"
      pure (PipeUp.mk isLog alw el cr)) pj "upkeeps"
  let performs ← listFD (fun j => do pure ((← intF j "block"), (← natF j "upkeep"))) pj "performs"
  let batches ← listFD (fun j => do
      pure ((← intF j "at"), (← listF (fun q => do pure ((← natF q "upkeep"), (← intF q "block"))) j "payloads"))) pj "batches"
  let concurrent := (boolF pj "concurrent_checks").toOption.getD false
  let err ← strF impl "err"
  let crash := (strF impl "crash").toOption.getD ""
  let races := (natF impl "races").toOption.getD 0
  let raceSites := (listF asStr impl "race_sites").toOption.getD []
  let mutated ← natF impl "mutated"
  let handed ← natF impl "handed"
  let mutatedAt := (strF impl "mutated_at").toOption.getD ""
  let results ← listF (fun j => do
      pure ((← natF j "batch"), (← natF j "node"), (← intF j "idx"), (← intF j "upkeep"), (← intF j "block"), (← boolF j "eligible"),
            (← boolF j "same_work"), (← boolF j "recorded"), (← boolF j "logged"), (strF j "err").toOption.getD "")) impl "results"
  let history ← listF (fun j => do pure ((← natF j "node"), (← natF j "upkeep"), (← listF asInt j "final"))) impl "history"
  -- model: what each node must answer for payload i of batch k
  let histOf (u : Nat) (upTo : Int) : List Int :=
    performHistory (((performs.filter fun p => p.2 = u && decide (p.1 ≤ upTo)).map (·.1)).mergeSort (fun a b => decide (a ≤ b)))
  let wantOf (atB : Int) (p : Nat × Int) : Bool :=
    match ups[p.1]? with
    | none => false
    | some u => checkEligible (if decide (u.createAt ≤ atB) then some ⟨!u.log, u.always, u.eligibleAt⟩ else none) (histOf p.1 atB) p.2
  let expected : List (Nat × Nat × Int × Int × Int × Bool) :=
    ((List.range batches.length).zip batches).flatMap fun (k, (atB, ps)) =>
      (List.range nodes).flatMap fun n =>
        ((List.range ps.length).zip ps).map fun (i, p) => (k, n, (i : Int), (p.1 : Int), p.2, wantOf atB p)
  let got : List (Nat × Nat × Int × Int × Int × Bool) := results.map fun (k, n, i, u, b, e, _, _, _, _) => (k, n, i, u, b, e)
  let lastBlock : Int := 1000000
  let wantHist : List (Nat × Nat × List Int) :=
    (List.range nodes).flatMap fun n => ((List.range ups.length).zip ups).filterMap fun (u, pu) =>
      if pu.log then none else some (n, u, histOf u lastBlock)
  let callErrs := results.filter fun r => r.2.2.2.2.2.2.2.2.2 ≠ ""
  let sameResults := decide (got = expected)
  let sameHist := decide (history = wantHist)
  let agree := err = "" && crash = "" && callErrs.isEmpty && (concurrent || sameResults) && sameHist
  -- Ω: the per-node half of the f+1-checks clause, and no handed-out history rewritten
  let unrecorded := results.filter fun (_, _, i, _, _, _, sw, rec, lg, _) => decide (i ≥ 0) && !(sw && rec && lg)
  let si := err = "" && crash = "" && races = 0 && callErrs.isEmpty && unrecorded.isEmpty && mutated = 0
  let fail :=
    if si then ""
    else if races ≠ 0 then s!"data race in repository code ({races}): {raceSites.eraseDups}"
    else if crash ≠ "" then s!"chain components crashed: {crash}"
    else if err ≠ "" then s!"scenario failed: {err}"
    else if !callErrs.isEmpty then s!"CheckUpkeeps failed or did not return one result per payload: {(callErrs.head?.map (·.2.2.2.2.2.2.2.2.2)).getD ""}"
    else if mutated ≠ 0 then s!"a perform history handed out by PerformsForUpkeepID was rewritten afterwards ({mutated} of {handed} retained slices; the check pipeline reads them without the tracker's lock): {mutatedAt}"
    else match unrecorded.head? with
      | some (k, n, i, u, b, _, sw, rec, lg, _) =>
        s!"a node returned a check result for a check block at which its own record has no check of that upkeep (batch {k} node {n} payload {i}: upkeep {u} check block +{b}; collector entry {rec}, contract-log line {lg}, work id kept {sw}): the f+1-checks clause rests on these records"
      | none => "?"
  let maxPerf := ((List.range ups.length).map fun u => (performs.filter fun p => p.2 = u).length).foldl max 0
  let dupDiff := batches.any fun (_, ps) => ps.any fun p => ps.any fun q => decide (p.1 = q.1) && decide (p.2 ≠ q.2)
  let dupSame := batches.any fun (_, ps) => decide ((ps.filter fun p => (ps.filter (· == p)).length ≥ 2).length > 0)
  pure { agree := agree, specModel := true, specImpl := si, fail := fail,
         diff := if agree then "" else s!"pipeline: err={err} crash={crash} results_equal={sameResults} history_equal={sameHist} model_history={wantHist.head?.map (·.2.2)} impl_history={history.head?.map (·.2.2)} first_diff={(got.zip expected).find? (fun (a, b) => a ≠ b)}",
         nontrivial := decide (batches.length ≥ 1),
         tags := ["pipeline", s!"nodes={nodes}"] ++ (if decide (maxPerf > 33) then ["upkeep-performed>33"] else []) ++
           (if dupDiff then ["one-upkeep-two-check-blocks"] else []) ++ (if dupSame then ["same-payload-twice"] else []) ++
           (if concurrent then ["concurrent-checks"] else []) ++
           (if (boolF impl "race_build").toOption.getD false then ["race-build"] else []) }

/-! ### "db" -/

def handleDB (input impl : Json) : R Reply := do
  let part ← strF input "part"
  let nodes ← natF input "nodes"
  let rounds ← natF input "rounds"
  let crash := (strF impl "crash").toOption.getD ""
  let races ← natF impl "races"
  let raceSites := (listF asStr impl "race_sites").toOption.getD []
  let calls ← natF impl "calls"
  let errors ← natF impl "errors"
  let badReads ← natF impl "bad_reads"
  let finalOk ← boolF impl "final_ok"
  let done ← boolF impl "done"
  -- every call is one critical section: nodes × rounds state calls (+ the config calls of every 16th round)
  let wantCalls := if part = "ocr3" then nodes * (2 * rounds + 2 * ((rounds + 15) / 16)) else nodes * rounds
  let countsOk := done && calls = wantCalls && errors = 0 && badReads = 0 && finalOk
  let si := crash = "" && races = 0 && countsOk
  let what := if part = "ocr3" then "simulated OCR3 database" else "simulated upkeep-state database"
  let fail :=
    if si then ""
    else if races ≠ 0 then s!"data race in repository code ({races}): {raceSites.eraseDups}"
    else if crash ≠ "" then s!"{what} crashed under concurrent callers: {crash} at {(strF impl "crash_at").toOption.getD ""}"
    else s!"{what} lost or corrupted a value under concurrent callers: calls {calls} of {wantCalls}, errors {errors}, reads of values nobody wrote {badReads}, final state ok {finalOk}"
  pure { agree := si, specModel := true, specImpl := si, fail := fail,
         diff := if si then "" else s!"db {part}: calls={calls}/{wantCalls} errors={errors} bad_reads={badReads} final_ok={finalOk} done={done} crash={crash} races={races}",
         nontrivial := decide (nodes ≥ 2 ∧ rounds ≥ 1),
         tags := ["db", s!"part={part}"] ++ (if (boolF impl "race_build").toOption.getD false then ["race-build"] else []),
         key := s!"db:{part}:{nodes}:{rounds}" }

/-! ### "transmit" -/

def handleTransmit (input impl : Json) : R Reply := do
  let rounds ← natF input "rounds"
  let k ← natF input "k"
  let per ← natF input "per_report"
  -- model: in every round the k nodes submit the same key; whatever the order, one is accepted
  let keysOfRound (r : Nat) : List String := List.replicate k s!"round{r}"
  let modelAccepted := ((List.range (min rounds 50)).map fun r => (accepted (keysOfRound r)).length).sum
  let crash := (strF impl "crash").toOption.getD ""
  let races ← natF impl "races"
  let raceSites := (listF asStr impl "race_sites").toOption.getD []
  let acc ← natF impl "accepted_total"
  let multi ← natF impl "multi_rounds"
  let zeroR ← natF impl "zero_rounds"
  let loaded ← natF impl "loaded"
  let incs ← natF impl "increments"
  let results ← natF impl "results"
  let done ← natF impl "rounds_done"
  let sm := decide (modelAccepted = min rounds 50) || k = 0
  let countsOk := done = rounds && acc = rounds && multi = 0 && zeroR = 0 && loaded = rounds &&
    incs = rounds * per && results = rounds
  let si := crash = "" && races = 0 && countsOk
  let fail :=
    if si then ""
    else if races ≠ 0 then s!"data race in repository code ({races}): {raceSites.eraseDups}"
    else if crash ≠ "" then s!"transmit loader crashed under concurrent Transmit: {crash} at {(strF impl "crash_at").toOption.getD ""}"
    else if multi ≠ 0 || decide (loaded > rounds) || decide (incs > rounds * per) then
      s!"the same (report, round) accepted more than once ({multi} of {rounds} rounds): {loaded} transmits loaded and perform counter {incs} instead of {rounds} and {rounds * per}"
    else s!"a (report, round) was not accepted or not counted exactly once: accepted {acc}, loaded {loaded}, perform counter {incs}, results {results}, rounds done {done} of {rounds}"
  pure { agree := si, specModel := sm, specImpl := si,
         diff := if si then "" else s!"model: 1 accepted per round; impl accepted={acc} multi={multi} zero={zeroR} loaded={loaded} increments={incs} crash={crash}",
         fail := fail, nontrivial := decide (k ≥ 2 ∧ rounds ≥ 1),
         tags := ["transmit", s!"k={k}"] ++ (if (boolF impl "race_build").toOption.getD false then ["race-build"] else []),
         key := s!"transmit:{rounds}:{k}:{per}" }

/-! ### "churn" -/

def handleChurn (input impl : Json) : R Reply := do
  let c ← field input "churn"
  let mode ← strF c "mode"
  let workers ← natF c "workers"
  let instances ← natF c "instances"
  let slow ← natF c "slow"
  let want := workers * instances
  let crash := (strF impl "crash").toOption.getD ""
  let crashAt := (strF impl "crash_at").toOption.getD ""
  let races ← natF impl "races"
  let raceSites := (listF asStr impl "race_sites").toOption.getD []
  let stage := (strF impl "stage").toOption.getD ""
  let obs : ChurnObs := {
    attached := ← natF impl "attached", detached := ← natF impl "detached", saw := ← natF impl "saw",
    badOrder := ← natF impl "bad_order", notClosed := ← natF impl "not_closed", errors := ← natF impl "errors",
    afterOk := ← boolF impl "after_ok", done := ← boolF impl "done" }
  -- the model on the schedule the case aims at (capped): every instance asks to leave while a broadcast is under way
  let sched := churnSchedule (min slow 4) (min want 40)
  let m := Hub.run true sched
  let sm := m.crashFree && m.delivered == (min want 40) * (min slow 4 + 1) && m.chans.length == min slow 4
  let si := crash = "" && races = 0 && churnOk want obs
  let hang := (stage.splitOn "hang").length > 1
  let fail :=
    if si then ""
    else if races ≠ 0 then s!"data race in repository code ({races}): {raceSites.eraseDups}"
    else if crash ≠ "" then
      s!"simulation crashed: {crash} at {crashAt} — a node's block source died while subscribers (plugin instances) were coming and going ({obs.detached} of {want} had come and gone, mode {mode}, {slow} slow subscriber(s)): no summary, no verdict"
    else if hang then s!"the block source hangs ({stage}; {obs.detached} of {want} instances had come and gone): no summary, no verdict"
    else if !obs.done then s!"the churn did not finish (stage {stage})"
    else if obs.attached ≠ want || obs.detached ≠ want || obs.errors ≠ 0 then
      s!"{obs.attached} attached / {obs.detached} detached of {want} instances, {obs.errors} Subscribe/Unsubscribe error(s)"
    else if obs.badOrder ≠ 0 then s!"{obs.badOrder} block histories were not newest first"
    else if obs.notClosed ≠ 0 then s!"{obs.notClosed} channels were not closed by Unsubscribe"
    else if !obs.afterOk then "after the churn the block source no longer serves a fresh subscriber (chain head does not advance)"
    else "no instance received a block history while it was attached"
  pure { agree := si, specModel := sm, specImpl := si, fail := fail,
         diff := if si then "" else s!"churn {mode}: attached={obs.attached} detached={obs.detached} of {want} saw={obs.saw} bad_order={obs.badOrder} not_closed={obs.notClosed} errors={obs.errors} after_ok={obs.afterOk} done={obs.done} stage={stage} crash={crash} races={races}",
         nontrivial := decide (workers ≥ 2 ∧ instances ≥ 1),
         tags := ["churn", s!"mode={mode}", if slow > 0 then "slow-subscribers" else "no-slow-subscriber"] ++
           (if decide (obs.saw * 2 ≥ want) then ["most-instances-served"] else []) ++
           (if (boolF impl "race_build").toOption.getD false then ["race-build"] else []) ++
           (if crash ≠ "" then ["crash"] else []),
         key := s!"churn:{mode}:{workers}:{instances}:{slow}:{(natF c "cadence_us").toOption.getD 0}" }

def handle (input impl : Json) : R Reply := do
  match ← strF input "kind" with
  | "plan" => handlePlan input impl
  | "expect" => handleExpect input impl
  | "stats" => handleStats input impl
  | "track" => handleTrack input impl
  | "sim" => handleSim input impl
  | "transmit" => handleTransmit input impl
  | "perform" => handlePerform input impl
  | "resave" => handleResave input impl
  | "collector" => handleCollector input impl
  | "db" => handleDB input impl
  | "churn" => handleChurn input impl
  | "pipeline" => handlePipeline input impl
  | k => throw s!"unknown C20 case kind {k}"

end AutoVerif.C20
