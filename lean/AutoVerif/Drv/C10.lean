import Std.Data.HashSet
import AutoVerif.Drv.Codec
import AutoVerif.Spec.C10
import AutoVerif.Gen.Consts
/-
Driver for C10.  Replays the recorded history on the model (`Model/C10`),
compares every `View` of the implementation with the model's as a multiset
(the model's views carry each work id once, so this is set equality keyed by
work id), and evaluates `Spec/C10.spec` on the implementation's views with
respect to the recorded history.

The GC goroutine is part of the history: `gc` events at `start + k·gcInterval`
(extracted constant; by `gc_transparent` they cannot change any view), a tick
due at the instant of an operation first (the harness calls `synctest.Wait()`
before every operation).  `now` of an operation is the sum of the sleeps; it is
checked against the clock reading the harness recorded.

Concurrent bursts: calls carry invocation/response stamps.  `search` is an
exact depth-first search for a linearization (a total order extending
"responded before invoked" in which every view equals the model's), memoised on
(set of linearized calls, model state), bounded by `budget` expanded nodes.
Budget exhausted ⇒ the case is reported inconclusive (tag
`lin-budget-exhausted`, not counted as coverage, per-view invariants only).

Not part of any theorem; trusted correspondence machinery.  It uses the same
`add`/`remove`/`postProcess`/`runHook`/`gc`/`view` the theorems are about.
-/
open Lean AutoVerif.Codec
namespace AutoVerif.C10

/-- simple operation as the harness issued it -/
structure SOp where
  k   : String
  rs  : List Nat
  ids : List String
  ctx : String := ""     -- padd: context handed to PostProcess (not an input of the model)
  n   : Nat := 0         -- padd/cancel: context ended after the n-th Add of the batch
  delay : Nat := 0       -- flow: the check pipeline answers after `delay` ns

structure Op where
  sop : SOp
  dt  : Nat
  th  : List (List SOp)

def sopOf (j : Json) : R SOp := do
  pure { k := ← strF j "k", rs := ← listOf asNat (fieldD j "rs" .null),
         ids := ← listOf asStr (fieldD j "ids" .null),
         ctx := ← asStr (fieldD j "ctx" (.str "")), n := ← asNat (fieldD j "n" (.num 0)),
         delay := ← asNat (fieldD j "delay" (.num 0)) }

def opOf (j : Json) : R Op := do
  pure { sop := ← sopOf j, dt := ← asNat (fieldD j "dt" (.num 0)),
         th := ← listOf (listOf sopOf) (fieldD j "th" .null) }

/-- one atomic call of the history -/
structure Call where
  inv   : Nat
  res   : Nat
  now   : Nat
  apply : Store → Store            -- state change, by the model's list-level functions
  evs   : List Ev                  -- the same as atomic events (for the Spec trace)
  out   : Option (List CheckResult)  -- `some` = this is a View call and this is what it returned
  label : String
  agreed : List CheckResult := []  -- hook: the agreed performables of the outcome (coverage tags only)
  uid   : Nat := 0                 -- identity within the history
  pred  : Option Nat := none       -- `uid` of a call that must be linearized first (program order inside one
                                   -- PostProcess: one `Add` call — one critical section — per eligible result)

instance : Inhabited Call := ⟨{ inv := 0, res := 0, now := 0, apply := id, evs := [], out := none, label := "" }⟩

def pick (tab : Array CheckResult) (ix : List Nat) : R (List CheckResult) :=
  ix.mapM fun i => match tab[i]? with
    | some r => pure r
    | none => throw s!"result index {i} out of range"

def viewOf (tab : Array CheckResult) (j : Json) : R (List CheckResult) := do
  let a ← pick tab (← listOf asNat (fieldD j "ix" .null))
  let b ← listOf checkResult (fieldD j "foreign" .null)
  pure (a ++ b)

def eligibleB (r : CheckResult) : Bool := decide (r.pes = 0) && r.eligible

def mkCall (ttl : Nat) (tab : Array CheckResult) (o : SOp) (now inv res : Nat) (view : Json) (label : String) : R Call := do
  let base : Call := { inv, res, now, apply := id, evs := [], out := none, label }
  match o.k with
  | "add" =>
    let rs ← pick tab o.rs
    pure { base with apply := fun s => add ttl now s rs, evs := rs.map (Ev.add now) }
  | "padd" =>
    let rs ← pick tab o.rs
    pure { base with apply := fun s => postProcess ttl now s rs, evs := (rs.filter eligibleB).map (Ev.add now) }
  | "flow" =>
    -- `now` is already the instant at which the check pipeline answered (see `build`)
    let rs ← pick tab o.rs
    pure { base with apply := fun s => observerProcess ttl (now - o.delay) o.delay s rs,
                     evs := (rs.filter eligibleB).map (Ev.add now) }
  | "rm" => pure { base with apply := fun s => remove s o.ids, evs := o.ids.map (Ev.remove now) }
  | "hook" =>
    let rs ← pick tab o.rs
    pure { base with apply := fun s => runHook s rs, evs := rs.map (fun r => Ev.remove now r.workID), agreed := rs }
  | "view" => pure { base with out := some (← viewOf tab view) }
  | k => throw s!"unknown op {k}"

def gcCall (ttl t stamp : Nat) : Call :=
  { inv := stamp, res := stamp + 1, now := t, apply := gc ttl t, evs := [.gc t], out := none, label := s!"gc@{t}" }

/-- ticks `start + k·gci` (k ≥ 1) in `(after, upto]`, or from the first tick when `after = none` -/
def ticks (start gci : Nat) (fromK upto : Nat) (fuel : Nat) : List Nat × Nat :=
  match fuel with
  | 0 => ([], fromK)
  | fuel + 1 =>
    let t := start + fromK * gci
    if t ≤ upto then
      let (l, k) := ticks start gci (fromK + 1) upto fuel
      (t :: l, k)
    else ([], fromK)

structure Built where
  calls     : Array Call
  hasBurst  : Bool
  clockDiff : String
  onTick    : Bool

/-- calls of the whole history in main-sequence order with fresh stamps -/
def build (ttl gci start : Nat) (tab : Array CheckResult) (ops : List Op) (impl : List Json) : R Built := do
  if ops.length ≠ impl.length then throw s!"{ops.length} ops but {impl.length} results"
  let mut calls : Array Call := #[]
  let mut now := start
  let mut stamp := 0
  let mut nextK := 1
  let mut hasBurst := false
  let mut clockDiff := ""
  let mut onTick := false
  let mut uid := 0
  for (o, j) in ops.zip impl do
    now := now + o.dt
    let ranAt ← natF j "at"
    if ranAt ≠ now ∧ clockDiff = "" then clockDiff := s!"clock: operation expected at {now} ns ran at {ranAt} ns"
    let err ← asStr (fieldD j "err" (.str ""))
    if err ≠ "" ∧ clockDiff = "" then clockDiff := s!"operation {o.sop.k} at {now} ns: {err}"
    -- the instant of the call's effect.  A flow call lasts `delay`: its adds happen when the check pipeline answers.
    -- A node-level `stage` lasts `delay` (one interval of the log flow's ticker): its adds happen at the tick in
    -- between, whose instant the harness observed at the log provider (`addAt`).
    let mut callAt := now + o.sop.delay
    if o.sop.k == "stage" ∧ !o.sop.rs.isEmpty then
      let addAt ← asNat (fieldD j "addAt" (.num 0))
      if now < addAt ∧ addAt ≤ now + o.sop.delay then callAt := addAt
      else if clockDiff = "" then
        clockDiff := s!"stage at {now} ns: the log flow took the payloads at {addAt} ns, not within the next {o.sop.delay} ns"
    let (tk, k') := ticks start gci nextK callAt 100000
    nextK := k'
    for t in tk do
      calls := calls.push (gcCall ttl t stamp)
      stamp := stamp + 2
      if t = callAt then onTick := true
    if o.sop.k == "burst" then
      hasBurst := true
      let binv ← natF j "inv"
      let bres ← natF j "res"
      let cs ← asList (fieldD j "calls" .null)
      let want := (o.th.map (·.length)).sum
      if cs.length ≠ want then throw s!"burst: {want} calls issued, {cs.length} recorded"
      for c in cs do
        let th ← natF c "th"
        let ix ← natF c "ix"
        let so ← match (o.th[th]?).bind (·[ix]?) with
          | some so => pure so
          | none => throw s!"burst: no op {th}/{ix}"
        let ci ← natF c "inv"
        let cr ← natF c "res"
        if ¬ (binv < ci ∧ ci < cr ∧ cr < bres) then throw s!"burst: stamps out of range"
        let elig := if so.k == "padd" then so.rs.filter (fun i => match tab[i]? with | some r => eligibleB r | none => true) else []
        if so.k == "padd" ∧ elig.length ≥ 2 then
          -- PostProcess is not one critical section: other goroutines may run between its Adds
          let mut prev : Option Nat := none
          for i in elig do
            uid := uid + 1
            let c1 ← mkCall ttl tab { so with rs := [i] } callAt (stamp + (ci - binv)) (stamp + (cr - binv)) .null s!"g{th}.{ix}:padd[{i}]"
            calls := calls.push { c1 with uid := uid, pred := prev }
            prev := some uid
        else
          uid := uid + 1
          let c1 ← mkCall ttl tab so callAt (stamp + (ci - binv)) (stamp + (cr - binv)) (fieldD c "view" .null) s!"g{th}.{ix}:{so.k}"
          calls := calls.push { c1 with uid := uid }
      stamp := stamp + (bres - binv) + 1
    else if o.sop.k == "obs" then
      -- Observation(seqNr, previous outcome): RemoveFromStagingHook on the outcome's agreed performables, then the
      -- store's view (through AddFromStagingHook, below the performables limit, nothing in flight) as the observation's
      -- performables.  ctx "first": no previous outcome.
      if o.sop.ctx != "first" then
        uid := uid + 1
        let c1 ← mkCall ttl tab { o.sop with k := "hook" } callAt stamp (stamp + 1) .null "obs:hook"
        calls := calls.push { c1 with uid := uid }
        stamp := stamp + 2
      uid := uid + 1
      let c2 ← mkCall ttl tab { o.sop with k := "view" } callAt stamp (stamp + 1) (fieldD j "view" .null) "obs:view"
      calls := calls.push { c2 with uid := uid }
      stamp := stamp + 2
    else
      uid := uid + 1
      let so := if o.sop.k == "stage" then { o.sop with k := "padd" } else o.sop
      let c1 ← mkCall ttl tab so callAt stamp (stamp + 1) (fieldD j "view" .null) o.sop.k
      calls := calls.push { c1 with uid := uid }
      stamp := stamp + 2
    now := now + o.sop.delay
  pure { calls := calls.qsort (fun a b => a.inv < b.inv), hasBurst, clockDiff, onTick }

/-- `some s'` if the call can be linearized next from `s` -/
def fire (ttl : Nat) (s : Store) (c : Call) : Option Store :=
  match c.out with
  | some out => if out.isPerm (view ttl c.now s) then some s else none
  | none => some (c.apply s)

/-- the call as trace events (views carry the implementation's output) -/
def Call.trace (c : Call) : List Ev :=
  match c.out with
  | some out => [.view c.now out]
  | none => c.evs

/-- short rendering for diffs: work id prefix, check block, perform data -/
def showRes (r : CheckResult) : String := s!"{(r.workID.take 8).toString}@{blk r}#{r.performData}"

def showView (l : List CheckResult) : String :=
  toString ((l.map showRes).toArray.qsort (· < ·)).toList

/-! ### sequential histories -/

def firstMismatch (ttl : Nat) : Store → List Call → Nat → Option String
  | _, [], _ => none
  | s, c :: rest, i =>
    match c.out with
    | some out =>
      if out.isPerm (view ttl c.now s) then firstMismatch ttl s rest (i + 1)
      else some s!"call {i} ({c.label}) at {c.now} ns: model view {showView (view ttl c.now s)} impl view {showView out}"
    | none => firstMismatch ttl (c.apply s) rest (i + 1)

/-! ### linearizability search -/

def stateKey (tab : Array CheckResult) (s : Store) : String :=
  let ents := s.map fun p =>
    let ix := match tab.findIdx? (· == p.2.data) with
      | some i => toString i
      | none => "?" ++ showResult p.2.data ++ p.2.data.performData
    s!"{p.1}:{ix}@{p.2.addedAt}"
  toString (ents.toArray.qsort (· < ·)).toList

/-- indices of the calls that may be linearized next: not done, and no other pending call
responded before their invocation.  `calls` is sorted by `inv`. -/
def predIdx (calls : Array Call) : Array (Option Nat) :=
  calls.map fun c => c.pred.bind fun u => calls.findIdx? (·.uid == u)

def candidates (calls : Array Call) (preds : Array (Option Nat)) (done : Nat) : List Nat := Id.run do
  let mut minRes : Option Nat := none
  let mut out : List Nat := []
  for i in [0:calls.size] do
    if !done.testBit i then
      let c := calls[i]!
      match minRes with
      | some m => if m < c.inv then break
      | none => pure ()
      let ready := match preds[i]! with
        | some j => done.testBit j
        | none => true
      if ready then out := i :: out
      minRes := match minRes with
        | some m => some (min m c.res)
        | none => some c.res
  return out.reverse

structure Node where
  done  : Nat
  count : Nat
  s     : Store
  path  : List Nat      -- reversed

inductive Verdict where
  | found (path : List Nat) (expanded : Nat)
  | none (deepest : Nat) (why : String) (expanded : Nat)
  | budget (expanded : Nat)

def search (ttl : Nat) (tab : Array CheckResult) (calls : Array Call) (preds : Array (Option Nat)) :
    Nat → List Node → Std.HashSet String → Nat → String → Nat → Verdict
  | 0, _, _, _, _, ex => .budget ex
  | _ + 1, [], _, deepest, why, ex => .none deepest why ex
  | fuel + 1, n :: stack, seen, deepest, why, ex =>
    if n.count = calls.size then .found n.path.reverse ex
    else
      let key := s!"{n.done}|{stateKey tab n.s}"
      if seen.contains key then search ttl tab calls preds fuel stack seen deepest why ex
      else
        let cands := candidates calls preds n.done
        let succ := cands.filterMap fun i =>
          (fire ttl n.s calls[i]!).map fun s' =>
            ({ done := n.done ||| (1 <<< i), count := n.count + 1, s := s', path := i :: n.path } : Node)
        let (deepest', why') :=
          if succ.isEmpty ∧ n.count ≥ deepest then
            let blocked := cands.map fun i =>
              let c := calls[i]!
              s!"{c.label} returned {showView (c.out.getD [])}"
            (n.count, s!"after {n.count} of {calls.size} calls the model views {showView (match cands with
               | i :: _ => view ttl calls[i]!.now n.s
               | [] => [])} but every pending view differs: {blocked}")
          else (deepest, why)
        search ttl tab calls preds fuel (succ ++ stack) (seen.insert key) deepest' why' (ex + 1)

def budget : Nat := 200000

/-- order-free checks on a view of a concurrent run (used when the search is inconclusive) -/
def viewLocalOk (calls : Array Call) (c : Call) : Bool :=
  match c.out with
  | none => true
  | some out =>
    viewNodup out &&
    out.all fun r => calls.any fun a => decide (a.inv < c.res) && a.evs.any fun e => addTime r e != none

/-! ### coverage tags (model replay along the chosen order) -/

def tagsOf (ttl : Nat) : Store → List Ev → List String → List String
  | _, [], acc => acc
  | s, e :: rest, acc =>
    let acc' : List String :=
      match e with
      | .add t r =>
        match get s r.workID with
        | none => "add-new" :: acc
        | some v =>
          (if blk v.data + 2^63 ≤ blk r ∨ blk r + 2^63 ≤ blk v.data then ["blocks-2^63-apart"] else []) ++
          if expired ttl t v then
            -- the situation efb208c repaired: a dead, uncollected entry; lower-or-equal blocks used to be dropped
            (if blk v.data < blk r then "replace-dead" else "dead-entry-overridden") :: acc
          else if blk v.data < blk r then "replace-higher" :: acc
          else if blk v.data = blk r then "reject-equal" :: acc
          else "reject-lower" :: acc
      | .remove t id =>
        match get s id with
        | none => "remove-miss" :: acc
        | some v => (if expired ttl t v then "remove-dead" else "remove-hit") :: acc
      | .gc t =>
        (if s.any (fun p => expired ttl t p.2) then ["gc-collects"] else []) ++
        (if s.any (fun p => decide (t - p.2.addedAt = ttl)) then ["gc-age=ttl"] else []) ++
        (if s.any (fun p => decide (t - p.2.addedAt = ttl + 1)) then ["gc-age=ttl+1"] else []) ++
        (if (s.filter (fun p => !expired ttl t p.2)).length > 2000 then ["gc-with>2000-live"] else []) ++ acc
      | .view t out =>
        (if s.any (fun p => expired ttl t p.2) then ["view-hides-dead"] else []) ++
        (if s.any (fun p => decide (t - p.2.addedAt = ttl)) then ["age=ttl"] else []) ++
        (if s.any (fun p => decide (t - p.2.addedAt = ttl + 1)) then ["age=ttl+1"] else []) ++
        (if s.any (fun p => decide (t - p.2.addedAt + 1 = ttl)) then ["age=ttl-1"] else []) ++
        (if out.length > 2000 then ["view>2000"] else []) ++
        (if out.length ≥ 2 then ["view-multi"] else if out.length = 1 then ["view-single"] else ["view-empty"]) ++ acc
    tagsOf ttl (step ttl s e) rest acc'

/-- what the outcomes of a history did, along the chosen order: how many LIVE staged results of ONE upkeep a single
outcome took out (several logs of a log-trigger upkeep agreed in the same round) -/
def hookTags (ttl : Nat) : Store → List Call → List String → List String
  | _, [], acc => acc
  | s, c :: rest, acc =>
    let acc' :=
      if c.agreed.isEmpty then acc
      else
        let hit := c.agreed.filter fun r => match get s r.workID with
          | some v => !expired ttl c.now v
          | none => false
        let pairs := (hit.map fun r => (r.upkeepID, r.workID)).eraseDups
        let most := (pairs.map fun p => (pairs.filter (·.1 == p.1)).length).foldl max 0
        let upk := (pairs.map (·.1)).eraseDups.length
        (if most ≥ 2 then ["hook-removes-several-of-one-upkeep"] else []) ++
        (if most ≥ 3 then ["hook-removes>=3-of-one-upkeep"] else []) ++
        (if most ≥ 10 then ["hook-removes-10-of-one-upkeep"] else []) ++
        (if most ≥ 2 ∧ upk ≥ 2 then ["hook-several-of-one-upkeep-mixed-with-others"] else []) ++
        (if hit.length < c.agreed.length then ["hook-with-unstaged-result"] else []) ++ acc
    hookTags ttl (match c.out with | some _ => s | none => c.apply s) rest acc'

def overlaps (calls : Array Call) : Bool :=
  calls.any fun a => calls.any fun b =>
    decide (a.inv < b.inv) && decide (b.inv < a.res)

def decisive : List String :=
  ["replace-higher", "replace-dead", "dead-entry-overridden", "reject-equal", "reject-lower", "remove-hit",
   "gc-collects", "view-hides-dead"]

/-- the GC-vs-Add stress: no history; the model's collector is atomic, so it predicts `lost = 0` -/
def handleRace (impl : Json) : R Reply := do
  let trials ← natF impl "trials"
  let lost ← natF impl "lost"
  let lostResults ← natF impl "lostResults"
  let onTick ← natF impl "onTick"
  let ok := lost == 0
  pure { agree := ok, specModel := true, specImpl := ok,
         diff := if ok then "" else s!"{lost} of {trials} collector ticks lost {lostResults} fresh result(s); the atomic gc of the model loses none",
         fail := if ok then "" else "store: a fresh result added while the garbage collector ran was deleted (scan/evict race)",
         nontrivial := trials > 0 && onTick == trials,
         tags := ["gc-race"] ++ (if onTick == trials then ["gc-race-on-tick"] else ["gc-race-off-tick"]) }

def handle (input impl : Json) : R Reply := do
  if fieldD input "kind" .null == Json.str "gc-race" then return ← handleRace impl
  let ttl ← natF input "ttl"
  -- since efb208c the collector cannot be observed through Add/Remove/View (`gc_transparent`), so the
  -- harness cannot measure its interval; the model's ticks use the constant extracted from the source
  let gci := Gen.gcIntervalNs
  if gci = 0 then throw "gcInterval = 0"
  let startDt ← natF input "startDt"
  let tab := (← listF checkResult input "res").toArray
  let ops ← listF opOf input "ops"
  let start ← natF impl "start"
  let b ← build ttl gci startDt tab ops (← asList (← field impl "ops"))
  let calls := b.calls
  -- the harness measured ttl / gci on the running code; the extractor read them from the source
  let constDiff :=
    (if ttl ≠ Gen.storeTTLNs then s!"observed ttl {ttl} ns, extracted storeTTL {Gen.storeTTLNs} ns; " else "") ++
    (if start ≠ startDt then s!"clock: Start expected at {startDt} ns ran at {start} ns; " else "") ++ b.clockDiff
  let mk (agree : Bool) (diff : String) (order : List Call) (specImplOverride : Option (Bool × String))
      (extra : List String) (inconclusive : Bool) : Reply :=
    let trace := order.flatMap Call.trace
    let plain := order.flatMap fun c => match c.out with
      | some _ => [Ev.view c.now []]
      | none => c.evs
    let mtrace := modelTrace ttl [] plain
    let sm := spec ttl mtrace && monoB mtrace
    let (si, fail) := match specImplOverride with
      | some p => p
      | none => let ok := spec ttl trace; (ok, if ok then "" else explain ttl trace)
    let allS := ops.flatMap (fun o => o.sop :: o.th.flatten)
    let nElig (o : SOp) : Nat := (o.rs.filter (fun i => match tab[i]? with | some r => eligibleB r | none => false)).length
    let opTags :=
      (if allS.any (fun o => o.k == "padd" && o.ctx == "done") then ["pp-ctx-done"] else []) ++
      (if allS.any (fun o => o.k == "padd" && o.ctx == "expired") then ["pp-ctx-expired"] else []) ++
      (if allS.any (fun o => o.k == "padd" && o.ctx == "cancel" && decide (o.n < nElig o)) then ["pp-ctx-ends-mid-batch"] else []) ++
      (if allS.any (fun o => (o.k == "padd" || o.k == "flow") &&
          o.rs.any (fun i => match tab[i]? with | some r => eligibleB r && r.retryable | none => false))
        then ["pp-eligible-retryable"] else []) ++
      (if allS.any (fun o => (o.k == "padd" || o.k == "flow") &&
          o.rs.any (fun i => match tab[i]? with | some r => eligibleB r && decide (r.reason ≠ 0) | none => false))
        then ["pp-eligible-with-reason"] else []) ++
      (if allS.any (fun o => o.k == "flow") then ["flow"] else []) ++
      (if allS.any (fun o => o.k == "flow" && decide (o.delay > Gen.observationProcessLimitNs) && decide (nElig o > 0))
        then ["flow-answers-after-limit"] else [])
    let tags := (tagsOf ttl [] mtrace []).eraseDups ++ extra ++ opTags ++ (hookTags ttl [] order []).eraseDups ++
      (if fieldD input "kind" .null == Json.str "node" then ["node"] else []) ++
      (if allS.any (fun o => o.k == "obs" && o.ctx == "first") then ["node-obs-without-outcome"] else []) ++
      (if b.onTick then ["op-on-gc-tick"] else []) ++
      (if !handedStrict ttl mtrace then ["dominated-then-expired"] else [])
    let agree' := agree && constDiff.isEmpty
    { agree := agree', specModel := sm, specImpl := si,
      diff := if agree' then "" else ((constDiff ++ diff).take 1500).toString,
      fail := fail,
      nontrivial := !inconclusive && tags.any (fun t => t == "view-single" || t == "view-multi") && tags.any (decisive.contains ·),
      tags := tags }
  if !b.hasBurst then
    let order := calls.toList
    match firstMismatch ttl [] order 0 with
    | none => pure (mk true "" order none [] false)
    | some d => pure (mk false d order none [] false)
  else
    let extra := ["burst"] ++ (if overlaps calls then ["overlap"] else [])
    let root : Node := { done := 0, count := 0, s := [], path := [] }
    match search ttl tab calls (predIdx calls) budget [root] {} 0 "" 0 with
    | .found path ex =>
      let order := path.map (calls[·]!)
      pure (mk true "" order none (extra ++ (if ex > calls.size then ["lin-backtracked"] else [])) false)
    | .none _ why _ =>
      let order := calls.toList
      let localBad := calls.toList.find? (fun c => !viewLocalOk calls c)
      let fail := match localBad with
        | some c => if !viewNodup (c.out.getD []) then "view holds two results for one work id"
                    else "view holds a result no earlier or overlapping add handed in"
        | none => "concurrent history has no linearization matching the sequential store"
      pure (mk false why order (some (false, fail)) extra false)
    | .budget _ =>
      let ok := calls.all (viewLocalOk calls)
      pure (mk true "" calls.toList
        (some (ok, if ok then "" else "view of a concurrent run holds a duplicate or foreign result"))
        (extra ++ ["lin-budget-exhausted"]) true)

end AutoVerif.C10
