import AutoVerif.Drv.Codec
import AutoVerif.Spec.C16
open Lean AutoVerif.Codec
namespace AutoVerif.C16

/-! JSON → model values.  Byte strings arrive as JSON strings (keys, block keys, ids of the
coordinator sets: UTF-8 bytes) or as lower-case hex (raw observations, decoded ids). -/

def strBytes (s : String) : Bytes := s.toUTF8.toList.map (·.toNat)

def hexNib (c : Char) : Option Nat :=
  if '0' ≤ c ∧ c ≤ '9' then some (c.toNat - 48) else if 'a' ≤ c ∧ c ≤ 'f' then some (c.toNat - 87) else none

def hexBytes (s : String) : R Bytes :=
  let rec go : List Char → List Nat → R Bytes
    | [], acc => pure acc.reverse
    | [_], _ => throw "odd hex length"
    | a :: b :: rest, acc =>
      match hexNib a, hexNib b with
      | some x, some y => go rest ((x * 16 + y) :: acc)
      | _, _ => throw "bad hex digit"
  go s.toList []

def showBytes (b : Bytes) : String :=
  String.ofList (b.map fun n => if 32 ≤ n ∧ n < 127 then Char.ofNat n else '?')

def u32F (j : Json) (k : String) : R UInt32 := do
  let n ← natF j k
  if n < 2 ^ 32 then pure (UInt32.ofNat n) else throw s!"{k}: not a uint32"

def rawCfg (j : Json) : R RawCfg := do
  pure { batch := ← intF j "batch", gasLimit := ← u32F j "gasLimit", overhead := ← u32F j "overhead" }

def resOf (j : Json) : R Res := do
  pure { seq := ← natF j "seq", key := strBytes (← strF j "key"), eligible := ← boolF j "eligible",
         eligErr := ← boolF j "eligErr", gas := ← u32F j "gas", detailErr := ← boolF j "detailErr" }

def optHex (j : Json) : R (Option Bytes) :=
  match j with
  | .null => pure none
  | _ => do pure (some (← hexBytes (← asStr j)))

/-- what `encoding/json` decoded (harness): `none` = error -/
def decOf? (j : Json) : R (Option (Bytes × List (Option Bytes))) := do
  if !(← boolF j "ok") then return none
  let ids ← listF optHex j "ids"
  pure (some (strBytes (← strF j "block"), ids))

def toObs (d : Option (Bytes × List (Option Bytes))) : Option Obs :=
  d.map fun (b, ids) => { block := b, ids := ids.map idBytes }

structure Coord where
  real     : Bool
  pendIds  : List Bytes
  errIds   : List Bytes
  accepted : List Bytes
  performs : List Bytes   -- keys with a perform log
  seen     : List (Bytes × Bool)  -- recorded IsPending answers: key ↦ (pending ∨ error)

def coordOf (j impl : Json) : R Coord := do
  let strs (k : String) : R (List Bytes) := do pure ((← listOf asStr (fieldD j k .null)).map strBytes)
  let perf ← listOf (fun p => do pure (strBytes (← strF p "key"))) (fieldD j "performs" .null)
  let seen ← listOf (fun s => do
    pure (strBytes (← strF s "key"), (← boolF s "pending") || (← boolF s "err"))) (fieldD impl "seen" .null)
  pure { real := (← strF j "kind") == "real", pendIds := ← strs "pendIds", errIds := ← strs "errIds",
         accepted := ← strs "accepted", performs := perf, seen := seen }

/-- the coordinator's predicate: programmable coordinator → from the input sets (a key that does not
split is not pending); real coordinator → its recorded answers -/
def Coord.pend (c : Coord) (k : Bytes) : Bool :=
  if c.real then (c.seen.lookup k).getD false
  else match splitKey k with
    | some (_, id) => c.pendIds.contains id || c.errIds.contains id
    | none => false

/-- identifiers known to be in flight, independently of the recorded answers -/
def Coord.inflight (c : Coord) : List Bytes :=
  if c.real then
    let idOf (k : Bytes) : Option Bytes := (splitKey k).map (·.2)
    let performed := c.performs.filterMap idOf
    (c.accepted.filterMap idOf).filter fun id => !performed.contains id
  else c.pendIds ++ c.errIds

def statusOf (s : String) : R Status :=
  match s with
  | "report" => pure .report
  | "noReport" => pure .noReport
  | "errNotEnoughInputs" => pure .errNotEnoughInputs
  | "errTooManyErrors" => pure .errTooManyErrors
  | "errRunner" => pure .errRunner
  | "errTooManyResults" => pure .errTooManyResults
  | "errEncode" => pure .errEncode
  | _ => throw s!"unmodelled status {s}"

def Status.name : Status → String
  | .report => "report" | .noReport => "noReport" | .errNotEnoughInputs => "errNotEnoughInputs"
  | .errTooManyErrors => "errTooManyErrors" | .errRunner => "errRunner"
  | .errTooManyResults => "errTooManyResults" | .errEncode => "errEncode"

def showOut (o : Out) : String :=
  s!"{o.status.name} checked={o.checked.map showBytes} performed={o.performed.map fun r => (r.seq, showBytes r.key)}"

def handleReport (input impl : Json) : R Reply := do
  let raw ← rawCfg (← field input "cfg")
  let cfg := defaults raw
  let script ← field input "script"
  let coord ← coordOf (← field input "coord") impl
  let decoded ← listF decOf? impl "decoded"
  let rawObs ← listOf (fun j => do hexBytes (← asStr j)) (fieldD input "obs" .null)
  if rawObs.length ≠ decoded.length then throw "decoded/obs length mismatch"
  let attr := decoded.map toObs
  let implChecked := (← listF asStr impl "checked").map strBytes
  let answered ← listF resOf impl "answered"
  let performed ← listF resOf impl "performed"
  let got : Out := { status := ← statusOf (← strF impl "status"), checked := implChecked, performed := performed }
  let setup := (fieldD impl "setup" (.str "")).getStr?.toOption.getD ""
  let pend := coord.pend
  -- the shuffle is a parameter: take the implementation's order for the keys it checked
  let sh : List Bytes → List Bytes := fun l =>
    if implChecked.all (l.contains ·) && decide implChecked.Nodup then
      implChecked ++ l.filter (fun k => !implChecked.contains k)
    else l
  let runErr ← boolF script "runErr"
  let run : List Bytes → RunnerAns := fun ks =>
    if ks == implChecked then ⟨runErr, answered⟩ else ⟨false, []⟩
  let want := report cfg attr pend sh run (← boolF script "encErr")
  -- strict decoder vs encoding/json on every attributed observation
  let strictBad := (rawObs.zip decoded).any fun (r, d) =>
    match decodeObs r with
    | some x => d != some x
    | none => false
  let agree := decide (want = got) && !strictBad && setup.isEmpty
  let inflight := coord.inflight
  let sm := specReport cfg attr pend inflight (run want.checked).results want
  let si := specReport cfg attr pend inflight answered got
  let valid := validOnes attr
  let uniq := match observationsToKeys attr with
    | some keys => filterAndDedupe pend keys
    | none => []
  let allKeys := match observationsToKeys attr with
    | some keys => keys.flatten
    | none => []
  let tags :=
    [s!"status={got.status.name}"] ++
    (if coord.real then ["coord=real"] else ["coord=fake"]) ++
    (if decoded.any (·.isNone) then ["undecodable-observation"] else []) ++
    (if attr.any (fun o => match o with | some ob => !validObs ob | none => false) then ["invalid-observation"] else []) ++
    (if valid.any (fun ob => decide (ob.ids.length > Gen.v2ObservationUpkeepsLimit)) then ["oversized-id-list"] else []) ++
    (if valid.length ≥ 2 && valid.length % 2 == 0 then ["even-median"] else []) ++
    (if decide (uniq.length > Gen.v2ReportKeysLimit) then ["cut-to-ten"] else []) ++
    (if decide (allKeys.length > (allKeys.filter (fun k => !pend k)).length) then ["pending-removed"] else []) ++
    (if !decide (allKeys.filter (fun k => !pend k)).Nodup then ["duplicates-removed"] else []) ++
    (if answered.any (fun r => !r.eligible && !r.eligErr) then ["ineligible-result"] else []) ++
    (if answered.any (·.eligErr) then ["eligibility-error"] else []) ++
    (if answered.any (·.detailErr) then ["detail-error"] else []) ++
    (if answered.any (fun r => eligibleRes r && !performed.contains r) then ["eligible-left-out"] else []) ++
    (if answered.any (fun r => decide (r.gas.toNat + cfg.overhead.toNat ≥ 2 ^ 32)) then ["gas-sum-over-2^32"] else []) ++
    (if decide (performed.length ≥ 2) then ["multi-upkeep-report"] else []) ++
    (if decide (performed.length = cfg.batch) then ["full-batch"] else []) ++
    (if reportGasOld32 cfg answered != reportLoop cfg answered then ["differs-from-32bit-gas"] else []) ++
    (if reportOld cfg answered != reportLoop cfg answered then ["differs-from-old-eligibility"] else []) ++
    (if rawObs.any (fun r => (decodeObs r).isSome) then ["strict-decodes"] else [])
  pure { agree := agree, specModel := sm, specImpl := si,
         diff := if agree then "" else
           (if !setup.isEmpty then s!"harness: {setup}; " else "") ++
           (if strictBad then "strict decoder ≠ encoding/json; " else "") ++
           s!"model: {showOut want} impl: {showOut got}",
         fail := if si then "" else explainReport cfg attr pend inflight answered got,
         nontrivial := decide (valid.length ≥ 2) && !implChecked.isEmpty && !answered.isEmpty,
         tags := tags }

def headResOf (j : Json) : R HeadRes := do
  pure { key := strBytes (← strF j "key"), eligible := ← boolF j "eligible", eligErr := ← boolF j "eligErr",
         detailErr := ← boolF j "detailErr" }

def headOf (j : Json) : R Head := do
  pure { block := strBytes (← strF j "block"), active := ← natF j "active", srcErr := ← boolF j "srcErr",
         runErr := ← boolF j "runErr", results := ← listF headResOf j "results" }

def handleObs (input impl : Json) : R Reply := do
  let heads ← listOf headOf (fieldD input "heads" .null)
  let coord ← coordOf (← field input "coord") impl
  let out ← hexBytes (← strF impl "out")
  let outErr ← strF impl "outErr"
  let dec ← decOf? (← field impl "outDec")
  let setup := (fieldD impl "setup" (.str "")).getStr?.toOption.getD ""
  let st := heads.foldl processHead {}
  let pend := coord.pend
  let allowed := (observe pend st).2
  -- the keyed shuffle is a parameter: any staged, not-pending identifier may come first
  let candidates : List (List (Option Bytes)) := if allowed.isEmpty then [[]] else allowed.map fun x => [x]
  let modelOuts := candidates.map fun ids => (ids, limitedLengthEncode st.block ids Gen.v2MaxObservationLength)
  let hit := modelOuts.find? fun (_, b) => b == out
  let strict := decodeObs out
  let strictBad := match strict with
    | some x => dec != some x
    | none => false
  -- when the bytes decode, they must decode to the block and the chosen identifier
  let decBad := match hit, dec with
    | some (ids, _), some (b, dids) => !(b == st.block && dids == ids)
    | _, _ => false
  let agree := hit.isSome && outErr.isEmpty && !strictBad && !decBad && setup.isEmpty
  let wantOut := match hit with
    | some (_, b) => b
    | none => (modelOuts.head?.map (·.2)).getD []
  let sm := specObservation st pend wantOut (decodeObs wantOut)
  let si := specObservation st pend out dec
  let tags :=
    (if coord.real then ["coord=real"] else ["coord=fake"]) ++
    (if inDomain st then ["in-domain"] else ["out-of-domain"]) ++
    (if st.ids.isEmpty then ["nothing-staged"] else []) ++
    (if decide (allowed.length < st.ids.length) then ["in-flight-filtered"] else []) ++
    (if decide (allowed.length > 1) then ["several-candidates"] else []) ++
    (if st.ids.any (·.isNone) then ["nil-identifier-staged"] else []) ++
    (if out.isEmpty then ["empty-observation-bytes"] else []) ++
    (if decide (out.length > Gen.v2MaxObservationLength) then ["over-length"] else []) ++
    (if strict.isSome then ["strict-decodes"] else []) ++
    (if heads.any (fun h => h.srcErr || h.runErr || h.active == 0) then ["unsampled-head"] else [])
  pure { agree := agree, specModel := sm, specImpl := si,
         diff := if agree then "" else
           (if !setup.isEmpty then s!"harness: {setup}; " else "") ++
           (if strictBad then "strict decoder ≠ encoding/json; " else "") ++
           (if decBad then "decoded observation ≠ staged block / chosen id; " else "") ++
           s!"impl out={showBytes out} err={outErr} model candidates={modelOuts.map fun (_, b) => showBytes b}",
         fail := if si then "" else explainObservation st pend out dec,
         nontrivial := !st.ids.isEmpty,
         tags := tags }

def handle (input impl : Json) : R Reply := do
  match ← strF input "mode" with
  | "report" => handleReport input impl
  | "obs" => handleObs input impl
  | m => throw s!"unknown mode {m}"

end AutoVerif.C16
