import AutoVerif.Drv.Codec
import AutoVerif.Spec.C16
open Lean AutoVerif.Codec
namespace AutoVerif.C16

/-! JSON → model values.  Byte strings arrive as JSON strings (keys, block keys, ids of the
coordinator sets: UTF-8 bytes) or as lower-case hex (raw observations, decoded ids). -/

def strBytes (s : String) : Bytes := s.toUTF8.toList.map (·.toNat)

def hexNib (c : Char) : Option Nat :=
  if '0' ≤ c ∧ c ≤ '9' then some (c.toNat - 48) else if 'a' ≤ c ∧ c ≤ 'f' then some (c.toNat - 87) else none

def hexBytes (s : String) : R Bytes :=
  let rec go : List Char → List Nat → R Bytes
    | [], acc => pure acc.reverse
    | [_], _ => throw "odd hex length"
    | a :: b :: rest, acc =>
      match hexNib a, hexNib b with
      | some x, some y => go rest ((x * 16 + y) :: acc)
      | _, _ => throw "bad hex digit"
  go s.toList []

def showBytes (b : Bytes) : String :=
  String.ofList (b.map fun n => if 32 ≤ n ∧ n < 127 then Char.ofNat n else '?')

def u32F (j : Json) (k : String) : R UInt32 := do
  let n ← natF j k
  if n < 2 ^ 32 then pure (UInt32.ofNat n) else throw s!"{k}: not a uint32"

def rawCfg (j : Json) : R RawCfg := do
  let i (k : String) : R Int := asInt (fieldD j k (.num 0))
  pure { batch := ← intF j "batch", gasLimit := ← u32F j "gasLimit", overhead := ← u32F j "overhead",
         reportBlockLag := ← i "lag", performLockoutWindow := ← i "lockout", targetInRounds := ← i "rounds",
         samplingJobDuration := ← i "sampling", minConfirmations := ← i "minConfs",
         mercuryLookup := ← asBool (fieldD j "mercury" (.bool false)) }

def resOf (j : Json) : R Res := do
  pure { seq := ← natF j "seq", key := strBytes (← strF j "key"), eligible := ← boolF j "eligible",
         eligErr := ← boolF j "eligErr", gas := ← u32F j "gas", detailErr := ← boolF j "detailErr" }

def optHex (j : Json) : R (Option Bytes) :=
  match j with
  | .null => pure none
  | _ => do pure (some (← hexBytes (← asStr j)))

/-- what `encoding/json` decoded (harness): `none` = error -/
def decOf? (j : Json) : R (Option (Bytes × List (Option Bytes))) := do
  if !(← boolF j "ok") then return none
  let ids ← listF optHex j "ids"
  pure (some (strBytes (← strF j "block"), ids))

def toObs (d : Option (Bytes × List (Option Bytes))) : Option Obs :=
  d.map fun (b, ids) => { block := b, ids := ids.map idBytes }

structure Coord where
  real     : Bool
  pendIds  : List Bytes
  errIds   : List Bytes
  accepted : List Bytes
  performs : List Bytes   -- keys with a perform log
  seen     : List (Bytes × Bool)  -- recorded IsPending answers: key ↦ (pending ∨ error)

def coordOf (j impl : Json) (minConfs : Int := 0) : R Coord := do
  -- `impl` = the object carrying the recorded `seen` answers (the case's impl, or one observation point)
  let strs (k : String) : R (List Bytes) := do pure ((← listOf asStr (fieldD j k .null)).map strBytes)
  -- a perform log is processed only with at least `minConfirmations` confirmations (≤ 0 counts as 0)
  let perfAll ← listOf (fun p => do pure (strBytes (← strF p "key"), ← asInt (fieldD p "conf" (.num 0)))) (fieldD j "performs" .null)
  let perf := (perfAll.filter fun (_, c) => decide (c ≥ max minConfs 0)).map (·.1)
  let seen ← listOf (fun s => do
    pure (strBytes (← strF s "key"), (← boolF s "pending") || (← boolF s "err"))) (fieldD impl "seen" .null)
  pure { real := (← strF j "kind") == "real", pendIds := ← strs "pendIds", errIds := ← strs "errIds",
         accepted := ← strs "accepted", performs := perf, seen := seen }

/-- identifiers known to be in flight, independently of the recorded answers -/
def Coord.inflight (c : Coord) : List Bytes :=
  if c.real then
    let idOf (k : Bytes) : Option Bytes := (splitKey k).map (·.2)
    let performed := c.performs.filterMap idOf
    (c.accepted.filterMap idOf).filter fun id => !performed.contains id
  else c.pendIds ++ c.errIds

/-- the coordinator's predicate: programmable coordinator → from the input sets (a key that does not
split is not pending); real coordinator → its recorded answer for that key, and for a key it was never
asked about (the implementation built other keys than the model) the independent in-flight rule -/
def Coord.pend (c : Coord) (k : Bytes) : Bool :=
  if c.real then
    match c.seen.lookup k with
    | some b => b
    | none => match splitKey k with
      | some (_, id) => c.inflight.contains id
      | none => true
  else match splitKey k with
    | some (_, id) => c.pendIds.contains id || c.errIds.contains id
    | none => false

def statusOf (s : String) : R Status :=
  match s with
  | "report" => pure .report
  | "noReport" => pure .noReport
  | "errNotEnoughInputs" => pure .errNotEnoughInputs
  | "errTooManyErrors" => pure .errTooManyErrors
  | "errRunner" => pure .errRunner
  | "errTooManyResults" => pure .errTooManyResults
  | "errEncode" => pure .errEncode
  | "panic" => pure .panicked
  | _ => throw s!"unmodelled status {s}"

def Status.name : Status → String
  | .report => "report" | .noReport => "noReport" | .errNotEnoughInputs => "errNotEnoughInputs"
  | .errTooManyErrors => "errTooManyErrors" | .errRunner => "errRunner"
  | .errTooManyResults => "errTooManyResults" | .errEncode => "errEncode" | .panicked => "panic"

def showOut (o : Out) : String :=
  s!"{o.status.name} checked={o.checked.map showBytes} performed={o.performed.map fun r => (r.seq, showBytes r.key)}"

def headResOf (j : Json) : R HeadRes := do
  pure { key := strBytes (← strF j "key"), eligible := ← boolF j "eligible", eligErr := ← boolF j "eligErr",
         detailErr := ← boolF j "detailErr" }

/-- the case runs the repository's v2 runner against a scripted registry -/
def hasReg (input : Json) : Bool :=
  match fieldD input "reg" .null with
  | .null => false
  | _ => true

/-- a recorded registry call: the head it belongs to (`none` = the report-time check) and the call -/
def callOf (j : Json) : R (Option Nat × Call HeadRes) := do
  let h ← intF j "head"
  let keys := (← listOf asStr (fieldD j "keys" .null)).map strBytes
  let results ← listOf headResOf (fieldD j "results" .null)
  pure (if h < 0 then none else some h.toNat, ⟨keys, ← boolF j "err", results⟩)

/-- per head of a registry-level case: the head as the observer sees it through the runner, whether the
registry is reached at all (something sampled is not cached), whether the recorded calls fit the request,
tags -/
def regFold : RCache HeadRes → Stager → List RegHead → List (Head × Bool × Bool × List String)
  | _, _, [] => []
  | c, st, h :: rest =>
    let sampled := !(h.srcErr || h.active == 0)
    let run := if sampled then toRun c (sampleKeys h.block h.active) else []
    let fit := if run.isEmpty then h.calls.isEmpty else callsFit run h.calls
    let d := (regHead c h).2
    let tags :=
      (if decide (h.calls.length > 1) then ["reg:several-batches"] else []) ++
      (if sampled && decide (run.length < h.active) then ["reg:cache-hit"] else []) ++
      (if sampled && run.isEmpty then ["reg:all-cached"] else []) ++
      (if !h.calls.isEmpty && h.calls.all (fun k => !k.err && k.results.isEmpty) then
         ["reg:all-batches-empty"] ++
         (if !d.runErr && d.results.isEmpty && !st.ids.isEmpty then ["reg:everything-vanished-after-eligible"] else [])
       else []) ++
      (if !h.calls.isEmpty && h.calls.all (·.err) then ["reg:all-batches-failed"] else []) ++
      (if h.calls.any (·.err) && h.calls.any (!·.err) then ["reg:failed-and-answered-batches"] else []) ++
      (if h.calls.any (fun k => !k.err && k.results.isEmpty) && h.calls.any (fun k => !k.err && !k.results.isEmpty)
       then ["reg:empty-and-non-empty-batches"] else []) ++
      (if h.calls.any (fun k => k.err && !k.results.isEmpty) then ["reg:results-next-to-error"] else []) ++
      (if h.calls.any (fun k => !k.err && !k.results.isEmpty && decide (k.results.length < k.keys.length))
       then ["reg:fewer-results-than-keys"] else [])
    (d, !run.isEmpty, fit, tags) :: regFold (regHead c h).1 (processHead st d) rest

def handleReport (input impl : Json) : R Reply := do
  let raw ← rawCfg (← field input "cfg")
  let cfg := defaults raw
  let script ← field input "script"
  let coord ← coordOf (← field input "coord") impl raw.minConfirmations
  let decoded ← listF decOf? impl "decoded"
  let rawObs ← listOf (fun j => do hexBytes (← asStr j)) (fieldD input "obs" .null)
  if rawObs.length ≠ decoded.length then throw "decoded/obs length mismatch"
  -- the validator is the BasicEncoder's plus a deny list answered with (false, nil): an observation carrying a
  -- denied block key or identifier is an invalid one
  let deny := (← listOf asStr (fieldD input "deny" .null)).map strBytes
  let denied (ob : Obs) : Bool := deny.contains ob.block || ob.ids.any fun i => deny.contains i
  let attr : List (Option Obs) := decoded.map fun d => (toObs d).map fun ob =>
    if denied ob then ({ block := [], ids := [] } : Obs) else ob
  let implChecked := (← listF asStr impl "checked").map strBytes
  let answered ← listF resOf impl "answered"
  let performed ← listF resOf impl "performed"
  let got : Out := { status := ← statusOf (← strF impl "status"), checked := implChecked, performed := performed }
  let setup := (fieldD impl "setup" (.str "")).getStr?.toOption.getD ""
  let pend := coord.pend
  -- the shuffle is a parameter: take the implementation's order for the keys it checked
  let sh : List Bytes → List Bytes := fun l =>
    if implChecked.all (l.contains ·) && decide implChecked.Nodup then
      implChecked ++ l.filter (fun k => !implChecked.contains k)
    else l
  let runErr ← boolF script "runErr"
  -- registry level (`reg`): the check goes through the repository's runner; at most ReportKeysLimit = 10 keys are
  -- one batch, i.e. one registry call with the very keys `CheckUpkeep` was handed, on an empty cache
  let isReg := hasReg input
  let calls ← listOf callOf (fieldD impl "calls" .null)
  let regOk := !isReg || (calls.all (fun c => c.1 == none) && decide (calls.length ≤ 1) &&
    (calls.isEmpty || callsFit implChecked (calls.map (·.2))))
  let run : List Bytes → RunnerAns := fun ks =>
    if ks == implChecked then
      if isReg then
        let out := (runnerCheck (fun r : Res => if r.detailErr then [] else r.key) [] ks [⟨ks, runErr, answered⟩]).2
        ⟨out.err, out.results⟩
      else ⟨runErr, answered⟩
    else ⟨false, []⟩
  let want := report cfg attr pend sh run (← boolF script "encErr")
  -- strict decoder vs encoding/json on every attributed observation
  let strictBad := (rawObs.zip decoded).any fun (r, d) =>
    match decodeObs r with
    | some x => d != some x
    | none => false
  let agree := decide (want = got) && !strictBad && setup.isEmpty && regOk
  let inflight := coord.inflight
  let sm := specReport cfg attr pend inflight (run want.checked).results want
  let si := specReport cfg attr pend inflight answered got
  let valid := validOnes attr
  let uniq := match observationsToKeys attr with
    | some keys => filterAndDedupe pend keys
    | none => []
  let allKeys := match observationsToKeys attr with
    | some keys => keys.flatten
    | none => []
  let tags :=
    [s!"status={got.status.name}"] ++
    (if isReg then ["runner=real"] else []) ++
    (if (decoded.map toObs).any (fun o => match o with
        | some ob => validObs ob && denied ob
        | none => false) then ["validator-refused-without-error"] else []) ++
    (if isReg && !implChecked.isEmpty && answered.isEmpty && !runErr then ["reg:check-answered-nothing"] else []) ++
    (if raw.reportBlockLag > 0 then ["cfg:reportBlockLag>0"] else []) ++
    (if coord.real then ["coord=real"] else ["coord=fake"]) ++
    (if decoded.any (·.isNone) then ["undecodable-observation"] else []) ++
    (if attr.any (fun o => match o with | some ob => !validObs ob | none => false) then ["invalid-observation"] else []) ++
    (if valid.any (fun ob => decide (ob.ids.length > Gen.v2ObservationUpkeepsLimit)) then ["oversized-id-list"] else []) ++
    (if valid.length ≥ 2 && valid.length % 2 == 0 then ["even-median"] else []) ++
    (let numeric := attr.filterMap fun o => match o with
        | some ob => if canonDec ob.block then some (decVal ob.block) else none
        | none => none
     if !valid.isEmpty && median numeric != median (validBlocks attr) then ["invalid-would-move-median"] else []) ++
    (if !valid.isEmpty && attr.any (fun o => match o with
        | some ob => !validObs ob && !canonDec ob.block
        | none => false) then ["invalid-non-numeric-block-among-valid"] else []) ++
    (if decide (uniq.length > Gen.v2ReportKeysLimit) then ["cut-to-ten"] else []) ++
    (if decide (allKeys.length > (allKeys.filter (fun k => !pend k)).length) then ["pending-removed"] else []) ++
    (if !decide (allKeys.filter (fun k => !pend k)).Nodup then ["duplicates-removed"] else []) ++
    (if answered.any (fun r => !r.eligible && !r.eligErr) then ["ineligible-result"] else []) ++
    (if answered.any (·.eligErr) then ["eligibility-error"] else []) ++
    (if answered.any (·.detailErr) then ["detail-error"] else []) ++
    (if answered.any (fun r => eligibleRes r && !performed.contains r) then ["eligible-left-out"] else []) ++
    (if answered.any (fun r => decide (r.gas.toNat + cfg.overhead.toNat ≥ 2 ^ 32)) then ["gas-sum-over-2^32"] else []) ++
    (if decide (performed.length ≥ 2) then ["multi-upkeep-report"] else []) ++
    (if decide (performed.length = cfg.batch) then ["full-batch"] else []) ++
    (if reportGasOld32 cfg answered != reportLoop cfg answered then ["differs-from-32bit-gas"] else []) ++
    (if reportOld cfg answered != reportLoop cfg answered then ["differs-from-old-eligibility"] else []) ++
    (if rawObs.any (fun r => (decodeObs r).isSome) then ["strict-decodes"] else [])
  pure { agree := agree, specModel := sm, specImpl := si,
         diff := if agree then "" else
           (if !setup.isEmpty then s!"harness: {setup}; " else "") ++
           (if strictBad then "strict decoder ≠ encoding/json; " else "") ++
           (if !regOk then "registry calls do not fit the keys checked; " else "") ++
           s!"model: {showOut want} impl: {showOut got}",
         fail := if si then "" else explainReport cfg attr pend inflight answered got,
         nontrivial := decide (valid.length ≥ 2) && !implChecked.isEmpty && !answered.isEmpty,
         tags := tags }

/-- a head together with the harness's observation points around it: `midAt` (k ≥ 1: Observation() is
called inside the k-th `Eligible` call of this head; 0: not) and `after` -/
structure HeadPts where
  head  : Head
  midAt : Nat
  after : Bool
  acceptAfter : Bool  -- with `after`: the observed key is accepted, then Observation() is called again
  slowRun : Bool      -- the head's CheckUpkeep stays pending while the next head is queued behind it
  stallMs : Int       -- virtual ms the observer stays parked inside the gated `Eligible` call (the model ignores it)
  acceptKind : String := "" -- what is handed to ShouldAcceptFinalizedReport ("" = the report of the observed key)
  reach : Bool := true -- registry level: the runner has something to ask the registry (not everything is cached)

def headOf (j : Json) : R HeadPts := do
  let block ← strF j "block"
  let active ← natF j "active"
  let srcErr ← boolF j "srcErr"
  let runErr ← boolF j "runErr"
  let results ← listF headResOf j "results"
  let midAt ← asNat (fieldD j "midAt" (.num 0))
  let aft ← asBool (fieldD j "after" (.bool false))
  let acc ← asBool (fieldD j "acceptAfter" (.bool false))
  let stall ← asInt (fieldD j "stallMs" (.num 0))
  let slow ← asBool (fieldD j "slowRun" (.bool false))
  let kind ← asStr (fieldD j "acceptKind" (.str ""))
  pure ⟨⟨strBytes block, active, srcErr, runErr, results⟩, midAt, aft, acc, slow, stall, kind, true⟩

/-- verdict on one Observation() call -/
structure PointVerdict where
  agree : Bool
  specModel : Bool
  specImpl : Bool
  diff : String
  fail : String
  tags : List String

def handlePoint (hps : List HeadPts) (coordJ : Json) (minConfs : Int) (pt : Json) : R PointVerdict := do
  let heads := hps.map (·.head)
  let n ← natF pt "n"
  let phase ← strF pt "phase"
  let coord0 ← coordOf coordJ pt minConfs
  -- keys the harness accepted (as a finalized report would) before this call: in flight from then on
  let dynKeys := (← listOf asStr (fieldD pt "accepted" .null)).map strBytes
  let dynIds := dynKeys.filterMap fun k => (splitKey k).map (·.2)
  let coord : Coord := { coord0 with pendIds := coord0.pendIds ++ dynIds, accepted := coord0.accepted ++ dynKeys }
  let out ← hexBytes (← strF pt "out")
  -- the same slice read again at the end of the case (after every later call of every instance)
  let outEnd ← hexBytes (← strF pt "outEnd")
  let retained := specRetained out outEnd
  let outErr ← strF pt "outErr"
  if phase == "failing" then
    -- the conditional observer's `Observe` fails: `Observation` returns that error and no bytes
    let ok := outErr == "error" && out.isEmpty
    return { agree := ok, specModel := true, specImpl := outErr != "panic",
             diff := if ok then "" else s!"point n={n} failing: impl out={showBytes out} err={outErr}, expected an error and no bytes",
             fail := if outErr != "panic" then "" else s!"observation: panic in Observation (point n={n} failing)",
             tags := ["point=failing"] }
  let dec ← decOf? (← field pt "outDec")
  -- the stager the model says `Observe` reads at this point (for "mid": head n is in progress)
  let st := stagerAt heads n
  let pend := coord.pend
  let allowed := (observe pend st).2
  -- the keyed shuffle is a parameter: any staged, not-pending identifier may come first
  let candidates : List (List (Option Bytes)) := if allowed.isEmpty then [[]] else allowed.map fun x => [x]
  let modelOuts := candidates.map fun ids => (ids, limitedLengthEncode st.block ids Gen.v2MaxObservationLength)
  let hit := modelOuts.find? fun (_, b) => b == out
  let strict := decodeObs out
  let strictBad := match strict with
    | some x => dec != some x
    | none => false
  -- when the bytes decode, they must decode to the block and the chosen identifier
  let decBad := match hit, dec with
    | some (ids, _), some (b, dids) => !(b == st.block && dids == ids)
    | _, _ => false
  let agree := hit.isSome && outErr.isEmpty && !strictBad && !decBad && retained
  let wantOut := match hit with
    | some (_, b) => b
    | none => (modelOuts.head?.map (·.2)).getD []
  let sm := specObservation st pend wantOut (decodeObs wantOut)
  let si := outErr != "panic" && specObservation st pend out dec && retained
  let inProgress := hps[n]?
  let tags :=
    [s!"point={phase}"] ++
    (if inDomain st then ["in-domain"] else ["out-of-domain"]) ++
    (if st.ids.isEmpty then ["nothing-staged"] else []) ++
    (if decide (allowed.length < st.ids.length) then ["in-flight-filtered"] else []) ++
    (if st.ids.any (fun x => dynIds.contains (idBytes x)) then ["observed-id-accepted-same-head"] else []) ++
    (if decide (allowed.length > 1) then ["several-candidates"] else []) ++
    (if st.ids.any (·.isNone) then ["nil-identifier-staged"] else []) ++
    (if out.isEmpty then ["empty-observation-bytes"] else []) ++
    (if decide (out.length > Gen.v2MaxObservationLength) then ["over-length"] else []) ++
    (if strict.isSome then ["strict-decodes"] else []) ++
    (match phase, inProgress with
     | "mid", some h =>
       let stagedSoFar := stageIds (h.head.results.take (h.midAt - 1))
       (if !stagedSoFar.isEmpty then ["mid:next-head-partly-staged"] else []) ++
       (if !stagedSoFar.isEmpty && !st.ids.isEmpty && stagedSoFar.any (fun x => !st.ids.contains x)
        then ["mid:staged-id-not-eligible-at-current-block"] else [])
     | _, _ => [])
  pure { agree := agree, specModel := sm, specImpl := si,
         diff := if agree then "" else
           s!"point n={n} {phase}: " ++
           (if strictBad then "strict decoder ≠ encoding/json; " else "") ++
           (if decBad then "decoded observation ≠ staged block / chosen id; " else "") ++
           (if !retained then s!"bytes later read {showBytes outEnd}; " else "") ++
           s!"impl out={showBytes out} err={outErr} model candidates={modelOuts.map fun (_, b) => showBytes b}",
         fail := if si then "" else
           if outErr == "panic" then s!"observation: panic in Observation (point n={n} {phase})"
           else if !retained then s!"observation: bytes changed after Observation() had returned them (point n={n} {phase})"
           else explainObservation st pend out dec ++ s!" (point n={n} {phase})",
         tags := tags }

def handleObs (input impl : Json) : R Reply := do
  let hps0 ← listOf headOf (fieldD input "heads" .null)
  -- registry level: what the observer gets from the runner is computed by the runner model from the recorded
  -- registry calls (keys asked, error, results) of each head, one cache through all heads
  let isReg := hasReg input
  let calls ← listOf callOf (fieldD impl "calls" .null)
  let regs : List RegHead := hps0.zipIdx.map fun (hp, i) =>
    ⟨hp.head.block, hp.head.active, hp.head.srcErr, (calls.filter fun c => c.1 == some i).map (·.2)⟩
  let folded := regFold [] {} regs
  let hps : List HeadPts := if isReg then (hps0.zip folded).map fun (hp, d) => { hp with head := d.1, reach := d.2.1 } else hps0
  let regOk := !isReg || (folded.all (·.2.2.1) && calls.all fun c => match c.1 with
    | some i => decide (i < hps0.length)
    | none => false)
  let heads := hps.map (·.head)
  let obsFail ← asBool (fieldD input "obsFail" (.bool false))
  let coordJ ← field input "coord"
  let setup := (fieldD impl "setup" (.str "")).getStr?.toOption.getD ""
  let pts ← asList (fieldD impl "points" .null)
  let raw ← rawCfg (← field input "cfg")
  let vs ← pts.mapM (handlePoint hps coordJ raw.minConfirmations)
  -- which Observation() calls the model expects: mid-head calls only when the gated `Eligible` call is reached
  -- A head whose runner call is pending (`slowRun`, reached only if the registry answered with a non-empty
  -- list) is observed while parked; the next head is queued behind it — `runHeadTasks` samples one head at a
  -- time, so the queued head is sampled after the pending one has been staged and advanced: the model's
  -- sequential `processHead` fold is unchanged, the observation points are at `stagerAt heads i`.
  let expected : List (Nat × String) :=
    let rec go (hs : List HeadPts) (i : Nat) (queued : Bool) (n : Nat) : List (Nat × String) :=
      match hs with
      | [] => []
      | h :: rest =>
        let slow := h.slowRun && !queued && !h.head.srcErr && h.head.active != 0 && h.reach
        if slow then
          if rest.isEmpty then
            [(i, "parked")] ++ (if h.after then [(i + 1, "after")] else []) ++
              (if h.after && h.acceptAfter then [(i + 1, "after2")] else []) ++ go rest (i + 1) false n
          else [(i, "parked"), (i, "queued")] ++ go rest (i + 1) true n
        else
          (if !queued && !h.slowRun && h.midAt ≥ 1 && headSampled h.head && decide (h.midAt ≤ h.head.results.length)
            then [(i, "mid")] else []) ++
          (if h.after then [(i + 1, "after")] else []) ++
          (if h.after && h.acceptAfter then [(i + 1, "after2")] else []) ++ go rest (i + 1) false n
    go hps 0 false heads.length ++ [(heads.length, "final")] ++
      (if obsFail then [(heads.length, "failing")] else []) ++ [(0, "successor")]
  let got ← pts.mapM fun pt => do pure ((← natF pt "n"), (← strF pt "phase"))
  let pointsOk := decide (expected = got)
  -- ShouldAcceptFinalizedReport / ShouldTransmitAcceptedReport on the bytes the harness handed over after a head
  let accepts ← listOf (fun a => do
    pure ((← natF a "n"), (← strF a "kind"), (← boolF a "ok"), (← boolF a "err"), (← boolF a "txOk"), (← boolF a "txErr")))
    (fieldD impl "accepts" .null)
  let fakeCoord := (← strF coordJ "kind") != "real"
  let acceptOk := accepts.all fun (_, kind, ok, err, txOk, txErr) =>
    let rb : ReportBytes := match kind with
      | "empty" => .empty
      | "garbage" => .undecodable
      | "nokeys" => .keys []
      | _ => .keys [[0]]
    -- the harness encoder's KeysFromReport fails on no bytes and on garbage, returns no key for "nokeys"
    let tk : Option (List Bytes) := match kind with
      | "empty" => none
      | "garbage" => none
      | "nokeys" => some []
      | _ => some [[0]]
    let wa := shouldAccept rb
    let wt := shouldTransmit (fun _ => false) tk
    ok == wa.1 && err == wa.2.1 && txErr == wt.2 && (!(fakeCoord || kind != "") || txOk == wt.1)
  -- every refusal the model expects happened (one per "after2" point of a head with such a report)
  let refusedWant := (expected.filter fun (n, ph) => ph == "after2" &&
    (match hps[n - 1]? with
     | some h => h.acceptKind != ""
     | none => false)).length
  let refusedGot := (accepts.filter fun a => a.2.1 != "").length
  let acceptsOk := acceptOk && refusedWant == refusedGot
  let coord ← coordOf coordJ (Json.mkObj []) raw.minConfirmations
  let agree := vs.all (·.agree) && pointsOk && setup.isEmpty && regOk && acceptsOk
  let firstBad := vs.find? fun v => !v.specImpl
  let st := heads.foldl processHead {}
  let tags := (vs.flatMap (·.tags)).eraseDups ++
    (if isReg then ["runner=real"] ++ (folded.flatMap (·.2.2.2)).eraseDups else []) ++
    ((accepts.map fun a => if a.2.1 == "" then "accept:key" else s!"accept:refused-{a.2.1}").eraseDups) ++
    (if coord.real then ["coord=real"] else ["coord=fake"]) ++
    (if heads.any (fun h => !headSampled h) then ["unsampled-head"] else []) ++
    (if hps.any (fun h => h.midAt ≥ 1 && headSampled h.head && decide (h.midAt ≤ h.head.results.length) &&
        decide (h.stallMs > (if raw.samplingJobDuration ≤ 0 then 3000 else raw.samplingJobDuration)))
     then ["sampling-window-ran-out-mid-head"] else [])
  pure { agree := agree, specModel := vs.all (·.specModel), specImpl := firstBad.isNone,
         diff := if agree then "" else
           (if !setup.isEmpty then s!"harness: {setup}; " else "") ++
           (if !pointsOk then s!"observation points: expected {expected} got {got}; " else "") ++
           (if !acceptsOk then s!"ShouldAccept/ShouldTransmit answers {accepts} (refusals expected {refusedWant}); " else "") ++
           (if !regOk then s!"registry calls do not fit the sampled keys (calls per head {regs.map fun r => r.calls.map fun c => c.keys.length}); " else "") ++
           String.intercalate " | " ((vs.filter (!·.agree)).map (·.diff)),
         fail := match firstBad with
           | some v => v.fail
           | none => "",
         -- (registry level: decided by the input alone - which keys share a failing batch is up to crypto/rand)
         nontrivial := if isReg then regs.any (fun r => !r.srcErr && r.active != 0)
           else !st.ids.isEmpty || vs.any (fun v => v.tags.contains "mid:next-head-partly-staged"),
         tags := tags }

/-- direct calls of the BasicEncoder: `GetMedian`, `SplitUpkeepKey`, `ValidateUpkeepKey` -/
def handleEnc (input impl : Json) : R Reply := do
  let blocks := (← listOf asStr (fieldD input "blocks" .null)).map strBytes
  let keys ← listOf (optOf fun j => do pure (strBytes (← asStr j))) (fieldD input "keys" .null)
  let e ← field impl "enc"
  let med := strBytes (← strF e "median")
  let panicked ← boolF e "medianPanic"
  let outs ← listOf (fun k => do
    pure ((← boolF k "splitOk"), (← hexBytes (← strF k "block")), (← hexBytes (← strF k "id")), (← boolF k "validOk"), (← boolF k "validErr")))
    (fieldD e "keys" .null)
  -- the model's median is about unsigned strings
  let signed := blocks.any fun b => b.head? == some 43 || b.head? == some 45
  let medOk := signed || (match getMedian blocks with
    | some m => !panicked && m == med
    | none => panicked)
  let keysOk := decide (keys.length = outs.length) && (keys.zip outs).all fun (k, (sok, b, i, vok, verr)) =>
    let sp := k.bind splitKey
    (match sp with
     | some (wb, wi) => sok && b == wb && i == wi
     | none => !sok) &&
    vok == validKey k && verr == !validKey k
  let agree := medOk && keysOk
  pure { agree := agree, specModel := true, specImpl := true,
         diff := if agree then "" else s!"BasicEncoder: median impl={showBytes med} panic={panicked} model={(getMedian blocks).map showBytes}; keys ok={keysOk}",
         nontrivial := !blocks.isEmpty || !keys.isEmpty,
         tags := ["mode=enc"] ++ (if blocks.isEmpty then ["enc:median-of-none"] else []) ++
           (if panicked then ["enc:median-panics"] else []) ++
           (if keys.any (·.isNone) then ["enc:nil-key"] else []) ++
           (if keys.any (fun k => validKey k) then ["enc:valid-key"] else []) ++
           (if keys.any (fun k => !validKey k && (k.bind splitKey).isSome) then ["enc:splits-but-invalid"] else []) }

/-- The model is evaluated with the configuration of the instance under test (`input.cfg`), whatever
the same factory was asked for before (`input.prior`): limits carried over from an earlier instance
show up as disagreement and as a violated batch / gas clause. -/
def handle (input impl : Json) : R Reply := do
  if (← strF input "mode") == "enc" then return ← handleEnc input impl
  let prior ← asList (fieldD input "prior" .null)
  let setup := (fieldD impl "setup" (.str "")).getStr?.toOption.getD ""
  if setup.startsWith "factory:" then
    -- the factory did not produce the instance under test (every generated configuration is valid and
    -- the model builds one): nothing to evaluate the property on, reported as a disagreement
    return { agree := false, specModel := true, specImpl := true, nontrivial := false,
             diff := s!"harness: {setup}", tags := ["no-instance"] ++ (if prior.isEmpty then [] else ["factory-reused"]) }
  let rep ← match ← strF input "mode" with
    | "report" => handleReport input impl
    | "obs" => handleObs input impl
    | m => throw s!"unknown mode {m}"
  pure { rep with tags := rep.tags ++ (if prior.isEmpty then [] else ["factory-reused"]) }

end AutoVerif.C16
