import AutoVerif.Drv.Codec
import AutoVerif.Spec.C13
/-
Driver for C13.  One case = one history on one runner:

  input : {"expire": ns, "calls": [{"c": cid, "payloads": [payload…]}, …], …}
  impl  : {"events": [{"t":"s","c":cid,"now":ns} | {"t":"d","c":cid,"now":ns,"batch":[payload…],"ok":bool,"res":[result…]}, …],
           "rets":   [{"c":cid,"vals":[result…],"err":0|1|2,"cancelled":bool,"heldSame":bool,"held":[result…]}, …]}

`stopped` (per call): 1 = `Runner.Close()` came between the call's look-ups and its return, 2 = the
runner had been closed before the call started.  After `Close` the worker group still delivers every
submitted job: those it had not started yet fail without ever reaching the pipeline.  For a call
with `stopped = 1` these deliveries are added to the history as failed `d` events for the
predicted batches the pipeline did not see (`addUnseen`); a call with `stopped = 2` submits
nothing, like a call whose context is done.  `racy` histories (input flag): callers run truly
concurrently against each other's cache writes, the model is not compared, only the predicate.
`crashed`: the process died while the history ran.

`vals` is the content of the returned slice right after the call returned; the caller keeps the
slice, and `held` is its content at the end of the history (`heldSame`: unchanged).  Agreement with
the model and the Spec predicate are evaluated on BOTH: a result set that is right when handed out
but changes while the caller holds it (a later or concurrent call writing into it) is a violation.

Calls with `obs` (input) are made through `Observer.Process`: `payloads` is then what the tick hands out, and
`impl.procs` holds what was seen of the process from outside (error returned, pre-processors invoked, what the
runner was asked, what the post-processor got).  The runner-level history uses what the runner WAS asked; the
process-level predicate `ProcObs.ok` says it had to be what the pre-processors returned.
`impl.life`: the life-cycle calls made on the runner in order (`op`, `out`: 1 = an error at once, 0 = `Close` answered
nil / `Start` took the runner over and returned nil once it was closed, 2 = `Start` answered nil at once, 3 = `Start`
never returned, 4 = `Start` answered an error after it had taken the runner over); judged by `lifeOk`, compared with `lifeRun`.

`events` are the runner's cache accesses in the order they happened (look-up loop of
a call, aggregation of one batch), as logged by the harness at distinct virtual
instants.  For every call the model computes the cache at its start from the
earlier `d` events, predicts hits and batches, reads the delivery order off the
observed batches (each must be a predicted batch) and evaluates `parallelCheck`.
-/
open Lean AutoVerif.Codec
namespace AutoVerif.C13

structure ObsIn where
  generic : Bool
  tickFails : Bool
  pres : List PreSpec
  postFails : Bool

structure CallIn where
  cid : Nat
  payloads : List Payload
  obs : Option ObsIn := none
  ctxDoneBefore : Bool := false   -- the caller's context was cancelled before the call

def boolD (j : Json) (k : String) : Bool := match fieldD j k (.bool false) with | .bool b => b | _ => false

def preIn (j : Json) : R PreSpec := do
  pure { kind := ← natF j "kind", fails := boolD j "fails" }

def obsIn (j : Json) : R ObsIn := do
  pure { generic := boolD j "generic", tickFails := boolD j "tickFails", pres := ← listOf preIn (fieldD j "pres" .null),
         postFails := boolD j "postFails" }

def callIn (j : Json) : R CallIn := do
  let timeout ← asInt (fieldD j "timeout" (.num 0))
  pure { cid := ← natF j "c", payloads := ← listF payload j "payloads", obs := ← optOf obsIn (fieldD j "obs" .null),
         ctxDoneBefore := timeout < 0 }

/-- what was seen of one `Observer.Process` -/
structure ProcIn where
  cid : Nat
  out : ProcOut
  askedN : Nat
  postCalls : Nat

def procIn (j : Json) : R ProcIn := do
  let asked := boolD j "asked"
  let askedPs ← listOf payload (fieldD j "askedPs" .null)
  let postCalls ← natF j "postCalls"
  let postRes ← listOf checkResult (fieldD j "postRes" .null)
  let postPs ← listOf payload (fieldD j "postPs" .null)
  pure { cid := ← natF j "c", askedN := ← natF j "askedN", postCalls := postCalls,
         out := { code := ← natF j "code", preCalls := ← natF j "preCalls",
                  asked := if asked then some askedPs else none,
                  post := if postCalls > 0 then some (postRes, postPs) else none } }

structure LifeIn where
  op : LifeOp
  out : Nat

def lifeIn (j : Json) : R LifeIn := do
  let op ← strF j "op"
  pure { op := if op == "start" then .start else .close, out := ← natF j "out" }

def evOf (calls : List CallIn) (j : Json) : R Ev := do
  let t ← strF j "t"
  let cid ← natF j "c"
  let now ← natF j "now"
  if t == "s" then
    match calls.find? (fun c => c.cid == cid) with
    | some c => pure (.start cid now c.payloads)
    | none => throw s!"start of unknown call {cid}"
  else
    let ok ← boolF j "ok"
    let batch ← listOf payload (fieldD j "batch" .null)
    let res ← if ok then some <$> listOf checkResult (fieldD j "res" .null) else pure none
    pure (.done cid batch { doneAt := now, res := res })

structure RetIn where
  cid : Nat
  ret : Ret
  code : Nat
  cancelled : Bool   -- the caller's context was done when the call returned
  held : List CheckResult   -- content of the returned slice at the end of the history
  stopped : Nat

def retIn (j : Json) : R RetIn := do
  let code ← natF j "err"
  let cancelled ← match fieldD j "cancelled" (.bool false) with
    | .bool b => pure b
    | _ => throw "cancelled: not a bool"
  let vals ← listF checkResult j "vals"
  let held ← match fieldD j "heldSame" (.bool true) with
    | .bool true => pure vals
    | _ => listOf checkResult (fieldD j "held" .null)
  let stopped ← asNat (fieldD j "stopped" (.num 0))
  pure { cid := ← natF j "c", ret := { values := vals, err := code != 0 }, code := code,
         cancelled := cancelled || stopped != 0, held := held, stopped := stopped }

structure St where
  cache : Cache := []
  rets : List (Nat × Option Ret) := []
  tags : List String := []
  nontriv : Bool := false

def addTag (t : String) (ts : List String) : List String := if ts.contains t then ts else t :: ts

def callTags (c : Cache) (now : Nat) (ps : List Payload) (ds : List (List Payload × BatchOut)) (ts : List String) : List String :=
  let hs := hits c now ps
  let run := toRun c now ps
  let ts := if !hs.isEmpty then addTag "cache-hit" ts else ts
  let ts := if !hs.isEmpty && !run.isEmpty then addTag "hits-and-runs" ts else ts
  let ts := if ps.any (fun p => (hit c now p).isNone && (get c now p.workID).isSome) then addTag "fork-miss(same work id, other block or hash)" ts else ts
  let ts := if ps.any (fun p => match find c p.workID with | some e => expired e now | none => false) then addTag "expired-entry" ts else ts
  let ts := if !ps.isEmpty && run.isEmpty then addTag "all-cached" ts else ts
  let ts := if ps.isEmpty then addTag "no-payloads" ts else ts
  let nb := (batches c now ps).length
  let ts := if nb ≥ 2 then addTag "multi-batch" ts else ts
  let ts := if run.length % workerBatchLimit == 0 && nb ≥ 1 then addTag "last-batch-full" ts else ts
  let ts := if run.length % workerBatchLimit == 1 && nb ≥ 2 then addTag "last-batch-single" ts else ts
  let nf := (ds.filter (fun d => d.2.res.isNone)).length
  let ts := if nf == 0 && nb ≥ 1 then addTag "fail-none" ts else ts
  let ts := if nf > 0 && nf < ds.length then addTag "fail-some" ts else ts
  let ts := if nf > 0 && nf == ds.length then addTag "fail-all" ts else ts
  let ts := if nf > 0 && nf == ds.length && !hs.isEmpty then addTag "hits-dropped-on-error" ts else ts
  let ts := if (ps.map keyP).eraseDups.length != ps.length then addTag "duplicate-payload" ts else ts
  let ts := if (ps.map (·.workID)).eraseDups.length != (ps.map keyP).eraseDups.length then addTag "work-id-on-forks-in-one-call" ts else ts
  let ts := if ds.any (fun d => !CallObs.contractOk d) then addTag "contract-broken" ts else ts
  let ts := if ds.any (fun d => (d.2.res.getD []).any (fun r => r.pes != 0)) then addTag "pes-nonzero-result" ts else ts
  ts

/-- position of the last `done` of call `cid` in `es` -/
def lastDone (cid : Nat) (es : List Ev) : Option Nat :=
  (es.foldl (fun (acc : Nat × Option Nat) e =>
    (acc.1 + 1, match e with | .done c _ _ => if c == cid then some acc.1 else acc.2 | _ => acc.2)) (0, none)).2

/-- largest number of other calls that start between a call's look-ups and its last batch -/
def maxOverlap : List Ev → Nat
  | [] => 0
  | .start cid _ _ :: es =>
    let here := match lastDone cid es with
      | none => 0
      | some l => ((es.take l).filter (fun e => match e with | .start _ _ _ => true | _ => false)).length
    max here (maxOverlap es)
  | _ :: es => maxOverlap es

def interleaved : List Ev → Bool
  | [] => false
  | .start cid _ _ :: es =>
    -- another call starts or completes a batch before this call's last batch
    (match lastDone cid es with
     | none => false
     | some l => (es.take l).any (fun e => match e with | .done c _ _ => c != cid | .start _ _ _ => true)) || interleaved es
  | _ :: es => interleaved es

def step (expire : Nat) (canc : Nat → Bool) : St → List Ev → St
  | st, [] => st
  | st, .start cid now ps :: es =>
    let ds := donesOf cid es
    let r := modelCall expire st.cache now ps ds (canc cid)
    let nb := (batches st.cache now ps).length
    let ts := callTags st.cache now ps ds st.tags
    let ts := if canc cid then addTag "ctx-done-at-return" ts else ts
    let ts := if canc cid && ds.length < nb then addTag "ctx-done:batches-never-submitted" ts else ts
    let ts := if canc cid && ds.any (fun d => d.2.res.isSome) && ds.any (fun d => d.2.res.isNone)
              then addTag "ctx-done:some-batches-succeeded-before" ts else ts
    let ts := if canc cid && !ds.isEmpty && ds.all (fun d => d.2.res.isNone) then addTag "ctx-done:every-batch-failed" ts else ts
    let ts := if canc cid && !ds.isEmpty && ds.all (fun d => d.2.res.isSome) then addTag "ctx-done:after-last-batch-succeeded" ts else ts
    step expire canc { st with rets := (cid, r) :: st.rets, tags := ts,
                               nontriv := st.nontriv || nb ≥ 2 || (nb ≥ 1 && !(hits st.cache now ps).isEmpty) } es
  | st, .done cid b o :: es =>
    let ts := match o.res with
      | some rs =>
        let ts := if rs.any (fun r => r.pes == 0 && (match get st.cache o.doneAt r.workID with
                    | some old => !decide (r.trigger.blockNumber > old.trigger.blockNumber) | none => false))
                  then addTag "not-cached(block not higher)" st.tags else st.tags
        if rs.any (fun r => r.pes == 0 && (match get st.cache o.doneAt r.workID with
                    | some old => decide (r.trigger.blockNumber > old.trigger.blockNumber) | none => false))
        then addTag "cache-replaced(higher block)" ts else ts
      | none => st.tags
    step expire canc { st with cache := cacheStep expire st.cache (.done cid b o), tags := ts } es

/-- failed deliveries for the predicted batches of a call that the pipeline never saw because the
runner was closed while they were queued (placed right after the call's `start`; a failure does
not touch the cache, so the position among the later events is immaterial) -/
def addUnseen (expire : Nat) (stoppedDuring : Nat → Bool) : Cache → List Ev → List Ev
  | _, [] => []
  | c, .start cid now ps :: es =>
    let bs := batches c now ps
    let extra : List Ev :=
      if stoppedDuring cid then
        match orderOf bs [] (donesOf cid es) with
        | some order =>
          ((List.range bs.length).filter (fun i => !order.contains i)).map
            (fun i => Ev.done cid (bs.getD i []) { doneAt := now, res := none })
        | none => []
      else []
    .start cid now ps :: (extra ++ addUnseen expire stoppedDuring c es)
  | c, .done cid b o :: es => .done cid b o :: addUnseen expire stoppedDuring (cacheStep expire c (.done cid b o)) es

def handle (input impl : Json) : R Reply := do
  match fieldD impl "crashed" (.bool false) with
  | .bool true =>
    let why := match fieldD impl "crash" (.str "") with | .str s => s | _ => ""
    return { agree := true, specModel := true, specImpl := false,
             fail := "the process died while the history ran (a panic on a goroutine of the runner that nothing recovers)",
             diff := why, nontrivial := true, tags := ["process-died"] }
  | _ => pure ()
  let racy := match fieldD input "racy" (.bool false) with | .bool b => b | _ => false
  let expire ← natF input "expire"
  let calls0 ← listF callIn input "calls"
  let procs ← listOf procIn (fieldD impl "procs" .null)
  let life ← listOf lifeIn (fieldD impl "life" .null)
  -- the calls that reached the runner, with the payloads the runner was asked about
  let calls : List CallIn := calls0.filterMap fun c => match c.obs with
    | none => some c
    | some _ => match procs.find? (fun p => p.cid == c.cid) with
      | some p => p.out.asked.map fun ps => { c with payloads := ps }
      | none => none
  -- ... and how many the model expects to reach it
  let expectedStarts := (calls0.filter fun c => match c.obs with
    | none => true
    | some o => !o.tickFails && (runPres o.pres c.payloads).1.isSome).length
  let evs0 ← listF (evOf calls) impl "events"
  let rets ← listF retIn impl "rets"
  let evs := addUnseen expire (fun cid => rets.any (fun r => r.cid == cid && r.stopped == 1)) [] evs0
  let canc := fun cid => match rets.find? (fun r => r.cid == cid) with | some r => r.cancelled | none => false
  let st := step expire canc {} evs
  let implRets := rets.map fun r => (r.cid, r.ret, r.cancelled)
  -- agreement: same error flag and the same multiset of results for every call
  let bad := st.rets.reverse.filterMap fun (cid, m) =>
    match m, rets.find? (fun r => r.cid == cid) with
    | none, _ => some s!"call {cid}: the batches seen by the pipeline are not the predicted ones, each once (all of them while the caller's context is alive)"
    | some _, none => some s!"call {cid}: no return value"
    | some m, some r =>
      if m.err != r.ret.err then some s!"call {cid}: model err={m.err} impl err code={r.code}"
      else if r.code == 2 then some s!"call {cid}: error other than ErrTooManyErrors"
      else if r.held != r.ret.values then
        let lost := mdiff r.ret.values r.held
        let extra := mdiff r.held r.ret.values
        some s!"call {cid}: the result slice the caller holds changed after the call returned: {r.ret.values.length} results then, {r.held.length} at the end of the history; {lost.length} of its results gone {(lost.take 2).map showResult}…, {extra.length} others in their place {(extra.take 2).map showResult}…"
      else if !(m.values.isPerm r.ret.values) then
        let lost := mdiff m.values r.ret.values
        let extra := mdiff r.ret.values m.values
        some s!"call {cid}: model {m.values.length} results, impl {r.ret.values.length}; {lost.length} missing from impl {(lost.take 2).map showResult}…, {extra.length} only in impl (duplicates or foreign) {(extra.take 2).map showResult}…"
      else none
  let nStarts := (evs.filter (fun e => match e with | .start _ _ _ => true | _ => false)).length
  let bad := if nStarts != expectedStarts then s!"{expectedStarts} calls expected to reach the runner, {nStarts} start events" :: bad else bad
  -- nothing is submitted on a closed runner or with a context that was done before the call: the pipeline sees nothing
  let bad := bad ++ calls.filterMap fun c =>
    let closedBefore := rets.any (fun r => r.cid == c.cid && r.stopped == 2)
    if (closedBefore || c.ctxDoneBefore) && !(donesOf c.cid evs0).isEmpty
    then some s!"call {c.cid}: the pipeline was called although the runner was closed / the context done before the call"
    else none
  -- the observer around the runner: model = `process` over the model's answer of the runner
  let obsCalls := calls0.filterMap fun c => c.obs.map fun o => (c, o)
  let modelRetOf := fun (cid : Nat) => (st.rets.find? (fun x => x.1 == cid)).bind (·.2)
  let procM := obsCalls.map fun (c, o) =>
    let run := fun (_ : List Payload) => (modelRetOf c.cid).getD { values := [], err := false }
    (c, o, process o.tickFails c.payloads o.pres run o.postFails)
  let obsM : List ProcObs := procM.map fun (c, o, out) =>
    { tickFails := o.tickFails, tick := c.payloads, pres := o.pres, postFails := o.postFails, out := out,
      ret := out.asked.map fun _ => (modelRetOf c.cid).getD { values := [], err := false } }
  let obsI : List (Nat × Option (ProcIn × ProcObs)) := obsCalls.map fun (c, o) =>
    (c.cid, (procs.find? (fun p => p.cid == c.cid)).map fun p =>
      (p, { tickFails := o.tickFails, tick := c.payloads, pres := o.pres, postFails := o.postFails, out := p.out,
            ret := if p.out.asked.isSome then (rets.find? (fun r => r.cid == c.cid)).map (·.ret) else none }))
  let badP := procM.filterMap fun (c, _, m) =>
    match procs.find? (fun p => p.cid == c.cid) with
    | none => some s!"call {c.cid}: nothing recorded of its Process"
    | some p =>
      if m.code != p.out.code then some s!"call {c.cid}: Process model error code {m.code}, impl {p.out.code}"
      else if m.preCalls != p.out.preCalls then some s!"call {c.cid}: model {m.preCalls} pre-processors invoked, impl {p.out.preCalls}"
      else if m.asked != p.out.asked then some s!"call {c.cid}: the runner was asked {(p.out.asked.map (·.length))} payloads, model {(m.asked.map (·.length))}"
      else if p.askedN > 1 || p.postCalls > 1 then some s!"call {c.cid}: runner called {p.askedN} times, post-processor {p.postCalls} times"
      else match m.post, p.out.post with
        | none, none => none
        | some (mv, mp), some (iv, ip) =>
          if mp != ip then some s!"call {c.cid}: the post-processor got {ip.length} payloads, model {mp.length}"
          else if !(mv.isPerm iv) then some s!"call {c.cid}: the post-processor got {iv.length} results, model {mv.length}"
          else none
        | _, _ => some s!"call {c.cid}: post-processor called: impl {p.out.post.isSome}, model {m.post.isSome}"
  -- life cycle: model = `lifeRun` from a runner that is not running
  let lifeObs : List (LifeOp × Bool) := life.map fun l => (l.op, l.out == 1)
  let lifeM := lifeRun false (life.map (·.op))
  let badL := (if lifeM != lifeObs.map (·.2) then [s!"life cycle: model errors {lifeM}, impl {lifeObs.map (·.2)}"] else []) ++
    (life.filterMap fun l => if l.out ≥ 2 then some s!"life cycle: Start ended with outcome {l.out}" else none)
  let bad := bad ++ badP ++ badL
  let agree := (racy || bad.isEmpty) && badP.isEmpty && badL.isEmpty
  let modelRets := st.rets.filterMap fun (cid, m) => m.map fun r => (cid, r, canc cid)
  let smObs := obsM.all (·.ok)
  let smLife := lifeOk false ((life.map (·.op)).zip lifeM)
  let sm := (racy || specTrace evs modelRets) && smObs && smLife
  let heldRets := rets.map fun r => (r.cid, ({ r.ret with values := r.held } : Ret), r.cancelled)
  let siNow := specTrace evs implRets
  let siHeld := specTrace evs heldRets
  let siObs := obsI.all fun x => match x.2 with
    | some (p, o) => o.ok && p.askedN ≤ 1 && p.postCalls ≤ 1
    | none => false
  let lifeStuck := life.find? (fun l => l.out ≥ 2)
  let siLife := lifeOk false lifeObs && lifeStuck.isNone
  let si := siNow && siHeld && siObs && siLife
  let exact := st.rets.all fun (cid, m) => match m, rets.find? (fun r => r.cid == cid) with
    | some m, some r => m.values == r.ret.values
    | _, _ => false
  let tags := st.tags
  let tags := if exact then addTag "same-order-as-model" tags else tags
  let tags := if interleaved evs then addTag "calls-interleaved" tags else tags
  let tags := if nStarts ≥ 2 then addTag "several-calls" tags else tags
  let ov := maxOverlap evs
  let tags := if ov ≥ 1024 then addTag "a-call-outlives>=1024-later-calls" tags
              else if ov ≥ 100 then addTag "a-call-outlives>=100-later-calls" tags
              else if ov ≥ 8 then addTag "a-call-outlives>=8-later-calls" tags else tags
  let tags := if rets.any (fun r => r.held != r.ret.values) then addTag "retained-results-changed" tags else tags
  let tags := if racy then addTag "racy(look-ups against concurrent aggregation; predicate only)" tags else tags
  let tags := if rets.any (fun r => r.stopped == 1) then addTag "runner-closed-during-a-call" tags else tags
  let tags := if evs.length != evs0.length then addTag "runner-closed:queued-batches-failed-unseen" tags else tags
  let tags := if rets.any (fun r => r.stopped == 2) then addTag "call-on-closed-runner" tags else tags
  let tags := if rets.any (fun r => r.stopped == 1 && !r.ret.err && !r.ret.values.isEmpty) then addTag "runner-closed:results-of-in-flight-batches-returned" tags else tags
  let tags := if obsCalls.any (fun x => !x.2.generic) then addTag "observer:NewRunnableObserver" tags else tags
  let tags := if obsCalls.any (fun x => x.2.generic) then addTag "observer:NewGenericObserver" tags else tags
  let tags := if procM.any (fun x => x.2.2.code == 1) then addTag "observer:tick-error" tags else tags
  let tags := if procM.any (fun x => x.2.2.code == 2) then addTag "observer:pre-processor-error(runner not asked)" tags else tags
  let tags := if procM.any (fun x => x.2.2.code == 2 && x.2.2.preCalls < x.2.1.pres.length) then addTag "observer:pre-processor-error(later ones not invoked)" tags else tags
  let tags := if procM.any (fun x => x.2.2.code == 3) then addTag "observer:runner-error(post-processor not called)" tags else tags
  let tags := if procM.any (fun x => x.2.2.code == 4) then addTag "observer:post-processor-error" tags else tags
  let tags := if procM.any (fun x => match x.2.2.asked with | some ps => ps.length < x.1.payloads.length | none => false) then addTag "observer:payloads-filtered" tags else tags
  let tags := if procM.any (fun x => match x.2.2.asked with | some ps => ps.isEmpty && !x.1.payloads.isEmpty | none => false) then addTag "observer:all-filtered-away" tags else tags
  let tags := if (lifeObs.zip (List.range lifeObs.length)).any (fun x => x.1.1 == .start && x.1.2 && x.2 > 0) then addTag "life:Start-while-running-rejected" tags else tags
  let tags := if lifeObs.head? == some (.close, true) then addTag "life:Close-before-Start-rejected" tags else tags
  let tags := if (lifeObs.zip (List.range lifeObs.length)).any (fun x => x.1.1 == .close && x.1.2 && x.2 > 0) then addTag "life:Close-after-Close-rejected" tags else tags
  let tags := if calls.any (fun c => (rets.any (fun r => r.cid == c.cid && r.stopped == 2) || c.ctxDoneBefore) && !c.payloads.isEmpty
                  && (rets.any (fun r => r.cid == c.cid && !r.ret.err && r.ret.values.isEmpty))) then addTag "zero-batches:nothing-submitted,nothing-cached" tags else tags
  let tags := if calls.any (fun c => (rets.any (fun r => r.cid == c.cid && r.stopped == 2) || c.ctxDoneBefore)
                  && (rets.any (fun r => r.cid == c.cid && !r.ret.err && !r.ret.values.isEmpty))) then addTag "zero-batches:nothing-submitted,hits-returned" tags else tags
  let tags := match fieldD input "instant" (.bool false) with
    | .bool true => addTag "instant-pipeline(batches complete concurrently)" tags
    | _ => tags
  pure { agree := agree, specModel := sm, specImpl := si,
         diff := if agree then "" else "; ".intercalate (bad.take 3),
         fail := if si then "" else if !siNow then explainTrace evs implRets
                 else if !siHeld then "retained result set (read again at the end of the history): " ++ explainTrace evs heldRets
                 else if !siObs then
                   (match obsI.find? (fun x => match x.2 with | some (p, o) => !(o.ok && p.askedN ≤ 1 && p.postCalls ≤ 1) | none => true) with
                    | some (cid, some (p, o)) =>
                      s!"call {cid} through Observer.Process: " ++
                        (if !o.ok then o.explain else s!"runner called {p.askedN} times, post-processor {p.postCalls} times")
                    | some (cid, none) => s!"call {cid} through Observer.Process: nothing recorded"
                    | none => "")
                 else match lifeStuck with
                   | some l => (if l.out == 2 then "Start answered nil at once instead of taking the runner over until Close (or an error)"
                                else if l.out == 3 then "Start never returned although the runner was closed"
                                else "Start answered an error after it had taken the runner over")
                   | none => lifeExplain false lifeObs,
         nontrivial := st.nontriv, tags := tags.reverse }

end AutoVerif.C13
