import AutoVerif.Drv.Codec
import AutoVerif.Spec.C13
/-
Driver for C13.  One case = one history on one runner:

  input : {"expire": ns, "calls": [{"c": cid, "payloads": [payload…]}, …], …}
  impl  : {"events": [{"t":"s","c":cid,"now":ns} | {"t":"d","c":cid,"now":ns,"batch":[payload…],"ok":bool,"res":[result…]}, …],
           "rets":   [{"c":cid,"vals":[result…],"err":0|1|2,"cancelled":bool,"heldSame":bool,"held":[result…]}, …]}

`stopped` (per call): 1 = `Runner.Close()` came between the call's look-ups and its return, 2 = the
runner had been closed before the call started.  After `Close` the worker group still delivers every
submitted job: those it had not started yet fail without ever reaching the pipeline.  For a call
with `stopped = 1` these deliveries are added to the history as failed `d` events for the
predicted batches the pipeline did not see (`addUnseen`); a call with `stopped = 2` submits
nothing, like a call whose context is done.  `racy` histories (input flag): callers run truly
concurrently against each other's cache writes, the model is not compared, only the predicate.
`crashed`: the process died while the history ran.

`vals` is the content of the returned slice right after the call returned; the caller keeps the
slice, and `held` is its content at the end of the history (`heldSame`: unchanged).  Agreement with
the model and the Spec predicate are evaluated on BOTH: a result set that is right when handed out
but changes while the caller holds it (a later or concurrent call writing into it) is a violation.

`events` are the runner's cache accesses in the order they happened (look-up loop of
a call, aggregation of one batch), as logged by the harness at distinct virtual
instants.  For every call the model computes the cache at its start from the
earlier `d` events, predicts hits and batches, reads the delivery order off the
observed batches (each must be a predicted batch) and evaluates `parallelCheck`.
-/
open Lean AutoVerif.Codec
namespace AutoVerif.C13

structure CallIn where
  cid : Nat
  payloads : List Payload

def callIn (j : Json) : R CallIn := do
  pure { cid := ← natF j "c", payloads := ← listF payload j "payloads" }

def evOf (calls : List CallIn) (j : Json) : R Ev := do
  let t ← strF j "t"
  let cid ← natF j "c"
  let now ← natF j "now"
  if t == "s" then
    match calls.find? (fun c => c.cid == cid) with
    | some c => pure (.start cid now c.payloads)
    | none => throw s!"start of unknown call {cid}"
  else
    let ok ← boolF j "ok"
    let batch ← listOf payload (fieldD j "batch" .null)
    let res ← if ok then some <$> listOf checkResult (fieldD j "res" .null) else pure none
    pure (.done cid batch { doneAt := now, res := res })

structure RetIn where
  cid : Nat
  ret : Ret
  code : Nat
  cancelled : Bool   -- the caller's context was done when the call returned
  held : List CheckResult   -- content of the returned slice at the end of the history
  stopped : Nat

def retIn (j : Json) : R RetIn := do
  let code ← natF j "err"
  let cancelled ← match fieldD j "cancelled" (.bool false) with
    | .bool b => pure b
    | _ => throw "cancelled: not a bool"
  let vals ← listF checkResult j "vals"
  let held ← match fieldD j "heldSame" (.bool true) with
    | .bool true => pure vals
    | _ => listOf checkResult (fieldD j "held" .null)
  let stopped ← asNat (fieldD j "stopped" (.num 0))
  pure { cid := ← natF j "c", ret := { values := vals, err := code != 0 }, code := code,
         cancelled := cancelled || stopped != 0, held := held, stopped := stopped }

structure St where
  cache : Cache := []
  rets : List (Nat × Option Ret) := []
  tags : List String := []
  nontriv : Bool := false

def addTag (t : String) (ts : List String) : List String := if ts.contains t then ts else t :: ts

def callTags (c : Cache) (now : Nat) (ps : List Payload) (ds : List (List Payload × BatchOut)) (ts : List String) : List String :=
  let hs := hits c now ps
  let run := toRun c now ps
  let ts := if !hs.isEmpty then addTag "cache-hit" ts else ts
  let ts := if !hs.isEmpty && !run.isEmpty then addTag "hits-and-runs" ts else ts
  let ts := if ps.any (fun p => (hit c now p).isNone && (get c now p.workID).isSome) then addTag "fork-miss(same work id, other block or hash)" ts else ts
  let ts := if ps.any (fun p => match find c p.workID with | some e => expired e now | none => false) then addTag "expired-entry" ts else ts
  let ts := if !ps.isEmpty && run.isEmpty then addTag "all-cached" ts else ts
  let ts := if ps.isEmpty then addTag "no-payloads" ts else ts
  let nb := (batches c now ps).length
  let ts := if nb ≥ 2 then addTag "multi-batch" ts else ts
  let ts := if run.length % workerBatchLimit == 0 && nb ≥ 1 then addTag "last-batch-full" ts else ts
  let ts := if run.length % workerBatchLimit == 1 && nb ≥ 2 then addTag "last-batch-single" ts else ts
  let nf := (ds.filter (fun d => d.2.res.isNone)).length
  let ts := if nf == 0 && nb ≥ 1 then addTag "fail-none" ts else ts
  let ts := if nf > 0 && nf < ds.length then addTag "fail-some" ts else ts
  let ts := if nf > 0 && nf == ds.length then addTag "fail-all" ts else ts
  let ts := if nf > 0 && nf == ds.length && !hs.isEmpty then addTag "hits-dropped-on-error" ts else ts
  let ts := if (ps.map keyP).eraseDups.length != ps.length then addTag "duplicate-payload" ts else ts
  let ts := if (ps.map (·.workID)).eraseDups.length != (ps.map keyP).eraseDups.length then addTag "work-id-on-forks-in-one-call" ts else ts
  let ts := if ds.any (fun d => !CallObs.contractOk d) then addTag "contract-broken" ts else ts
  let ts := if ds.any (fun d => (d.2.res.getD []).any (fun r => r.pes != 0)) then addTag "pes-nonzero-result" ts else ts
  ts

/-- position of the last `done` of call `cid` in `es` -/
def lastDone (cid : Nat) (es : List Ev) : Option Nat :=
  (es.foldl (fun (acc : Nat × Option Nat) e =>
    (acc.1 + 1, match e with | .done c _ _ => if c == cid then some acc.1 else acc.2 | _ => acc.2)) (0, none)).2

/-- largest number of other calls that start between a call's look-ups and its last batch -/
def maxOverlap : List Ev → Nat
  | [] => 0
  | .start cid _ _ :: es =>
    let here := match lastDone cid es with
      | none => 0
      | some l => ((es.take l).filter (fun e => match e with | .start _ _ _ => true | _ => false)).length
    max here (maxOverlap es)
  | _ :: es => maxOverlap es

def interleaved : List Ev → Bool
  | [] => false
  | .start cid _ _ :: es =>
    -- another call starts or completes a batch before this call's last batch
    (match lastDone cid es with
     | none => false
     | some l => (es.take l).any (fun e => match e with | .done c _ _ => c != cid | .start _ _ _ => true)) || interleaved es
  | _ :: es => interleaved es

def step (expire : Nat) (canc : Nat → Bool) : St → List Ev → St
  | st, [] => st
  | st, .start cid now ps :: es =>
    let ds := donesOf cid es
    let r := modelCall expire st.cache now ps ds (canc cid)
    let nb := (batches st.cache now ps).length
    let ts := callTags st.cache now ps ds st.tags
    let ts := if canc cid then addTag "ctx-done-at-return" ts else ts
    let ts := if canc cid && ds.length < nb then addTag "ctx-done:batches-never-submitted" ts else ts
    let ts := if canc cid && ds.any (fun d => d.2.res.isSome) && ds.any (fun d => d.2.res.isNone)
              then addTag "ctx-done:some-batches-succeeded-before" ts else ts
    let ts := if canc cid && !ds.isEmpty && ds.all (fun d => d.2.res.isNone) then addTag "ctx-done:every-batch-failed" ts else ts
    let ts := if canc cid && !ds.isEmpty && ds.all (fun d => d.2.res.isSome) then addTag "ctx-done:after-last-batch-succeeded" ts else ts
    step expire canc { st with rets := (cid, r) :: st.rets, tags := ts,
                               nontriv := st.nontriv || nb ≥ 2 || (nb ≥ 1 && !(hits st.cache now ps).isEmpty) } es
  | st, .done cid b o :: es =>
    let ts := match o.res with
      | some rs =>
        let ts := if rs.any (fun r => r.pes == 0 && (match get st.cache o.doneAt r.workID with
                    | some old => !decide (r.trigger.blockNumber > old.trigger.blockNumber) | none => false))
                  then addTag "not-cached(block not higher)" st.tags else st.tags
        if rs.any (fun r => r.pes == 0 && (match get st.cache o.doneAt r.workID with
                    | some old => decide (r.trigger.blockNumber > old.trigger.blockNumber) | none => false))
        then addTag "cache-replaced(higher block)" ts else ts
      | none => st.tags
    step expire canc { st with cache := cacheStep expire st.cache (.done cid b o), tags := ts } es

/-- failed deliveries for the predicted batches of a call that the pipeline never saw because the
runner was closed while they were queued (placed right after the call's `start`; a failure does
not touch the cache, so the position among the later events is immaterial) -/
def addUnseen (expire : Nat) (stoppedDuring : Nat → Bool) : Cache → List Ev → List Ev
  | _, [] => []
  | c, .start cid now ps :: es =>
    let bs := batches c now ps
    let extra : List Ev :=
      if stoppedDuring cid then
        match orderOf bs [] (donesOf cid es) with
        | some order =>
          ((List.range bs.length).filter (fun i => !order.contains i)).map
            (fun i => Ev.done cid (bs.getD i []) { doneAt := now, res := none })
        | none => []
      else []
    .start cid now ps :: (extra ++ addUnseen expire stoppedDuring c es)
  | c, .done cid b o :: es => .done cid b o :: addUnseen expire stoppedDuring (cacheStep expire c (.done cid b o)) es

def handle (input impl : Json) : R Reply := do
  match fieldD impl "crashed" (.bool false) with
  | .bool true =>
    let why := match fieldD impl "crash" (.str "") with | .str s => s | _ => ""
    return { agree := true, specModel := true, specImpl := false,
             fail := "the process died while the history ran (a panic on a goroutine of the runner that nothing recovers)",
             diff := why, nontrivial := true, tags := ["process-died"] }
  | _ => pure ()
  let racy := match fieldD input "racy" (.bool false) with | .bool b => b | _ => false
  let expire ← natF input "expire"
  let calls ← listF callIn input "calls"
  let evs0 ← listF (evOf calls) impl "events"
  let rets ← listF retIn impl "rets"
  let evs := addUnseen expire (fun cid => rets.any (fun r => r.cid == cid && r.stopped == 1)) [] evs0
  let canc := fun cid => match rets.find? (fun r => r.cid == cid) with | some r => r.cancelled | none => false
  let st := step expire canc {} evs
  let implRets := rets.map fun r => (r.cid, r.ret, r.cancelled)
  -- agreement: same error flag and the same multiset of results for every call
  let bad := st.rets.reverse.filterMap fun (cid, m) =>
    match m, rets.find? (fun r => r.cid == cid) with
    | none, _ => some s!"call {cid}: the batches seen by the pipeline are not the predicted ones, each once (all of them while the caller's context is alive)"
    | some _, none => some s!"call {cid}: no return value"
    | some m, some r =>
      if m.err != r.ret.err then some s!"call {cid}: model err={m.err} impl err code={r.code}"
      else if r.code == 2 then some s!"call {cid}: error other than ErrTooManyErrors"
      else if r.held != r.ret.values then
        let lost := mdiff r.ret.values r.held
        let extra := mdiff r.held r.ret.values
        some s!"call {cid}: the result slice the caller holds changed after the call returned: {r.ret.values.length} results then, {r.held.length} at the end of the history; {lost.length} of its results gone {(lost.take 2).map showResult}…, {extra.length} others in their place {(extra.take 2).map showResult}…"
      else if !(m.values.isPerm r.ret.values) then
        let lost := mdiff m.values r.ret.values
        let extra := mdiff r.ret.values m.values
        some s!"call {cid}: model {m.values.length} results, impl {r.ret.values.length}; {lost.length} missing from impl {(lost.take 2).map showResult}…, {extra.length} only in impl (duplicates or foreign) {(extra.take 2).map showResult}…"
      else none
  let nStarts := (evs.filter (fun e => match e with | .start _ _ _ => true | _ => false)).length
  let bad := if nStarts != calls.length then s!"{calls.length} calls, {nStarts} start events" :: bad else bad
  let agree := racy || bad.isEmpty
  let modelRets := st.rets.filterMap fun (cid, m) => m.map fun r => (cid, r, canc cid)
  let sm := racy || specTrace evs modelRets
  let heldRets := rets.map fun r => (r.cid, ({ r.ret with values := r.held } : Ret), r.cancelled)
  let siNow := specTrace evs implRets
  let siHeld := specTrace evs heldRets
  let si := siNow && siHeld
  let exact := st.rets.all fun (cid, m) => match m, rets.find? (fun r => r.cid == cid) with
    | some m, some r => m.values == r.ret.values
    | _, _ => false
  let tags := st.tags
  let tags := if exact then addTag "same-order-as-model" tags else tags
  let tags := if interleaved evs then addTag "calls-interleaved" tags else tags
  let tags := if nStarts ≥ 2 then addTag "several-calls" tags else tags
  let ov := maxOverlap evs
  let tags := if ov ≥ 1024 then addTag "a-call-outlives>=1024-later-calls" tags
              else if ov ≥ 100 then addTag "a-call-outlives>=100-later-calls" tags
              else if ov ≥ 8 then addTag "a-call-outlives>=8-later-calls" tags else tags
  let tags := if rets.any (fun r => r.held != r.ret.values) then addTag "retained-results-changed" tags else tags
  let tags := if racy then addTag "racy(look-ups against concurrent aggregation; predicate only)" tags else tags
  let tags := if rets.any (fun r => r.stopped == 1) then addTag "runner-closed-during-a-call" tags else tags
  let tags := if evs.length != evs0.length then addTag "runner-closed:queued-batches-failed-unseen" tags else tags
  let tags := if rets.any (fun r => r.stopped == 2) then addTag "call-on-closed-runner" tags else tags
  let tags := if rets.any (fun r => r.stopped == 1 && !r.ret.err && !r.ret.values.isEmpty) then addTag "runner-closed:results-of-in-flight-batches-returned" tags else tags
  let tags := match fieldD input "instant" (.bool false) with
    | .bool true => addTag "instant-pipeline(batches complete concurrently)" tags
    | _ => tags
  pure { agree := agree, specModel := sm, specImpl := si,
         diff := if agree then "" else "; ".intercalate (bad.take 3),
         fail := if si then "" else if !siNow then explainTrace evs implRets
                 else "retained result set (read again at the end of the history): " ++ explainTrace evs heldRets,
         nontrivial := st.nontriv, tags := tags.reverse }

end AutoVerif.C13
