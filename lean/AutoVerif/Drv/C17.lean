import AutoVerif.Drv.Codec
import AutoVerif.Spec.C17
open Lean AutoVerif.Codec
namespace AutoVerif.C17

def strOf (s : String) : Str := s.toList.map Char.toNat
def showStr (s : Str) : String := String.ofList (s.map Char.ofNat)

def cfgOf (j : Json) : R Cfg := do
  pure { lockout := ← intF j "lockout", minConfs := ← intF j "minConfs" }

def opOf (j : Json) : R Op := do
  let t ← strF j "t"
  let key := strOf (← strF j "key")
  match t with
  | "a" => pure (.accept key)
  | "p" => pure (.perform { key := key, transmit := strOf (← strF j "tb"), confs := ← intF j "confs" })
  | "s" => pure (.stale { key := key, transmit := strOf (← strF j "tb"), confs := ← intF j "confs" })
  | _ => throw s!"unknown op type {t}"

def pairOf (j : Json) : R (Nat × Nat) := do
  match (← asList j) with
  | [a, b] => pure (← asNat a, ← asNat b)
  | _ => throw "not a pair"

def pendOf (j : Json) : R (Bool × Bool) := do
  match (← asList j) with
  | [a, b] => pure (← asBool a, ← asBool b)
  | _ => throw "not a bool pair"

def obsOf (j : Json) : R Obs := do
  pure { pending := ← listF pendOf j "pending", confirmed := ← listF asBool j "confirmed" }

/-- a run: ops from the input, times / probe points / answers from the implementation side -/
def runOf (jin jimpl : Json) : R (Run × List Obs) := do
  let ops ← listF opOf jin "ops"
  let times ← listF asNat jimpl "times"
  if times.length ≠ ops.length then throw "times/ops length mismatch"
  let points ← listF pairOf jimpl "points"
  let obs ← listF obsOf jimpl "obs"
  pure ({ ops := times.zip ops, points := points }, obs)

def showObs (o : Obs) : String :=
  let p := String.join (o.pending.map fun (a, e) => if e then "E" else if a then "1" else "0")
  let c := String.join (o.confirmed.map fun a => if a then "1" else "0")
  s!"{p}/{c}"

def firstDiff (want got : List (List Obs)) : String :=
  match ((want.zip got).zipIdx).find? (fun x => x.1.1 ≠ x.1.2) with
  | some ((w, g), i) =>
    match ((w.zip g).zipIdx).find? (fun x => x.1.1 ≠ x.1.2) with
    | some ((wo, go), k) => s!"run {i} point {k}: model={showObs wo} impl={showObs go}"
    | none => s!"run {i}: {w.length} model points vs {g.length} impl points"
  | none => s!"{want.length} model runs vs {got.length} impl runs"

def isReorg (h : List Op) : Bool :=
  -- two performs of one key with different transmit blocks
  h.any fun a => match a with
    | .perform l => h.any fun b => match b with
      | .perform l' => l.key = l'.key ∧ l.transmit ≠ l'.transmit
      | _ => false
    | _ => false

def handle (input impl : Json) : R Reply := do
  let cfg ← cfgOf (← field input "cfg")
  let probes := (← listF asStr input "probes").map strOf
  let ckeys := (← listF asStr input "ckeys").map strOf
  let jruns ← asList (← field input "runs")
  let jimpl ← asList (← field impl "runs")
  if jruns.length ≠ jimpl.length then throw "runs length mismatch"
  let pairs ← (jruns.zip jimpl).mapM fun (a, b) => runOf a b
  let runs := pairs.map (·.1)
  let got := pairs.map (·.2)
  let want := runs.map (modelRun cfg probes ckeys)
  let agree := decide (got = want)
  let sm := spec cfg probes ckeys runs want
  let si := spec cfg probes ckeys runs got
  let base := match runs with
    | r :: _ => r.ops.map (·.2)
    | [] => []
  let g := ghost cfg base
  let applicable := runs.filter (orderApplies cfg probes)
  let orders := (applicable.map fun r => r.ops.map (·.2)).eraseDups
  let inRegime := runs.any fun r => r.points.any fun p => regime cfg (r.ops.take p.1) p.2 probes
  let allCanon := base.all opCanon && probes.all probeCanon
  let tags :=
    (if inRegime then ["regime"] else []) ++
    (if !allCanon then ["noncanonical"] else []) ++
    (if allCanon && !inRegime then ["out-of-window"] else []) ++
    (if allCanon && runs.any (fun r => r.points.any fun p => !regime cfg (r.ops.take p.1) p.2 probes) then ["expiry"] else []) ++
    (if orders.length ≥ 2 then ["orders>=2"] else []) ++
    (if !g.logged.isEmpty then ["log-effective"] else []) ++
    (if base.any (fun op => match op with | .stale _ => true | _ => false) then ["stale"] else []) ++
    (if isReorg base then ["reorg"] else []) ++
    (if base.any (fun op => (logContrib cfg op).isNone && (match op with | .accept _ => false | _ => true)) then ["log-skipped"] else []) ++
    (if !acceptFirst base then ["log-before-accept"] else []) ++
    (if (g.contribs.map (·.2.check)).eraseDups.length ≥ 2 then ["check-blocks>=2"] else []) ++
    (if want.any (fun w => w.any fun o => o.pending.any (·.2)) then ["pending-error"] else []) ++
    (if cfg.minConfs > 0 then ["minconfs>0"] else [])
  pure { agree := agree, specModel := sm, specImpl := si,
         diff := if agree then "" else firstDiff want got,
         fail := if si then "" else explain cfg probes ckeys runs got,
         nontrivial := decide (orders.length ≥ 2) && !g.logged.isEmpty,
         tags := tags }

end AutoVerif.C17
