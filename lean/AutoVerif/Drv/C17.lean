import AutoVerif.Drv.Codec
import AutoVerif.Spec.C17Plugin
open Lean AutoVerif.Codec
namespace AutoVerif.C17

def strOf (s : String) : Str := s.toList.map Char.toNat
def showStr (s : Str) : String := String.ofList (s.map Char.ofNat)

def cfgOf (j : Json) : R Cfg := do
  pure { lockout := ← intF j "lockout", minConfs := ← intF j "minConfs" }

def strsF (j : Json) (k : String) : R (List Str) := do
  pure ((← listOf asStr (fieldD j k .null)).map strOf)

/-- an operation of the input; `plugin` = accepts go through `ShouldAcceptFinalizedReport` -/
def popOf (plugin : Bool) (j : Json) : R POp := do
  let t ← strF j "t"
  let key := strOf (← asStr (fieldD j "key" (.str "")))
  match t with
  | "a" => pure (if plugin then .acceptReport [key] else .co (.accept key))
  | "p" => pure (.co (.perform { key := key, transmit := strOf (← strF j "tb"), confs := ← intF j "confs" }))
  | "s" => pure (.co (.stale { key := key, transmit := strOf (← strF j "tb"), confs := ← intF j "confs" }))
  | "A" => pure (.acceptReport (← strsF j "keys"))
  | "h" => pure (.head (strOf (← strF j "block")) (← strsF j "active") (← strsF j "ids"))
  | "o" => pure .observe
  | "x" => pure (.transmit (← strsF j "keys"))
  | "r" => pure (.report (strOf (← strF j "block")) (← strsF j "ids"))
  | "e" =>
    let w ← match (← strF j "where") with
      | "perform" => pure PollFail.perform
      | "stale" => pure PollFail.stale
      | "stalePartial" => pure PollFail.stalePartial
      | x => throw s!"unknown failure place {x}"
    let logs ← asList (fieldD j "logs" .null)
    let one (l : Json) : R Log := do
      pure { key := strOf (← strF l "key"), transmit := strOf (← strF l "tb"), confs := ← intF l "confs" }
    let ps ← (← logs.filterM fun l => do pure ((← strF l "t") == "p")).mapM one
    let ss ← (← logs.filterM fun l => do pure ((← strF l "t") == "s")).mapM one
    pure (.failedPoll w ps ss)
  | _ => throw s!"unknown op type {t}"

def pairOf (j : Json) : R (Nat × Nat) := do
  match (← asList j) with
  | [a, b] => pure (← asNat a, ← asNat b)
  | _ => throw "not a pair"

def pendOf (j : Json) : R (Bool × Bool) := do
  match (← asList j) with
  | [a, b] => pure (← asBool a, ← asBool b)
  | _ => throw "not a bool pair"

def obsOf (j : Json) : R Obs := do
  pure { pending := ← listF pendOf j "pending", confirmed := ← listF asBool j "confirmed" }

def poutOf (j : Json) : R POut := do
  pure { flag := ← asBool (fieldD j "flag" (.bool false)), err := ← asBool (fieldD j "err" (.bool false)),
         block := strOf (← asStr (fieldD j "block" (.str ""))), ids := ← strsF j "ids",
         pblock := strOf (← asStr (fieldD j "pblock" (.str ""))), pick := ← strsF j "pick" }

/-- a run: ops from the input, times / probe points / answers from the implementation side -/
def pollsOf (j : Json) : R PollStats := do
  pure { n := ← natF j "n", first := ← natF j "first", last := ← natF j "last", maxGap := ← natF j "maxGap" }

def runOf (plugin : Bool) (jin jimpl : Json) : R (PRun × List Obs × List POut × Nat × PollStats) := do
  let ops ← listF (popOf plugin) jin "ops"
  let times ← listF asNat jimpl "times"
  if times.length ≠ ops.length then throw "times/ops length mismatch"
  let points ← listF pairOf jimpl "points"
  let obs ← listF obsOf jimpl "obs"
  let outs ← listF poutOf jimpl "outs"
  let endT ← natF jimpl "end"
  let polls ← pollsOf (← field jimpl "polls")
  pure ({ ops := times.zip ops, points := points }, obs, outs, endT, polls)

def showObs (o : Obs) : String :=
  let p := String.join (o.pending.map fun (a, e) => if e then "E" else if a then "1" else "0")
  let c := String.join (o.confirmed.map fun a => if a then "1" else "0")
  s!"{p}/{c}"

def firstDiff (want got : List (List Obs)) : String :=
  match ((want.zip got).zipIdx).find? (fun x => x.1.1 ≠ x.1.2) with
  | some ((w, g), i) =>
    match ((w.zip g).zipIdx).find? (fun x => x.1.1 ≠ x.1.2) with
    | some ((wo, go), k) => s!"run {i} point {k}: model={showObs wo} impl={showObs go}"
    | none => s!"run {i}: {w.length} model points vs {g.length} impl points"
  | none => s!"{want.length} model runs vs {got.length} impl runs"

def isReorg (h : List Op) : Bool :=
  -- two performs of one key with different transmit blocks
  h.any fun a => match a with
    | .perform l => h.any fun b => match b with
      | .perform l' => l.key = l'.key ∧ l.transmit ≠ l'.transmit
      | _ => false
    | _ => false

def showOut (o : POut) : String :=
  s!"flag={o.flag} err={o.err} block={showStr o.block} ids={o.ids.map showStr} pblock={showStr o.pblock} pick={o.pick.map showStr}"

/-- agreement on operation answers: everything equal, the observation's pick admissible -/
def outsAgree (ops : List POp) (want got : List POut) : Bool :=
  decide (want.length = got.length) && decide (ops.length = got.length) &&
    ((ops.zip (want.zip got)).all fun x => outOk x.1 x.2.1 x.2.2)

def firstOutDiff (opss : List (List POp)) (want got : List (List POut)) : String :=
  match ((opss.zip (want.zip got)).zipIdx).find? (fun x => !outsAgree x.1.1 x.1.2.1 x.1.2.2) with
  | some ((ops, w, g), i) =>
    match ((ops.zip (w.zip g)).zipIdx).find? (fun x => !outOk x.1.1 x.1.2.1 x.1.2.2) with
    | some ((_, wo, go), k) => s!"run {i} op {k}: model [{showOut wo}] impl [{showOut go}]"
    | none => s!"run {i}: {w.length} model answers vs {g.length} impl answers"
  | none => ""

def handle (input impl : Json) : R Reply := do
  let jcfg ← field input "cfg"
  let plugin := (← asStr (fieldD input "via" (.str "coord"))) == "plugin"
  let cfg0 ← cfgOf jcfg
  let cfg := if plugin then offchainCfg (cfg0.lockout / 1000000) cfg0.minConfs else cfg0
  let probes := (← listF asStr input "probes").map strOf
  let ckeys := (← listF asStr input "ckeys").map strOf
  let jruns ← asList (← field input "runs")
  let jimpl ← asList (← field impl "runs")
  if jruns.length ≠ jimpl.length then throw "runs length mismatch"
  let triples ← (jruns.zip jimpl).mapM fun (a, b) => runOf plugin a b
  let pruns := triples.map (·.1)
  let runs := pruns.map PRun.toRun
  let got := triples.map (·.2.1)
  let gotOuts := triples.map (·.2.2.1)
  let ends := triples.map (·.2.2.2.1)
  let gotPolls := triples.map (·.2.2.2.2)
  let wantPolls := ends.map pollStats
  let agreePolls := decide (gotPolls = wantPolls)
  let want := runs.map (modelRun cfg probes ckeys)
  let wantOuts := pruns.map fun r => (pouts cfg PState.init r.ops).1
  let agreeObs := decide (got = want)
  let opss := pruns.map fun r => r.ops.map (·.2)
  let agreeOuts := decide (wantOuts.length = gotOuts.length) && ((opss.zip (wantOuts.zip gotOuts)).all fun x => outsAgree x.1 x.2.1 x.2.2)
  let agree := agreeObs && agreeOuts && agreePolls
  let sm := pspec cfg probes ckeys pruns want wantOuts ends wantPolls
  let si := pspec cfg probes ckeys pruns got gotOuts ends gotPolls
  let base := match runs with
    | r :: _ => r.ops.map (·.2)
    | [] => []
  let pbase : List POp := match pruns with
    | r :: _ => r.ops.map (·.2)
    | [] => []
  let g := ghost cfg base
  let applicable := runs.filter (orderApplies cfg probes)
  let orders := (applicable.map fun r => r.ops.map (·.2)).eraseDups
  let inRegime := runs.any fun r => r.points.any fun p => regime cfg (r.ops.take p.1) p.2 probes
  let allCanon := base.all opCanon && probes.all probeCanon
  let observes := (wantOuts.map fun l => l.filter fun o => !o.pblock.isEmpty || !o.ids.isEmpty).flatten
  let tags :=
    (if plugin then ["via-plugin"] else ["via-coordinator"]) ++
    (if inRegime then ["regime"] else []) ++
    (if !allCanon then ["noncanonical"] else []) ++
    (if allCanon && !inRegime then ["out-of-window"] else []) ++
    (if allCanon && runs.any (fun r => r.points.any fun p => !regime cfg (r.ops.take p.1) p.2 probes) then ["expiry"] else []) ++
    (if orders.length ≥ 2 then ["orders>=2"] else []) ++
    (if !g.logged.isEmpty then ["log-effective"] else []) ++
    (if base.any (fun op => match op with | .stale _ => true | _ => false) then ["stale"] else []) ++
    (if isReorg base then ["reorg"] else []) ++
    (if base.any (fun op => (logContrib cfg op).isNone && (match op with | .accept _ => false | _ => true)) then ["log-skipped"] else []) ++
    (if !acceptFirst base then ["log-before-accept"] else []) ++
    (if (g.contribs.map (·.2.check)).eraseDups.length ≥ 2 then ["check-blocks>=2"] else []) ++
    (if want.any (fun w => w.any fun o => o.pending.any (·.2)) then ["pending-error"] else []) ++
    (if pbase.any (fun op => match op with | POp.observe => true | _ => false) then ["observe"] else []) ++
    (if pbase.any (fun op => match op with | POp.report _ _ => true | _ => false) then ["report"] else []) ++
    (if pbase.any (fun op => match op with | POp.transmit _ => true | _ => false) then ["transmit"] else []) ++
    (if pbase.any (fun op => match op with | POp.acceptReport ks => decide (ks.length ≥ 2) | _ => false) then ["multi-key-report"] else []) ++
    (if (wantOuts.map fun l => (l.map (·.ids)).eraseDups.length).any (· ≥ 3) then ["observe-answers-change"] else []) ++
    (if observes.isEmpty then [] else ["observe-nonempty"]) ++
    (if pbase.any (fun op => match op with | POp.failedPoll _ _ _ => true | _ => false) then ["failed-poll"] else []) ++
    (if pbase.any (fun op => match op with | POp.failedPoll w ps ss => !(failedOps w ps ss).isEmpty | _ => false) then ["failed-poll-processes-logs"] else []) ++
    (if runs.any (fun r => r.points.any fun p => match lateSplit cfg.window (r.ops.take p.1) with
          | some (pre, recent) => lateRegime cfg pre recent p.2 probes
          | none => false) then ["late-regime"] else []) ++
    (if runs.any (fun r => r.points.any fun p =>
          let h := r.ops.take p.1
          !regime cfg h p.2 probes && (match liveRegime cfg h p.2 probes with
            | some tg => probes.any fun k => probeLive cfg.window tg p.2 k && (expPending tg.g k).1
            | none => false)) then ["renewed-lock"] else []) ++
    (if runs.any (fun r => r.points.any fun p => (liveRegime cfg (r.ops.take p.1) p.2 probes).isSome) then ["live-regime"] else []) ++
    (if base.any (fun op => match op with
          | .perform l => decide (l.confs > 10000) | .stale l => decide (l.confs > 10000) | _ => false) then ["deep-confirmations"] else []) ++
    (if cfg.minConfs > 0 then ["minconfs>0"] else [])
  pure { agree := agree, specModel := sm, specImpl := si,
         diff := if agree then "" else if !agreePolls then s!"polls: model {repr wantPolls} impl {repr gotPolls}"
                 else if !agreeObs then firstDiff want got else firstOutDiff opss wantOuts gotOuts,
         fail := if si then "" else pexplain cfg probes ckeys pruns got gotOuts ends gotPolls,
         nontrivial := decide (orders.length ≥ 2) && !g.logged.isEmpty,
         tags := tags }

end AutoVerif.C17
