import AutoVerif.Drv.Codec
import AutoVerif.Spec.C19
open Lean AutoVerif.Codec
namespace AutoVerif.C19

def transmitOf (j : Json) : R Transmit := do
  pure { sender := ← strF j "from", rep := ← natF j "rep", round := ← natF j "round" }

/-- a block number the implementation produced that is not a natural number (negative, nil) is kept
    visible: it decodes to a number no chain contains and marks the content -/
def badNumber : Nat := 10 ^ 40

def blockOf (j : Json) : R Block := do
  let ns ← strF j "n"
  let c ← strF j "c"
  match ns.toNat? with
  | some n => pure { number := n, hash := ← strF j "h", txs := ← listF transmitOf j "tx", content := c,
                     created := ← listF asNat j "created" }
  | none => pure { number := badNumber, hash := ← strF j "h", txs := ← listF transmitOf j "tx",
                   content := c ++ "|number=" ++ ns, created := ← listF asNat j "created" }

def evOf (j : Json) : R Ev := do
  pure { wid := ← strF j "wid", block := ← natF j "blk", conf := ← intF j "conf",
         rep := ← natF j "rep", round := ← natF j "round" }

def recOf (j : Json) : R Rec := do
  let blk := match fieldD j "blk" .null with
    | .null => none
    | .str x => some (x.toNat?.getD badNumber)
    | _ => some badNumber
  pure { t := ← transmitOf j, block := blk }

/-- flat `[rel, hashId, rel, hashId, …]` -/
def histOf (genesis : Nat) (hashes : Array String) : List Int → R (List BlockKey)
  | [] => pure []
  | [_] => throw "odd history array"
  | rel :: hid :: rest => do
    let tl ← histOf genesis hashes rest
    pure ({ number := ((genesis : Int) + rel).toNat, hash := hashes.getD hid.toNat "?" } :: tl)

def subOf (genesis : Nat) (dict : Array Block) (hashes : Array String) (j : Json) : R SubOut := do
  let recv ← listF asNat j "recv"
  let hists ← listF (listOf asInt) j "hists"
  let slow ← listF asNat j "slow"
  pure { recv := recv.map fun i => dict.getD i { number := 0, hash := "?", txs := [] },
         slow := slow.map fun i => dict.getD i { number := 0, hash := "?", txs := [] },
         active := ← listF asNat j "active",
         hists := ← hists.mapM (histOf genesis hashes),
         events := ← listF (listOf evOf) j "events",
         seen := ← listF asNat j "seen" }

def submissionOf (j : Json) : R (Nat × Submission) := do
  pure (← natF j "at", { rep := ← natF j "rep", round := ← natF j "round", nodes := ← listF asNat j "nodes" })

def reportOf (j : Json) : R (List String) := do
  (← asList j).mapM fun r => strF r "wid"

def inputOf (j : Json) : R Input := do
  pure { genesis := ← natF j "genesis", count := ← natF j "count", cadence := ← natF j "cadence",
         nsubs := ← natF j "subs", delays := ← listF (listOf asNat) j "delays",
         reports := ← listF reportOf j "reports", txs := ← listF submissionOf j "txs",
         queries := ← listF asNat j "queries",
         attach := ← listF asNat j "attach", detach := ← listF asNat j "detach",
         upkeeps := ← listF (fun u => do pure (← natF u "block", ← listF asNat u "ids")) j "upkeeps",
         grace := ← natF j "grace" }

def outOf (genesis : Nat) (j : Json) : R Out := do
  let dict := (← listF blockOf j "dict").toArray
  let hashes := (← listF asStr j "hashes").toArray
  let chain ← listF asNat j "chain"
  pure { chain := chain.map fun i => dict.getD i { number := 0, hash := "?", txs := [] },
         times := ← listF asNat j "times",
         chainAfter := (← listF asNat j "chainAfter").map fun i => dict.getD i { number := 0, hash := "?", txs := [] },
         subs := ← listF (subOf genesis dict hashes) j "subs",
         accepted := ← listF (listOf asBool) j "accepted",
         results := sortBy recLe (← listF recOf j "results") }

/-- arrival order read back from the histories: the block that is new in each one
    (an index beyond the chain when none is: that step leaves the model's state unchanged) -/
def inferOrder (genesis count : Nat) (hists : List (List BlockKey)) : List Nat :=
  let rec go (prev : List Nat) : List (List BlockKey) → List Nat
    | [] => []
    | h :: hs =>
      let cur := h.map (·.number)
      let idx := match cur.find? (fun n => !prev.contains n) with
        | some n => if n ≥ genesis then n - genesis else count
        | none => count
      idx :: go cur hs
  go [] hists

def stressBlockOf (j : Json) : R (Nat × List Transmit) := do
  pure ((← strF j "n").toNat?.getD badNumber, ← listF transmitOf j "tx")

/-- an un-timed `Transmit` ∥ `Load` case -/
def handleStress (input st impl : Json) : R Reply := do
  let p : StressParams := { nodes := ← natF st "nodes", rounds := ← natF st "rounds",
                            nrep := (← asList (← field input "reports")).length }
  let got : StressOut := { accepted := ← listF (listOf asBool) impl "accepted",
                           blocks := ← listF stressBlockOf impl "blocks",
                           results := sortBy recLe (← listF recOf impl "results") }
  let (allOk, blocks, results) := stressReplay got.blocks
  let want : StressOut := { accepted := got.accepted, blocks := got.blocks.map (·.1) |>.zip blocks, results := results }
  let agree := allOk && decide (want.blocks = got.blocks) && decide (want.results = got.results)
  let si := stressOk p got
  pure { agree := agree, specModel := (if agree then stressOk p want else true), specImpl := si,
         diff := if agree then "" else
           if !allOk then "the observed blocks are not a schedule the loader accepts (a transmit twice, or left in the queue)"
           else if want.results ≠ got.results then
             s!"Results(): {got.results.length} entries, model {want.results.length}; never in a block: {(got.results.filter (·.block.isNone)).length}"
           else "blocks differ",
         fail := if si then "" else stressExplain p got,
         nontrivial := true,
         tags := ["stress-transmit-vs-load"] ++ (if got.blocks.any (·.2.length ≥ 2) then ["several-transmits-per-block"] else []) }

def handle (input impl : Json) : R Reply := do
  match fieldD input "stress" .null with
  | .null => pure ()
  | st => return ← handleStress input st impl
  let inp ← inputOf input
  let native ← boolF input "native"
  let stalls ← listOf (fun j => do pure (← natF j "sub", ← natF j "from", ← natF j "to")) (fieldD input "stalls" (.arr #[]))
  let got ← outOf inp.genesis impl
  let ch : Choices := {
    hashes := got.chain.map fun b => (b.hash, b.content),
    winners := got.accepted,
    orders := got.subs.map fun s => if native then some (inferOrder inp.genesis inp.count s.hists) else none,
    recvs := got.subs.map fun s =>
      if native then some (s.recv.map fun b => if b.number ≥ inp.genesis then b.number - inp.genesis else inp.count)
      else none,
    slows := got.subs.map fun s =>
      if native then some (s.slow.map fun b => if b.number ≥ inp.genesis then b.number - inp.genesis else inp.count)
      else none }
  let want := run inp ch
  let p := paramsOf inp
  let agree := decide (got = want)
  let sm := spec p want
  let si := spec p got
  let diff :=
    if agree then ""
    else if got.chain ≠ want.chain then
      match (got.chain.zip want.chain).zipIdx.find? (fun ((a, b), _) => a ≠ b) with
      | some ((a, b), i) => s!"chain block {i}: model={repr b} impl={repr a}"
      | none => s!"chain: {got.chain.length} blocks, model {want.chain.length}"
    else if got.chainAfter ≠ want.chainAfter then
      match (got.chainAfter.zip want.chainAfter).zipIdx.find? (fun ((a, b), _) => a ≠ b) with
      | some ((a, b), i) => s!"block {i} at the end of the run: mined={repr b} now={repr a}"
      | none => s!"chain at the end: {got.chainAfter.length} blocks, model {want.chainAfter.length}"
    else if got.times ≠ want.times then s!"broadcast instants: model={want.times.take 6}… impl={got.times.take 6}…"
    else if got.accepted ≠ want.accepted then s!"accepted: model={want.accepted} impl={got.accepted}"
    else if got.results ≠ want.results then s!"results: model={repr want.results} impl={repr got.results}"
    else match (got.subs.zip want.subs).zipIdx.find? (fun ((g, w), _) => g ≠ w) with
      | some ((g, w), i) =>
        if g.recv ≠ w.recv then s!"sub {i} recv: model={w.recv.map (·.number)} impl={g.recv.map (·.number)}"
        else if g.active ≠ w.active then s!"sub {i} active upkeeps: model={w.active} impl={g.active}"
        else if g.slow ≠ w.slow then
          s!"sub {i} stallable consumer: {g.slow.length} blocks, model {w.slow.length}; first difference at position {((g.slow.zip w.slow).takeWhile fun (a, b) => a == b).length}"
        else if g.hists ≠ w.hists then
          match (g.hists.zip w.hists).zipIdx.find? (fun ((a, b), _) => a ≠ b) with
          | some ((a, b), k) => s!"sub {i} history {k}: model={b.map (·.number)} impl={a.map (·.number)}"
          | none => s!"sub {i}: {g.hists.length} histories, model {w.hists.length}"
        else
          let short (evs : List Ev) := evs.map fun e => (e.block, e.conf, e.rep, e.round)
          match (g.events.zip w.events).zipIdx.find? (fun ((a, b), _) => a ≠ b) with
          | some ((a, b), k) => s!"sub {i} answer {k} (block, conf, rep, round): model={short b} impl={short a}"
          | none => s!"sub {i}: answers {g.events.length}/{g.seen} model {w.events.length}/{w.seen}"
      | none => s!"subs: {got.subs.length} vs model {want.subs.length}"
  let nums := got.chain.map (·.number)
  let asc (l : List Nat) : Bool := (l.zip l.tail).all fun (a, b) => a < b
  let outOfOrder := got.subs.any fun s => !asc (s.recv.map (·.number))
  let crosses := match nums.head?, nums.getLast? with
    | some a, some b => (toString a).length != (toString b).length
    | _, _ => false
  let performBlocks := (got.chain.filter (!·.txs.isEmpty)).length
  let tags :=
    (if native then ["native-delay"] else ["proxy-delay"]) ++
    (if crosses then ["crosses-power-of-ten"] else []) ++
    (if !stalls.isEmpty then ["consumer-stalls"] else []) ++
    (if got.chain.any (fun b => !b.txs.isEmpty && !b.created.isEmpty) then ["transmits-and-upkeep-creation-in-one-block"] else []) ++
    (if native && inp.detach.any (· != 0) then ["native-restart"] else []) ++
    (if stalls.any (fun (s, f, t) =>
        ((runTimed inp ch s).filter fun x => decide (f < x.1 * 1000) && decide (x.1 * 1000 < t)).length > 100)
      then ["consumer-lags-more-than-100-blocks"] else []) ++
    (if (inp.txs.zipIdx.any fun ((_, s), i) =>
          (inp.txs.take i).any (fun (_, e) => e.rep == s.rep && e.round == s.round) &&
          (inp.txs.take i).any (fun (_, e) => decide (e.round > s.round + 16)))
      then ["duplicate-after-more-than-16-rounds"] else []) ++
    (if inp.detach.any (· != 0) then ["subscriber-detaches"] else []) ++
    (if inp.attach.any (· != 0) then ["subscriber-joins-late"] else []) ++
    (if (inp.detach.zipIdx.any fun (d, i) => d != 0 && (inp.attach.zipIdx.any fun (a, j) => decide (j > i) && (a == 0 || a < d)
          && (inp.detach.getD j 0 == 0 || inp.detach.getD j 0 > d)))
      then ["detach-with-later-subscriber-attached"] else []) ++
    (if outOfOrder then ["out-of-order-arrival"] else []) ++
    (if inp.count > Gen.simHistoryDepth then ["history-depth-capped"] else []) ++
    (if got.accepted.any (·.any (!·)) then ["duplicate-transmit-rejected"] else []) ++
    (if inp.txs.any (·.2.nodes.length ≥ 2) then ["concurrent-submissions"] else []) ++
    (if got.results.any (·.block.isNone) then ["transmit-never-on-chain"] else []) ++
    (if performBlocks > reportTrackerBlockRange then ["lookback-cut"] else []) ++
    (if got.subs.any (fun s => s.events.any (!·.isEmpty)) then ["events-delivered"] else []) ++
    (if got.subs.any (fun s => (s.events.zip s.seen).any fun (evs, k) =>
        !evs.isEmpty && (((s.recv.take k).getLast?.map (·.number)).getD 0 != highestSeen s.recv k))
      then ["answer-after-late-old-block"] else []) ++
    (if !decide ((got.chain.map (·.hash)).Nodup) then ["obs:blocks-share-hash"] else [])
  pure { agree := agree, specModel := sm, specImpl := si, diff := diff,
         fail := if si then "" else explain p got,
         nontrivial := decide (inp.count ≥ 2) && (outOfOrder || crosses || !inp.txs.isEmpty),
         tags := tags }

end AutoVerif.C19
