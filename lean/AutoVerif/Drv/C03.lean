import AutoVerif.Drv.Round
import AutoVerif.Spec.C03
/-
Driver for C03 cases (harness/c03_test.go).  Two kinds:

* `obs`   — an observation produced by `Observation` on one instance, the verdict of ANOTHER instance's
            `ValidateObservation` on the bytes, `len(bytes)`, the advertised limits.
* `round` — one round of a chain on n real instances: the observations they produced (as attributed observations),
            the peers' verdicts, the outcome of node 0, whether all nodes computed the same bytes, whether the next
            round's `Observation`/`Outcome` decoded it, the number of reports, the `ObservationQuorum` table for 0…n.
-/
open Lean AutoVerif.Codec
namespace AutoVerif.C03
open AutoVerif.Outcome AutoVerif.Round

def advertised (j : Json) : R Advertised := do
  pure { maxObservationLength := ← natF j "maxObs", maxOutcomeLength := ← natF j "maxOutcome",
         maxReportCount := ← natF j "maxReports" }

/-- the limits the factory advertises must be the regenerated constants the theorems are about -/
def advertisedIsGen (a : Advertised) : Bool :=
  decide (a.maxObservationLength = Gen.maxObservationLength) &&
  decide (a.maxOutcomeLength = Gen.maxOutcomeLength) &&
  decide (a.maxReportCount = Gen.maxReportCount)

def ctxOfAux (f : Nat) (aux : Json) : R Ctx := do
  let keyM ← strMap (fieldD aux "key" .null)
  let utgM ← natMap (fieldD aux "utg" .null)
  let wgL ← listOf (fun j => do pure ((← strF j "uid", ← trigger (← field j "trig")), ← strF j "wid")) (fieldD aux "wg" .null)
  pure { F := f
         utg := fun u => match utgM.get? u with | some t => utypeOf t | none => .other
         wg := fun u t => match wgL.find? (fun e => e.1.1 == u && e.1.2 == t) with | some e => e.2 | none => "\x00unknown"
         key := fun w => (keyM.get? w).getD w
         uid := fun r => r.workID }

def handleObs (x impl : Json) : R Reply := do
  let ctx ← ctxOfAux (← natF x "f") (← field x "aux")
  let adv ← advertised (← field impl "limits")
  let len ← natF impl "len"
  let peerErr := (fieldD impl "peerErr" (.str "")).getStr?.toOption.getD ""
  let obsErr := (fieldD impl "err" (.str "")).getStr?.toOption.getD ""
  match fieldD impl "obs" .null with
  | .null =>
    pure { agree := false, specModel := true, specImpl := false, diff := s!"Observation failed: {obsErr}",
           fail := s!"Observation returned an error: {obsErr}", nontrivial := false, tags := ["observation-error"] }
  | oj =>
    let o ← observation oj
    let accepts := peerErr.isEmpty
    let mv := validObservation ctx limits o
    -- perform data beyond the on-chain cap is outside the property's quantifier: there the trimming can give up
    -- (Props/C08 `trim_fits_or_stuck`) and only the length clause is excused
    let withinCap := decide ((← natF x "maxItem") ≤ 14500)
    let lenExcused := !withinCap && validObservation ctx limits o && accepts
    let ok := (observationOk ctx limits adv o len accepts || lenExcused) && advertisedIsGen adv
    let tags :=
      (if decide (o.performable.length = limits.obsPerformables) then ["100-performables"] else []) ++
      (if decide (o.proposals.length = limits.obsCondProposals + limits.obsLogProposals) then ["10-proposals"] else []) ++
      (if decide (o.blockHistory.length = limits.obsBlockHistory) then ["256-blocks"] else []) ++
      (if decide (2 * len ≥ adv.maxObservationLength) then ["len>=half-limit"] else []) ++
      (if decide (10 * len ≥ 9 * adv.maxObservationLength) then ["len>=90%-limit"] else []) ++
      (if o.performable.isEmpty && o.proposals.isEmpty && o.blockHistory.isEmpty then ["empty-observation"] else []) ++
      (if !withinCap then ["beyond-onchain-cap"] else []) ++
      (if o.performable.any (fun r => ctx.utg r.upkeepID == .other) then ["third-upkeep-type"] else []) ++
      (if lenExcused && !decide (len ≤ adv.maxObservationLength) then ["oversize-outside-quantifier"] else [])
    pure { agree := mv == accepts, specModel := true, specImpl := ok,
           diff := if mv == accepts then "" else s!"model validObservation={mv} peer: '{peerErr}'",
           fail := if ok then "" else
             (if !advertisedIsGen adv then "advertised limits differ from the constants in observation.go/outcome.go"
              else explainObservation ctx limits adv o len accepts ++ (if accepts then "" else s!" ({peerErr})")),
           nontrivial := decide (o.performable.length + o.proposals.length + o.blockHistory.length ≥ 2), tags := tags }

def handleRound (input x impl : Json) : R Reply := do
  let rd ← decode x
  -- the instances' effective report configuration (after `ensureMinimumDefaults`); absent in old corpus lines: batch 1
  let cfgJ := fieldD input "cfg" .null
  let cfg : C04.Cfg ← match cfgJ with
    | .null => pure { batch := 1, gasLimit := 5300000, overhead := 300000 }
    | j => pure { batch := ← natF j "batch", gasLimit := ← natF j "gasLimit", overhead := ← natF j "overhead" }
  let adv ← advertised (← field impl "limits")
  let want := modelOutcome rd
  let err := (fieldD impl "err" (.str "")).getStr?.toOption.getD ""
  let peerErrs ← listOf asStr (fieldD impl "validate" .null)
  let obsLens ← listOf asNat (fieldD impl "obsLens" .null)
  -- (a) on every observation of the round
  let mut obsAgree := true
  let mut obsOk := true
  let mut obsFail := ""
  let mut obsDiff := ""
  for (o?, (pe, ln)) in rd.obs.zip (peerErrs.zip obsLens) do
    match o? with
    | none => obsOk := false; obsFail := "an observation produced by Observation does not decode"
    | some o =>
      let accepts := pe.isEmpty
      let mv := validObservation rd.ctx limits o
      if mv != accepts then
        obsAgree := false
        obsDiff := s!"model validObservation={mv} peer: '{pe}'"
      if !observationOk rd.ctx limits adv o ln accepts then
        obsOk := false
        if obsFail.isEmpty then obsFail := explainObservation rd.ctx limits adv o ln accepts ++ (if accepts then "" else s!" ({pe})")
  match fieldD impl "outcome" .null with
  | .null =>
    let prevBad := rd.hasPrev && !validOutcome rd.ctx limits rd.prev
    pure { agree := false, specModel := true, specImpl := false, diff := s!"Outcome failed: {err}",
           fail := if prevBad then "the previous outcome — produced by Outcome in the previous round — does not validate"
                   else s!"Outcome returned an error: {err}", nontrivial := false, tags := ["outcome-error"] }
  | oj =>
    let got ← outcome oj
    let rlens ← listOf asNat (fieldD impl "rl" .null)
    let plens ← listOf (listOf asNat) (fieldD impl "pl" .null)
    let len ← natF impl "len"
    -- the length formula on the measured per-item lengths
    let wantLen := 22 + arrLen rlens + 21 + arrLen (plens.map arrLen) + 1
    -- evaluations repeated on the same instance and inputs (absent in old corpus lines)
    let againJ ← listOf (fun j => pure j) (fieldD impl "again" .null)
    let mut again : List Bool := []
    let mut againFail := ""
    for aj in againJ do
      let same ← boolF aj "same"
      again := again ++ [same]
      if !same && againFail.isEmpty then
        let e := (fieldD aj "err" (.str "")).getStr?.toOption.getD ""
        againFail := s!"node {← natF aj "node"} evaluated {← strF aj "call"} again on the same inputs and " ++
          (if e.isEmpty then "returned different bytes" else s!"got: {e}")
    let committed := match fieldD impl "committed" .null with | .bool b => b | _ => true
    let rf : RoundFacts :=
      { outcome := got, outcomeLen := len, nextDecodes := ← boolF impl "nextDecodes", identical := ← boolF impl "identical",
        reports := ← natF impl "reports", quorum := ← listOf asBool (fieldD impl "quorum" .null), again := again }
    -- (the model evaluated again gives the same outcome: `outcome_reevaluated`)
    let rfm : RoundFacts := { rf with outcome := want, again := rf.again.map (fun _ => true) }
    let ok := roundOk rd.ctx limits adv rd.ctx.F rf && advertisedIsGen adv && decide (rf.quorum.length = rd.n + 1)
    -- the model of `Reports` (C04) on the implementation's agreed performables must produce as many reports
    let wantReports := (C04.reports cfg got.agreed).length
    let agree := decide (got = want) && decide (wantLen = len) && obsAgree && decide (wantReports = rf.reports)
    let tags := roundTags rd want ++
      (if decide (2 * len ≥ adv.maxOutcomeLength) then ["outcome>=half-limit"] else []) ++
      (if decide (rf.reports = adv.maxReportCount) then ["100-reports"] else []) ++
      (if decide (rf.reports > 1) then ["several-reports"] else []) ++
      (if decide (cfg.batch > 1) then ["batch>1"] else []) ++
      (if decide (cfg.batch > 1) && decide (rf.reports * cfg.batch ≥ got.agreed.length + cfg.batch) then ["reports-not-densely-packed"] else []) ++
      (if decide (rf.reports > (Gen.outcomeAgreedPerformablesLimit + cfg.batch - 1) / cfg.batch) then ["reports>ceil(100/batch)"] else []) ++
      (if !decide ((got.agreed.map (·.upkeepID)).Nodup) then ["several-results-of-one-upkeep-agreed"] else []) ++
      (if decide ((tally rd.ctx (validObs rd.ctx limits rd.obs)).filter (fun s => decide (s.count ≥ rd.ctx.F + 1)) |>.map (·.result.workID) |>.Nodup) then [] else ["split-vote:two-quorum-variants-of-one-work"]) ++
      (if rd.obs.any (fun o => match o with | some o => decide (o.performable.length = limits.obsPerformables) | none => false) then ["obs-100-performables"] else []) ++
      (if decide (rd.obs.length = 2 * rd.ctx.F + 1) then ["exactly-2f+1-observations"] else []) ++
      (if !committed then ["round-lost:next-runs-on-same-previous-outcome"] else []) ++
      (if !again.isEmpty then ["evaluated-again-on-same-instance"] else []) ++
      (if rd.prev.surfaced.any (fun round => round.any (fun p => (got.agreed.map (·.workID)).contains p.workID)) then ["agreed-result-removes-history-proposal"] else []) ++
      (if rd.prev.surfaced.any (fun round => round.dropLast.any (fun p => (got.agreed.map (·.workID)).contains p.workID)) then ["agreed-result-removes-history-proposal:not-last-of-its-round"] else []) ++
      (if decide (10 * (obsLens.foldl max 0) ≥ 9 * adv.maxObservationLength) then ["obs>=90%-limit"] else [])
    pure { agree := agree, specModel := roundOk rd.ctx limits adv rd.ctx.F rfm, specImpl := ok && obsOk,
           diff := if agree then "" else
             (if !obsAgree then obsDiff
              else if !decide (wantReports = rf.reports) then s!"reports: model {wantReports} impl {rf.reports}"
              else if decide (got = want) then s!"outcome length: formula {wantLen} measured {len}"
              else s!"model: {showOutcome want} impl: {showOutcome got}"),
           fail := if ok && obsOk then "" else
             (if !obsOk then obsFail
              else if !decide (rf.reports ≤ adv.maxReportCount) then
                s!"more reports than the advertised MaxReportCount: {rf.reports} reports, this instance advertises {adv.maxReportCount} (batch size {cfg.batch})"
              else if !advertisedIsGen adv then
                s!"advertised limits differ from the constants in observation.go/outcome.go: MaxReportCount {adv.maxReportCount} (constant {Gen.maxReportCount}), MaxObservationLength {adv.maxObservationLength}, MaxOutcomeLength {adv.maxOutcomeLength}"
              else if !decide (rf.quorum.length = rd.n + 1) then "quorum table incomplete"
              else if !rf.nextDecodes && validOutcome rd.ctx limits rf.outcome && decide (rf.outcomeLen ≤ adv.maxOutcomeLength) then
                "the next round cannot decode the outcome: " ++ (fieldD impl "nextErr" (.str "")).getStr?.toOption.getD ""
              else if !rf.again.all id && validOutcome rd.ctx limits rf.outcome && decide (rf.outcomeLen ≤ adv.maxOutcomeLength)
                      && rf.identical && decide (rf.reports ≤ adv.maxReportCount) && quorumTableOk rd.ctx.F rf.quorum then againFail
              else explainRound rd.ctx limits adv rd.ctx.F rf),
           nontrivial := decide ((validObs rd.ctx limits rd.obs).flatMap (·.performable) ≠ []) || rd.hasPrev,
           tags := tags }

/-- `quorum` — ObservationQuorum of an instance configured with (n, f) for 0 … n attributed observations -/
def handleQuorum (x impl : Json) : R Reply := do
  let n ← natF x "n"
  let f ← natF x "f"
  let tbl ← listOf asBool (fieldD impl "quorum" .null)
  let want := (List.range (n + 1)).map (observationQuorum f)
  let ok := quorumTableOk f tbl && decide (tbl.length = n + 1)
  let firstBad := (tbl.zipIdx).find? (fun (b, k) => b != observationQuorum f k)
  pure { agree := decide (tbl = want), specModel := quorumTableOk f want, specImpl := ok,
         diff := if decide (tbl = want) then "" else s!"n={n} f={f} model {want} impl {tbl}",
         fail := if ok then "" else match firstBad with
           | some (b, k) => s!"ObservationQuorum is not (number of observations >= 2f+1): n={n} f={f}, {k} observations give {b}, 2f+1 = {2 * f + 1}"
           | none => "quorum table incomplete",
         nontrivial := decide (n ≥ 2),
         tags := (if decide (n > 3 * f + 1) then ["n>3f+1"] else ["n=3f+1"]) ++ (if f == 0 then ["f=0"] else []) }

def handle (input impl : Json) : R Reply := do
  let x ← field input "x"
  match ← strF input "kind" with
  | "obs" => handleObs x impl
  | "obs-script" => handleObs x impl
  | "round" => handleRound input x impl
  | "quorum" => handleQuorum x impl
  | k => throw s!"C03: unknown case kind {k}"

end AutoVerif.C03
