import AutoVerif.Drv.Round
import AutoVerif.Spec.C02
import AutoVerif.Model.Shuffle
open Lean AutoVerif.Codec
namespace AutoVerif.C02
open AutoVerif.Outcome AutoVerif.Round

/-- a shuffle case: the swap calls the real `rand.Shuffle` made for (length, key) were recorded by the harness; the model
applies them to every string of that length and must produce what the real `ShuffleString` returned; the outputs must
be pairwise different for pairwise different inputs, and the same swap calls must have been recorded on a second
source built from the same key (the ordering depends on nothing but the key) -/
def handleShuffle (sj impl : Json) : R Reply := do
  let strs ← listF asStr sj "strs"
  let sw ← listF (fun j => do
      match j with
      | .arr a => if h : a.size = 2 then pure ((← asNat a[0]), (← asNat a[1])) else throw "swap pair"
      | _ => throw "swap pair") sj "swaps"
  let n ← natF sj "n"
  let got ← listF asStr impl "out"
  let sw2 ← listF (fun j => do
      match j with
      | .arr a => if h : a.size = 2 then pure ((← asNat a[0]), (← asNat a[1])) else throw "swap pair"
      | _ => throw "swap pair") impl "swapsAgain"
  let want := strs.map (fun s => Shuffle.shuffleString s sw)
  let agree := decide (got = want)
  let shape := Shuffle.fisherYates n sw
  let sameSrc := decide (sw2 = sw)
  -- the property's clause: the ordering key is a function of (digest, sequence number) alone and tells ids apart
  let distinctIn := strs.eraseDups
  let pairs := (strs.zip got).eraseDups
  let inj := decide (pairs.length = distinctIn.length) &&                      -- one output per input
    decide ((pairs.map (·.2)).eraseDups.length = distinctIn.length)             -- different inputs, different outputs
  let lens := (strs.zip got).all (fun p => decide (p.1.length = p.2.length))
  let si := inj && lens && sameSrc
  pure { agree := agree && shape, specModel := true, specImpl := si,
         diff := if !agree then s!"ShuffleString differs from the recorded swaps applied to the runes: model {want.take 3} impl {got.take 3}"
                 else if !shape then s!"rand.Shuffle's calls for n={n} are not the Fisher–Yates sequence the model expects: {sw.take 6}" else "",
         fail := if si then "" else if !sameSrc then "a second source built from the same key made different swap calls: the ordering depends on more than the key"
                 else if !lens then "a shuffled id has another length than the id" else "two different ids of one length received the same shuffled key",
         nontrivial := decide (strs.length ≥ 2 && n ≥ 2), tags := ["shuffle", s!"shuffle-len:{if n ≥ 64 then "64+" else if n ≥ 8 then "8-63" else toString n}"] }

def handle (input impl : Json) : R Reply := do
  match fieldD input "shuffle" .null with
  | .null => pure ()
  | sj => return (← handleShuffle sj impl)
  let rd ← decode input
  let want := modelOutcome rd
  let wantRev := modelOutcomeRev rd
  let evals ← listF asStr impl "evals"
  let reports ← listF (listOf asStr) impl "reports"
  let si := spec evals reports
  let sm := decide (want = wantRev)
  let os := validObs rd.ctx limits rd.obs
  let (agree, diff) ← match fieldD impl "outcome" .null with
    | .null =>
      let prevBad := rd.hasPrev && !validOutcome rd.ctx limits rd.prev
      pure (prevBad, "implementation error")
    | oj => do
      let got ← outcome oj
      pure (decide (got = want), if got = want then "" else s!"model: {showOutcome want} impl: {showOutcome got}")
  let blocks := (os.flatMap (·.blockHistory)).eraseDups
  let tags := roundTags rd want ++
    (if blocks.any (fun b => b.hash == zeroHash && decide (blockVotes os b ≥ rd.ctx.F + 1)) then ["zero-hash-quorum"] else []) ++
    (if decide (((tally rd.ctx os).filter (fun s => decide (s.count ≥ rd.ctx.F + 1))).length > want.agreed.length) then ["same-work-two-quorum-results"] else [])
  pure { agree := agree, specModel := sm, specImpl := si, diff := diff,
         fail := if si then "" else explain evals reports,
         nontrivial := decide ((os.flatMap (·.performable)).length + (os.flatMap (·.blockHistory)).length ≥ 3), tags := tags }

end AutoVerif.C02
