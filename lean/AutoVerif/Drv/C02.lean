import AutoVerif.Drv.Round
import AutoVerif.Spec.C02
open Lean AutoVerif.Codec
namespace AutoVerif.C02
open AutoVerif.Outcome AutoVerif.Round

def handle (input impl : Json) : R Reply := do
  let rd ← decode input
  let want := modelOutcome rd
  let wantRev := modelOutcomeRev rd
  let evals ← listF asStr impl "evals"
  let reports ← listF (listOf asStr) impl "reports"
  let si := spec evals reports
  let sm := decide (want = wantRev)
  let os := validObs rd.ctx limits rd.obs
  let (agree, diff) ← match fieldD impl "outcome" .null with
    | .null =>
      let prevBad := rd.hasPrev && !validOutcome rd.ctx limits rd.prev
      pure (prevBad, "implementation error")
    | oj => do
      let got ← outcome oj
      pure (decide (got = want), if got = want then "" else s!"model: {showOutcome want} impl: {showOutcome got}")
  let blocks := (os.flatMap (·.blockHistory)).eraseDups
  let tags := roundTags rd want ++
    (if blocks.any (fun b => b.hash == zeroHash && decide (blockVotes os b ≥ rd.ctx.F + 1)) then ["zero-hash-quorum"] else []) ++
    (if decide (((tally rd.ctx os).filter (fun s => decide (s.count ≥ rd.ctx.F + 1))).length > want.agreed.length) then ["same-work-two-quorum-results"] else [])
  pure { agree := agree, specModel := sm, specImpl := si, diff := diff,
         fail := if si then "" else explain evals reports,
         nontrivial := decide ((os.flatMap (·.performable)).length + (os.flatMap (·.blockHistory)).length ≥ 3), tags := tags }

end AutoVerif.C02
