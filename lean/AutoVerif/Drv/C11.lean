import AutoVerif.Drv.Codec
import AutoVerif.Spec.C11
/-
Driver for C11.  input = {"types":[{"uid","t"}], "ops":[{"op":…}]}, impl = {"outs":[ [proposal]|null per op ]}.

`Dequeue` ranges over a Go map; the iteration order the implementation took is recovered from its
result: the work ids it returned first (in its order), then every other key.  The model is run with
that order, so its result equals the implementation's iff the implementation returned
min(n, #candidates) distinct candidates — the relational reading of "any n items" — and the model
state advances with the implementation's choice (Props/C11 `dequeue_choice_recoverable`: for a
result Go can produce under some order, this recovered order reproduces result and queue;
`orderOf q out` is `recovered q.keys out` whenever `out` has distinct work ids that are keys).

A build hook of the observation shuffles the viewed proposals with a keyed source; the shuffle the
implementation took is recovered from what it added to the observation ("the work ids it returned, in its
order"; Props/C11 `observe_choice_recoverable`), so the model's result equals the implementation's iff the
implementation proposed min(limit, #pending) distinct unexpired pending proposals.  `Start` / `Close` of the
store ("mstart" / "mclose"; impl.life = what they returned) are compared with the model's service flag; the
proposal filterer ("filter", plugin level "probe") with the model's filterer.
-/
open Lean AutoVerif.Codec
namespace AutoVerif.C11

inductive RawOp where
  | add (ps : List Proposal) | remove (ps : List Proposal) | view (t : Nat) | adv (d : Nat)
  | enq (ps : List Proposal) | deq (t n : Nat) | outcome (sf : List (List Proposal))
  | tick (t n : Nat) (ok : Bool) (sleep : Nat)
  | obs (first : Bool) (sf : List (List Proposal))
    -- one `Observation` call whose PreviousOutcome carries `sf` (none when `first`): the pre-build hooks
    -- apply `sf`, then the two build hooks (ONE instance of each for the whole history, as the plugin
    -- holds them) add what the node proposes: at most 5 log and 5 conditional proposals out of the
    -- pending sets, in the order a keyed shuffle leaves them.  Plugin level: the public `Observation`;
    -- direct level ("observe"): the real hooks on the store of the history.
  | observe (t : Nat)     -- one build hook (expansion of `obs`)
  | svc (start : Bool)    -- MetadataStore.Start / Close on the store of the history
  | filter (t : Nat) (ps : List Proposal)
    -- the real proposal filterer of type `t` pre-processes payloads for `ps`; result: what passes
  | probe (ps : List Proposal)
    -- plugin level: the recoverable provider offers payloads for `ps`; within the next tick of the recovery
    -- proposal flow exactly those pass its proposal filterer and reach the runner that are not pending
    -- (result, in the order of `ps`); the flow then adds them to the pending set

/-- the proposals of an operation: its own `ps`, or those of the earlier operation `ref` (1-based) -/
def psOf (all : Array Json) (j : Json) : R (List Proposal) := do
  let ref ← asNat (fieldD j "ref" (.num 0))
  if ref = 0 then listOf proposal (fieldD j "ps" .null)
  else match all[ref - 1]? with
    | some j' => listOf proposal (fieldD j' "ps" .null)
    | none => throw s!"ref {ref} points outside the history"

def rawOp (all : Array Json) (j : Json) : R RawOp := do
  match ← strF j "op" with
  | "filter" => pure (.filter (← natF j "t") (← psOf all j))
  | "probe" => pure (.probe (← psOf all j))
  | "add" => pure (.add (← listF proposal j "ps"))
  | "remove" => pure (.remove (← listF proposal j "ps"))
  | "view" => pure (.view (← natF j "t"))
  | "adv" => pure (.adv (← natF j "d"))
  | "enq" => pure (.enq (← listF proposal j "ps"))
  | "deq" => pure (.deq (← natF j "t") (← natF j "n"))
  | "outcome" => pure (.outcome (← listOf (listOf proposal) (fieldD j "surfaced" .null)))
  | "obs" => pure (.obs (← asBool (fieldD j "first" (.bool false))) (← listOf (listOf proposal) (fieldD j "surfaced" .null)))
  | "observe" => pure (.obs true [])
  | "mstart" => pure (.svc true)
  | "mclose" => pure (.svc false)
  | "start" => pure (.adv 0)   -- a final flow is started: nothing happens in the stores
  | "tick" =>
    -- builder script of the tick: fail < 0 = no error; sleep = how long BuildPayloads takes
    let fail ← intF j "fail"
    pure (.tick (← natF j "t") (← natF j "n") (decide (fail < 0)) (← natF j "sleep"))
  | o => throw s!"unknown op {o}"

def outOf (j : Json) : R (Option (List Proposal)) :=
  match j with
  | .null => pure none
  | _ => some <$> listOf proposal j

def dedup : List String → List String
  | [] => []
  | x :: xs => x :: (dedup xs).filter (· != x)

/-- iteration order recovered from the implementation's result -/
def orderOf (q : Queue) (out : List Proposal) : List String :=
  let ks := q.keys
  let first := dedup ((out.map (·.workID)).filter (ks.contains ·))
  first ++ ks.filter (fun k => !first.contains k)

def showP (p : Proposal) : String := s!"{p.workID.take 8}@{p.trigger.blockNumber}#{p.trigger.blockHash.drop (p.trigger.blockHash.length - 2)}"

def enqTags (now : Nat) (q : Queue) (ps : List Proposal) : List String × Queue :=
  ps.foldl (fun (acc : List String × Queue) p =>
    let (tags, q) := acc
    let tag := match q.get p.workID with
      | none => ["enq-new"]
      | some ex =>
        (if ex.proposal.trigger.blockNumber < p.trigger.blockNumber then ["enq-higher-supersedes"]
         else if ex.proposal.trigger.blockNumber = p.trigger.blockNumber then ["enq-equal-ignored"]
         else ["enq-lower-ignored"]) ++
        (if qExpired now ex then ["enq-meets-expired-unpurged-record"] else []) ++
        (if ex.removed then ["enq-meets-handed-record"] else [])
    let sib := if q.any (fun e => e.2.proposal.upkeepID == p.upkeepID && e.1 != p.workID)
      then ["enq-sibling-workid-of-same-upkeep-queued"] else []
    (tags ++ tag ++ sib, enqueue1 now q p)) ([], q)

def viewTags (expr now : Nat) (m : OMap) : List String :=
  let ks := sortStrings m.keys
  let dead := fun k => match m.values.get k with | some r => recExpired expr now r | none => true
  let flags := ks.map dead
  let liveIdx := (List.range flags.length).filter (fun i => flags[i]? == some false)
  let deadIdx := (List.range flags.length).filter (fun i => flags[i]? == some true)
  let lo := liveIdx.head?.getD 0
  let hi := liveIdx.getLast?.getD 0
  (if ks.isEmpty then ["view-empty-store"] else []) ++
  (if !deadIdx.isEmpty then ["view-purges-expired"] else []) ++
  (if liveIdx.length ≥ 2 then ["view-two-or-more-live"] else []) ++
  (if !liveIdx.isEmpty && deadIdx.any (· < lo) then ["expired-before-live"] else []) ++
  (if deadIdx.any (fun i => lo < i && i < hi) then ["expired-between-live"] else []) ++
  (if !liveIdx.isEmpty && deadIdx.any (· > hi) then ["expired-after-live"] else []) ++
  (if m.values.any (fun e => now - e.2.createdAt == expr) then ["expiry-boundary-exact"] else []) ++
  (if m.values.any (fun e => now - e.2.createdAt == expr + 1) then ["expiry-boundary-plus-1ns"] else []) ++
  (if (m.viewOld expr now).1 != (m.view expr now).1 then ["pre-fix-loop-would-differ"] else [])

structure Walk where
  st : St
  ops : List Op := []            -- reversed
  agree : Bool := true
  diff : String := ""
  tags : List String := []
  seen : List (String × Nat) := []   -- (work id, block) handed so far
  busy : List (Nat × Nat) := []      -- (flow type, time until which its BuildPayloads call runs)
  nontrivial : Bool := false
  outs : List (Option (List Proposal)) := []   -- reversed, aligned with ops
  auxs : List (Option (List Proposal)) := []   -- reversed, aligned with ops
  lastSf : Option (List (List Proposal)) := none  -- previous outcome of the last Observation call
  lifes : List String := []       -- what Start / Close returned, per op ("ok" / "refused" / "")
  everStarted : Bool := false
  deferred : List (Nat × String) := []  -- (type, work id) viewed but cut off by the limit in the last observation
  proposed : List (Nat × String) := []  -- (type, work id) proposed in the last observation
  peak : Nat := 0                 -- most proposals ever pending at once in one set

def Walk.note (w : Walk) (i : Nat) (what : String) (want got : List Proposal) : Walk :=
  if want = got then w
  else if w.agree then
    { w with agree := false, diff := s!"op {i} {what}: model={want.map showP} impl={got.map showP}" }
  else w

def isPending (tg : String → Nat) (st : St) (p : Proposal) : Bool :=
  (tg p.upkeepID == logT && (st.ms.log.values.get p.workID).isSome) ||
  (tg p.upkeepID == condT && (st.ms.cond.values.get p.workID).isSome)

def pendingMax (st : St) : Nat := max st.ms.log.keys.length st.ms.cond.keys.length

/-- where the set of `p`'s type stands relative to the most it ever held -/
def drainTags (tg : String → Nat) (w : Walk) (ps : List Proposal) : List String :=
  let st := w.st
  let absent := ps.any (fun p => (tg p.upkeepID == logT || tg p.upkeepID == condT) && !isPending tg st p)
  let cur := pendingMax st
  (if absent then ["remove-of-work-id-that-is-not-pending"] else []) ++
  (if absent && w.peak ≥ 65 then ["remove-of-not-pending-work-id-after-burst-over-64"] else []) ++
  (if absent && w.peak ≥ 65 && 4 * cur ≤ w.peak && cur > 0 then ["remove-of-not-pending-work-id-when-drained-to-a-quarter-of-the-burst"] else [])

def lifeTags (w : Walk) (what : String) : List String :=
  if w.lifes.isEmpty || w.st.life.running then [] else
    [if w.everStarted then s!"{what}-while-store-closed" else s!"{what}-before-store-first-started"]

def walkStep (tg : String → Nat) (w : Walk) (i : Nat) (rop : RawOp) (out aux : Option (List Proposal)) : Walk :=
  let st := w.st
  match rop with
  | .add ps =>
    let st' := step tg st (.add ps)
    let readd := ps.any (fun p => w.deferred.contains (tg p.upkeepID, p.workID) || w.proposed.contains (tg p.upkeepID, p.workID))
    { w with st := st', ops := .add ps :: w.ops, peak := max w.peak (pendingMax st'),
             tags := w.tags ++ ["add"] ++ lifeTags w "add" ++
               (if pendingMax st' ≥ 65 then ["pending-set-over-64"] else []) ++
               (if pendingMax st' ≥ 257 then ["pending-set-over-256"] else []) ++
               (if w.peak ≥ 65 && 4 * pendingMax st ≤ w.peak then ["add-after-drain-to-a-quarter"] else []) ++
               (if readd then ["add-of-work-id-seen-in-last-observation"] else []) }
  | .remove ps =>
    { w with st := step tg st (.remove ps), ops := .remove ps :: w.ops,
             tags := w.tags ++ ["remove"] ++ lifeTags w "remove" ++ drainTags tg w ps }
  | .svc start =>
    let acc := if start then st.life.start.2 else st.life.close.2
    let got := (w.lifes[i]?).getD ""
    let want := if acc then "ok" else "refused"
    let w := if got == want || !w.agree then w
      else { w with agree := false, diff := s!"op {i} {if start then "Start" else "Close"}: model={want} impl={got}" }
    let pend := pendingMax st > 0
    { w with st := step tg st (.svc start), ops := .svc start :: w.ops,
             everStarted := w.everStarted || start,
             tags := w.tags ++ [if start then "store-start" else "store-close"] ++
               (if !acc then [if start then "store-start-refused-already-running" else "store-close-refused-not-running"] else []) ++
               (if start && acc && pend && !w.everStarted then ["first-start-with-proposals-already-pending"] else []) ++
               (if start && acc && pend && w.everStarted then ["restart-with-proposals-pending"] else []) ++
               (if start && acc && w.everStarted then ["store-restart"] else []) ++
               (if !start && acc && pend then ["close-with-proposals-pending"] else []),
             nontrivial := w.nontrivial || (start && acc && pend) }
  | .observe t =>
    let got := out.getD []
    let limit := if t = logT then Gen.observationLogRecoveryProposalsLimit else Gen.observationConditionalsProposalsLimit
    let view := (st.ms.viewProposals t st.now).1
    -- the shuffle the implementation took, recovered from its result (as for `Dequeue`)
    let order := dedup ((got.map (·.workID)).filter (fun k => view.any (·.workID == k)))
    let op := Op.observe t limit order
    let want := (st.ms.observe t limit st.now order).1
    let w := w.note i (if t = logT then "observation: log proposals" else "observation: conditional proposals") want got
    let cut := view.length > limit
    let wantIds := want.map (fun p => (t, p.workID))
    let defer := (view.filter (fun p => !want.contains p)).map (fun p => (t, p.workID))
    let ot := (if cut then ["observation-cut-by-limit"] else if view.isEmpty then ["observation-nothing-pending"] else ["observation-all-pending-fit"]) ++
      (if cut && want.any (fun p => w.deferred.contains (t, p.workID)) then ["observation-proposes-what-the-last-one-deferred"] else []) ++
      (if view.length ≥ 65 then ["observation-of-65-or-more-pending"] else []) ++
      (if w.peak ≥ 65 && view.length ≤ limit && !view.isEmpty then ["observation-all-fit-after-burst-over-64-drained"] else []) ++
      lifeTags w "observation"
    { w with st := step tg st op, ops := op :: w.ops, tags := w.tags ++ ot,
             deferred := w.deferred.filter (fun d => d.1 != t) ++ defer,
             proposed := w.proposed.filter (fun d => d.1 != t) ++ wantIds,
             nontrivial := w.nontrivial || !want.isEmpty }
  | .adv d => { w with st := step tg st (.adv d), ops := .adv d :: w.ops }
  | .enq ps =>
    { w with st := step tg st (.enq ps), ops := .enq ps :: w.ops, tags := w.tags ++ (enqTags st.now st.q ps).1 }
  | .outcome sf =>
    let pend := sf.flatten.any (fun p =>
      (tg p.upkeepID == logT && (st.ms.log.values.get p.workID).isSome) ||
      (tg p.upkeepID == condT && (st.ms.cond.values.get p.workID).isSome))
    let fl := sf.flatten
    let isPend := fun (p : Proposal) =>
      (tg p.upkeepID == logT && (st.ms.log.values.get p.workID).isSome) ||
      (tg p.upkeepID == condT && (st.ms.cond.values.get p.workID).isSome)
    -- two surfaced proposals of one upkeep with different work ids (several logs of a log upkeep)
    let sibl := fl.any (fun p => fl.any (fun p' => p'.upkeepID == p.upkeepID && p'.workID != p.workID))
    let siblPend := fl.any (fun p => isPend p && fl.any (fun p' => p'.upkeepID == p.upkeepID && p'.workID != p.workID && isPend p'))
    let siblRounds := sf.any (fun rd => rd.any (fun p => sf.any (fun rd' => rd' != rd &&
      rd'.any (fun p' => p'.upkeepID == p.upkeepID && p'.workID != p.workID && isPend p && isPend p'))))
    let surfDeferred := fl.any (fun p => isPend p && w.deferred.contains (tg p.upkeepID, p.workID))
    let surfOwn := fl.any (fun p => isPend p && w.proposed.contains (tg p.upkeepID, p.workID))
    { w with st := step tg st (.outcome sf), ops := .outcome sf :: w.ops,
             tags := w.tags ++ ["outcome"] ++ (if pend then ["outcome-removes-pending-proposal"] else []) ++
                     (if surfDeferred then ["outcome-surfaces-pending-proposal-the-node-deferred-in-its-last-observation"] else []) ++
                     (if surfOwn then ["outcome-surfaces-proposal-of-the-node's-last-observation"] else []) ++
                     lifeTags w "outcome" ++ drainTags tg w fl ++
                     (if sibl then ["outcome-same-upkeep-several-workids"] else []) ++
                     (if siblPend then ["outcome-same-upkeep-several-workids-pending"] else []) ++
                     (if siblRounds then ["outcome-same-upkeep-workids-pending-in-different-rounds"] else []) ++
                     (enqTags st.now st.q sf.flatten).1 }
  | .view t =>
    let want := (st.ms.viewProposals t st.now).1
    let got := out.getD []
    let vt := if t = logT then viewTags Gen.logRecoveryExpiryNs st.now st.ms.log
              else if t = condT then viewTags Gen.conditionalExpiryNs st.now st.ms.cond else ["view-other-type"]
    let w := w.note i "view" want got
    let vt := vt ++ lifeTags w "view" ++ (if want.length ≥ 65 then ["view-of-65-or-more"] else []) ++
      (if want.length ≥ 257 then ["view-of-257-or-more"] else []) ++
      (if w.peak ≥ 65 && 4 * want.length ≤ w.peak then ["view-after-drain-to-a-quarter-of-the-burst"] else [])
    { w with st := step tg st (.view t), ops := .view t :: w.ops, tags := w.tags ++ vt,
             nontrivial := w.nontrivial || !want.isEmpty || vt.contains "view-purges-expired" }
  | .deq t n =>
    let got := out.getD []
    let order := orderOf st.q got
    let op := Op.deq t n order
    let (cands, _) := dequeueScan tg t st.now order st.q []
    let want := (dequeue tg t n st.now order st.q).1
    let sameUpkeep := want.any (fun p => want.any (fun p' => p'.upkeepID == p.upkeepID && p'.workID != p.workID))
    let sameUpkeepSplit := want.any (fun p => st.q.any (fun e =>
      e.2.proposal.upkeepID == p.upkeepID && e.1 != p.workID && !want.contains e.2.proposal && !qExpired st.now e.2))
    let w := w.note i "dequeue" want got
    -- the slice the caller keeps must still hold what was handed to it after later calls
    let w := match aux with
      | some ret => w.note i "dequeue result as re-read by its holder after the later operations" got ret
      | none => w
    let keysOf := want.map (fun p => (p.workID, p.trigger.blockNumber))
    let dt :=
      (if !want.isEmpty then ["deq-hands-out"] else ["deq-empty"]) ++
      (if st.q.any (fun e => qExpired st.now e.2) then ["deq-purges-expired"] else []) ++
      (if cands.length > n then ["deq-limited-by-n"] else []) ++
      (if sameUpkeep then ["deq-hands-two-workids-of-one-upkeep"] else []) ++
      (if sameUpkeepSplit then ["deq-hands-one-workid-of-upkeep-sibling-stays"] else []) ++
      (if st.q.any (fun e => e.2.removed && !qExpired st.now e.2) then ["deq-skips-handed-record"] else []) ++
      (if st.q.any (fun e => !qExpired st.now e.2 && !e.2.removed && tg e.2.proposal.upkeepID != t) then ["deq-skips-other-type"] else []) ++
      (if keysOf.any (w.seen.contains ·) then ["rehanded-after-window"] else []) ++
      (if st.q.any (fun e => st.now - e.2.createdAt == Gen.proposalExpiryNs) then ["queue-expiry-boundary-exact"] else []) ++
      (if st.q.any (fun e => st.now - e.2.createdAt == Gen.proposalExpiryNs + 1) then ["queue-expiry-boundary-plus-1ns"] else [])
    { w with st := step tg st op, ops := op :: w.ops, tags := w.tags ++ dt, seen := w.seen ++ keysOf,
             nontrivial := w.nontrivial || !want.isEmpty }

  | .tick t n ok sleep =>
    -- aux = the proposals `Dequeue` returned (the builder's arguments on entry); out = the payloads
    -- that reached the runner of the finalisation flow
    let deqd := aux.getD []
    let order := orderOf st.q deqd
    let op := Op.tick t n order ok
    let want := (dequeue tg t n st.now order st.q).1
    let w := w.note i "tick: dequeue" want deqd
    let wantDel := if ok then want else []
    let w := w.note i "tick: payloads handed to the finalisation runner" wantDel (out.getD [])
    let keysOf := wantDel.map (fun p => (p.workID, p.trigger.blockNumber))
    let overlap := w.busy.any (fun b => b.1 != t && b.2 > st.now)
    let tt := ["tick"] ++
      (if !wantDel.isEmpty then ["tick-hands-on"] else []) ++
      (if !ok then ["tick-builder-error"] else []) ++
      (if !ok && !want.isEmpty then ["tick-builder-error-drops-dequeued-batch"] else []) ++
      (if overlap then ["tick-while-other-flow-builds"] else []) ++
      (if overlap && !want.isEmpty then ["tick-dequeues-while-other-flow-holds-its-batch"] else []) ++
      (if st.q.any (fun e => qExpired st.now e.2) then ["deq-purges-expired"] else []) ++
      (if keysOf.any (w.seen.contains ·) then ["rehanded-after-window"] else [])
    { w with st := step tg st op, ops := op :: w.ops, tags := w.tags ++ tt, seen := w.seen ++ keysOf,
             busy := if sleep > 0 && !deqd.isEmpty then (t, st.now + sleep) :: w.busy else w.busy,
             nontrivial := w.nontrivial || !want.isEmpty }

  | .filter t ps =>
    let want := (st.ms.filterer t st.now ps).1
    let got := out.getD []
    let w := w.note i "proposal filterer: payloads that pass" want got
    let withheld := ps.length - want.length
    { w with st := step tg st (.filter t ps), ops := .filter t ps :: w.ops,
             tags := w.tags ++ ["filterer"] ++ (if withheld > 0 then ["filterer-withholds-pending"] else []) ++
               (if !want.isEmpty then ["filterer-lets-pass"] else []) ++
               (if withheld ≥ 32 then ["filterer-withholds-32-or-more"] else []) ++
               (if w.peak ≥ 65 && withheld > 0 then ["filterer-after-burst-over-64"] else []) ++ lifeTags w "filterer",
             nontrivial := w.nontrivial || withheld > 0 }
  | .probe _ => w   -- expanded by walkRaw
  | .obs _ _ => w   -- expanded by walkRaw

def pushStep (tg : String → Nat) (w : Walk) (i : Nat) (rop : RawOp) (out aux : Option (List Proposal)) : Walk :=
  let w' := walkStep tg w i rop out aux
  { w' with outs := out :: w'.outs, auxs := aux :: w'.auxs }

def insertByWid (p : Proposal) : List Proposal → List Proposal
  | [] => [p]
  | x :: xs => if p.workID ≤ x.workID then p :: x :: xs else x :: insertByWid p xs

/-- the observation's proposals were shuffled: compare per pending set, in key order -/
def sortByWid (l : List Proposal) : List Proposal := l.foldr insertByWid []

def walkRaw (tg : String → Nat) (w : Walk) (i : Nat) (rop : RawOp) (out aux : Option (List Proposal)) : Walk :=
  match rop with
  | .obs first sf =>
    -- Observation = pre-build hooks on the previous outcome (remove-from-metadata, add-to-proposalq),
    -- then the build hooks: log proposals, then conditional proposals
    let got := out.getD []
    let logs := got.filter (fun p => tg p.upkeepID == logT)
    let conds := got.filter (fun p => tg p.upkeepID == condT)
    let other := got.filter (fun p => tg p.upkeepID != logT && tg p.upkeepID != condT)
    let again := !first && w.lastSf == some sf
    let st := w.st
    let readded := !first && sf.flatten.any (fun p =>
      (tg p.upkeepID == logT && (st.ms.log.values.get p.workID).isSome) ||
      (tg p.upkeepID == condT && (st.ms.cond.values.get p.workID).isSome))
    let w := if first then w else pushStep tg w i (.outcome sf) none none
    let w := pushStep tg w i (.observe logT) (some logs) none
    let w := pushStep tg w i (.observe condT) (some conds) none
    let w := w.note i "observation: proposals of a type the store does not keep" [] other
    let w := w.note i "observation: log proposals come first, then conditional ones" (logs ++ conds ++ other) got
    { w with tags := w.tags ++ ["observation"] ++ (if first then ["observation-first-round"] else []) ++
                (if again then ["observation-same-previous-outcome-again"] else []) ++
                (if again && readded then ["same-outcome-again-must-remove-readded-proposal"] else []),
             lastSf := if first then none else some sf }
  | .probe ps =>
    let w := pushStep tg w i (.filter logT ps) out none
    let w := pushStep tg w i (.add ps) none none
    pushStep tg w i (.adv 1300000000) none none
  | _ => pushStep tg w i rop out aux

def walk (tg : String → Nat) : List RawOp → List (Option (List Proposal)) → List (Option (List Proposal)) → Nat →
    Walk → Walk
  | [], _, _, _, w => w
  | rop :: rops, outs, auxs, i, w =>
    walk tg rops outs.tail auxs.tail (i + 1) (walkRaw tg w i rop outs.head?.join auxs.head?.join)

/-- the observations with every plain `Dequeue` result replaced by what its holder reads later -/
def retainedOuts : List Op → List (Option (List Proposal)) → List (Option (List Proposal)) →
    List (Option (List Proposal))
  | [], _, _ => []
  | op :: ops, outs, auxs =>
    (match op, auxs.head?.join with
     | .deq _ _ _, some ret => some ret
     | _, _ => outs.head?.join) :: retainedOuts ops outs.tail auxs.tail

structure ConcView where
  rds : Nat
  rse : Nat
  ads : Nat
  ase : Nat
  out : List Proposal

/-- mode "stress": one store, `init` pending; one goroutine removes `remove` one by one, one adds `add`
one by one, one views repeatedly; afterwards a final view.  The process may not abort. -/
def handleStress (input impl : Json) (tg : String → Nat) : R Reply := do
  let st ← field input "stress"
  let t ← natF st "t"
  let old ← listOf proposal (fieldD st "old" .null)
  let age ← asNat (fieldD st "age" (.num 0))
  let ini0 ← listF proposal st "init"
  let rem ← listF proposal st "remove"
  let add ← listF proposal st "add"
  let exit ← strF impl "exit"
  let crash := match (fieldD impl "crash" (.str "")) with | .str c => c | _ => ""
  let final ← outOf (fieldD impl "final" .null)
  let views ← listOf (fun j => do
    pure ({ rds := ← natF j "rds", rse := ← natF j "rse", ads := ← natF j "ads", ase := ← natF j "ase",
            out := ← listF proposal j "out" } : ConcView)) (fieldD impl "views" .null)
  -- `old` was added `age` ago and never viewed since: what of it is past its expiry is still in the store
  let pre : List Op := [.add old, .adv age, .add ini0]
  let ops : List Op := pre ++ [.remove rem, .add add, .view t]
  -- what a view at the start of the concurrent phase shows
  let base := ((run tg (pre ++ [.view t]) (St.init 0)).getLast?.join).getD []
  let ini := base
  let mouts := run tg ops (St.init 0)
  let want := (mouts.getLast?.join).getD []
  let ok := exit == "ok"
  let got := final.getD []
  let outs : List (Option (List Proposal)) := [none, none, none, none, none, some got]
  let badView := views.find? (fun v =>
    !concViewOk (concRequired ini rem add v.rse v.ads) (concAllowed ini rem add v.rds v.ase) v.out)
  let si := ok && final.isSome && spec tg 0 ops outs && badView.isNone
  let agree := ok && final.isSome && got == want && badView.isNone
  let fail :=
    if si then ""
    else if !ok || final.isNone then
      s!"metadata store: the process aborted during concurrent RemoveProposals / AddProposals / ViewProposals ({exit}: {crash})"
    else match badView with
      | some v => explainConcView (concRequired ini rem add v.rse v.ads) (concAllowed ini rem add v.rds v.ase) v.out
      | none => "after the concurrent phase: " ++ explain tg 0 ops outs
  pure { agree := agree, specModel := spec tg 0 ops mouts, specImpl := si,
         diff := if agree then "" else if !ok then s!"child process: {exit} {crash}"
                 else if got != want then s!"final view: model has {want.length} proposals, impl {got.length}" else "concurrent view outside its window",
         fail := fail, nontrivial := true,
         tags := ["stress", if t == logT then "stress-log" else "stress-conditional",
                  s!"stress-views-{views.length}"] ++
                 (if views.any (fun v => v.rds < v.rse || v.ads < v.ase) then ["stress-view-overlaps-remove-or-add"] else []) ++
                 (if old.isEmpty then [] else if base.length < old.length + ini0.length
                    then ["stress-expired-unpurged-records"] else ["stress-aged-live-records"]) ++
                 (if add.any (old.contains ·) then ["stress-readds-old-work-ids"] else []) ++
                 (if add.any (fun p => old.contains p && !base.contains p) then ["stress-readds-expired-unpurged-work-ids"] else []) }

def handle (input impl : Json) : R Reply := do
  let table ← listF (fun j => do pure ((← strF j "uid"), (← natF j "t"))) input "types"
  let tg : String → Nat := fun uid => (table.lookup uid).getD 255
  if (fieldD input "mode" (.str "")) == .str "stress" then return ← handleStress input impl tg
  let implErr := match fieldD impl "err" (.str "") with | .str e => e | _ => ""
  let opsJ ← listF (fun j => pure j) input "ops"
  let rops ← opsJ.mapM (rawOp opsJ.toArray)
  let outs ← listF outOf impl "outs"
  if outs.length ≠ rops.length then throw s!"outs has {outs.length} entries for {rops.length} ops"
  let auxs ← listOf outOf (fieldD impl "aux" .null)
  -- final-flow activity the history did not declare (a tick or a runner call at an unexpected time)
  let extra ← asNat (fieldD impl "extra" (.num 0))
  let lifes ← listOf (fun j => match j with | .str x => pure x | _ => pure "") (fieldD impl "life" .null)
  let w := walk tg rops outs auxs 0 { st := St.init 0, lifes := lifes }
  let ops := w.ops.reverse
  let outs := w.outs.reverse
  let auxs := w.auxs.reverse
  let mouts := run tg ops (St.init 0)
  let sm := spec tg 0 ops mouts
  let si1 := spec tg 0 ops outs
  let routs := retainedOuts ops outs auxs
  let si2 := spec tg 0 ops routs
  let si := si1 && si2
  let agree := w.agree && extra == 0 && implErr == ""
  pure { agree := agree, specModel := sm, specImpl := si,
         diff := if implErr != "" then s!"implementation error: {implErr}" else if !w.agree then w.diff else if extra != 0 then s!"{extra} undeclared final-flow ticks / runner calls" else "",
         fail := if si then "" else if !si1 then explain tg 0 ops outs
                 else "as held by the caller after later Dequeue calls: " ++ explain tg 0 ops routs,
         nontrivial := w.nontrivial, tags := dedup w.tags }

end AutoVerif.C11
