import AutoVerif.Drv.Codec
import AutoVerif.Spec.C12
/-
Driver for C12.  Two kinds of cases:

  "pipe"  — a real flow (constructed by the repository's flow constructors) processed payloads with the
            real runner.  `impl` holds, per `Observer.Process` run, the payloads handed to the runner
            (`value`) and what the runner returned (`results`, in its order — the model's runner
            parameter), the calls seen by the four sinks, the stores' views, and the retry queue's
            event log (feed, tick dequeues, post-processor enqueues, probe dequeues).
  "queue" — a history of `Enqueue`/`Dequeue` calls on the real retry queue in virtual time.

The queue log is replayed on the model.  The map iteration order of a real `Dequeue` is not observable
except through what it hands out and — later — through which expired records it purged, so the replay
keeps the SET of model states consistent with the observations so far (one per choice of purged
expired records); the case agrees iff that set never becomes empty.
-/
open Lean AutoVerif.Codec
namespace AutoVerif.C12

/-! ### codecs -/

def resOf (j : Json) : R Res := do
  pure { cr := ← checkResult j, retryInterval := ← intF j "ri" }

def recOf (j : Json) : R RetryRecord := do
  pure { payload := ← payload (← field j "p"), interval := ← intF j "iv" }

structure QEv where
  ev  : Ev
  src : String      -- "feed" | "pp" | "tick" | "probe" | "op"

def qevOf (j : Json) : R QEv := do
  let t ← natF j "t"
  let src ← asStr (fieldD j "src" (.str "op"))
  match ← strF j "k" with
  | "enq" => pure { ev := .enq t (← recOf j), src := src }
  | "deq" => pure { ev := .deq t (← natF j "n") (← listF payload j "out"), src := src }
  | k => throw s!"bad queue event kind {k}"

def flowOf : String → R Flow
  | "log" => pure .logTrigger
  | "retry" => pure .retry
  | "recFinal" => pure .recoveryFinal
  | "recProp" => pure .recoveryProposal
  | "sample" => pure .conditionalSample
  | "condFinal" => pure .conditionalFinal
  | s => throw s!"unknown flow {s}"

structure Item where
  p    : Payload
  res  : Res
  pre  : Option Res
  uerr : Bool
  tres : Option Res := none
  drop : Bool := false
  blank : Bool := false
  extra : List Res := []

def itemOf (j : Json) : R Item := do
  pure { p := ← payload (← field j "p"), res := ← resOf (← field j "res"),
         pre := ← optOf resOf (fieldD j "pre" .null), uerr := ← boolF j "uerr",
         tres := ← optOf resOf (fieldD j "tres" .null),
         drop := ← asBool (fieldD j "drop" (.bool false)), blank := ← asBool (fieldD j "blank" (.bool false)),
         extra := ← listOf resOf (fieldD j "extra" .null) }

structure Run where
  value   : List Payload
  results : List Res
  err     : Bool

/-- the payloads handed to the runner come as indices into the input items (exact equality checked by the
harness) or, for index -1, in `vextra` -/
def valueOf (items : List Item) (vix : List Int) (extra : List Payload) : R (List Payload) :=
  match vix with
  | [] => pure []
  | i :: rest =>
    if i < 0 then
      match extra with
      | p :: extra' => do pure (p :: (← valueOf items rest extra'))
      | [] => throw "vextra too short"
    else match items[i.toNat]? with
      | some it => do pure (it.p :: (← valueOf items rest extra))
      | none => throw s!"vix {i} out of range"

def runOf (items : List Item) (j : Json) : R Run := do
  let value ← valueOf items (← listF asInt j "vix") (← listF payload j "vextra")
  pure { value := value, results := ← listF resOf j "results", err := ← boolF j "err" }

/-- one call on the fake pipeline: (payloads, answers, failed) -/
def askedOf (items : List Item) (j : Json) : R (List Payload × List Res × Bool) := do
  let ix ← listF asNat j "ix"
  let to ← listOf asNat (fieldD j "to" .null)
  let its ← ix.mapM fun i => match items[i]? with
    | some it => pure (i, it)
    | none => throw s!"asked index {i} out of range"
  let err ← boolF j "err"
  let rev ← boolF j "rev"
  -- a payload the pipeline ran out of time on was answered with its `tres`
  let rs : List Res := its.map (fun (i, it) => if to.contains i then it.tres.getD it.res else it.res)
  let its := its.map (·.2)
  -- results the pipeline returned in addition (more results than payloads)
  let rs := rs ++ its.flatMap (·.extra)
  pure (its.map (fun it => it.p), if err then [] else if rev then rs.reverse else rs, err)

/-! ### replay of a queue log -/

def normQ (q : Queue) : Queue := q.mergeSort (fun a b => compare a.1 b.1 != .gt)

def sublists {α} : List α → List (List α)
  | [] => [[]]
  | x :: xs => let r := sublists xs; r ++ r.map (x :: ·)

def isExpiredKey (cfg : Cfg) (t : Nat) (q : Queue) (k : String) : Bool :=
  match get q k with
  | some r => expired cfg t r
  | none => false

/-- all model states after a `Dequeue(n)` at `t` that handed out exactly `out` (in that order) -/
def replayDeq (cfg : Cfg) (t n : Nat) (out : List Payload) (q : Queue) : List Queue :=
  let ks := keys q
  let outKs := out.map (·.workID)
  let expKs := (ks.filter (isExpiredKey cfg t q)).take 10
  let rest := ks.filter (fun k => !outKs.contains k && !expKs.contains k)
  ((sublists expKs).filterMap fun vis =>
    let order := vis ++ outKs ++ expKs.filter (fun k => !vis.contains k) ++ rest
    let d := dequeue cfg t n order q
    if d.2 = out then some (normQ d.1) else none).eraseDups

structure Replay where
  states : List Queue := [[]]
  maxStates : Nat := 1
  failedAt : Option Nat := none     -- index of the first event no model state explains
  idx : Nat := 0

def replayStep (cfg : Cfg) (rp : Replay) (ev : Ev) : Replay :=
  match rp.failedAt with
  | some _ => rp
  | none =>
    let states' := match ev with
      | .enq t r => (rp.states.map fun q => normQ (enqueue cfg t q r)).eraseDups
      | .deq t n out => (rp.states.flatMap (replayDeq cfg t n out)).eraseDups
    if states'.isEmpty then { rp with failedAt := some rp.idx }
    else { states := states', maxStates := max rp.maxStates states'.length, failedAt := none, idx := rp.idx + 1 }

def replay (cfg : Cfg) (log : List Ev) : Replay := log.foldl (replayStep cfg) {}

/-- a single model path (canonical iteration order: the keys handed out, then all others in key order) -/
def modelPath (cfg : Cfg) (log : List Ev) : List Ev :=
  ((log.foldl (fun (st : Queue × List Ev) ev =>
    match ev with
    | .enq t r => step cfg st (.enq t r)
    | .deq t n out => step cfg st (.deq t n (out.map (·.workID) ++ (keys (normQ st.1)).filter (fun k => !(out.map (·.workID)).contains k))))
    (([], []) : Queue × List Ev)).2).reverse

def showEv : Ev → String
  | .enq t r => s!"enq@{t} {r.payload.workID.take 6}#{r.payload.trigger.blockNumber} iv={r.interval}"
  | .deq t n out => s!"deq@{t} n={n} -> {out.map fun p => s!"{p.workID.take 6}#{p.trigger.blockNumber}"}"

def queueTags (cfg : Cfg) (log : List Ev) (rp : Replay) : List String :=
  let revs := log.reverse
  -- (event, older) pairs
  let rec go : List Ev → List String → List String
    | [], acc => acc
    | ev :: older, acc =>
      let acc := match ev with
        | .enq _ r =>
          let a := if r.interval > 0 then "custom-interval" :: acc else "default-interval" :: acc
          let a := if r.payload.trigger.blockNumber == 0 then "enq-block-0" :: a else a
          let a := if r.payload.trigger.blockNumber ≥ 2 ^ 63 then "enq-block>=2^63" :: a else a
          let a := if r.payload.trigger.blockNumber == 2 ^ 64 - 1 then "enq-block-max" :: a else a
          match lastEnq older r.payload.workID with
          | some (_, r0) =>
            if r.payload.trigger.blockNumber > r0.payload.trigger.blockNumber then "enq-newer-block" :: a
            else if r.payload.trigger.blockNumber < r0.payload.trigger.blockNumber then "enq-older-block" :: a
            else "enq-same-block" :: a
          | none => a
        | .deq t n out =>
          let a := if out.isEmpty then "deq-empty" :: acc else "deq-nonempty" :: acc
          let a := if out.length ≥ n then "deq-n-reached" :: a else a
          let a := if out.any (fun p => p.trigger.blockNumber == 0) then "deq-block-0" :: a else a
          let a := if out.any (fun p => p.trigger.blockNumber ≥ 2 ^ 63) then "deq-block>=2^63" :: a else a
          let a := if out.any (fun p => match lastEnq older p.workID with
              | some (te, r) => t == te + effInterval cfg r.interval + 1 | none => false) then "boundary+1ns" :: a else a
          -- a work id that is exactly at its interval and was not handed out
          let a := if older.any (fun e => match e with
              | .enq te r => (lastEnq older r.payload.workID == some (te, r)) && t == te + effInterval cfg r.interval
              | _ => false) then "boundary-exact" :: a else a
          let a := if older.any (fun e => match e with
              | .enq te _ => t == te + cfg.expiration || t == te + cfg.expiration + 1
              | _ => false) then "expiry-boundary" :: a else a
          a
      go older acc
  let tags := go revs []
  (tags ++ (if rp.maxStates > 1 then ["purge-ambiguous"] else [])).eraseDups

/-! ### handlers -/

def handleQueue (cfg : Cfg) (input impl : Json) : R Reply := do
  let qlog ← listF qevOf impl "qlog"
  let log := qlog.map (·.ev)
  -- the log must be the history the input asked for
  let ops ← asList (← field input "ops")
  let opsOk ← (do
    if ops.length != log.length then pure false else
    let mut ok := true
    for (o, e) in ops.zip log do
      let k ← strF o "op"
      match e with
      | .enq _ r => if k != "enq" || (← recOf (← field o "rec")) != r then ok := false
      | .deq _ n _ => if k != "deq" || (← natF o "n") != n then ok := false
    pure ok : R Bool)
  let rp := replay cfg log
  let agree := opsOk && rp.failedAt.isNone
  let si := queueOk cfg log
  let sm := queueOk cfg (modelPath cfg log)
  let diff :=
    if !opsOk then "queue log does not match the requested ops"
    else match rp.failedAt with
      | some i => s!"no model state explains event {i}: {(log[i]?).map showEv}"
      | none => ""
  pure { agree := agree, specModel := sm, specImpl := si, diff := diff,
         fail := if si then "" else explainQueue cfg log,
         nontrivial := log.any (fun e => match e with | .deq _ _ out => !out.isEmpty | _ => false),
         tags := queueTags cfg log rp }

def sumSinks (ss : List Sinks) : Sinks :=
  { staged := ss.flatMap (·.staged), proposed := ss.flatMap (·.proposed), ineligible := ss.flatMap (·.ineligible),
    retries := ss.flatMap (·.retries), err := ss.any (·.err) }

def handlePipe (cfg : Cfg) (input impl : Json) : R Reply := do
  let flow ← flowOf (← strF input "flow")
  let items ← listF itemOf input "items"
  let runs ← listF (runOf items) impl "runs"
  let adds ← listF checkResult impl "adds"
  let view ← listF checkResult impl "view"
  let props ← listF proposal impl "props"
  let pview ← listF proposal impl "pview"
  let inelig ← listF checkResult impl "inelig"
  let qlog ← listF qevOf impl "qlog"
  let asked ← listF (askedOf items) impl "asked"
  let log := qlog.map (·.ev)
  let ppEnq := qlog.filterMap fun e => match e.ev with
    | .enq _ r => if e.src == "pp" then some r else none
    | _ => none
  let uerrIds := (items.filter (·.uerr)).map (·.p.workID)
  let updErr : CheckResult → Bool := fun r => uerrIds.contains r.workID
  let okRuns := runs.filter (fun r => !r.err)
  -- model: the post-processing step of the flow on each run, with the runner's output as observed
  let perRun := okRuns.map fun r => postProcess flow updErr r.results r.value
  let want := sumSinks perRun
  let got : Sinks := { staged := adds, proposed := props, ineligible := inelig, retries := ppEnq }
  let value := okRuns.flatMap (·.value)
  let results := okRuns.flatMap (·.results)
  -- independence of the runner's order, checked at run time as well: the model on the results in payload
  -- order (stable by position of the work id in `value`) fills the sinks with the same multisets
  let canon := okRuns.map fun r =>
    postProcess flow updErr (r.value.flatMap fun p => r.results.filter fun x => x.cr.workID == p.workID && blockMatch p x.cr) r.value
  let wantCanon := sumSinks canon
  let contract := okRuns.all fun r => contractOk r.value r.results && r.results.all (fun x => r.value.any fun p => p.workID == x.cr.workID && blockMatch p x.cr)
    && (r.value.map fun p => (p.workID, p.trigger.blockNumber, p.trigger.blockHash)).eraseDups.length == r.value.length
  let orderIndep := !contract ||
    (wantCanon.staged.isPerm want.staged && wantCanon.proposed.isPerm want.proposed &&
     wantCanon.ineligible.isPerm want.ineligible && wantCanon.retries.isPerm want.retries)
  -- what the runner returned is made of results the pipeline gave (main phase) or had given before (cache)
  let pool := (asked.flatMap fun a => a.2.1) ++ items.filterMap (·.pre)
  let runnerOk := results.all (pool.contains ·)
  let aStaged := got.staged.isPerm want.staged
  let aProps := got.proposed.isPerm want.proposed
  let aInel := got.ineligible.isPerm want.ineligible
  let aRetry := got.retries.isPerm want.retries
  let aView := view.isPerm (storeView adds)
  let aPView := pview.isPerm (metaView props)
  let rp := replay cfg log
  -- regenerated constants the scenario depends on: the retry flow's tick takes `RetryBatchSize` records, the
  -- runner hands the pipeline at most `WorkerBatchLimit` payloads per call
  let constOk := qlog.all (fun e => match e.ev with
      | .deq _ n _ => e.src != "tick" || n == Gen.retryBatchSize
      | _ => true) && asked.all (fun a => a.1.length ≤ Gen.workerBatchLimit)
  -- final flows: what the tick getter handed on — the builder's payloads without the empty ones, through the
  -- coordinator's filter — is what reached the runner (all runs, failed ones included)
  let built ← listOf (listOf payload) (fieldD impl "built" .null)
  let isFinal := flow == .recoveryFinal || flow == .conditionalFinal
  let keep : Payload → Bool := fun p => !(items.any fun it => it.drop && it.p == p)
  let checked := runs.flatMap (·.value)
  let aChecked := !isFinal || checked.isPerm (checkedOf keep built)
  let agree := aStaged && aProps && aInel && aRetry && aView && aPView && rp.failedAt.isNone && runnerOk && orderIndep && constOk && aChecked
  let specRouting (s : Sinks) : Bool :=
    -- per-run attribution of sink contents is not observable; with several runs the predicate is evaluated
    -- on their union (payloads, results, sink contents)
    routingOk flow value results s
  let checkedSpec (c : List Payload) : Bool := !isFinal || checkedOk keep built c
  -- the number of retries is judged run by run (positions matter when a result's work id is unknown), then summed
  let runPairs := okRuns.map fun r => (r.value, r.results)
  let si := specRouting got && retriesCounted flow runPairs got.retries && queueOk cfg log && checkedSpec checked
  let sm := specRouting want && retriesCounted flow runPairs want.retries && queueOk cfg (modelPath cfg log) &&
    checkedSpec (checkedOf keep built)
  let diff :=
    if !aStaged then s!"staged: model={want.staged.map showResult} impl={got.staged.map showResult}"
    else if !aProps then s!"proposed: model={want.proposed.map (·.workID.take 6)} impl={got.proposed.map (·.workID.take 6)}"
    else if !aInel then s!"ineligible: model={want.ineligible.map showResult} impl={got.ineligible.map showResult}"
    else if !aRetry then s!"retries: model={want.retries.map fun e => (e.payload.workID.take 6, e.payload.trigger.blockNumber, e.interval)} impl={got.retries.map fun e => (e.payload.workID.take 6, e.payload.trigger.blockNumber, e.interval)}"
    else if !aView then "result store view is not what its Add calls leave"
    else if !aPView then "metadata store view is not what its AddProposals calls leave"
    else if !runnerOk then "runner returned a result that neither the pipeline nor the cache pre-population produced"
    else if !orderIndep then "model sinks differ between the runner's order and payload order"
    else if !constOk then "retry tick batch size or runner batch limit differs from the regenerated constants"
    else if !aChecked then s!"checked by the final flow: model={(checkedOf keep built).map (·.workID.take 6)} impl={checked.map (·.workID.take 6)}"
    else match rp.failedAt with
      | some i => s!"no model queue state explains event {i}: {(log[i]?).map showEv}"
      | none => ""
  let fail :=
    if !specRouting got then explainRouting flow value results got
    else if !retriesCounted flow runPairs got.retries then
      "the number of retries differs from the retryable failures that have a payload (by work id, or by position when no payload carries the work id)"
    else if !queueOk cfg log then explainQueue cfg log
    else if !checkedSpec checked then explainChecked keep built checked
    else ""
  -- a retryable failure no payload carries, at a position past the payload list
  let beyond := okRuns.any fun r => r.results.zipIdx.any fun (x, i) =>
    x.retryableFail && (matchPayload r.value x.cr).isNone && r.value.length ≤ i
  -- coverage tags
  let permuted := okRuns.any fun r =>
    (r.results.map (·.cr.workID)) != ((r.value.filter fun p => r.results.any (·.cr.workID == p.workID)).map (·.workID))
  let cached := okRuns.any fun r => r.value.any fun p => !(asked.any fun a => a.1.contains p)
  let tags :=
    [s!"flow:{← strF input "flow"}"] ++
    (if runs.length > 1 then ["multi-run"] else []) ++
    (if runs.any (·.err) then ["runner-error"] else []) ++
    (if permuted then ["results-permuted"] else []) ++
    (if cached then ["cache-hit"] else []) ++
    (if asked.any (·.2.2) then ["batch-failed"] else []) ++
    (if (fieldD input "deadline" (.bool false)) == .bool true then ["deadline-mode"] else []) ++
    (if results.any (fun r => items.any (fun it => it.tres == some r)) then ["deadline-expired-results"] else []) ++
    (if results.any (fun r => r.succEligible && r.cr.reason != 0) then ["eligible-with-reason"] else []) ++
    (if results.any (·.retryableFail) then ["retryable"] else []) ++
    (if results.any (fun r => r.cr.pes != 0 && !r.cr.retryable) then ["non-retryable"] else []) ++
    (if results.any (·.succEligible) then ["eligible"] else []) ++
    (if results.any (·.succIneligible) then ["ineligible"] else []) ++
    (if (value.map (·.workID)).eraseDups.length != value.length then ["repeated-work-id"] else []) ++
    (if !okRuns.all (fun r => contractOk r.value r.results) then ["contract-violated", "positional-fallback"] else []) ++
    (if uerrIds.any (fun k => inelig.any (·.workID == k)) then ["updater-error"] else []) ++
    (if okRuns.any (fun r => r.value.length < items.length) then ["pre-filtered"] else []) ++
    (if okRuns.any (fun r => r.results.length > r.value.length) then ["more-results-than-payloads"] else []) ++
    (if beyond then ["fallback-beyond-payloads"] else []) ++
    (if (fieldD input "nilIdle" (.bool false)) == .bool true then ["nil-idle-sources"] else []) ++
    (if (fieldD impl "deqErrs" (.num 0)) != .num 0 then ["tick-dequeue-error"] else []) ++
    (if built.any (fun b => b.any payloadEmpty) then ["builder-empty-payload"] else []) ++
    (if (fieldD impl "bldErrs" (.num 0)) != .num 0 then ["tick-builder-error"] else []) ++
    (if results.any (fun r => r.retryableFail && r.retryInterval > 0) then ["custom-interval"] else []) ++
    (if log.any (fun e => match e with | .deq _ _ out => !out.isEmpty | _ => false) then ["retry-handed-out"] else []) ++
    (if want.staged.any (fun r => r.trigger.blockNumber == 0) then ["staged-block-0"] else []) ++
    (if want.proposed.any (fun r => r.trigger.blockNumber == 0) then ["proposed-block-0"] else []) ++
    (if want.ineligible.any (fun r => r.trigger.blockNumber == 0) then ["ineligible-block-0"] else []) ++
    (if want.retries.any (fun r => r.payload.trigger.blockNumber == 0) then ["retry-block-0"] else []) ++
    (if value.any (fun p => p.trigger.blockNumber ≥ 2 ^ 63) then ["block>=2^63"] else []) ++
    (queueTags cfg log rp).filter (fun t => t == "boundary+1ns" || t == "boundary-exact" || t == "purge-ambiguous" || t == "deq-n-reached" ||
      t == "deq-block-0" || t == "deq-block>=2^63" || t == "enq-older-block" || t == "enq-same-block" || t == "enq-newer-block")
  pure { agree := agree, specModel := sm, specImpl := si, diff := diff, fail := fail,
         nontrivial := results.length ≥ 2, tags := tags }

/-! ### node-level cases -/

structure PItem where
  p      : Payload
  path   : String
  script : List Res

def pitemOf (j : Json) : R PItem := do
  pure { p := ← payload (← field j "p"), path := ← strF j "path", script := ← listF resOf j "script" }

def handlePlugin (cfg : Cfg) (input impl : Json) : R Reply := do
  let items ← listF pitemOf input "pitems"
  let tick ← natF input "retryTick"
  let o ← field impl "plugin"
  let checks ← listF (fun j => do pure ((← natF j "ix"), ({ t := ← natF j "t", att := ← natF j "att", block := ← natF j "b" } : Check))) o "checks"
  let unknown ← natF o "unknown"
  let perf ← listF checkResult o "perf"
  let obsErr ← strF o "obsErr"
  let per := items.zipIdx.map fun (it, i) => (it, (checks.filter (·.1 == i)).map (·.2))
  -- model: how often each unit of work is checked and what is staged in the end
  let wantPerf := items.flatMap fun it => planStaged it.script
  let aCount := per.all fun (it, cs) => cs.length == planChecks it.script
  let aPerf := perf.isPerm wantPerf
  let agree := aCount && aPerf && unknown == 0 && obsErr == ""
  let si := per.all (fun (it, cs) => itemOk cfg tick it.p it.script cs perf) && unknown == 0 &&
    perf.all (fun r => items.any (·.p.workID == r.workID))
  -- the model's own timeline: every retry on the first tick of the grid after its interval
  let modelChecks (it : PItem) (t0 : Nat) : List Check :=
    let rec go (sc : List Res) (t att : Nat) (fuel : Nat) : List Check :=
      match fuel, sc with
      | 0, _ => []
      | _, [] => []
      | fuel + 1, r :: rs =>
        { t := t, att := att, block := it.p.trigger.blockNumber } ::
          (if r.retryableFail then go rs (((t + effInterval cfg r.retryInterval) / tick + 1) * tick) (att + 1) fuel else [])
    go it.script t0 0 (it.script.length + 1)
  let sm := per.all fun (it, cs) =>
    itemOk cfg tick it.p it.script (modelChecks it ((cs.head?.map (·.t)).getD tick)) wantPerf
  let bad := per.find? fun (it, cs) => !itemOk cfg tick it.p it.script cs perf
  let fail :=
    if si then "" else
    match bad with
    | some (it, cs) => s!"{explainItem cfg tick it.p it.script cs perf} [entered through the {it.path} flow]"
    | none => if unknown != 0 then "the pipeline was asked about a payload that was never fed" else "node stages a result of no fed unit of work"
  let diff :=
    if agree then "" else
    if !aCount then s!"checks per unit of work: model={items.map fun it => planChecks it.script} impl={per.map fun (_, cs) => cs.length}"
    else if !aPerf then s!"staged: model={wantPerf.map showResult} impl={perf.map showResult}"
    else s!"unknown={unknown} obsErr={obsErr}"
  let tags :=
    (items.map fun it => s!"plugin:{it.path}").eraseDups ++
    (items.filterMap fun it => if it.script.length > 1 then some s!"plugin-retry:{it.path}" else none).eraseDups ++
    (if items.any (fun it => it.script.length > 2) then ["plugin-retry-of-retry"] else []) ++
    (if items.any (fun it => it.script.any fun r => r.retryableFail && r.retryInterval ≤ 0) then ["plugin-default-interval"] else []) ++
    (if per.any (fun (it, cs) => (it.script.zip (cs.zip cs.tail)).any fun (r, c, c') => c'.t == c.t + effInterval cfg r.retryInterval + tick) then ["plugin-tick-boundary"] else []) ++
    (if !wantPerf.isEmpty then ["plugin-staged"] else []) ++
    (if items.any (fun it => it.script.length > 1 && it.p.trigger.blockNumber == 0) then ["plugin-retry:block-0"] else []) ++
    (if items.any (fun it => it.script.length > 1 && it.p.trigger.blockNumber ≥ 2 ^ 63) then ["plugin-retry:block>=2^63"] else []) ++
    (if wantPerf.any (fun r => r.trigger.blockNumber == 0) then ["plugin-staged:block-0"] else []) ++
    (if (fieldD o "peerReject" (.str "")) != .str "" then ["plugin:final-observation-rejected-by-peers"] else []) ++
    (if (fieldD input "decoy" (.bool false)) == .bool true then ["plugin-decoy"] else [])
  pure { agree := agree, specModel := sm, specImpl := si, diff := diff, fail := fail,
         nontrivial := items.any (fun it => it.script.length > 1), tags := tags }

/-! ### concurrent Enqueue ∥ Dequeue on the real queue: linearize, replay, judge -/

def stressPayload (i b : Nat) : Payload :=
  { upkeepID := "", trigger := { blockNumber := b, blockHash := "", ext := none }, workID := s!"w{i}" }

def pairsOf (j : Json) : R (List (Nat × Nat)) := do
  (← asList j).mapM fun x => do
    match ← asList x with
    | [a, b] => pure ((← asNat a), (← asNat b))
    | _ => throw "pair expected"

/-- a single model path over a log, taking for each dequeue the iteration order "what came out, then the rest" -/
def modelOuts (cfg : Cfg) (log : List Ev) : List (List Payload) :=
  (log.foldl (fun (st : Queue × List (List Payload)) ev =>
    match ev with
    | .enq t r => (enqueue cfg t st.1 r, st.2)
    | .deq t n out =>
      let oks := out.map (·.workID)
      let d := dequeue cfg t n (oks ++ (keys st.1).filter (fun k => !oks.contains k)) st.1
      (d.1, d.2 :: st.2)) (([], []) : Queue × List (List Payload))).2.reverse

def handleStress (cfg : Cfg) (input impl : Json) : R Reply := do
  let si_ ← field input "stress"
  let w ← natF si_ "w"
  let g ← natF si_ "g"
  let per ← natF si_ "per"
  let n1 ← natF si_ "n1"
  -- the check block the work ids are queued at and the newer one (absent or new = 0: blocks 1 and 2)
  let newIn ← asNat (fieldD si_ "new" (.num 0))
  let oldIn ← asNat (fieldD si_ "old" (.num 0))
  let (bOld, bNew) := if newIn == 0 then (1, 2) else (oldIn, newIn)
  let o ← field impl "stress"
  let t0 ← natF o "t0"
  let t1 ← natF o "t1"
  let t2 ← natF o "t2"
  let bad ← natF o "bad"
  let enq ← listF (listOf asNat) o "enq"
  let d1s ← listF asNat o "d1s"
  let d1 ← pairsOf (← field o "d1")
  let d2 ← pairsOf (← field o "d2")
  let (inv1, ret1) ← match d1s with
    | [a, b] => pure (a, b)
    | _ => throw "d1s"
  -- (inv, ret, id) of every Enqueue of check block 2
  let rec stamps : List Nat → List (Nat × Nat) | a :: b :: r => (a, b) :: stamps r | _ => []
  let ops := enq.zipIdx.flatMap fun (st, gi) => (stamps st).zipIdx.map fun ((a, b), j) => (a, b, gi * per + j)
  let complete := enq.length == g && enq.all (fun st => st.length == 2 * per)
  let s1 := d1.map (·.1)
  -- linearization: an Enqueue whose work id the concurrent Dequeue did not hand out took effect before it
  -- (the id was then not due any more), unless it was invoked only after the Dequeue had returned
  let isBefore := fun (x : Nat × Nat × Nat) => !s1.contains x.2.2 && x.1 < ret1
  let sortOps := fun (l : List (Nat × Nat × Nat)) => l.mergeSort (fun a b => a.1 ≤ b.1)
  let before := sortOps (ops.filter isBefore)
  let after := sortOps (ops.filter (fun x => !isBefore x))
  -- real-time order: an Enqueue that had returned before the Dequeue was invoked cannot come after it
  let realTime := after.all (fun x => x.2.1 > inv1)
  let pl := fun (l : List (Nat × Nat)) => l.map fun (i, b) => stressPayload i b
  let log : List Ev :=
    (List.range w).map (fun i => Ev.enq t0 { payload := stressPayload i bOld, interval := 1 }) ++
    before.map (fun x => Ev.enq t1 { payload := stressPayload x.2.2 bNew, interval := 1 }) ++
    [Ev.deq t1 n1 (pl d1)] ++
    after.map (fun x => Ev.enq t1 { payload := stressPayload x.2.2 bNew, interval := 1 }) ++
    [Ev.deq t2 (w + 10) (pl d2)]
  let outs := modelOuts cfg log
  let agree := complete && bad == 0 && realTime && outs == [pl d1, pl d2]
  let qok := queueOk cfg log
  let si := complete && bad == 0 && realTime && qok
  let mlog := (log.foldl (fun (st : List Ev × List (List Payload)) ev =>
      match ev, st.2 with
      | .deq t n _, o :: os => (st.1 ++ [Ev.deq t n o], os)
      | e, os => (st.1 ++ [e], os)) (([], outs) : List Ev × List (List Payload))).1
  let sm := if mlog == log then qok else queueOk cfg mlog
  let lost := ops.filter fun x => !(d2.contains (x.2.2, bNew)) && !(d1.contains (x.2.2, bNew))
  let fail :=
    if si then "" else
    if bad != 0 then "dequeued a payload that was never enqueued [concurrent Enqueue/Dequeue]"
    else if !complete then "stress bookkeeping incomplete"
    else if !realTime then "not linearizable: a Dequeue handed out the old check block of a work id whose newer block had already been enqueued"
    else s!"{explainQueue cfg log} [concurrent Enqueue/Dequeue, linearized]"
  let diff := if agree then "" else
    s!"lost newer blocks: {lost.length} e.g. {(lost.take 3).map (·.2.2)}; model D1={(outs.head?.map (·.length))} impl D1={d1.length}; model D2={((outs.drop 1).head?.map (·.length))} impl D2={d2.length}"
  let tags := ["stress"] ++ (if bOld == 0 then ["stress:block-0"] else []) ++
    (if !before.isEmpty && !after.isEmpty then ["stress:dequeue-amid-enqueues"] else []) ++
    (if ops.any (fun x => x.1 < ret1 && x.2.1 > inv1) then ["stress:overlapping-calls"] else []) ++
    (if d1.length ≥ n1 then ["stress:n-reached"] else [])
  pure { agree := agree, specModel := sm, specImpl := si, diff := diff, fail := fail,
         nontrivial := !before.isEmpty && !after.isEmpty, tags := tags }

/-! ### fairness of the batch limit over many calls -/

def handleFair (input impl : Json) : R Reply := do
  let f ← field input "fair"
  let d ← natF f "d"
  let n ← natF f "n"
  let k ← natF f "k"
  let o ← field impl "fair"
  let counts ← listF asNat o "counts"
  let maxWait ← listF asNat o "maxWait"
  let short ← natF o "short"
  let foreign ← natF o "foreign"
  -- model: all `d` records are due at every call, so every call hands out exactly `min n d` of them (which ones is
  -- the map's iteration order — a parameter of the model)
  let agree := short == 0 && foreign == 0 && counts.length == d && counts.sum == k * min n d
  let si := fairOk d n k counts short foreign
  let fail := if si then "" else
    if short != 0 || foreign != 0 || counts.length != d || counts.sum != k * min n d then
      "a dequeue with due records left handed out fewer than n, or something that was not due"
    else s!"a work id that was due at every one of {k} dequeues was never handed out (starved behind the batch limit; {(counts.filter (· == 0)).length} of {d} records)"
  pure { agree := agree, specModel := true, specImpl := si,
         diff := if agree then "" else s!"handed out {counts.sum}, expected {k * min n d}; short={short} foreign={foreign}",
         fail := fail, nontrivial := n < d,
         tags := ["fair", s!"fair:n={n}"] ++ (if maxWait.any (· ≥ 10) then ["fair:waited>=10-calls"] else []) }

def handle (input impl : Json) : R Reply := do
  match ← strF input "kind" with
  | "pipe" => handlePipe Cfg.repo input impl
  | "queue" => handleQueue Cfg.repo input impl
  | "plugin" => handlePlugin Cfg.repo input impl
  | "stress" => handleStress Cfg.repo input impl
  | "fair" => handleFair input impl
  | k => throw s!"unknown C12 case kind {k}"

end AutoVerif.C12
