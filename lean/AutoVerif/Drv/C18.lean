import AutoVerif.Drv.Codec
import AutoVerif.Spec.C18
import Std.Data.HashSet
open Lean AutoVerif.Codec
namespace AutoVerif.C18

def natD (j : Json) (k : String) : Nat :=
  match j.getObjVal? k with
  | .ok v => (asNat v).toOption.getD 0
  | .error _ => 0

def boolD (j : Json) (k : String) (d : Bool) : Bool :=
  match j.getObjVal? k with
  | .ok (.bool b) => b
  | _ => d

def intD (j : Json) (k : String) : Int :=
  match j.getObjVal? k with
  | .ok v => (asInt v).toOption.getD 0
  | .error _ => 0

def caseOf (j : Json) : R Case := do
  pure { scenario := ← strF j "scenario", panicSite := ← strF j "panicSite", coolDownNs := ← natF j "coolDownNs",
         intervalNs := ← natF j "intervalNs", latencyNs := ← natF j "latencyNs", services := ← natF j "services", work := natD j "work", holdCtx := boolD j "holdCtx" false,
         auxMax := ← natF j "auxMax",
         family := (asStr (fieldD j "family" (.str ""))).toOption.getD "",
         ctorFault := (asStr (fieldD j "ctorFault" (.str ""))).toOption.getD "",
         closeFault := (asStr (fieldD j "closeFault" (.str ""))).toOption.getD "" }

/-- canonical observation from the harness's `impl` object -/
def obsOf (impl : Json) : Obs :=
  let errs := fieldD impl "closeErrs" (Json.mkObj [])
  let leaked := fieldD impl "leaked" (Json.mkObj [])
  let calls := fieldD impl "callsAfterClose" (Json.mkObj [])
  let after2 := fieldD impl "leakedAfter2nd" (Json.mkObj [])
  let nNR := natD errs "recoverer-not-running"
  let nNS := natD errs "svc-not-started"
  let nOther := natD errs "svc-already-stopped" + natD errs "other"
  let totalCalls := ["logProvider", "recoveryProvider", "upkeepGetter", "eventsProvider", "pipeline", "stateUpdater", "resultStoreGC",
    "typeGetter@dequeue", "typeGetter@metadata", "typeGetter@coordinator",
    "v2PerformLogs", "v2StaleLogs", "v2ActiveUpkeeps", "v2CoordEncoder", "v2ObsEncoder", "v2CheckUpkeep"].foldl
    (fun a k => a + natD calls k) 0
  let within := intD impl "resumedWithinNs"
  { survived := boolD impl "survived" false,
    crashed := (match impl.getObjVal? "crashed" with | .ok (.str p) => p != "" | _ => false),
    hung := (match impl.getObjVal? "hung" with | .ok (.str p) => p != "" | _ => false), closeCalled := boolD impl "closeCalled" false, closeReturned := boolD impl "closeReturned" false,
    closedAtNs := natD impl "closedAtNs",
    closePanicked := (match impl.getObjVal? "closePanic" with | .ok (.str p) => p != "" | _ => false),
    firstCloseBad := (match impl.getObjVal? "firstClose" with | .ok (.obj kvs) => !kvs.isEmpty | _ => false),
    soonLeft := (let l := fieldD impl "leakedSoon" (Json.mkObj []); natD l "serviceStart" + natD l "service" + natD l "aux" + natD l "inflight"),
    roundsBlocked := natD impl "roundsBlocked",
    progress := natD impl "progress",
    errNotRunning := nNR, errNotStarted := nNS, errOther := nOther,
    leakedServiceStart := natD leaked "serviceStart", leakedService := natD leaked "service",
    leakedAux := natD leaked "aux", leakedInflight := natD leaked "inflight",
    ticking := decide (totalCalls > 0) || decide (natD impl "subscribed" > 0),
    bubbleEnded := boolD impl "bubbleEnded" false,
    after2ndServiceStart := natD after2 "serviceStart", after2ndService := natD after2 "service",
    panicsInjected := natD impl "panics", resumed := boolD impl "resumed" false, resumedWithinNs := within.toNat,
    othersTicked := boolD impl "othersTicked" false, pipelineDone := boolD impl "pipelineDone" false,
    ctorFailed := boolD impl "ctorErr" true && boolD impl "ctorNil" true,
    ctorLeft := (let l := fieldD impl "ctorLeft" (Json.mkObj []); natD l "serviceStart" + natD l "service" + natD l "aux" + natD l "inflight") +
                natD impl "ctorCalls" + natD impl "ctorSubs" }

def closeAtBucket (ns : Nat) : String :=
  if ns = 0 then "0" else if ns < 1000000 then "<1ms" else if ns < 1000000000 then "<1s"
  else if ns % 1000000000 = 0 then "grid" else if ns % 1000000000 = 1 then "grid+1ns" else if ns % 1000000000 = 999999999 then "grid-1ns" else "off-grid"

/-! ### trace validation: find an explanation of one recoverer's log

Depth-first search: at every node the events that may come next (`Spec.C18.wellOrdered`: the head of a goroutine whose
previous event was logged after everything still pending before it), tried in log order, then the hidden steps
(`hiddenOk`); a memo of configurations already known to fail; a node budget.  The search only PROPOSES the item list;
acceptance is decided by `Spec.C18.traceOk` on it.  A search that runs out of budget is INCONCLUSIVE, not a rejection. -/

/-- the system whose paths explain a log: trace states `σ`, hidden-step names `ι` -/
structure Sys (σ ι : Type) where
  key : σ → Array Nat                -- for the memo of failed configurations
  evStep : σ → Ev → Option σ         -- Spec `tstep`
  hidden : σ → List (ι × σ)          -- enabled hidden steps with their successors (Spec `hiddenOk` + model step)

structure Search where
  evs : Array Ev
  thr : Array Nat            -- goroutine number (dense) of every event
  next : Array (Option Nat)  -- next event of the same goroutine

structure SearchSt where
  failed : Std.HashSet (Array Nat) := {}
  nodes : Nat := 0
  deepest : Nat := 0
  stuckAt : Nat := 0

def mkSearch (evs : Array Ev) : Search × Array (Option Nat) := Id.run do
  let mut ids : List (Nat × Nat) := []
  let mut thr : Array Nat := #[]
  let mut last : Array (Option Nat) := #[]
  let mut heads : Array (Option Nat) := #[]
  let mut next : Array (Option Nat) := Array.replicate evs.size none
  for i in [0:evs.size] do
    let th := evs[i]!.g
    let tid ← match ids.find? (fun p => p.1 == th) with
      | some p => pure p.2
      | none => do
        let t := ids.length
        ids := (th, t) :: ids
        last := last.push none
        heads := heads.push none
        pure t
    thr := thr.push tid
    match last[tid]! with
    | none => heads := heads.set! tid (some i)
    | some p => next := next.set! p (some i)
    last := last.set! tid (some i)
  return ({ evs := evs, thr := thr, next := next }, heads)

def spcKey : SPc → Nat
  | .init => 0 | .spawn => 1 | .store => 2 | .sel => 3 | .parked => 4 | .cool => 5 | .respawn => 6 | .clear => 7 | .done => 8
def cpcKey : CPc → Nat
  | .idle => 0 | .load => 1 | .svcClose => 2 | .waitDone => 3 | .signal => 4 | .ret => 5 | .drain => 6
def svcKey : Svc → Nat
  | .unstarted => 0 | .starting => 1 | .started => 2 | .stopping => 3 | .stopped => 4
def msgKey : Option Msg → Nat
  | none => 0 | some .nil => 1 | some .svcErr => 2 | some .stopped => 3 | some .cancelled => 4
def wpcKey : V2.WPc → Nat
  | .absent => 0 | .sel => 1 | .parked => 2 | .cool => 3 | .rerun => 4 | .done => 5

def tkey (t : TState) : Array Nat :=
  let c := t.c
  #[spcKey c.spc, if c.running then 1 else 0, msgKey c.buf, svcKey c.svc, if c.stopReq then 1 else 0, if c.done then 1 else 0,
    c.nCall, c.nStarting, c.nRun, c.nSendNil, c.nSendErr, c.nSendStopped, cpcKey c.cpc, if c.svcErr then 1 else 0,
    if c.dropped then 1 else 0, if c.latch then 1 else 0, msgKey t.handed]

def hiddenLabels : List CLabel := [.sSel, .gCall, .gStarted, .gStopSeen, .cSvcClose, .cWaitDone, .gPanic]

/-- the v3 recoverer -/
def sysV3 (old : Bool) : Sys TState CLabel where
  key := tkey
  evStep := tstep old
  hidden t := hiddenLabels.filterMap fun l =>
    if hiddenOk t l then (stepCore t.c l).map fun c' => (l, { t with c := c' }) else none

/-- the OCR2 RecoverableService -/
def sysV2 : Sys V2.VTState Unit where
  key t :=
    let c := t.c
    #[if c.running then 1 else 0, if c.stopClosed then 1 else 0, if c.svcStopped then 1 else 0, msgKey c.buf, wpcKey c.wpc,
      c.nCall, c.nDo, c.nSendNil, c.nSendErr, c.nSendStopped, msgKey t.handed]
  evStep := V2.vtstep
  hidden t :=
    if t.c.wpc = .sel ∧ t.c.buf = none ∧ t.handed = none then
      match V2.vstep t.c .wSel with
      | some c' => [((), { t with c := c' })]
      | none => []
    else []

partial def firstPending (done : Array Bool) (i : Nat) : Nat :=
  if i < done.size && done[i]! then firstPending done (i + 1) else i

partial def dfs {σ ι : Type} (sys : Sys σ ι) (sr : Search) (budget : Nat) (t : σ) (heads : Array (Option Nat)) (done : Array Bool)
    (first placed : Nat) (acc : List (Nat ⊕ ι)) : StateM SearchSt (Option (List (Nat ⊕ ι))) := do
  if placed == sr.evs.size then return some acc.reverse
  let st ← get
  if st.nodes > budget then return none
  let key := (heads.map fun h => h.getD sr.evs.size) ++ sys.key t
  if st.failed.contains key then return none
  set { st with nodes := st.nodes + 1, deepest := max st.deepest placed,
                stuckAt := if placed ≥ st.deepest then first else st.stuckAt }
  -- the events that may come next (`Spec.C18.wellOrdered`), in log order
  let cands := ((heads.toList.filterMap id).filter fun h =>
    sr.evs[h]!.pa == 0 || (sr.evs.getD first default).pos + 1 > sr.evs[h]!.pa).mergeSort
  for h in cands do
    match sys.evStep t sr.evs[h]! with
    | none => pure ()
    | some t' =>
      let heads' := heads.set! sr.thr[h]! sr.next[h]!
      let done' := done.set! h true
      match ← dfs sys sr budget t' heads' done' (firstPending done' first) (placed + 1) (.inl h :: acc) with
      | some w => return some w
      | none => pure ()
  for (l, t') in sys.hidden t do
    match ← dfs sys sr budget t' heads done first placed (.inr l :: acc) with
    | some w => return some w
    | none => pure ()
  modify fun st => { st with failed := st.failed.insert key }
  return none

structure TraceVerdict where
  ok : Bool
  /-- the search ran out of budget before it found an explanation or exhausted them: nothing is known about the trace -/
  inconclusive : Bool := false
  msg : String := ""
  nodes : Nat := 0

def showEv (e : Ev) : String := s!"{e.pt}[g{e.g},k{e.k}]"

def traceBudget : Nat := 200000

def searchTrace {σ ι : Type} (sys : Sys σ ι) (t0 : σ) (evs : Array Ev) (accept : List (Nat ⊕ ι) → Bool) : TraceVerdict :=
  let (sr, heads) := mkSearch evs
  let (res, st) := (dfs sys sr traceBudget t0 heads (Array.replicate evs.size false) 0 0 []).run {}
  match res with
  | some items =>
    -- the decision is taken by the checker the theorems `trace_sound` / `trace_sound_v2` are about
    if accept items then { ok := true, nodes := st.nodes }
    else { ok := false, msg := "internal: proposed explanation rejected by Spec.traceOk", nodes := st.nodes }
  | none =>
    let out := decide (st.nodes > traceBudget)
    let e := evs.getD st.stuckAt default
    { ok := false, inconclusive := out, nodes := st.nodes,
      msg := s!"{if out then "search budget exhausted; " else ""}no admissible reordering of the log (hidden steps filled in) is a path of the model: stuck after {st.deepest} of {evs.size} events; first event that cannot be placed: #{st.stuckAt} {showEv e}; log: {evs.toList.map showEv}" }

def checkTrace (latched : Bool) (evs : Array Ev) : TraceVerdict :=
  let v := searchTrace (sysV3 false) { c := initOf latched } evs fun items =>
    traceOk latched evs (items.map fun | .inl i => Item.ev i | .inr l => Item.hid l)
  if v.ok || v.inconclusive then v
  else
    -- not a run of the model of the current code: is it a run of the pre-fix Close (one non-blocking send)?
    let vo := searchTrace (sysV3 true) { c := initOf latched } evs fun items =>
      traceOkOld latched evs (items.map fun | .inl i => Item.ev i | .inr l => Item.hid l)
    if vo.ok then { v with msg := "the log IS a path of the PRE-FIX model (Close makes one non-blocking send and drops its stop signal when the channel is full: schedule (c), `close_signal_dropped_old`); " ++ v.msg }
    else v

def checkTraceV2 (evs : Array Ev) : TraceVerdict :=
  searchTrace sysV2 { c := V2.vinit } evs fun items =>
    V2.vtraceOk evs (items.map fun | .inl i => V2.VItem.ev i | .inr _ => V2.VItem.park)

def sysX : Sys TStateX (CLabel ⊕ Option Bool) where
  key s := tkey s.t ++ #[if s.ctxDone then 1 else 0, s.cancels]   -- (`closeErrOk` and `honours` are constant along a search)
  evStep := tstepX
  hidden s :=
    (hiddenLabels.filterMap fun l =>
      if hiddenOk s.t l then (xrun s.x [.core l]).map fun x' => (Sum.inl l, s.withX x') else none) ++
    (if s.cancels = 0 then [] else
      match xrun s.x [.ctxCancel] with
      | some x' => [(Sum.inr (some true), { s.withX x' with cancels := s.cancels - 1 })]
      | none => []) ++
    (match xrun s.x [.gCtxSeen] with
     | some x' => [(Sum.inr (some false), s.withX x')]
     | none => []) ++
    (if s.closeErrOk then
      match xrun s.x [.cSvcCloseErr] with
      | some x' => [(Sum.inr none, s.withX x')]
      | none => []
     else [])

def checkTraceX (latched honours : Bool) (cancels : Nat) (evs : Array Ev) (closeErrOk : Bool := false) : TraceVerdict :=
  searchTrace sysX (tinitX latched honours cancels closeErrOk) evs fun items =>
    traceOkX latched honours cancels evs (items.map fun
      | .inl i => ItemX.ev i
      | .inr (.inl l) => ItemX.hid l
      | .inr (.inr (some true)) => ItemX.cancel
      | .inr (.inr (some false)) => ItemX.gctx
      | .inr (.inr none) => ItemX.closeErr) closeErrOk

def evOf (j : Json) : R (Nat × Ev) := do
  pure (← natF j "r", { pt := ← strF j "p", g := ← natF j "g", k := ← natF j "k", pos := natD j "at", pa := natD j "pa" })

/-- all recoverers of a case: (accepted, rejected, inconclusive, first message) -/
def checkTraces (impl : Json) (closeErrOk : Bool := false) : R (Nat × Nat × Nat × String) := do
  let evs ← listOf evOf (fieldD impl "trace" (.arr #[]))
  let kinds ← listOf asStr (fieldD impl "traceKinds" (.arr #[]))
  let mut acc := 0
  let mut rej := 0
  let mut inc := 0
  let mut msg := ""
  for r in [0:kinds.length] do
    let mine := (evs.filter fun p => p.1 == r).map (·.2)
    let kind := kinds.getD r "once"
    -- a case that makes a collaborator of a wrapped service fail in its Close is checked against the extended system (the
    -- recoverers of the plugin are started by the plugin: the first `start.idle` of each is the step from `xfresh`)
    let v := if kind == "v2" then checkTraceV2 mine.toArray
             else if closeErrOk then checkTraceX (kind == "latched") true 0 mine.toArray true
             else checkTrace (kind == "latched") mine.toArray
    if v.ok then acc := acc + 1
    else if v.inconclusive then inc := inc + 1
    else
      rej := rej + 1
      if msg == "" then msg := s!"recoverer {r} ({kinds.getD r "once"}): {v.msg}"
  pure (acc, rej, inc, msg)

def callsAfterClose (impl : Json) : Bool :=
  match fieldD impl "callsAfterClose" (Json.mkObj []) with
  | .obj kvs => kvs.toList.any fun (_, v) => (asNat v).toOption.getD 0 > 0
  | _ => false

def evsHave (impl : Json) (pt : String) : Bool :=
  match fieldD impl "trace" (.arr #[]) with
  | .arr a => a.any fun e => (asStr (fieldD e "p" (.str ""))).toOption.getD "" == pt
  | _ => false

/-! ### family "svc": scripts on one service -/

def aliveOf (j : Json) : Alive :=
  { serviceStart := natD j "serviceStart", service := natD j "service", inflight := natD j "inflight" }

/-- harness result classes → the words of `OpObs.res` -/
def normRes (wrap : Bool) (op res : String) : String :=
  if res.startsWith "panic:" then "panicked!"
  else if op == "start" then (if res == "pending" || res == "nil" then res else "refused")
  else if op == "close" then
    (if res == "nil" then "ok" else if res == "pending" then "pending" else if res == "recoverer-not-running" then "not-running"
     else if wrap then "refused" else if res == "other" then "error" else "refused")
  else if op == "cancel" then
    (if wrap then "" else if res == "nil" || res == "pending" || res == "" then res else "error")
  else if op == "panic" then (if res == "panicked" then "" else "outside")
  else ""

def bareOf (kind : String) (unsubFails : Bool) : Bare :=
  if kind == "ticker" then bfresh .once true false false
  else if kind == "coordinator" then bfresh .once false false false
  else if kind == "metadataStore" then bfresh .flag true true unsubFails
  else if kind == "runner" then bfresh .flag false false false
  else bfresh .latched true false false

structure SvcModel where
  ops : List OpObs := []
  outside : Bool := false
  final : Alive := ⟨0, 0, 0⟩
  closesReturned : Bool := true

/-- the recoverer script with time: the cool-down elapses between two operations when the clock says so -/
def runWrap (latched honours : Bool) (coolDownNs : Nat) (ops : List (String × Nat)) : SvcModel := Id.run do
  let mut x := xfresh latched honours
  let mut coolAt : Option Nat := none
  let mut out : Array OpObs := #[]
  let mut outside := false
  for (op, tNow) in ops do
    match coolAt with
    | some t0 =>
      if tNow == t0 + coolDownNs then outside := true     -- the very instant the timer fires: two orders
      if tNow > t0 + coolDownNs && x.c.spc == .cool then
        x := (xapply scriptFuel x .coolDown).1
        coolAt := none
    | none => pure ()
    let xop : Option XOp := if op == "start" then some .start else if op == "cancel" then some .cancel else if op == "close" then some .close
      else if op == "panic" then some .panic else none
    let mut res := ""
    match xop with
    | some o =>
      let (x1, r) := xapply scriptFuel x o
      x := x1
      res := r.str
      if r == .outside then outside := true
    | none => pure ()
    if x.c.spc == .cool && coolAt.isNone then coolAt := some tNow
    if x.c.spc != .cool then coolAt := none
    let a := x.aliveNow
    out := out.push { op := op, res := if op == "cancel" || op == "panic" then (if res == "outside" then res else "") else res,
                      serviceStart := a.serviceStart, service := a.service, inflight := a.inflight }
  let xe := (xapply scriptFuel x .coolDown).1
  return { ops := out.toList, outside := outside, final := xe.aliveNow, closesReturned := decide (xe.c.cpc = .idle ∨ xe.c.cpc = .ret) }

def runBare (b0 : Bare) (ops : List (String × Nat)) : SvcModel := Id.run do
  let mut b := b0
  let mut out : Array OpObs := #[]
  let mut blocked := false
  for (op, _) in ops do
    let bop : Option BOp := if op == "start" then some .start else if op == "cancel" then some .cancel else if op == "close" then some .close else none
    let mut res := ""
    match bop with
    | some o =>
      let (b1, r) := bapply b o
      b := b1
      res := r.str
      if r == .blocked then blocked := true
    | none => pure ()
    out := out.push { op := op, res := res, serviceStart := 0, service := b.loops, inflight := if blocked then 1 else 0 }
  return { ops := out.toList, final := ⟨0, b.loops, if blocked then 1 else 0⟩, closesReturned := !blocked, outside := ops.any fun p => p.1 == "panic" }

def runV2Obs (ops : List (String × Nat)) : SvcModel := Id.run do
  let mut o : V2.VObs := { c := V2.vinit }
  let mut out : Array OpObs := #[]
  for (op, _) in ops do
    let mut res := ""
    if op == "start" then
      o := V2.vapplyOp o true
      res := "nil"
    if op == "close" then
      o := V2.vapplyOp o false
      res := "ok"
    let a := o.c.aliveNow
    out := out.push { op := op, res := res, serviceStart := a.serviceStart, service := a.service, inflight := a.inflight }
  return { ops := out.toList, final := o.c.aliveNow, outside := ops.any fun p => p.1 == "panic" || p.1 == "cancel" }

def showOps (l : List OpObs) : String :=
  " ".intercalate (l.map fun o => s!"{o.op}→{o.res}[{o.serviceStart},{o.service},{o.inflight}]")

def handleSvc (input impl : Json) : R Reply := do
  let kind ← strF input "kind"
  let wrap := boolD input "wrap" false
  let unsubFails := (asStr (fieldD input "closeFault" (.str ""))).toOption.getD "" == "unsubscribe"
  let coolDownNs ← natF input "coolDownNs"
  let opsIn ← listOf (fun j => do pure (← strF j "op", natD j "ns")) (fieldD input "ops" (.arr #[]))
  let resIn ← listOf asStr (fieldD impl "opRes" (.arr #[]))
  let atIn ← listOf asNat (fieldD impl "opAtNs" (.arr #[]))
  let aliveIn ← listOf (fun j => pure (aliveOf j)) (fieldD impl "opAlive" (.arr #[]))
  let complete := resIn.length == opsIn.length && aliveIn.length == opsIn.length && atIn.length == opsIn.length
  let crashed := (match impl.getObjVal? "crashed" with | .ok (.str p) => p != "" | _ => false)
  let hung := (match impl.getObjVal? "hung" with | .ok (.str p) => p != "" | _ => false)
  let exit := (asStr (fieldD impl "exit" (.str "ok"))).toOption.getD "ok"
  let phase := (asStr (fieldD impl "phase" (.str ""))).toOption.getD ""
  let survived := boolD impl "survived" false && !crashed && (phase == "done" || phase == "measured") && (exit == "ok" || hung)
  -- a Close the harness did not issue (the previous one had not returned) is a pause
  let opsIn := (opsIn.zip (resIn ++ List.replicate opsIn.length "")).map fun ((op, ns), r) => if op == "close" && r == "skipped" then ("wait", ns) else (op, ns)
  let obsOps : List OpObs := (opsIn.zip (resIn.zip aliveIn)).map fun ((op, _), (r, a)) =>
    { op := op, res := normRes wrap op r, serviceStart := a.serviceStart, service := a.service, inflight := a.inflight }
  let finA := aliveOf (fieldD impl "leaked" (Json.mkObj []))
  let goodTicks := natD impl "goodTicks"
  let closesRet : Bool := !(boolD impl "closeCalled" false) || boolD impl "closeReturned" false
  let o : ScriptObs :=
    { survived := survived, hung := hung, ops := obsOps, finalServiceStart := finA.serviceStart, finalService := finA.service,
      finalInflight := finA.inflight, closesReturned := closesRet, process := natD impl "process", goodTicks := goodTicks,
      -- (a block source that fails to unsubscribe keeps its own record: not something the store left behind)
      finalSubscribed := if unsubFails then 0 else natD impl "subscribed" }
  let timed := opsIn.zip atIn |>.map fun ((op, _), tAt) => (op, tAt)
  let latched := kind == "resultStore"
  let honours := kind == "ticker" || kind == "resultStore" || kind == "metadataStore"
  let md : SvcModel :=
    if kind == "v2observer" then runV2Obs timed
    else if wrap then runWrap latched honours coolDownNs timed
    else runBare (bareOf kind unsubFails) timed
  let m : ScriptObs :=
    { survived := true, hung := false, ops := md.ops, finalServiceStart := md.final.serviceStart, finalService := md.final.service,
      finalInflight := md.final.inflight, closesReturned := md.closesReturned, process := goodTicks, goodTicks := goodTicks }
  let guarded := wrap || kind != "resultStore"
  -- the trace of the recoverer (wrap) / of the observer's RecoverableService
  let evs ← listOf evOf (fieldD impl "trace" (.arr #[]))
  let mine := (evs.filter fun p => p.1 == 0).map (·.2)
  let cancels := (opsIn.filter fun p => p.1 == "cancel").length
  let tv : TraceVerdict :=
    if mine.isEmpty then { ok := true }
    else if kind == "v2observer" then checkTraceV2 mine.toArray
    else checkTraceX latched honours cancels mine.toArray unsubFails
  let traceBad := !tv.ok && !tv.inconclusive
  let same := complete && o.ops == m.ops && decide (o.finalServiceStart = m.finalServiceStart) && decide (o.finalService = m.finalService) &&
    decide (o.finalInflight = m.finalInflight) && o.closesReturned == m.closesReturned && decide (o.process = o.goodTicks)
  -- a metadata store whose Unsubscribe fails refuses its Close and keeps running: the recoverer model has no such service step
  let md := if wrap && unsubFails then { md with outside := true } else md
  let agree := o.survived == m.survived && o.hung == m.hung && (md.outside || !o.survived || same) && !traceBad
  let si := specScript wrap guarded o honours
  let sm := specScript wrap guarded m honours
  let script := " ".intercalate (opsIn.map fun p => p.1)
  pure { agree := agree, specModel := sm || md.outside, specImpl := si,
         diff := if agree then "" else if traceBad then s!"trace rejected: {tv.msg}" else s!"model: {showOps m.ops} final [{m.finalServiceStart},{m.finalService},{m.finalInflight}] closesReturned={m.closesReturned}; impl: {showOps o.ops} final [{o.finalServiceStart},{o.finalService},{o.finalInflight}] closesReturned={o.closesReturned} process={o.process} goodTicks={o.goodTicks} survived={o.survived} complete={complete}",
         fail := if si then "" else explainScript wrap guarded o honours,
         nontrivial := true,
         tags := ["scenario:script", "family:svc", "kind:" ++ kind, if wrap then "behind-recoverer" else "bare-service"] ++
           (if md.outside then ["outside-model"] else []) ++
           (if mine.isEmpty then ["untraced"] else if traceBad then ["trace-rejected"] else if tv.inconclusive then ["trace-search-inconclusive"] else ["trace-accepted"]) ++
           (if evsHave impl "ss.ctxdone" then ["start-context-ended"] else []) ++
           (if evsHave impl "start.running" then ["start-while-running"] else []) ++
           (if evsHave impl "close.full" then ["close-found-channel-full"] else []) ++
           (if evsHave impl "close.drained" then ["close-drained"] else []) ++
           (if evsHave impl "v2.stop.notrunning" then ["v2-stop-not-running"] else []) ++
           (if obsOps.any (fun o => o.op == "start" && o.res == "refused") then ["start-refused"] else []) ++
           (if si then [] else ["script-spec-failed"]),
         key := s!"svc|{kind}|{wrap}|{(asStr (fieldD input "getter" (.str ""))).toOption.getD ""}|{unsubFails}|{script}|{atIn}" }

def handle (input impl : Json) : R Reply := do
  if (asStr (fieldD input "family" (.str ""))).toOption.getD "" == "svc" then return ← handleSvc input impl
  let cs ← caseOf input
  let o := obsOf impl
  let o := if cs.ctorFault == "" then { o with ctorFailed := true, ctorLeft := 0 } else o
  -- a block source that FAILS to unsubscribe keeps its record of the subscription: not something the instance left running
  let o := if cs.closeFault == "unsubscribe" then { o with ticking := callsAfterClose impl } else o
  let died := !o.survived
  -- a panic site whose first panicking call was never reached injects nothing
  let m := predictFull current unsubStopsNow cs o.closedAtNs o.errNotRunning o.errNotStarted (o.closeCalled || (cs.scenario == "close")) (if died then 1 else o.panicsInjected)
  let agreeLive :=
    o.closeReturned == m.closeReturned && decide (o.errOther = m.errOther) &&
    o.ctorFailed == m.ctorFailed && decide (o.ctorLeft = m.ctorLeft) && o.ticking == m.ticking &&
    o.closePanicked == m.closePanicked && o.firstCloseBad == m.firstCloseBad && lingerOk cs o == lingerOk cs m &&
    (!progressDue cs o || (decide (o.progress > 0) == decide (m.progress > 0))) &&
    decide (o.errNotRunning = m.errNotRunning) && decide (o.errNotStarted = m.errNotStarted) &&
    decide (o.leakedServiceStart = m.leakedServiceStart) && decide (o.leakedService = m.leakedService) &&
    o.bubbleEnded == m.bubbleEnded &&
    decide (o.after2ndServiceStart = m.after2ndServiceStart) && decide (o.after2ndService = m.after2ndService) &&
    (!panicClauseApplies cs o || (o.resumed == m.resumed && o.othersTicked == m.othersTicked && (decide (cs.work = 0) || o.pipelineDone == m.pipelineDone)))
  let (trAcc, trRej, trInc, trMsg) ← checkTraces impl (cs.closeFault == "unsubscribe")
  let traced := trAcc + trRej + trInc > 0
  let agree := o.survived == m.survived && o.hung == m.hung && (died || agreeLive) && decide (trRej = 0)
  let sm := specFull cs m
  let si := specFull cs o
  let fail := if si then "" else explainFull cs o
  let closeAt := natD input "closeAt"
  let tags :=
    ["scenario:" ++ cs.scenario] ++
    (if !traced then ["untraced"] else if trRej > 0 then ["trace-rejected"] else if trInc > 0 then ["trace-search-inconclusive"] else ["trace-accepted"]) ++
    (match input.getObjVal? "shape" with | .ok (.str h) => if h != "" then ["shape:" ++ h] else [] | _ => []) ++
    (if boolD input "rounds" false then ["rounds"] else []) ++
    (if boolD input "holdCtx" false then ["held-until-cancelled"] else []) ++
    (if boolD input "repeatWork" false then ["repeat-work"] else []) ++
    (match input.getObjVal? "runner" with | .ok (.obj _) => ["runner-config"] | _ => []) ++
    (match input.getObjVal? "offchain" with | .ok (.str h) => if h != "" then ["offchain-config"] else [] | _ => []) ++
    (if natD input "reuse" > 0 then [s!"factory-reuse:{natD input "reuse"}"] else []) ++
    (match input.getObjVal? "family" with | .ok (.str "v2") => ["family:v2"] | _ => []) ++
    (match input.getObjVal? "holdSite" with | .ok (.str h) => if h != "" then ["hold-site:" ++ h] else [] | _ => []) ++
    (if cs.panicSite != "" then ["panic-site:" ++ cs.panicSite] else []) ++
    (if si then [] else [(classifyFull cs o).tag]) ++
    (if cs.ctorFault != "" then ["ctor-fault:" ++ cs.ctorFault] else []) ++
    (if cs.closeFault != "" then ["close-fault:" ++ cs.closeFault] else []) ++
    (match input.getObjVal? "gate" with | .ok (.str h) => if h != "" then ["gate:" ++ h] else [] | _ => []) ++
    (if (evsHave impl "close.full") then ["close-found-channel-full"] else []) ++
    (if (evsHave impl "close.drained") then ["close-drained"] else []) ++
    (if (evsHave impl "close.empty") then ["close-drain-found-nothing"] else []) ++
    (if o.survived && decide (o.panicsInjected > 0) then ["panic-contained"] else []) ++
    (if o.closeReturned && !o.leak then ["clean-close"] else []) ++
    (if cs.scenario == "panic-close" && decide (closeAt < cs.coolDownNs) then ["close-soon-after-panic"] else []) ++
    (if natD input "work" > 0 then ["work-in-flight"] else []) ++
    (if cs.scenario == "close" then ["close-at:" ++ closeAtBucket closeAt] else [])
  let key := s!"{cs.ctorFault}|{cs.closeFault}|{(asStr (fieldD input "gate" (.str ""))).toOption.getD ""}|{boolD input "holdCtx" false}|{(asStr (fieldD input "shape" (.str ""))).toOption.getD ""}/{boolD input "repeatWork" false}/{boolD input "rounds" false}/{(fieldD input "runner" .null).compress}/{(asStr (fieldD input "offchain" (.str ""))).toOption.getD ""}|r{natD input "reuse"}/{natD input "reuseRunNs"}/{natD input "reuseGapNs"}/{(asStr (fieldD input "reuseCfg" (.str ""))).toOption.getD ""}|{(asStr (fieldD input "family" (.str ""))).toOption.getD ""}|{(asStr (fieldD input "holdSite" (.str ""))).toOption.getD ""}|{natD input "holdNs"}|{natD input "holdAtCall"}|{cs.scenario}|{cs.panicSite}|{closeAtBucket closeAt}|y{natD input "yields"}|p{natD input "preYields"}|w{natD input "work"}|l{cs.latencyNs}|a{natD input "panicAtCall"}c{natD input "panicCount"}|{closeAt}|nr{o.errNotRunning}ns{o.errNotStarted}"
  pure { agree := agree, specModel := sm, specImpl := si,
         diff := if agree then "" else if trRej > 0 then s!"trace rejected ({trRej} of {trAcc + trRej + trInc} recoverers): {trMsg}" else s!"model: survived={m.survived} closeReturned={m.closeReturned} notRunning={m.errNotRunning} notStarted={m.errNotStarted} serviceStart={m.leakedServiceStart} service={m.leakedService} bubbleEnded={m.bubbleEnded} resumed={m.resumed} leftAfter1s={m.soonLeft}; impl: survived={o.survived} closeReturned={o.closeReturned} notRunning={o.errNotRunning} notStarted={o.errNotStarted} serviceStart={o.leakedServiceStart} service={o.leakedService} bubbleEnded={o.bubbleEnded} resumed={o.resumed} leftAfter1s={o.soonLeft} errOther={o.errOther} ctorFailed={o.ctorFailed} ctorLeft={o.ctorLeft} ticking={o.ticking} (model: errOther={m.errOther} ctorFailed={m.ctorFailed} ctorLeft={m.ctorLeft} ticking={m.ticking})",
         fail := fail, nontrivial := true, tags := tags, key := key }

end AutoVerif.C18
