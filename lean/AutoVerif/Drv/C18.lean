import AutoVerif.Drv.Codec
import AutoVerif.Spec.C18
open Lean AutoVerif.Codec
namespace AutoVerif.C18

def natD (j : Json) (k : String) : Nat :=
  match j.getObjVal? k with
  | .ok v => (asNat v).toOption.getD 0
  | .error _ => 0

def boolD (j : Json) (k : String) (d : Bool) : Bool :=
  match j.getObjVal? k with
  | .ok (.bool b) => b
  | _ => d

def intD (j : Json) (k : String) : Int :=
  match j.getObjVal? k with
  | .ok v => (asInt v).toOption.getD 0
  | .error _ => 0

def caseOf (j : Json) : R Case := do
  pure { scenario := ← strF j "scenario", panicSite := ← strF j "panicSite", coolDownNs := ← natF j "coolDownNs",
         intervalNs := ← natF j "intervalNs", latencyNs := ← natF j "latencyNs", services := ← natF j "services", work := natD j "work",
         auxMax := ← natF j "auxMax" }

/-- canonical observation from the harness's `impl` object -/
def obsOf (impl : Json) : Obs :=
  let errs := fieldD impl "closeErrs" (Json.mkObj [])
  let leaked := fieldD impl "leaked" (Json.mkObj [])
  let calls := fieldD impl "callsAfterClose" (Json.mkObj [])
  let after2 := fieldD impl "leakedAfter2nd" (Json.mkObj [])
  let nNR := natD errs "recoverer-not-running"
  let nNS := natD errs "svc-not-started"
  let nOther := natD errs "svc-already-stopped" + natD errs "other"
  let totalCalls := ["logProvider", "recoveryProvider", "upkeepGetter", "eventsProvider", "pipeline", "stateUpdater", "resultStoreGC",
    "v2PerformLogs", "v2StaleLogs", "v2ActiveUpkeeps", "v2CoordEncoder", "v2ObsEncoder", "v2CheckUpkeep"].foldl
    (fun a k => a + natD calls k) 0
  let within := intD impl "resumedWithinNs"
  { survived := boolD impl "survived" false, closeCalled := boolD impl "closeCalled" false, closeReturned := boolD impl "closeReturned" false,
    closedAtNs := natD impl "closedAtNs",
    closePanicked := (match impl.getObjVal? "closePanic" with | .ok (.str p) => p != "" | _ => false),
    firstCloseBad := (match impl.getObjVal? "firstClose" with | .ok (.obj kvs) => !kvs.isEmpty | _ => false),
    progress := natD impl "progress",
    errNotRunning := nNR, errNotStarted := nNS, errOther := nOther,
    leakedServiceStart := natD leaked "serviceStart", leakedService := natD leaked "service",
    leakedAux := natD leaked "aux", leakedInflight := natD leaked "inflight",
    ticking := decide (totalCalls > 0) || decide (natD impl "subscribed" > 0),
    bubbleEnded := boolD impl "bubbleEnded" false,
    after2ndServiceStart := natD after2 "serviceStart", after2ndService := natD after2 "service",
    panicsInjected := natD impl "panics", resumed := boolD impl "resumed" false, resumedWithinNs := within.toNat,
    othersTicked := boolD impl "othersTicked" false, pipelineDone := boolD impl "pipelineDone" false }

def closeAtBucket (ns : Nat) : String :=
  if ns = 0 then "0" else if ns < 1000000 then "<1ms" else if ns < 1000000000 then "<1s"
  else if ns % 1000000000 = 0 then "grid" else if ns % 1000000000 = 1 then "grid+1ns" else if ns % 1000000000 = 999999999 then "grid-1ns" else "off-grid"

def handle (input impl : Json) : R Reply := do
  let cs ← caseOf input
  let o := obsOf impl
  let died := !o.survived
  -- a panic site whose first panicking call was never reached injects nothing
  let m := predict current cs o.closedAtNs o.errNotRunning o.errNotStarted (o.closeCalled || (cs.scenario == "close")) (if died then 1 else o.panicsInjected)
  let agreeLive :=
    o.closeReturned == m.closeReturned && decide (o.errOther = 0) &&
    o.closePanicked == m.closePanicked && o.firstCloseBad == m.firstCloseBad &&
    (!progressDue cs o || (decide (o.progress > 0) == decide (m.progress > 0))) &&
    decide (o.errNotRunning = m.errNotRunning) && decide (o.errNotStarted = m.errNotStarted) &&
    decide (o.leakedServiceStart = m.leakedServiceStart) && decide (o.leakedService = m.leakedService) &&
    o.bubbleEnded == m.bubbleEnded &&
    decide (o.after2ndServiceStart = m.after2ndServiceStart) && decide (o.after2ndService = m.after2ndService) &&
    (!panicClauseApplies cs o || (o.resumed == m.resumed && o.othersTicked == m.othersTicked && (decide (cs.work = 0) || o.pipelineDone == m.pipelineDone)))
  let agree := o.survived == m.survived && (died || agreeLive)
  let sm := spec cs m
  let si := spec cs o
  let fail := if si then "" else explain cs o
  let closeAt := natD input "closeAt"
  let tags :=
    ["scenario:" ++ cs.scenario] ++
    (if natD input "reuse" > 0 then [s!"factory-reuse:{natD input "reuse"}"] else []) ++
    (match input.getObjVal? "family" with | .ok (.str "v2") => ["family:v2"] | _ => []) ++
    (match input.getObjVal? "holdSite" with | .ok (.str h) => if h != "" then ["hold-site:" ++ h] else [] | _ => []) ++
    (if cs.panicSite != "" then ["panic-site:" ++ cs.panicSite] else []) ++
    (if si then [] else [(classify cs o).tag]) ++
    (if o.survived && decide (o.panicsInjected > 0) then ["panic-contained"] else []) ++
    (if o.closeReturned && !o.leak then ["clean-close"] else []) ++
    (if cs.scenario == "panic-close" && decide (closeAt < cs.coolDownNs) then ["close-soon-after-panic"] else []) ++
    (if natD input "work" > 0 then ["work-in-flight"] else []) ++
    (if cs.scenario == "close" then ["close-at:" ++ closeAtBucket closeAt] else [])
  let key := s!"r{natD input "reuse"}/{natD input "reuseRunNs"}/{natD input "reuseGapNs"}/{(asStr (fieldD input "reuseCfg" (.str ""))).toOption.getD ""}|{(asStr (fieldD input "family" (.str ""))).toOption.getD ""}|{(asStr (fieldD input "holdSite" (.str ""))).toOption.getD ""}|{natD input "holdNs"}|{natD input "holdAtCall"}|{cs.scenario}|{cs.panicSite}|{closeAtBucket closeAt}|y{natD input "yields"}|p{natD input "preYields"}|w{natD input "work"}|l{cs.latencyNs}|a{natD input "panicAtCall"}c{natD input "panicCount"}|{closeAt}|nr{o.errNotRunning}ns{o.errNotStarted}"
  pure { agree := agree, specModel := sm, specImpl := si,
         diff := if agree then "" else s!"model: survived={m.survived} closeReturned={m.closeReturned} notRunning={m.errNotRunning} notStarted={m.errNotStarted} serviceStart={m.leakedServiceStart} service={m.leakedService} bubbleEnded={m.bubbleEnded} resumed={m.resumed}; impl: survived={o.survived} closeReturned={o.closeReturned} notRunning={o.errNotRunning} notStarted={o.errNotStarted} serviceStart={o.leakedServiceStart} service={o.leakedService} bubbleEnded={o.bubbleEnded} resumed={o.resumed} errOther={o.errOther}",
         fail := fail, nontrivial := true, tags := tags, key := key }

end AutoVerif.C18
