import AutoVerif.Drv.Codec
import AutoVerif.Spec.C04
open Lean AutoVerif.Codec
namespace AutoVerif.C04

def cfgOf (j : Json) : R Cfg := do
  pure { batch := ← natF j "batch", gasLimit := ← natF j "gasLimit", overhead := ← natF j "overhead" }

def handle (input impl : Json) : R Reply := do
  let cfg ← cfgOf (← field input "cfg")
  let agreed ← listF checkResult input "agreed"
  let got ← listF (listOf checkResult) impl "reports"
  let want := reports cfg agreed
  let agree := decide (got = want)
  let sm := spec cfg agreed want
  let si := spec cfg agreed got
  let tags :=
    (if want.length > 1 then ["multi-report"] else []) ++
    (if agreed.any (fun r => decide (r.gas + cfg.overhead > cfg.gasLimit)) then ["over-limit-item"] else []) ++
    (if !decide ((agreed.map (·.upkeepID)).Nodup) then ["repeated-upkeep"] else []) ++
    (if want.any (fun r => decide (r.length = cfg.batch)) then ["full-batch"] else [])
  pure { agree := agree, specModel := sm, specImpl := si,
         diff := if agree then "" else s!"model={want.map (·.map showResult)} impl={got.map (·.map showResult)}",
         fail := if si then "" else explain cfg agreed got,
         nontrivial := decide (agreed.length ≥ 2), tags := tags }

end AutoVerif.C04
