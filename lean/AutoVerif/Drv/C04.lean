import AutoVerif.Drv.Codec
import AutoVerif.Spec.C04
open Lean AutoVerif.Codec
namespace AutoVerif.C04

/-- the off-chain configuration as the plugin sees it: the wire values run through `ensureMinimumDefaults` -/
def cfgOf (j : Json) : R Cfg := do
  let gone ← (do pure ((← listOf asStr (fieldD j "absent" .null)) ++ (← listOf asStr (fieldD j "null" .null))))
  let b ← intF j "batch"
  let g ← natF j "gasLimit"
  let o ← natF j "overhead"
  let doc : WireCfg :=
    { batch := if gone.contains "batch" then none else some b,
      gasLimit := if gone.contains "gasLimit" then none else some g,
      overhead := if gone.contains "overhead" then none else some o }
  pure (decodeCfg doc)

def partialTags (j : Json) : R (List String) := do
  let ab ← listOf asStr (fieldD j "absent" .null)
  let nu ← listOf asStr (fieldD j "null" .null)
  pure ((ab.map (fun k => "config-member-absent:" ++ k)) ++ (nu.map (fun k => "config-member-null:" ++ k)))

def handle (input impl : Json) : R Reply := do
  let cfg ← cfgOf (← field input "cfg")
  let agreed ← listF checkResult input "agreed"
  let got ← listF (listOf checkResult) impl "reports"
  let failAt ← asNat (fieldD input "encFailAt" (.num 0))
  let bad := (fieldD input "badOutcome" (.str "")).getStr?.toOption.getD ""
  let (want, wantErr) := reportsOnBytes cfg (bad == "") agreed failAt
  -- glue: what comes back to libocr is, report by report and in order, what the encoder was handed; nothing failed
  let enc ← listOf (listOf checkResult) (fieldD impl "encoded" (.arr #[]))
  let encOk := match fieldD impl "encoded" .null with | .null => true | _ => decide (enc = if bad == "" then encoderCalls cfg agreed failAt else [])
  let nrep ← asNat (fieldD impl "nreports" (.num got.length))
  let errS := match fieldD impl "err" (.str "") with | .str s => s | _ => "?"
  let glueOk := encOk && decide (nrep = got.length) && ((errS != "") == wantErr)
  let agree := decide (got = want) && glueOk
  -- when the encoder fails the call fails: libocr gets an error, no reports are used, the property has nothing to say
  let sm := wantErr || spec cfg agreed want
  let si := (errS != "") || spec cfg agreed got
  let ptags ← partialTags (← field input "cfg")
  let tags := ptags ++
    (if want.length > 1 then ["multi-report"] else []) ++
    (if bad != "" then ["outcome-refused:" ++ bad] else []) ++
    (if decide (failAt > 0) then [if wantErr then s!"encoder-fails:call-{min failAt 3}{if failAt > 3 then "+" else ""}" else "encoder-armed-not-reached"] else []) ++
    (if agreed.any (fun r => decide (r.gas + cfg.overhead > cfg.gasLimit)) then ["over-limit-item"] else []) ++
    (if !decide ((agreed.map (·.upkeepID)).Nodup) then ["repeated-upkeep"] else []) ++
    (if want.any (fun r => decide (r.length = cfg.batch)) then ["full-batch"] else []) ++
    (if decide (cfg.overhead = 300000) || decide (cfg.gasLimit = 5300000) then ["config-default-applied"] else [])
  pure { agree := agree, specModel := sm, specImpl := si,
         diff := if agree then "" else if !glueOk then s!"returned reports ({nrep}) differ from what the encoder was handed, or Reports failed: err={errS} encoded={enc.map (·.map showResult)} returned={got.map (·.map showResult)}"
                 else s!"model={want.map (·.map showResult)} impl={got.map (·.map showResult)}",
         fail := if si then "" else explain cfg agreed got,
         nontrivial := decide (agreed.length ≥ 2), tags := tags }

end AutoVerif.C04
