import AutoVerif.Spec.C15
/-
Helper lemmas for Props/C15 (core Lean only): hex and base64 round trips,
number / array / struct decoders on encoder output, and the characterisation of
the validation loops.
-/
namespace AutoVerif.C15
open AutoVerif

/-! ### hex -/

theorem hexVal_lt (c : Char) : hexVal c < 16 := by
  unfold hexVal
  split
  · omega
  · split <;> omega

theorem hexDigit_hexVal (c : Char) (h : isLowerHex c = true) : hexDigit (hexVal c) = c := by
  simp only [isLowerHex, Bool.or_eq_true, Bool.and_eq_true, decide_eq_true_eq] at h
  unfold hexVal hexDigit
  rcases h with h | h
  · have h1 : 48 ≤ c.toNat ∧ c.toNat ≤ 57 := h
    rw [if_pos h1]
    have h2 : c.toNat - 48 < 10 := by omega
    rw [if_pos h2]
    have h3 : 48 + (c.toNat - 48) = c.toNat := by omega
    rw [h3, Char.ofNat_toNat]
  · have h1 : ¬ (48 ≤ c.toNat ∧ c.toNat ≤ 57) := by omega
    have h1' : 97 ≤ c.toNat ∧ c.toNat ≤ 102 := h
    rw [if_neg h1, if_pos h1']
    have h2 : ¬ (c.toNat - 87 < 10) := by omega
    rw [if_neg h2]
    have h3 : 87 + (c.toNat - 87) = c.toNat := by omega
    rw [h3, Char.ofNat_toNat]

theorem bytesOfHexL_lt (cs : List Char) : ∀ b ∈ bytesOfHexL cs, b < 256 := by
  fun_induction bytesOfHexL cs with
  | case1 c1 c2 rest ih =>
    intro b hb
    rcases List.mem_cons.mp hb with hb | hb
    · have := hexVal_lt c1; have := hexVal_lt c2; omega
    · exact ih b hb
  | case2 => intro b hb; simp at hb

theorem bytesOfHexL_length (cs : List Char) : (bytesOfHexL cs).length = cs.length / 2 := by
  fun_induction bytesOfHexL cs with
  | case1 c1 c2 rest ih => simp [ih]; omega
  | case2 cs h =>
    match cs, h with
    | [], _ => rfl
    | [_], _ => simp
    | c1 :: c2 :: rest, h => exact absurd rfl (h c1 c2 rest)

theorem hexOfBytesL_bytesOfHexL (cs : List Char) (h : cs.all isLowerHex = true) (he : cs.length % 2 = 0) :
    hexOfBytesL (bytesOfHexL cs) = cs := by
  fun_induction bytesOfHexL cs with
  | case1 c1 c2 rest ih =>
    simp only [List.all_cons, Bool.and_eq_true] at h
    obtain ⟨h1, h2, h3⟩ := h
    have hl : rest.length % 2 = 0 := by simp only [List.length_cons] at he; omega
    have v1 := hexVal_lt c1
    have v2 := hexVal_lt c2
    have e1 : (hexVal c1 * 16 + hexVal c2) / 16 = hexVal c1 := by omega
    have e2 : (hexVal c1 * 16 + hexVal c2) % 16 = hexVal c2 := by omega
    simp only [hexOfBytesL, e1, e2, hexDigit_hexVal c1 h1, hexDigit_hexVal c2 h2, ih h3 hl]
  | case2 cs hne =>
    match cs, hne with
    | [], _ => rfl
    | [_], _ => simp at he
    | c1 :: c2 :: rest, hne => exact absurd rfl (hne c1 c2 rest)

theorem bytesOfHex_lt (s : String) : ∀ b ∈ bytesOfHex s, b < 256 := bytesOfHexL_lt _

theorem hexOfBytes_bytesOfHex (s : String) (h : wfHex s = true) : hexOfBytes (bytesOfHex s) = s := by
  simp only [wfHex, Bool.and_eq_true, beq_iff_eq] at h
  unfold hexOfBytes bytesOfHex
  rw [hexOfBytesL_bytesOfHexL _ h.1 (by rw [String.length_toList]; exact h.2), String.ofList_toList]

theorem wfHex_of_wfHex32 (s : String) (h : wfHex32 s = true) : wfHex s = true := by
  simp only [wfHex32, Bool.and_eq_true, beq_iff_eq] at h
  simp only [wfHex, Bool.and_eq_true, beq_iff_eq]
  exact ⟨h.1, by omega⟩

theorem bytesOfHex_length32 (s : String) (h : wfHex32 s = true) : (bytesOfHex s).length = 32 := by
  simp only [wfHex32, Bool.and_eq_true, beq_iff_eq] at h
  unfold bytesOfHex
  rw [bytesOfHexL_length, String.length_toList, h.2]

/-! ### base64 -/

theorem b64Val_b64Char : ∀ i, i < 64 → b64Val (b64Char i) = some i := by decide

theorem b64Char_ne_pad : ∀ i, i < 64 → b64Char i ≠ '=' := by decide

theorem b64decL_b64encL (bs : List Nat) (h : ∀ b ∈ bs, b < 256) : b64decL (b64encL bs) = some bs := by
  fun_induction b64encL bs with
  | case1 => rfl
  | case2 b0 =>
    have h0 : b0 < 256 := h b0 (by simp)
    have v0 := b64Val_b64Char (b0 / 4) (by omega)
    have v1 := b64Val_b64Char (b0 % 4 * 16) (by omega)
    simp only [b64decL, and_self, if_true, v0, v1]
    congr 2; omega
  | case3 b0 b1 =>
    have h0 : b0 < 256 := h b0 (by simp)
    have h1 : b1 < 256 := h b1 (by simp)
    have v0 := b64Val_b64Char (b0 / 4) (by omega)
    have v1 := b64Val_b64Char (b0 % 4 * 16 + b1 / 16) (by omega)
    have v2 := b64Val_b64Char (b1 % 16 * 4) (by omega)
    have n2 := b64Char_ne_pad (b1 % 16 * 4) (by omega)
    simp only [b64decL, and_self, if_true, if_neg n2, v0, v1, v2]
    congr 2
    · omega
    · congr 1; omega
  | case4 b0 b1 b2 rest ih =>
    have h0 : b0 < 256 := h b0 (by simp)
    have h1 : b1 < 256 := h b1 (by simp)
    have h2 : b2 < 256 := h b2 (by simp)
    have hr : ∀ b ∈ rest, b < 256 := fun b hb => h b (by simp [hb])
    have v0 := b64Val_b64Char (b0 / 4) (by omega)
    have v1 := b64Val_b64Char (b0 % 4 * 16 + b1 / 16) (by omega)
    have v2 := b64Val_b64Char (b1 % 16 * 4 + b2 / 64) (by omega)
    have v3 := b64Val_b64Char (b2 % 64) (by omega)
    have n3 := b64Char_ne_pad (b2 % 64) (by omega)
    have hc : ¬ (b64encL rest = [] ∧ b64Char (b2 % 64) = '=') := fun hc => n3 hc.2
    simp only [b64decL, if_neg hc, v0, v1, v2, v3, ih hr]
    congr 2
    · omega
    · congr 1
      · omega
      · congr 1; omega

theorem b64decode_b64encode (bs : List Nat) (h : ∀ b ∈ bs, b < 256) : b64decode (b64encode bs) = some bs := by
  unfold b64decode b64encode
  rw [String.toList_ofList]
  exact b64decL_b64encL bs h

/-! ### decoders on encoder output -/

theorem uintFromJson_num (c : Codec) (bits n : Nat) (h : n < 2 ^ bits) (hb : 2 ^ bits ≤ two64) :
    uintFromJson c bits (.num (n : Int)) = some n := by
  have h64 : n < two64 := Nat.lt_of_lt_of_le h hb
  cases c with
  | std =>
    have hc : (0 : Int) ≤ (n : Int) ∧ (n : Int) < ((2 ^ bits : Nat) : Int) := ⟨by omega, by exact_mod_cast h⟩
    simp only [uintFromJson, if_pos hc, Int.toNat_natCast]
  | goccy =>
    have h1 : ¬ ((n : Int) < 0 ∨ (ten20 : Int) ≤ (n : Int)) := by
      unfold two64 at h64; unfold ten20; omega
    have h2 : n % two64 = n := Nat.mod_eq_of_lt h64
    simp only [uintFromJson, if_neg h1, Int.toNat_natCast, h2, if_pos h]

theorem pow8_le : 2 ^ 8 ≤ two64 := by decide
theorem pow32_le : 2 ^ 32 ≤ two64 := by decide
theorem pow64_le : 2 ^ 64 ≤ two64 := by decide

theorem traverse_map {α β} (f : α → Option β) (g : β → α) (xs : List β) (h : ∀ x ∈ xs, f (g x) = some x) :
    traverse f (xs.map g) = some xs := by
  induction xs with
  | nil => rfl
  | cons x xs ih =>
    have hx := h x (by simp)
    have hxs := ih (fun y hy => h y (by simp [hy]))
    simp only [List.map_cons, traverse, hx, hxs]

theorem fixedBytes_roundtrip (c : Codec) (s : String) (h : wfHex32 s = true) :
    fixedBytesFromJson c 32 (bytesToJson s) = some s := by
  have hl := bytesOfHex_length32 s h
  have ht : ((bytesOfHex s).map fun (b : Nat) => J.num (b : Int)).take 32 =
      (bytesOfHex s).map fun (b : Nat) => J.num (b : Int) := by
    apply List.take_of_length_le; simp [hl]
  have htr : traverse (uintFromJson c 8) ((bytesOfHex s).map fun (b : Nat) => J.num (b : Int)) = some (bytesOfHex s) :=
    traverse_map _ _ _ (fun b hb => uintFromJson_num c 8 b (bytesOfHex_lt s b hb) pow8_le)
  simp only [bytesToJson, fixedBytesFromJson, ht, htr, hl, Nat.sub_self, List.replicate_zero, List.append_nil,
    hexOfBytes_bytesOfHex s (wfHex_of_wfHex32 s h)]

theorem bytesFromJson_roundtrip (s : String) (h : wfHex s = true) :
    bytesFromJson (.str (b64encode (bytesOfHex s))) = some s := by
  simp only [bytesFromJson, b64decode_b64encode _ (bytesOfHex_lt s), hexOfBytes_bytesOfHex s h]

theorem optInt_roundtrip (x : Option Int) : optIntFromJson (optIntToJson x) = some x := by
  cases x <;> rfl

theorem ext_roundtrip (c : Codec) (e : LogExt) (h : wfExt e = true) : extFromJson c (extToJson e) = some e := by
  simp only [wfExt, Bool.and_eq_true, decide_eq_true_eq] at h
  obtain ⟨⟨⟨h1, h2⟩, h3⟩, h4⟩ := h
  have l1 : look "TxHash" [("TxHash", bytesToJson e.txHash), ("Index", J.num e.index),
      ("BlockHash", bytesToJson e.blockHash), ("BlockNumber", J.num e.blockNumber)] = bytesToJson e.txHash := by
    simp [look, List.lookup]
  have l2 : look "Index" [("TxHash", bytesToJson e.txHash), ("Index", J.num e.index),
      ("BlockHash", bytesToJson e.blockHash), ("BlockNumber", J.num e.blockNumber)] = J.num e.index := by
    simp [look, List.lookup]
  have l3 : look "BlockHash" [("TxHash", bytesToJson e.txHash), ("Index", J.num e.index),
      ("BlockHash", bytesToJson e.blockHash), ("BlockNumber", J.num e.blockNumber)] = bytesToJson e.blockHash := by
    simp [look, List.lookup]
  have l4 : look "BlockNumber" [("TxHash", bytesToJson e.txHash), ("Index", J.num e.index),
      ("BlockHash", bytesToJson e.blockHash), ("BlockNumber", J.num e.blockNumber)] = J.num e.blockNumber := by
    simp [look, List.lookup]
  simp only [extToJson, extFromJson, fieldsOf, l1, l2, l3, l4, fixedBytes_roundtrip c _ h1,
    fixedBytes_roundtrip c _ h3, uintFromJson_num c 32 _ h2 pow32_le,
    uintFromJson_num c 64 _ (show e.blockNumber < 2 ^ 64 from h4) pow64_le]

theorem optExt_roundtrip (c : Codec) (x : Option LogExt) (h : wfOptExt x = true) :
    optExtFromJson c (optExtToJson x) = some x := by
  cases x with
  | none => rfl
  | some e =>
    have he := ext_roundtrip c e h
    simp only [extToJson] at he
    simp only [optExtToJson, extToJson, optExtFromJson, he]

theorem trigger_roundtrip (c : Codec) (t : Trigger) (h : wfTrigger t = true) :
    triggerFromJson c (triggerToJson t) = some t := by
  simp only [wfTrigger, Bool.and_eq_true, decide_eq_true_eq] at h
  obtain ⟨⟨h1, h2⟩, h3⟩ := h
  have l1 : ∀ a b d : J, look "BlockNumber" [("BlockNumber", a), ("BlockHash", b), ("LogTriggerExtension", d)] = a := by
    intros; simp [look, List.lookup]
  have l2 : ∀ a b d : J, look "BlockHash" [("BlockNumber", a), ("BlockHash", b), ("LogTriggerExtension", d)] = b := by
    intros; simp [look, List.lookup]
  have l3 : ∀ a b d : J, look "LogTriggerExtension" [("BlockNumber", a), ("BlockHash", b), ("LogTriggerExtension", d)] = d := by
    intros; simp [look, List.lookup]
  simp only [triggerToJson, triggerFromJson, fieldsOf, l1, l2, l3, fixedBytes_roundtrip c _ h2,
    uintFromJson_num c 64 _ (show t.blockNumber < 2 ^ 64 from h1) pow64_le, optExt_roundtrip c t.ext h3]

theorem look_hd (k : String) (v : J) (rest : List (String × J)) : look k ((k, v) :: rest) = v := by
  simp [look, List.lookup]

theorem look_tl (k k' : String) (v : J) (rest : List (String × J)) (h : (k == k') = false) :
    look k ((k', v) :: rest) = look k rest := by
  simp [look, List.lookup, h]


theorem look_result_fields (a1 a2 a3 a4 a5 a6 a7 a8 a9 a10 a11 : J) :
    look "PipelineExecutionState" [("PipelineExecutionState", a1), ("Retryable", a2), ("Eligible", a3),
      ("IneligibilityReason", a4), ("UpkeepID", a5), ("Trigger", a6), ("WorkID", a7), ("GasAllocated", a8),
      ("PerformData", a9), ("FastGasWei", a10), ("LinkNative", a11)] = a1 ∧
    look "Retryable" [("PipelineExecutionState", a1), ("Retryable", a2), ("Eligible", a3),
      ("IneligibilityReason", a4), ("UpkeepID", a5), ("Trigger", a6), ("WorkID", a7), ("GasAllocated", a8),
      ("PerformData", a9), ("FastGasWei", a10), ("LinkNative", a11)] = a2 ∧
    look "Eligible" [("PipelineExecutionState", a1), ("Retryable", a2), ("Eligible", a3),
      ("IneligibilityReason", a4), ("UpkeepID", a5), ("Trigger", a6), ("WorkID", a7), ("GasAllocated", a8),
      ("PerformData", a9), ("FastGasWei", a10), ("LinkNative", a11)] = a3 ∧
    look "IneligibilityReason" [("PipelineExecutionState", a1), ("Retryable", a2), ("Eligible", a3),
      ("IneligibilityReason", a4), ("UpkeepID", a5), ("Trigger", a6), ("WorkID", a7), ("GasAllocated", a8),
      ("PerformData", a9), ("FastGasWei", a10), ("LinkNative", a11)] = a4 ∧
    look "UpkeepID" [("PipelineExecutionState", a1), ("Retryable", a2), ("Eligible", a3),
      ("IneligibilityReason", a4), ("UpkeepID", a5), ("Trigger", a6), ("WorkID", a7), ("GasAllocated", a8),
      ("PerformData", a9), ("FastGasWei", a10), ("LinkNative", a11)] = a5 ∧
    look "Trigger" [("PipelineExecutionState", a1), ("Retryable", a2), ("Eligible", a3),
      ("IneligibilityReason", a4), ("UpkeepID", a5), ("Trigger", a6), ("WorkID", a7), ("GasAllocated", a8),
      ("PerformData", a9), ("FastGasWei", a10), ("LinkNative", a11)] = a6 ∧
    look "WorkID" [("PipelineExecutionState", a1), ("Retryable", a2), ("Eligible", a3),
      ("IneligibilityReason", a4), ("UpkeepID", a5), ("Trigger", a6), ("WorkID", a7), ("GasAllocated", a8),
      ("PerformData", a9), ("FastGasWei", a10), ("LinkNative", a11)] = a7 ∧
    look "GasAllocated" [("PipelineExecutionState", a1), ("Retryable", a2), ("Eligible", a3),
      ("IneligibilityReason", a4), ("UpkeepID", a5), ("Trigger", a6), ("WorkID", a7), ("GasAllocated", a8),
      ("PerformData", a9), ("FastGasWei", a10), ("LinkNative", a11)] = a8 ∧
    look "PerformData" [("PipelineExecutionState", a1), ("Retryable", a2), ("Eligible", a3),
      ("IneligibilityReason", a4), ("UpkeepID", a5), ("Trigger", a6), ("WorkID", a7), ("GasAllocated", a8),
      ("PerformData", a9), ("FastGasWei", a10), ("LinkNative", a11)] = a9 ∧
    look "FastGasWei" [("PipelineExecutionState", a1), ("Retryable", a2), ("Eligible", a3),
      ("IneligibilityReason", a4), ("UpkeepID", a5), ("Trigger", a6), ("WorkID", a7), ("GasAllocated", a8),
      ("PerformData", a9), ("FastGasWei", a10), ("LinkNative", a11)] = a10 ∧
    look "LinkNative" [("PipelineExecutionState", a1), ("Retryable", a2), ("Eligible", a3),
      ("IneligibilityReason", a4), ("UpkeepID", a5), ("Trigger", a6), ("WorkID", a7), ("GasAllocated", a8),
      ("PerformData", a9), ("FastGasWei", a10), ("LinkNative", a11)] = a11 := by
  refine ⟨?_, ?_, ?_, ?_, ?_, ?_, ?_, ?_, ?_, ?_, ?_⟩ <;> simp (decide := true) only [look_hd, look_tl]

theorem result_roundtrip (r : CheckResult) (h : wfResult r = true) : resultFromJson (resultToJson r) = some r := by
  simp only [wfResult, Bool.and_eq_true, decide_eq_true_eq] at h
  obtain ⟨⟨⟨⟨⟨h1, h2⟩, h3⟩, h4⟩, h5⟩, h6⟩ := h
  obtain ⟨l1, l2, l3, l4, l5, l6, l7, l8, l9, l10, l11⟩ := look_result_fields (.num r.pes) (.bool r.retryable)
    (.bool r.eligible) (.num r.reason) (bytesToJson r.upkeepID) (triggerToJson r.trigger) (.str r.workID)
    (.num r.gas) (.str (b64encode (bytesOfHex r.performData))) (optIntToJson r.fastGasWei)
    (optIntToJson r.linkNative)
  simp only [resultToJson, resultFromJson, fieldsOf, Option.pure_def, Option.bind_eq_bind, Option.bind_some, l1, l2, l3, l4, l5, l6, l7, l8, l9,
    l10, l11,
    uintFromJson_num .std 8 _ (show r.pes < 2 ^ 8 from h1) pow8_le,
    uintFromJson_num .std 8 _ (show r.reason < 2 ^ 8 from h2) pow8_le,
    uintFromJson_num .std 64 _ (show r.gas < 2 ^ 64 from h5) pow64_le,
    boolFromJson, strFromJson, fixedBytes_roundtrip .std _ h3, trigger_roundtrip .std _ h4,
    bytesFromJson_roundtrip _ h6, optInt_roundtrip]

theorem proposal_roundtrip (c : Codec) (p : Proposal) (h : wfProposal p = true) :
    proposalFromJson c (proposalToJson p) = some p := by
  simp only [wfProposal, Bool.and_eq_true] at h
  have hl : ∀ a b d : J,
      look "UpkeepID" [("UpkeepID", a), ("Trigger", b), ("WorkID", d)] = a ∧
      look "Trigger" [("UpkeepID", a), ("Trigger", b), ("WorkID", d)] = b ∧
      look "WorkID" [("UpkeepID", a), ("Trigger", b), ("WorkID", d)] = d := by
    intros; simp [look, List.lookup]
  obtain ⟨l1, l2, l3⟩ := hl (bytesToJson p.upkeepID) (triggerToJson p.trigger) (.str p.workID)
  simp only [proposalToJson, proposalFromJson, fieldsOf, l1, l2, l3, strFromJson,
    fixedBytes_roundtrip c _ h.1, trigger_roundtrip c _ h.2]

theorem blockKey_roundtrip (c : Codec) (b : BlockKey) (h : wfBlockKey b = true) :
    blockKeyFromJson c (blockKeyToJson b) = some b := by
  simp only [wfBlockKey, Bool.and_eq_true, decide_eq_true_eq] at h
  have hl : ∀ a d : J, look "Number" [("Number", a), ("Hash", d)] = a ∧ look "Hash" [("Number", a), ("Hash", d)] = d := by
    intros; simp [look, List.lookup]
  obtain ⟨l1, l2⟩ := hl (.num b.number) (bytesToJson b.hash)
  simp only [blockKeyToJson, blockKeyFromJson, fieldsOf, l1, l2, fixedBytes_roundtrip c _ h.2,
    uintFromJson_num c 64 _ (show b.number < 2 ^ 64 from h.1) pow64_le]

theorem slice_roundtrip {α} (f : J → Option α) (g : α → J) (xs : List α) (h : ∀ x ∈ xs, f (g x) = some x) :
    sliceFromJson f (.arr (xs.map g)) = some xs := by
  simp only [sliceFromJson, traverse_map f g xs h]

/-! ### validation -/

theorem priceOk_none : ¬ PriceOk none := by
  rintro ⟨v, h, _⟩; cases h

theorem priceOk_some (v : Int) : PriceOk (some v) ↔ 0 ≤ v ∧ v ≤ uint256Max := by
  constructor
  · rintro ⟨w, h, h1, h2⟩; cases h; exact ⟨h1, h2⟩
  · intro h; exact ⟨v, rfl, h.1, h.2⟩

theorem validateCheckResult_ok_iff (utg : String → UpkeepType) (wg : String → Trigger → String) (r : CheckResult) :
    validateCheckResult utg wg r = .ok () ↔ ResultRules utg wg r := by
  unfold validateCheckResult ResultRules
  by_cases h1 : r.pes ≠ 0 ∨ r.retryable = true
  · rw [if_pos h1]
    constructor
    · intro h; cases h
    · rintro ⟨⟨a, b⟩, _⟩; rcases h1 with h1 | h1
      · exact absurd a h1
      · rw [b] at h1; cases h1
  rw [if_neg h1]
  by_cases h2 : r.eligible = false ∨ r.reason ≠ 0
  · rw [if_pos h2]
    constructor
    · intro h; cases h
    · rintro ⟨_, ⟨a, b⟩, _⟩; rcases h2 with h2 | h2
      · rw [a] at h2; cases h2
      · exact absurd b h2
  rw [if_neg h2]
  by_cases h3 : triggerExtTypeOk r.trigger (utg r.upkeepID) = false
  · rw [if_pos h3]
    constructor
    · intro h; cases h
    · rintro ⟨_, _, a, _⟩; rw [a] at h3; cases h3
  rw [if_neg h3]
  by_cases h4 : wg r.upkeepID r.trigger ≠ r.workID
  · rw [if_pos h4]
    constructor
    · intro h; cases h
    · rintro ⟨_, _, _, a, _⟩; exact absurd a h4
  rw [if_neg h4]
  by_cases h5 : r.gas = 0
  · rw [if_pos h5]
    constructor
    · intro h; cases h
    · rintro ⟨_, _, _, _, a, _⟩; exact absurd h5 a
  rw [if_neg h5]
  have g1 : r.pes = 0 ∧ r.retryable = false := by
    constructor
    · exact Decidable.byContradiction fun c => h1 (Or.inl c)
    · cases hr : r.retryable with
      | false => rfl
      | true => exact absurd (Or.inr hr) h1
  have g2 : r.eligible = true ∧ r.reason = 0 := by
    constructor
    · cases he : r.eligible with
      | true => rfl
      | false => exact absurd (Or.inl he) h2
    · exact Decidable.byContradiction fun c => h2 (Or.inr c)
  have g3 : triggerExtTypeOk r.trigger (utg r.upkeepID) = true := by
    cases ht : triggerExtTypeOk r.trigger (utg r.upkeepID) with
    | true => rfl
    | false => exact absurd ht h3
  have g4 : wg r.upkeepID r.trigger = r.workID := Decidable.byContradiction fun c => h4 c
  cases hf : r.fastGasWei with
  | none =>
    simp only []
    constructor
    · intro h; cases h
    · rintro ⟨_, _, _, _, _, a, _⟩; exact absurd a priceOk_none
  | some fgw =>
    simp only []
    by_cases h6 : fgw < 0 ∨ fgw > uint256Max
    · rw [if_pos h6]
      constructor
      · intro h; cases h
      · rintro ⟨_, _, _, _, _, a, _⟩
        have := (priceOk_some fgw).mp a
        omega
    rw [if_neg h6]
    cases hl : r.linkNative with
    | none =>
      simp only []
      constructor
      · intro h; cases h
      · rintro ⟨_, _, _, _, _, _, a⟩; exact absurd a priceOk_none
    | some ln =>
      simp only []
      by_cases h7 : ln < 0 ∨ ln > uint256Max
      · rw [if_pos h7]
        constructor
        · intro h; cases h
        · rintro ⟨_, _, _, _, _, _, a⟩
          have := (priceOk_some ln).mp a
          omega
      rw [if_neg h7]
      constructor
      · intro _
        exact ⟨g1, g2, g3, g4, h5, (priceOk_some fgw).mpr (by omega), (priceOk_some ln).mpr (by omega)⟩
      · intro _; rfl

theorem validateProposal_ok_iff (utg : String → UpkeepType) (wg : String → Trigger → String) (p : Proposal) :
    validateProposal utg wg p = .ok () ↔ ProposalRules utg wg p := by
  unfold validateProposal ProposalRules
  by_cases h1 : triggerExtTypeOk p.trigger (utg p.upkeepID) = false
  · rw [if_pos h1]
    constructor
    · intro h; cases h
    · rintro ⟨a, _⟩; rw [a] at h1; cases h1
  rw [if_neg h1]
  by_cases h2 : wg p.upkeepID p.trigger ≠ p.workID
  · rw [if_pos h2]
    constructor
    · intro h; cases h
    · rintro ⟨_, a⟩; exact absurd a h2
  rw [if_neg h2]
  constructor
  · intro _
    refine ⟨?_, Decidable.byContradiction fun c => h2 c⟩
    cases ht : triggerExtTypeOk p.trigger (utg p.upkeepID) with
    | true => rfl
    | false => exact absurd ht h1
  · intro _; rfl

theorem checkBlocks_ok_iff (bs : List BlockKey) (seen : List Nat) :
    checkBlocks bs seen = .ok () ↔ (bs.map (·.number)).Nodup ∧ ∀ b ∈ bs, b.number ∉ seen := by
  induction bs generalizing seen with
  | nil => simp [checkBlocks]
  | cons b bs ih =>
    unfold checkBlocks
    by_cases h : b.number ∈ seen
    · rw [if_pos h]
      constructor
      · intro c; cases c
      · rintro ⟨_, c⟩; exact absurd h (c b (by simp))
    · rw [if_neg h, ih]
      simp only [List.map_cons, List.nodup_cons, List.mem_cons, List.mem_map, not_or, not_exists, not_and]
      constructor
      · rintro ⟨hn, hs⟩
        refine ⟨⟨fun x hx heq => (hs x hx).1 heq, hn⟩, ?_⟩
        intro x hx
        rcases hx with rfl | hx
        · exact h
        · exact (hs x hx).2
      · rintro ⟨⟨hb, hn⟩, hs⟩
        refine ⟨hn, fun x hx => ⟨fun heq => hb x hx heq, hs x (Or.inr hx)⟩⟩

theorem checkResults_ok_iff (utg : String → UpkeepType) (wg : String → Trigger → String) (dup : Rule)
    (rs : List CheckResult) (seen : List String) :
    checkResults utg wg dup rs seen = .ok () ↔
      (∀ r ∈ rs, ResultRules utg wg r) ∧ (rs.map (·.workID)).Nodup ∧ ∀ r ∈ rs, r.workID ∉ seen := by
  induction rs generalizing seen with
  | nil => simp [checkResults]
  | cons r rs ih =>
    unfold checkResults
    cases hv : validateCheckResult utg wg r with
    | error e =>
      simp only []
      constructor
      · intro c; cases c
      · rintro ⟨c, _⟩
        have := (validateCheckResult_ok_iff utg wg r).mpr (c r (by simp))
        rw [hv] at this; cases this
    | ok u =>
      cases u
      have hr := (validateCheckResult_ok_iff utg wg r).mp hv
      simp only []
      by_cases h : r.workID ∈ seen
      · rw [if_pos h]
        constructor
        · intro c; cases c
        · rintro ⟨_, _, c⟩; exact absurd h (c r (by simp))
      · rw [if_neg h, ih]
        simp only [List.map_cons, List.nodup_cons, List.mem_cons, List.mem_map, not_or, not_exists, not_and,
          forall_eq_or_imp]
        constructor
        · rintro ⟨ha, hn, hs⟩
          exact ⟨⟨hr, ha⟩, ⟨fun x hx heq => (hs x hx).1 heq, hn⟩, h, fun x hx => (hs x hx).2⟩
        · rintro ⟨⟨_, ha⟩, ⟨hb, hn⟩, _, hs⟩
          exact ⟨ha, hn, fun x hx => ⟨fun heq => hb x hx heq, hs x hx⟩⟩

/-- `checkProposals` succeeds exactly when every proposal obeys its rules and no
work id repeats (among them or w.r.t. `seen`); the returned set is `seen` plus their work ids -/
theorem checkProposals_ok_iff (utg : String → UpkeepType) (wg : String → Trigger → String)
    (ps : List Proposal) (seen : List String) :
    (∃ s, checkProposals utg wg ps seen = .ok s) ↔
      (∀ p ∈ ps, ProposalRules utg wg p) ∧ (ps.map (·.workID)).Nodup ∧ ∀ p ∈ ps, p.workID ∉ seen := by
  induction ps generalizing seen with
  | nil => simp [checkProposals]
  | cons p ps ih =>
    unfold checkProposals
    cases hv : validateProposal utg wg p with
    | error e =>
      simp only []
      constructor
      · rintro ⟨s, c⟩; cases c
      · rintro ⟨c, _⟩
        have := (validateProposal_ok_iff utg wg p).mpr (c p (by simp))
        rw [hv] at this; cases this
    | ok u =>
      cases u
      have hr := (validateProposal_ok_iff utg wg p).mp hv
      simp only []
      by_cases h : p.workID ∈ seen
      · rw [if_pos h]
        constructor
        · rintro ⟨s, c⟩; cases c
        · rintro ⟨_, _, c⟩; exact absurd h (c p (by simp))
      · rw [if_neg h, ih]
        simp only [List.map_cons, List.nodup_cons, List.mem_cons, List.mem_map, not_or, not_exists, not_and,
          forall_eq_or_imp]
        constructor
        · rintro ⟨ha, hn, hs⟩
          exact ⟨⟨hr, ha⟩, ⟨fun x hx heq => (hs x hx).1 heq, hn⟩, h, fun x hx => (hs x hx).2⟩
        · rintro ⟨⟨_, ha⟩, ⟨hb, hn⟩, _, hs⟩
          exact ⟨ha, hn, fun x hx => ⟨fun heq => hb x hx heq, hs x hx⟩⟩

theorem checkProposals_mem (utg : String → UpkeepType) (wg : String → Trigger → String)
    (ps : List Proposal) (seen s : List String) (h : checkProposals utg wg ps seen = .ok s) :
    ∀ w, w ∈ s ↔ w ∈ ps.map (·.workID) ∨ w ∈ seen := by
  induction ps generalizing seen with
  | nil =>
    simp only [checkProposals] at h
    cases h; simp
  | cons p ps ih =>
    unfold checkProposals at h
    cases hv : validateProposal utg wg p with
    | error e => rw [hv] at h; cases h
    | ok u =>
      cases u
      rw [hv] at h
      simp only [] at h
      by_cases hm : p.workID ∈ seen
      · rw [if_pos hm] at h; cases h
      · rw [if_neg hm] at h
        intro w
        rw [ih _ h w]
        simp only [List.map_cons, List.mem_cons]
        constructor
        · rintro (a | a | a)
          · exact Or.inl (Or.inr a)
          · exact Or.inl (Or.inl a)
          · exact Or.inr a
        · rintro ((a | a) | a)
          · exact Or.inr (Or.inl a)
          · exact Or.inl a
          · exact Or.inr (Or.inr a)

theorem checkRounds_ok_iff (utg : String → UpkeepType) (wg : String → Trigger → String)
    (rounds : List (List Proposal)) (seen : List String) :
    checkRounds utg wg rounds seen = .ok () ↔
      (∀ round ∈ rounds, round.length ≤ Gen.outcomeSurfacedProposalsLimit) ∧
      (∀ round ∈ rounds, ∀ p ∈ round, ProposalRules utg wg p) ∧
      (rounds.flatten.map (·.workID)).Nodup ∧ ∀ p ∈ rounds.flatten, p.workID ∉ seen := by
  induction rounds generalizing seen with
  | nil => simp [checkRounds]
  | cons round rest ih =>
    unfold checkRounds
    by_cases hl : round.length > Gen.outcomeSurfacedProposalsLimit
    · rw [if_pos hl]
      constructor
      · intro c; cases c
      · rintro ⟨c, _⟩
        have := c round (by simp)
        omega
    rw [if_neg hl]
    cases hc : checkProposals utg wg round seen with
    | error e =>
      simp only []
      constructor
      · intro c; cases c
      · rintro ⟨_, c2, c3, c4⟩
        have hex : ∃ s, checkProposals utg wg round seen = .ok s := by
          rw [checkProposals_ok_iff]
          refine ⟨c2 round (by simp), ?_, ?_⟩
          · simp only [List.flatten_cons, List.map_append] at c3
            exact (List.nodup_append.mp c3).1
          · intro p hp; exact c4 p (by simp [hp])
        obtain ⟨s, hs⟩ := hex
        rw [hc] at hs; cases hs
    | ok s =>
      simp only []
      have hmem := checkProposals_mem utg wg round seen s hc
      have hok := (checkProposals_ok_iff utg wg round seen).mp ⟨s, hc⟩
      rw [ih]
      simp only [List.flatten_cons, List.map_append, List.mem_cons, List.mem_append, forall_eq_or_imp]
      constructor
      · rintro ⟨a1, a2, a3, a4⟩
        refine ⟨⟨by omega, a1⟩, ⟨hok.1, a2⟩, ?_, ?_⟩
        · rw [List.nodup_append]
          refine ⟨hok.2.1, a3, ?_⟩
          intro w hw1 w' hw2 heq
          subst heq
          obtain ⟨p, hp, rfl⟩ := List.mem_map.mp hw2
          exact a4 p hp ((hmem _).mpr (Or.inl hw1))
        · intro p hp
          rcases hp with hp | hp
          · exact hok.2.2 p hp
          · intro hs; exact a4 p hp ((hmem _).mpr (Or.inr hs))
      · rintro ⟨⟨_, a1⟩, ⟨_, a2⟩, a3, a4⟩
        rw [List.nodup_append] at a3
        refine ⟨a1, a2, a3.2.1, ?_⟩
        intro p hp hs
        rcases (hmem _).mp hs with hs | hs
        · exact a3.2.2 _ hs _ (List.mem_map.mpr ⟨p, hp, rfl⟩) rfl
        · exact a4 p (Or.inr hp) hs

/-! ### vocabulary of the tie theorems (Props/C15, `…_matches_source`) -/

/-- `(*big.Int).Cmp`: -1, 0, +1 -/
def bigCmp (a b : Int) : Int := if a < b then -1 else if a = b then 0 else 1

theorem bigCmp_neg (a b : Int) : bigCmp a b < 0 ↔ a < b := by
  unfold bigCmp; split
  · simp [*]
  · split <;> simp [*]

theorem bigCmp_pos (a b : Int) : bigCmp a b > 0 ↔ a > b := by
  unfold bigCmp; split
  · simp; omega
  · split
    · simp; omega
    · simp; omega

/-- `types.UpkeepType` as the number the Go constant stands for (`ConditionTrigger = iota`, `LogTrigger`) -/
def typeCode : UpkeepType → Nat
  | .condition => 0
  | .log => 1
  | .other => 2

end AutoVerif.C15
