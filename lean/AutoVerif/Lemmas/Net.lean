import AutoVerif.Model.Net
import AutoVerif.Props.C06
import AutoVerif.Props.C04
/-
Helper lemmas for Props/C09Net: the invariants of the network state machine (`Model/Net`), each proved for
every schedule by induction over `List Step`.

  * `node_ok`        every member's coordinator state IS the state of the C06 model after the member's own
                     history of coordinator operations (so the C06/C07 theorems apply to it);
  * `rounds_wf`      every logged round is `outcome` of its observations on the previous logged outcome, and its
                     reports are `C04.reports` of the agreed performables;
  * `accepted_sound` every successful `Accept(w, b)` in a member's coordinator log since its last restart comes
                     from a logged report, listing `(w, b)`, that the member answered `ShouldAccept = true` for;
  * the log only grows (`rounds_prefix`, `answers_prefix`, `reportAt_mono`).
-/
namespace AutoVerif.Net
open AutoVerif.Outcome AutoVerif.C06

/-- induction over a list from the right (schedules grow at the end) -/
theorem list_snoc_induction {α : Type} (P : List α → Prop) (h0 : P [])
    (hs : ∀ l a, P l → P (l ++ [a])) : ∀ l, P l := by
  intro l
  rw [← List.reverse_reverse l]
  induction l.reverse with
  | nil => exact h0
  | cons a t ih => rw [List.reverse_cons]; exact hs _ _ ih

/-! ### C06 histories -/

theorem c06_run_append (cfg : C06.Cfg) (a b : List Op) : C06.run cfg (a ++ b) = C06.runFrom cfg (C06.run cfg a) b := by
  simp [C06.run, C06.runFrom, List.foldl_append]

/-- the `Op`s a delivered report turns into -/
def acceptOps (us : List (String × Nat)) : List Op := us.map (fun u => Op.accept u.1 u.2)

theorem acceptReport_acc (cfg : C06.Cfg) : ∀ (us : List (String × Nat)) (s : St) (acc : Bool),
    acceptReport cfg s us acc = ((acceptReport cfg s us false).1, acc || (acceptReport cfg s us false).2) := by
  intro us
  induction us with
  | nil => intro s acc; simp [acceptReport]
  | cons u us ih =>
    intro s acc
    obtain ⟨w, b⟩ := u
    simp only [acceptReport]
    rw [ih _ (if (accept cfg s w b).2 = true then true else acc),
        ih _ (if (accept cfg s w b).2 = true then true else false)]
    cases (accept cfg s w b).2 <;> cases acc <;> simp

/-- running the accepts of a report on the C06 system: the state is `acceptReport`'s, the log grows by one
accept entry per upkeep, and if any of them succeeded the report-level answer is `true` -/
theorem runFrom_acceptOps (cfg : C06.Cfg) : ∀ (us : List (String × Nat)) (sys : Sys),
    (C06.runFrom cfg sys (acceptOps us)).st = (acceptReport cfg sys.st us false).1 ∧
    ∃ new, (C06.runFrom cfg sys (acceptOps us)).log = new ++ sys.log ∧
      (∀ e ∈ new, ∃ t u ok, u ∈ us ∧ e = LogE.accept t u.1 u.2 ok) ∧
      ((∃ t w b, LogE.accept t w b true ∈ new) → (acceptReport cfg sys.st us false).2 = true) := by
  intro us
  induction us with
  | nil => intro sys; exact ⟨rfl, [], rfl, by simp, by simp⟩
  | cons u us ih =>
    intro sys
    obtain ⟨w, b⟩ := u
    obtain ⟨h1, new, h2, h3, h4⟩ := ih (stepAccept cfg sys w b)
    have hrun : C06.runFrom cfg sys (acceptOps ((w, b) :: us)) = C06.runFrom cfg (stepAccept cfg sys w b) (acceptOps us) := by
      simp [C06.runFrom, acceptOps, C06.step]
    rw [hrun]
    have hacc : acceptReport cfg sys.st ((w, b) :: us) false =
        ((acceptReport cfg (accept cfg sys.st w b).1 us false).1,
          (accept cfg sys.st w b).2 || (acceptReport cfg (accept cfg sys.st w b).1 us false).2) := by
      simp only [acceptReport]
      rw [acceptReport_acc]
      cases (accept cfg sys.st w b).2 <;> simp
    refine ⟨?_, new ++ [LogE.accept sys.st.now w b (accept cfg sys.st w b).2], ?_, ?_, ?_⟩
    · rw [h1, hacc]; rfl
    · rw [h2]; simp [stepAccept]
    · intro e he
      rcases List.mem_append.mp he with he | he
      · obtain ⟨t, u, ok, hu, rfl⟩ := h3 e he
        exact ⟨t, u, ok, List.mem_cons_of_mem _ hu, rfl⟩
      · simp only [List.mem_singleton] at he
        exact ⟨sys.st.now, (w, b), _, List.mem_cons_self .., he⟩
    · intro ⟨t, w', b', hm⟩
      rw [hacc]
      simp only [Bool.or_eq_true]
      rcases List.mem_append.mp hm with hm | hm
      · right; exact h4 ⟨t, w', b', hm⟩
      · simp only [List.mem_singleton, LogE.accept.injEq] at hm
        left; exact hm.2.2.2.symm

/-- one `checkEvents` run on the C06 system: the state is `pollAll`'s, the log grows by event entries only -/
theorem step_poll (cfg : C06.Cfg) : ∀ (evs : List Event) (sys : Sys),
    (C06.step cfg sys (.poll evs)).st = pollAll cfg sys.st evs ∧
    ∃ new, (C06.step cfg sys (.poll evs)).log = new ++ sys.log ∧ ∀ e ∈ new, ∃ t ev d, e = LogE.event t ev d := by
  intro evs
  induction evs with
  | nil => intro sys; exact ⟨rfl, [], rfl, by simp⟩
  | cons e es ih =>
    intro sys
    obtain ⟨h1, new, h2, h3⟩ := ih (stepEvent cfg sys e)
    have hs : C06.step cfg sys (.poll (e :: es)) = C06.step cfg (stepEvent cfg sys e) (.poll es) := by
      simp [C06.step]
    rw [hs]
    refine ⟨?_, new ++ [LogE.event sys.st.now e (pollEvent cfg sys.st e).2], ?_, ?_⟩
    · rw [h1]; simp [pollAll, stepEvent]
    · rw [h2]; simp [stepEvent]
    · intro x hx
      rcases List.mem_append.mp hx with hx | hx
      · exact h3 x hx
      · simp only [List.mem_singleton] at hx
        exact ⟨_, _, _, hx⟩

/-- the part of a coordinator log (newest first) written since the last restart -/
def sinceRestart (log : List LogE) : List LogE := log.takeWhile (fun e => decide (e ≠ LogE.restart))

theorem sinceRestart_append {new old : List LogE} (h : ∀ e ∈ new, e ≠ LogE.restart) :
    sinceRestart (new ++ old) = new ++ sinceRestart old := by
  unfold sinceRestart
  exact List.takeWhile_append_of_pos (by simpa using h)

theorem shouldTransmit_iff (s : St) (w : String) (b : Nat) :
    shouldTransmit s w b = true ↔ ∃ v, s.cache.get w s.now = some v ∧ v.checkBlock = b ∧ v.pending = true := by
  unfold shouldTransmit
  cases hg : s.cache.get w s.now with
  | none => simp
  | some v =>
    simp only [Option.some.injEq, exists_eq_left']
    by_cases h2 : b = v.checkBlock
    · subst h2; simp
    · by_cases h1 : b < v.checkBlock
      · simp [h1]; omega
      · simp [h1, h2]; omega

/-! ### the log only grows -/

theorem step_rounds (cfg : Cfg) (net : Net) (s : Step) : ∃ ext, (step cfg net s).rounds = net.rounds ++ ext := by
  cases s with
  | round seq key aobs πres πblk => exact ⟨[_], rfl⟩
  | accept i ref =>
    simp only [step]; split <;> exact ⟨[], by simp⟩
  | transmitQuery i ref =>
    simp only [step]; split <;> exact ⟨[], by simp⟩
  | events i evs => exact ⟨[], by simp [step]⟩
  | restart i => exact ⟨[], by simp [step]⟩
  | tick i dt => exact ⟨[], by simp [step]⟩
  | gc i => exact ⟨[], by simp [step]⟩

theorem step_answers (cfg : Cfg) (net : Net) (s : Step) : ∃ ext, (step cfg net s).answers = net.answers ++ ext := by
  cases s with
  | round seq key aobs πres πblk => exact ⟨[], by simp [step]⟩
  | accept i ref =>
    simp only [step]; split
    · exact ⟨[], by simp⟩
    · exact ⟨[_], rfl⟩
  | transmitQuery i ref =>
    simp only [step]; split
    · exact ⟨[], by simp⟩
    · exact ⟨[_], rfl⟩
  | events i evs => exact ⟨[], by simp [step]⟩
  | restart i => exact ⟨[], by simp [step]⟩
  | tick i dt => exact ⟨[], by simp [step]⟩
  | gc i => exact ⟨[], by simp [step]⟩

theorem runFrom_rounds (cfg : Cfg) : ∀ (steps : List Step) (net : Net),
    ∃ ext, (runFrom cfg net steps).rounds = net.rounds ++ ext := by
  intro steps
  induction steps with
  | nil => intro net; exact ⟨[], by simp [runFrom]⟩
  | cons s ss ih =>
    intro net
    obtain ⟨e1, h1⟩ := step_rounds cfg net s
    obtain ⟨e2, h2⟩ := ih (step cfg net s)
    exact ⟨e1 ++ e2, by simp only [runFrom, List.foldl_cons] at h2 ⊢; rw [h2, h1, List.append_assoc]⟩

theorem runFrom_answers (cfg : Cfg) : ∀ (steps : List Step) (net : Net),
    ∃ ext, (runFrom cfg net steps).answers = net.answers ++ ext := by
  intro steps
  induction steps with
  | nil => intro net; exact ⟨[], by simp [runFrom]⟩
  | cons s ss ih =>
    intro net
    obtain ⟨e1, h1⟩ := step_answers cfg net s
    obtain ⟨e2, h2⟩ := ih (step cfg net s)
    exact ⟨e1 ++ e2, by simp only [runFrom, List.foldl_cons] at h2 ⊢; rw [h2, h1, List.append_assoc]⟩

theorem run_append (cfg : Cfg) (a b : List Step) : run cfg (a ++ b) = runFrom cfg (run cfg a) b := by
  simp [run, runFrom, List.foldl_append]

theorem run_snoc (cfg : Cfg) (a : List Step) (s : Step) : run cfg (a ++ [s]) = step cfg (run cfg a) s := by
  simp [run, runFrom, List.foldl_append]

/-- a report reference keeps its meaning when the log grows -/
theorem reportAt_append {rounds ext : List RoundRec} {ref : Ref} {rep : List CheckResult}
    (h : reportAt rounds ref = some rep) : reportAt (rounds ++ ext) ref = some rep := by
  unfold reportAt at h ⊢
  cases hr : rounds[ref.round]? with
  | none => simp [hr] at h
  | some rd =>
    have hlt : ref.round < rounds.length := by
      rcases Nat.lt_or_ge ref.round rounds.length with h' | h'
      · exact h'
      · rw [List.getElem?_eq_none h'] at hr; cases hr
    rw [List.getElem?_append_left hlt, hr]
    simpa [hr] using h

theorem reportAt_mono (cfg : Cfg) (steps : List Step) (net : Net) {ref : Ref} {rep : List CheckResult}
    (h : reportAt net.rounds ref = some rep) : reportAt (runFrom cfg net steps).rounds ref = some rep := by
  obtain ⟨ext, he⟩ := runFrom_rounds cfg steps net
  rw [he]; exact reportAt_append h

/-- a resolved reference points into a logged round -/
theorem reportAt_mem {rounds : List RoundRec} {ref : Ref} {rep : List CheckResult}
    (h : reportAt rounds ref = some rep) : ∃ rd, rounds[ref.round]? = some rd ∧ rd ∈ rounds ∧ rep ∈ rd.reports := by
  unfold reportAt at h
  cases hr : rounds[ref.round]? with
  | none => simp [hr] at h
  | some rd =>
    simp only [hr] at h
    exact ⟨rd, rfl, List.mem_of_getElem? hr, List.mem_of_getElem? h⟩

/-! ### invariants, for every schedule -/

/-- generic induction over schedules -/
theorem run_induction (cfg : Cfg) (P : Net → Prop) (h0 : P Net.init)
    (hstep : ∀ net s, P net → P (step cfg net s)) : ∀ steps, P (run cfg steps) := by
  intro steps
  have : ∀ (steps : List Step) (net : Net), P net → P (runFrom cfg net steps) := by
    intro steps
    induction steps with
    | nil => intro net h; exact h
    | cons s ss ih => intro net h; exact ih _ (hstep net s h)
  exact this steps _ h0

theorem setNode_same (nodes : Nat → NodeSt) (i : Nat) (n : NodeSt) : setNode nodes i n i = n := by simp [setNode]
theorem setNode_other (nodes : Nat → NodeSt) {i j : Nat} (n : NodeSt) (h : j ≠ i) : setNode nodes i n j = nodes j := by
  simp [setNode, h]

/-- the member's coordinator is the C06 model after the member's history -/
def NodeOk (ccfg : C06.Cfg) (n : NodeSt) : Prop := n.st = (C06.run ccfg n.hist).st

theorem nodeOk_accept {ccfg : C06.Cfg} {n : NodeSt} (h : NodeOk ccfg n) (ref : Ref) (rep : List CheckResult) :
    NodeOk ccfg (n.accept ccfg ref rep).1 := by
  unfold NodeOk at h ⊢
  simp only [NodeSt.accept]
  rw [show (ups rep).map (fun u => Op.accept u.1 u.2) = acceptOps (ups rep) from rfl, c06_run_append,
    (runFrom_acceptOps ccfg (ups rep) (C06.run ccfg n.hist)).1, ← h]

theorem nodeOk_events {ccfg : C06.Cfg} {n : NodeSt} (h : NodeOk ccfg n) (evs : List Event) :
    NodeOk ccfg (n.events ccfg evs) := by
  unfold NodeOk at h ⊢
  simp only [NodeSt.events]
  rw [c06_run_append]
  show _ = (C06.step ccfg (C06.run ccfg n.hist) (.poll evs)).st
  rw [(step_poll ccfg evs _).1, ← h]

theorem nodeOk_restart {ccfg : C06.Cfg} {n : NodeSt} (h : NodeOk ccfg n) : NodeOk ccfg n.restart := by
  unfold NodeOk at h ⊢
  simp only [NodeSt.restart]
  rw [c06_run_append]
  show _ = (C06.step ccfg (C06.run ccfg n.hist) .restart).st
  simp [C06.step, ← h]

theorem nodeOk_tick {ccfg : C06.Cfg} {n : NodeSt} (h : NodeOk ccfg n) (dt : Nat) : NodeOk ccfg (n.tick dt) := by
  unfold NodeOk at h ⊢
  simp only [NodeSt.tick]
  rw [c06_run_append]
  show _ = (C06.step ccfg (C06.run ccfg n.hist) (.advance dt)).st
  simp [C06.step, ← h]

theorem nodeOk_gc {ccfg : C06.Cfg} {n : NodeSt} (h : NodeOk ccfg n) : NodeOk ccfg n.gc := by
  unfold NodeOk at h ⊢
  simp only [NodeSt.gc]
  rw [c06_run_append]
  show _ = (C06.step ccfg (C06.run ccfg n.hist) .gc).st
  simp [C06.step, ← h]

/-- a property of single members that every member operation preserves is preserved by every step -/
theorem step_nodes (cfg : Cfg) (Q : NodeSt → Prop)
    (hacc : ∀ n ref rep, Q n → Q (n.accept cfg.coord ref rep).1)
    (hev : ∀ n evs, Q n → Q (n.events cfg.coord evs))
    (hre : ∀ n, Q n → Q n.restart) (hti : ∀ n dt, Q n → Q (n.tick dt)) (hgc : ∀ n, Q n → Q n.gc)
    (net : Net) (s : Step) (h : ∀ i, Q (net.nodes i)) : ∀ i, Q ((step cfg net s).nodes i) := by
  intro j
  have upd : ∀ i (n : NodeSt), Q n → Q (setNode net.nodes i n j) := by
    intro i n hn
    by_cases hj : j = i
    · subst hj; rw [setNode_same]; exact hn
    · rw [setNode_other _ _ hj]; exact h j
  cases s with
  | round seq key aobs πres πblk => exact h j
  | accept i ref =>
    simp only [step]; split
    · exact h j
    · exact upd i _ (hacc _ _ _ (h i))
  | transmitQuery i ref =>
    simp only [step]; split <;> exact h j
  | events i evs => exact upd i _ (hev _ _ (h i))
  | restart i => exact upd i _ (hre _ (h i))
  | tick i dt => exact upd i _ (hti _ _ (h i))
  | gc i => exact upd i _ (hgc _ (h i))

/-- … hence holds of every member of every reachable network state -/
theorem nodes_induction (cfg : Cfg) (Q : NodeSt → Prop) (h0 : Q { st := St.init })
    (hacc : ∀ n ref rep, Q n → Q (n.accept cfg.coord ref rep).1)
    (hev : ∀ n evs, Q n → Q (n.events cfg.coord evs))
    (hre : ∀ n, Q n → Q n.restart) (hti : ∀ n dt, Q n → Q (n.tick dt)) (hgc : ∀ n, Q n → Q n.gc) :
    ∀ steps i, Q ((run cfg steps).nodes i) := by
  intro steps
  exact run_induction cfg (fun net => ∀ i, Q (net.nodes i)) (fun _ => h0)
    (fun net s h => step_nodes cfg Q hacc hev hre hti hgc net s h) steps

theorem step_nodeOk (cfg : Cfg) (net : Net) (s : Step) (h : ∀ i, NodeOk cfg.coord (net.nodes i)) :
    ∀ i, NodeOk cfg.coord ((step cfg net s).nodes i) :=
  step_nodes cfg (NodeOk cfg.coord) (fun _ ref rep h => nodeOk_accept h ref rep)
    (fun _ evs h => nodeOk_events h evs) (fun _ h => nodeOk_restart h) (fun _ dt h => nodeOk_tick h dt)
    (fun _ h => nodeOk_gc h) net s h

theorem node_ok (cfg : Cfg) (steps : List Step) (i : Nat) : NodeOk cfg.coord ((run cfg steps).nodes i) :=
  nodes_induction cfg (NodeOk cfg.coord) rfl (fun _ ref rep h => nodeOk_accept h ref rep)
    (fun _ evs h => nodeOk_events h evs) (fun _ h => nodeOk_restart h) (fun _ dt h => nodeOk_tick h dt)
    (fun _ h => nodeOk_gc h) steps i

/-- a logged round is what the code computes from what it consumed -/
def RoundRec.WF (cfg : Cfg) (rd : RoundRec) : Prop :=
  rd.out = outcome (cfg.ctx rd.key) cfg.lim rd.prev (rd.aobs.map (·.2)) rd.πres rd.πblk ∧
  rd.reports = C04.reports cfg.rep rd.out.agreed

theorem rounds_wf (cfg : Cfg) (steps : List Step) : ∀ rd ∈ (run cfg steps).rounds, rd.WF cfg := by
  refine run_induction cfg (fun net => ∀ rd ∈ net.rounds, rd.WF cfg) (by simp [Net.init]) ?_ steps
  intro net s h
  cases s with
  | round seq key aobs πres πblk =>
    intro rd hrd
    simp only [step, List.mem_append, List.mem_singleton] at hrd
    rcases hrd with hrd | rfl
    · exact h rd hrd
    · exact ⟨rfl, rfl⟩
  | accept i ref => simp only [step]; split <;> exact h
  | transmitQuery i ref => simp only [step]; split <;> exact h
  | events i evs => exact h
  | restart i => exact h
  | tick i dt => exact h
  | gc i => exact h

/-- consecutive logged rounds are chained: each starts from the outcome of the one before, the first from the
empty outcome -/
def Chained : Outcome → List RoundRec → Prop
  | _, [] => True
  | o, rd :: rest => rd.prev = o ∧ Chained rd.out rest

theorem chained_snoc {o : Outcome} {rds : List RoundRec} {rd : RoundRec} (h : Chained o rds)
    (hp : rd.prev = match rds.getLast? with | some x => x.out | none => o) : Chained o (rds ++ [rd]) := by
  induction rds generalizing o with
  | nil => simpa [Chained] using hp
  | cons x xs ih =>
    obtain ⟨h1, h2⟩ := h
    refine ⟨h1, ih h2 ?_⟩
    rw [hp]
    cases xs with
    | nil => simp
    | cons y ys =>
      rw [List.getLast?_cons_cons]
      cases hl : (y :: ys).getLast? with
      | none => simp at hl
      | some z => rfl

theorem rounds_chained (cfg : Cfg) (steps : List Step) :
    Chained { agreed := [], surfaced := [] } (run cfg steps).rounds := by
  refine run_induction cfg (fun net => Chained { agreed := [], surfaced := [] } net.rounds) trivial ?_ steps
  intro net s h
  cases s with
  | round seq key aobs πres πblk => exact chained_snoc h rfl
  | accept i ref => simp only [step]; split <;> exact h
  | transmitQuery i ref => simp only [step]; split <;> exact h
  | events i evs => exact h
  | restart i => exact h
  | tick i dt => exact h
  | gc i => exact h

/-- every successful `Accept(w, b)` in the member's coordinator log since its last restart stems from a logged
report listing `(w, b)` that the member answered `ShouldAccept = true` for (and remembers in `accepted`) -/
def AcceptedSound (ccfg : C06.Cfg) (rounds : List RoundRec) (n : NodeSt) : Prop :=
  ∀ t w b, LogE.accept t w b true ∈ sinceRestart (C06.run ccfg n.hist).log →
    ∃ ref ∈ n.accepted, ∃ rep, reportAt rounds ref = some rep ∧ (w, b) ∈ ups rep

theorem acceptedSound_mono {ccfg : C06.Cfg} {rounds ext : List RoundRec} {n : NodeSt}
    (h : AcceptedSound ccfg rounds n) : AcceptedSound ccfg (rounds ++ ext) n := by
  intro t w b hm
  obtain ⟨ref, hr, rep, hrep, hu⟩ := h t w b hm
  exact ⟨ref, hr, rep, reportAt_append hrep, hu⟩

private theorem accepted_sound_step (cfg : Cfg) (net : Net) (s : Step)
    (hok : ∀ i, NodeOk cfg.coord (net.nodes i))
    (h : ∀ i, AcceptedSound cfg.coord net.rounds (net.nodes i)) :
    ∀ i, AcceptedSound cfg.coord (step cfg net s).rounds ((step cfg net s).nodes i) := by
  intro j
  -- a member operation that appends only event entries (or nothing) keeps the invariant
  have keep : ∀ (i : Nat) (n' : NodeSt), n'.accepted = (net.nodes i).accepted →
      (∃ new, (C06.run cfg.coord n'.hist).log = new ++ (C06.run cfg.coord (net.nodes i).hist).log ∧
        ∀ e ∈ new, ∃ t ev d, e = LogE.event t ev d) →
      AcceptedSound cfg.coord net.rounds (setNode net.nodes i n' j) := by
    intro i n' hacc ⟨new, hlog, hnew⟩
    by_cases hj : j = i
    · subst hj
      rw [setNode_same]
      intro t w b hm
      rw [hlog, sinceRestart_append (by intro e he; obtain ⟨_, _, _, rfl⟩ := hnew e he; simp)] at hm
      rcases List.mem_append.mp hm with hm | hm
      · obtain ⟨_, _, _, hc⟩ := hnew _ hm; cases hc
      · rw [hacc]; exact h j t w b hm
    · rw [setNode_other _ _ hj]; exact h j
  cases s with
  | round seq key aobs πres πblk => exact acceptedSound_mono (h j)
  | transmitQuery i ref => simp only [step]; split <;> exact h j
  | events i evs =>
    refine keep i _ rfl ?_
    simp only [NodeSt.events]
    rw [c06_run_append]
    exact (step_poll cfg.coord evs _).2
  | tick i dt =>
    refine keep i _ rfl ⟨[], ?_, by simp⟩
    simp only [NodeSt.tick]
    rw [c06_run_append]; simp [C06.runFrom, C06.step]
  | gc i =>
    refine keep i _ rfl ⟨[], ?_, by simp⟩
    simp only [NodeSt.gc]
    rw [c06_run_append]; simp [C06.runFrom, C06.step]
  | restart i =>
    by_cases hj : j = i
    · subst hj
      simp only [step, setNode_same]
      intro t w b hm
      simp only [NodeSt.restart] at hm
      rw [c06_run_append] at hm
      simp [C06.runFrom, C06.step, sinceRestart] at hm
    · simp only [step]; rw [setNode_other _ _ hj]; exact h j
  | accept i ref =>
    simp only [step]
    split
    · exact h j
    · rename_i rep hrep
      by_cases hj : j = i
      · subst hj
        simp only [setNode_same]
        intro t w b hm
        simp only [NodeSt.accept] at hm ⊢
        rw [show (ups rep).map (fun u => Op.accept u.1 u.2) = acceptOps (ups rep) from rfl, c06_run_append] at hm
        obtain ⟨_, new, hlog, hnew, hany⟩ :=
          runFrom_acceptOps cfg.coord (ups rep) (C06.run cfg.coord (net.nodes j).hist)
        rw [hlog, sinceRestart_append (by intro e he; obtain ⟨_, _, _, _, rfl⟩ := hnew e he; simp)] at hm
        rcases List.mem_append.mp hm with hm | hm
        · obtain ⟨_, u, _, hu, he⟩ := hnew _ hm
          simp only [LogE.accept.injEq] at he
          obtain ⟨_, hw, hb, _⟩ := he
          have hans := hany ⟨t, w, b, hm⟩
          rw [← (hok j : (net.nodes j).st = _)] at hans
          refine ⟨ref, by simp [hans], rep, hrep, ?_⟩
          rw [hw, hb]; exact hu
        · obtain ⟨ref', hr', rep', hrep', hu'⟩ := h j t w b hm
          refine ⟨ref', ?_, rep', hrep', hu'⟩
          split
          · exact List.mem_append_left _ hr'
          · exact hr'
      · simp only [setNode_other _ _ hj]; exact h j

theorem accepted_sound (cfg : Cfg) (steps : List Step) (i : Nat) :
    AcceptedSound cfg.coord (run cfg steps).rounds ((run cfg steps).nodes i) := by
  have := run_induction cfg
    (fun net => (∀ i, NodeOk cfg.coord (net.nodes i)) ∧ ∀ i, AcceptedSound cfg.coord net.rounds (net.nodes i))
    ⟨fun _ => rfl, by
      intro i t w b hm
      simp [Net.init, C06.run, C06.runFrom, Sys.init, sinceRestart] at hm⟩
    (fun net s h => ⟨step_nodeOk cfg net s h.1, accepted_sound_step cfg net s h.1 h.2⟩) steps
  exact this.2 i

end AutoVerif.Net
