import AutoVerif.Spec.C01
/-
Helper lemmas for the completeness clause of C01 (Props/C01Complete.lean).

* `probe_spec`      what one run of the probing loop of `performables.add` does (fuel `t.length+1` suffices)
* `TallyInv`        the strong invariant of the tally: distinct keys, distinct results, exact counts,
                    every result seen has a slot, every slot sits on the probe chain of its `UniqueID`
* `select_covers`   the traversal of `performables.set` leaves no quorum slot's work id unrepresented
* `sortByKey_take_or` an element is in the truncated sorted list, or the list is full of elements that sort before it

Everything holds for an arbitrary `Ctx` (in particular an arbitrary, non-injective `uid`).
Core Lean only.
-/
namespace AutoVerif.C01
open AutoVerif.Outcome

/-! ### generic list facts -/

theorem inj_of_nodup_map {α β} (f : α → β) : ∀ {l : List α}, (l.map f).Nodup →
    ∀ a ∈ l, ∀ b ∈ l, f a = f b → a = b
  | [], _, a, ha, _, _, _ => by simp at ha
  | x :: xs, h, a, ha, b, hb, hk => by
    simp only [List.map_cons, List.nodup_cons, List.mem_map, not_exists, not_and] at h
    rcases List.mem_cons.mp ha with rfl | ha' <;> rcases List.mem_cons.mp hb with rfl | hb'
    · rfl
    · exact absurd hk.symm (h.1 b hb')
    · exact absurd hk (h.1 a ha')
    · exact inj_of_nodup_map f h.2 a ha' b hb' hk

theorem votes_le_count (r : CheckResult) :
    ∀ (os : List Observation), votes os r ≤ (os.flatMap (·.performable)).count r
  | [] => by simp [votes]
  | o :: os => by
    have ih := votes_le_count r os
    simp only [List.flatMap_cons, List.count_append, votes, List.filter_cons]
    by_cases hc : o.performable.contains r
    · have : 0 < o.performable.count r := List.count_pos_iff.mpr (by simpa using hc)
      simp only [hc, if_true, List.length_cons]
      unfold votes at ih; omega
    · simp only [hc]
      unfold votes at ih
      simp only [Bool.false_eq_true, if_false]; omega

/-! ### `lookup` and `bump` -/

theorem lookup_some {t : List Slot} {k : String} {s : Slot} (h : lookup t k = some s) :
    s ∈ t ∧ s.key = k := by
  unfold lookup at h
  have := List.find?_some h
  exact ⟨List.mem_of_find?_eq_some h, by simpa using this⟩

theorem lookup_none_key {t : List Slot} {k : String} (h : lookup t k = none) :
    ∀ s ∈ t, s.key ≠ k := by
  unfold lookup at h
  intro s hs he
  have := List.find?_eq_none.mp h s hs
  simp [he] at this

theorem lookup_of_mem {t : List Slot} (hk : (t.map (·.key)).Nodup) {s : Slot} (hs : s ∈ t) :
    lookup t s.key = some s := by
  cases h : lookup t s.key with
  | none => exact absurd rfl (lookup_none_key h s hs)
  | some s' =>
    obtain ⟨hs', hk'⟩ := lookup_some h
    rw [inj_of_nodup_map (·.key) hk s' hs' s hs hk']

theorem bump_keys (t : List Slot) (k : String) : (bump t k).map (·.key) = t.map (·.key) := by
  unfold bump
  rw [List.map_map]
  apply List.map_congr_left
  intro s _
  simp only [Function.comp]
  split <;> rfl

theorem bump_results (t : List Slot) (k : String) : (bump t k).map (·.result) = t.map (·.result) := by
  unfold bump
  rw [List.map_map]
  apply List.map_congr_left
  intro s _
  simp only [Function.comp]
  split <;> rfl

theorem mem_bump {t : List Slot} {k : String} {x : Slot} (hx : x ∈ bump t k) :
    ∃ y ∈ t, x.key = y.key ∧ x.result = y.result ∧
      x.count = if y.key = k then y.count + 1 else y.count := by
  unfold bump at hx
  obtain ⟨y, hy, hyx⟩ := List.mem_map.mp hx
  refine ⟨y, hy, ?_⟩
  by_cases hyk : y.key = k
  · simp only [hyk, beq_self_eq_true, if_true] at hyx
    subst hyx
    simp [hyk]
  · have : (y.key == k) = false := by simpa using hyk
    simp only [this, Bool.false_eq_true, if_false] at hyx
    subst hyx
    simp [hyk]

theorem mem_bump_of_mem {t : List Slot} (k : String) {y : Slot} (hy : y ∈ t) :
    ∃ x ∈ bump t k, x.key = y.key ∧ x.result = y.result := by
  unfold bump
  refine ⟨_, List.mem_map.mpr ⟨y, hy, rfl⟩, ?_⟩
  split <;> exact ⟨rfl, rfl⟩

/-! ### the probe chain `k, k+"+", k+"+"+"+", …` -/

/-- the `i`-th key visited by `probe` when it starts at `k` -/
def chainKey : String → Nat → String
  | k, 0 => k
  | k, i + 1 => chainKey (k ++ "+") i

theorem length_plus (k : String) : (k ++ "+").length = k.length + 1 := by
  rw [String.length_append]
  have : "+".length = 1 := by decide
  omega

theorem chainKey_length : ∀ (i : Nat) (k : String), (chainKey k i).length = k.length + i
  | 0, k => by simp [chainKey]
  | i + 1, k => by
    rw [chainKey, chainKey_length i, length_plus]; omega

theorem chainKey_inj {k : String} {i j : Nat} (h : chainKey k i = chainKey k j) : i = j := by
  have := congrArg String.length h
  rw [chainKey_length, chainKey_length] at this
  omega

/-- "position `k` of the chain is taken by a slot holding a result other than `r`" -/
def Occ (t : List Slot) (k : String) (r : CheckResult) : Prop :=
  ∃ s ∈ t, s.key = k ∧ s.result ≠ r

theorem Occ.mono {t t' : List Slot} {k : String} {r : CheckResult}
    (h : ∀ s ∈ t, ∃ s' ∈ t', s'.key = s.key ∧ s'.result = s.result) (ho : Occ t k r) : Occ t' k r := by
  obtain ⟨s, hs, hk, hr⟩ := ho
  obtain ⟨s', hs', hk', hr'⟩ := h s hs
  exact ⟨s', hs', by rw [hk', hk], by rw [hr']; exact hr⟩

/-! ### fuel: `t.length + 1` probes always suffice -/

/-- number of slots whose key is at least as long as `k` (strictly decreases along the chain while it is occupied) -/
def longer (t : List Slot) (k : String) : Nat :=
  (t.filter (fun s => decide (k.length ≤ s.key.length))).length

theorem longer_le (t : List Slot) (k : String) : longer t k ≤ t.length :=
  List.length_filter_le _ _

theorem longer_cons (x : Slot) (xs : List Slot) (k : String) :
    longer (x :: xs) k = (if k.length ≤ x.key.length then 1 else 0) + longer xs k := by
  unfold longer
  rw [List.filter_cons]
  by_cases h : k.length ≤ x.key.length
  · simp only [h, decide_true, if_true, List.length_cons]; omega
  · simp only [h, decide_false, if_false, Bool.false_eq_true]; omega

theorem longer_plus_le : ∀ (t : List Slot) (k : String), longer t (k ++ "+") ≤ longer t k
  | [], k => by simp [longer]
  | x :: xs, k => by
    have ih := longer_plus_le xs k
    rw [longer_cons, longer_cons, length_plus]
    split <;> split <;> omega

theorem longer_plus_lt : ∀ {t : List Slot} {k : String} {s : Slot}, s ∈ t → s.key = k →
    longer t (k ++ "+") < longer t k
  | x :: xs, k, s, hs, hk => by
    rw [longer_cons, longer_cons, length_plus]
    rcases List.mem_cons.mp hs with rfl | hs'
    · have := longer_plus_le xs k
      rw [hk]
      simp only [Nat.le_refl, if_true]
      split <;> omega
    · have := longer_plus_lt hs' hk
      split <;> split <;> omega

/-- What one run of the probing loop does, provided the fuel exceeds the `longer` measure:
either it appends a fresh slot at the first free chain position (all earlier positions hold other results),
or it bumps the slot at a chain position that already holds `r`.  The fuel-exhausted branch is unreachable. -/
theorem probe_spec (t : List Slot) (r : CheckResult) : ∀ (fuel : Nat) (k : String), longer t k < fuel →
    (∃ i, lookup t (chainKey k i) = none ∧ (∀ j, j < i → Occ t (chainKey k j) r) ∧
        probe fuel t k r = t ++ [{ key := chainKey k i, result := r, count := 1 }]) ∨
    (∃ i s, lookup t (chainKey k i) = some s ∧ s.result = r ∧ probe fuel t k r = bump t (chainKey k i))
  | 0, k, h => by omega
  | fuel + 1, k, h => by
    unfold probe
    split
    · rename_i hl
      exact Or.inl ⟨0, hl, fun j hj => by omega, rfl⟩
    · rename_i s hl
      split
      · rename_i hr
        exact Or.inr ⟨0, s, hl, hr, rfl⟩
      · rename_i hr
        obtain ⟨hs, hsk⟩ := lookup_some hl
        have hlt := longer_plus_lt hs hsk
        rcases probe_spec t r fuel (k ++ "+") (by omega) with ⟨i, h1, h2, h3⟩ | ⟨i, s', h1, h2, h3⟩
        · refine Or.inl ⟨i + 1, h1, ?_, h3⟩
          intro j hj
          cases j with
          | zero => exact ⟨s, hs, hsk, hr⟩
          | succ j => exact h2 j (by omega)
        · exact Or.inr ⟨i + 1, s', h1, h2, h3⟩

/-- `probe_fuel_enough`: the fuel that `addResult` supplies makes the exhausted branch unreachable -/
theorem addResult_spec (ctx : Ctx) (t : List Slot) (r : CheckResult) :
    (∃ i, lookup t (chainKey (ctx.uid r) i) = none ∧ (∀ j, j < i → Occ t (chainKey (ctx.uid r) j) r) ∧
        addResult ctx t r = t ++ [{ key := chainKey (ctx.uid r) i, result := r, count := 1 }]) ∨
    (∃ i s, lookup t (chainKey (ctx.uid r) i) = some s ∧ s.result = r ∧
        addResult ctx t r = bump t (chainKey (ctx.uid r) i)) := by
  have := longer_le t (ctx.uid r)
  exact probe_spec t r (t.length + 1) (ctx.uid r) (by omega)

/-! ### the strong tally invariant -/

structure TallyInv (ctx : Ctx) (t : List Slot) (rs : List CheckResult) : Prop where
  keys : (t.map (·.key)).Nodup
  results : (t.map (·.result)).Nodup
  count : ∀ s ∈ t, s.count = rs.count s.result
  covered : ∀ r ∈ rs, ∃ s ∈ t, s.result = r
  chain : ∀ s ∈ t, ∃ i, s.key = chainKey (ctx.uid s.result) i ∧
    ∀ j, j < i → Occ t (chainKey (ctx.uid s.result) j) s.result

theorem TallyInv.nil (ctx : Ctx) : TallyInv ctx [] [] :=
  ⟨by simp, by simp, by simp, by simp, by simp⟩

/-- a result that the probe could not find on its chain is not stored anywhere -/
theorem fresh_of_probe {ctx : Ctx} {t : List Slot} {rs : List CheckResult} (h : TallyInv ctx t rs)
    {r : CheckResult} {i : Nat} (hnone : lookup t (chainKey (ctx.uid r) i) = none)
    (hocc : ∀ j, j < i → Occ t (chainKey (ctx.uid r) j) r) : ∀ s ∈ t, s.result ≠ r := by
  intro s hs hsr
  obtain ⟨i0, hk0, hocc0⟩ := h.chain s hs
  rw [hsr] at hk0 hocc0
  rcases Nat.lt_trichotomy i0 i with hlt | heq | hgt
  · obtain ⟨s', hs', hk', hr'⟩ := hocc i0 hlt
    have : s' = s := inj_of_nodup_map (·.key) h.keys s' hs' s hs (by rw [hk', hk0])
    exact hr' (this ▸ hsr)
  · exact lookup_none_key hnone s hs (by rw [hk0, heq])
  · obtain ⟨s', hs', hk', _⟩ := hocc0 i hgt
    exact lookup_none_key hnone s' hs' hk'

theorem TallyInv.step {ctx : Ctx} {t : List Slot} {rs : List CheckResult} (h : TallyInv ctx t rs)
    (r : CheckResult) : TallyInv ctx (addResult ctx t r) (rs ++ [r]) := by
  rcases addResult_spec ctx t r with ⟨i, hnone, hocc, heq⟩ | ⟨i, s, hsome, hres, heq⟩
  · -- a fresh slot is appended
    rw [heq]
    have hfresh := fresh_of_probe h hnone hocc
    have hnotin : r ∉ rs := fun hr => by
      obtain ⟨s, hs, hsr⟩ := h.covered r hr
      exact hfresh s hs hsr
    have hmono : ∀ s ∈ t, ∃ s' ∈ t ++ [({ key := chainKey (ctx.uid r) i, result := r, count := 1 } : Slot)],
        s'.key = s.key ∧ s'.result = s.result :=
      fun s hs => ⟨s, List.mem_append_left _ hs, rfl, rfl⟩
    refine ⟨?_, ?_, ?_, ?_, ?_⟩
    · rw [List.map_append, List.nodup_append]
      refine ⟨h.keys, by simp, ?_⟩
      intro a ha b hb
      simp only [List.map_cons, List.map_nil, List.mem_singleton] at hb
      subst hb
      obtain ⟨s, hs, hsa⟩ := List.mem_map.mp ha
      intro hab
      exact lookup_none_key hnone s hs (by rw [hsa, hab])
    · rw [List.map_append, List.nodup_append]
      refine ⟨h.results, by simp, ?_⟩
      intro a ha b hb
      simp only [List.map_cons, List.map_nil, List.mem_singleton] at hb
      subst hb
      obtain ⟨s, hs, hsa⟩ := List.mem_map.mp ha
      intro hab
      exact hfresh s hs (by rw [hsa, hab])
    · intro s hs
      rcases List.mem_append.mp hs with hs | hs
      · have h1 := h.count s hs
        have h2 : List.count s.result [r] = 0 :=
          List.count_eq_zero.mpr (by simpa using hfresh s hs)
        rw [List.count_append, h2]; omega
      · simp only [List.mem_singleton] at hs
        subst hs
        have : rs.count r = 0 := List.count_eq_zero.mpr hnotin
        simp [List.count_append, this]
    · intro r' hr'
      rcases List.mem_append.mp hr' with hr' | hr'
      · obtain ⟨s, hs, hsr⟩ := h.covered r' hr'
        exact ⟨s, List.mem_append_left _ hs, hsr⟩
      · simp only [List.mem_singleton] at hr'
        subst hr'
        exact ⟨_, List.mem_append_right _ (List.mem_singleton.mpr rfl), rfl⟩
    · intro s hs
      rcases List.mem_append.mp hs with hs | hs
      · obtain ⟨i0, hk0, hocc0⟩ := h.chain s hs
        exact ⟨i0, hk0, fun j hj => (hocc0 j hj).mono hmono⟩
      · simp only [List.mem_singleton] at hs
        subst hs
        exact ⟨i, rfl, fun j hj => (hocc j hj).mono hmono⟩
  · -- the slot already holding `r` is bumped
    rw [heq]
    obtain ⟨hs, hsk⟩ := lookup_some hsome
    have hmono : ∀ y ∈ t, ∃ x ∈ bump t (chainKey (ctx.uid r) i), x.key = y.key ∧ x.result = y.result :=
      fun y hy => mem_bump_of_mem _ hy
    refine ⟨by rw [bump_keys]; exact h.keys, by rw [bump_results]; exact h.results, ?_, ?_, ?_⟩
    · intro x hx
      obtain ⟨y, hy, _, hxr, hxc⟩ := mem_bump hx
      rw [hxr, List.count_append]
      by_cases hyk : y.key = chainKey (ctx.uid r) i
      · have : y = s := inj_of_nodup_map (·.key) h.keys y hy s hs (by rw [hyk, hsk])
        subst this
        have := h.count y hy
        rw [hxc, if_pos hyk, hres]
        rw [hres] at this
        simp [this]
      · have hyr : y.result ≠ r := by
          intro hyr
          have : y = s := inj_of_nodup_map (·.result) h.results y hy s hs (by rw [hyr, hres])
          exact hyk (this ▸ hsk)
        have h2 : List.count y.result [r] = 0 := List.count_eq_zero.mpr (by simpa using hyr)
        have := h.count y hy
        rw [hxc, if_neg hyk, h2]; omega
    · intro r' hr'
      rcases List.mem_append.mp hr' with hr' | hr'
      · obtain ⟨y, hy, hyr⟩ := h.covered r' hr'
        obtain ⟨x, hx, _, hxr⟩ := hmono y hy
        exact ⟨x, hx, by rw [hxr, hyr]⟩
      · simp only [List.mem_singleton] at hr'
        subst hr'
        obtain ⟨x, hx, _, hxr⟩ := hmono s hs
        exact ⟨x, hx, by rw [hxr, hres]⟩
    · intro x hx
      obtain ⟨y, hy, hxk, hxr, _⟩ := mem_bump hx
      obtain ⟨i0, hk0, hocc0⟩ := h.chain y hy
      rw [hxk, hxr]
      exact ⟨i0, hk0, fun j hj => (hocc0 j hj).mono hmono⟩

theorem TallyInv.fold (ctx : Ctx) : ∀ (rs : List CheckResult) (t : List Slot) (rs0 : List CheckResult),
    TallyInv ctx t rs0 → TallyInv ctx (rs.foldl (addResult ctx) t) (rs0 ++ rs)
  | [], t, rs0, h => by simpa using h
  | r :: rs, t, rs0, h => by
    have := TallyInv.fold ctx rs (addResult ctx t r) (rs0 ++ [r]) (h.step r)
    simpa using this

theorem tally_inv (ctx : Ctx) (os : List Observation) :
    TallyInv ctx (tally ctx os) (os.flatMap (·.performable)) := by
  have := TallyInv.fold ctx (os.flatMap (·.performable)) [] [] (TallyInv.nil ctx)
  simpa [tally] using this

/-- every result with at least one vote has a slot, and that slot has counted every vote -/
theorem tally_slot_of_votes (ctx : Ctx) (os : List Observation) (r : CheckResult) (hr : 0 < votes os r) :
    ∃ s ∈ tally ctx os, s.result = r ∧ votes os r ≤ s.count := by
  have hinv := tally_inv ctx os
  have hle := votes_le_count r os
  have hmem : r ∈ os.flatMap (·.performable) := List.count_pos_iff.mp (by omega)
  obtain ⟨s, hs, hsr⟩ := hinv.covered r hmem
  refine ⟨s, hs, hsr, ?_⟩
  have := hinv.count s hs
  rw [hsr] at this
  omega

/-! ### selection -/

theorem select_acc_subset (thr : Nat) (t : List Slot) : ∀ (ks : List String) (acc : List CheckResult),
    ∀ a ∈ acc, a ∈ select thr t ks acc
  | [], acc, a, ha => by unfold select; exact ha
  | k :: ks, acc, a, ha => by
    unfold select
    split
    · exact select_acc_subset thr t ks acc a ha
    · split
      · exact select_acc_subset thr t ks _ a (List.mem_append_left _ ha)
      · exact select_acc_subset thr t ks acc a ha

/-- when the traversal visits the key of a quorum slot, the slot's work id is represented afterwards -/
theorem select_covers (thr : Nat) {t : List Slot} (hk : (t.map (·.key)).Nodup) {s : Slot} (hs : s ∈ t)
    (hc : thr ≤ s.count) : ∀ (ks : List String) (acc : List CheckResult), s.key ∈ ks →
    ∃ a ∈ select thr t ks acc, a.workID = s.result.workID
  | [], acc, h => by simp at h
  | k :: ks, acc, h => by
    by_cases hks : k = s.key
    · subst hks
      unfold select
      rw [lookup_of_mem hk hs]
      simp only
      split
      · exact ⟨s.result, select_acc_subset thr t ks _ _ (List.mem_append_right _ (List.mem_singleton.mpr rfl)), rfl⟩
      · rename_i hcond
        have : s.result.workID ∈ acc.map (·.workID) := by
          simpa [hc] using hcond
        obtain ⟨a, ha, haw⟩ := List.mem_map.mp this
        exact ⟨a, select_acc_subset thr t ks acc a ha, haw⟩
    · have h' : s.key ∈ ks := by
        rcases List.mem_cons.mp h with h | h
        · exact absurd h.symm hks
        · exact h
      unfold select
      split
      · exact select_covers thr hk hs hc ks acc h'
      · split
        · exact select_covers thr hk hs hc ks _ h'
        · exact select_covers thr hk hs hc ks acc h'

/-! ### sorting and truncation -/

theorem sortByKey_take_or {α} (key : String → String) (wid : α → String) (l : List α) (n : Nat) (x : α)
    (hx : x ∈ l) :
    x ∈ (sortByKey key wid l).take n ∨
      (n ≤ ((sortByKey key wid l).take n).length ∧
        ∀ a ∈ (sortByKey key wid l).take n, key (wid a) ≤ key (wid x)) := by
  have hp : List.Pairwise (fun a b => decide (key (wid a) ≤ key (wid b)) = true) (sortByKey key wid l) := by
    unfold sortByKey
    apply List.pairwise_mergeSort
    · intro a b c hab hbc
      simp only [decide_eq_true_eq] at hab hbc ⊢
      exact String.le_trans hab hbc
    · intro a b
      simp only [Bool.or_eq_true, decide_eq_true_eq]
      exact String.le_total _ _
  have hmem : x ∈ sortByKey key wid l := by
    unfold sortByKey
    exact (List.mergeSort_perm _ _).mem_iff.mpr hx
  rw [← List.take_append_drop n (sortByKey key wid l)] at hmem hp
  rcases List.mem_append.mp hmem with h | h
  · exact Or.inl h
  · refine Or.inr ⟨?_, ?_⟩
    · have hpos : 0 < ((sortByKey key wid l).drop n).length := List.length_pos_of_mem h
      rw [List.length_drop] at hpos
      rw [List.length_take]
      omega
    · intro a ha
      have := (List.pairwise_append.mp hp).2.2 a ha x h
      simpa using this

end AutoVerif.C01
