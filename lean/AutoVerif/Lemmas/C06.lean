import AutoVerif.Spec.C07
/-
Helper lemmas for Props/C06 and Props/C07: the invariant relating the
coordinator's cache to the log of a history, proved for every history.
-/
namespace AutoVerif.C06

/-! ### cache primitives -/

theorem set_default {α : Type} (cfg : Cfg) (c : Cache α) (k : String) (v : α) (now : Nat) :
    Cache.set cfg.window c k v 0 now = fun k' => if k' = k then some (v, expOf cfg now) else c k' := by
  funext k'
  simp only [Cache.set, expOf]
  by_cases h : cfg.window > 0 <;> simp [h]

theorem set_window {α : Type} (cfg : Cfg) (c : Cache α) (k : String) (v : α) (now : Nat) :
    Cache.set cfg.window c k v cfg.window now = fun k' => if k' = k then some (v, expOf cfg now) else c k' := by
  funext k'
  simp only [Cache.set, expOf]
  by_cases h : cfg.window > 0 <;> simp [h]

theorem expired_iff (e now : Nat) : expired e now = true ↔ e > 0 ∧ now > e := by
  simp [expired]

theorem liveAt_iff (cfg : Cfg) (t now : Nat) : liveAt cfg t now = true ↔ cfg.window = 0 ∨ now ≤ t + cfg.window := by
  simp only [liveAt, expired, expOf]
  by_cases hw : cfg.window > 0
  · simp [hw]; omega
  · simp [hw]; omega

theorem get_eq_some {α : Type} (c : Cache α) (k : String) (now : Nat) (v : α) :
    c.get k now = some v ↔ ∃ e, c k = some (v, e) ∧ expired e now = false := by
  unfold Cache.get
  cases h : c k with
  | none => simp
  | some p =>
    obtain ⟨v', e'⟩ := p
    cases hx : expired e' now
    · simp only [hx, Bool.false_eq_true, if_false, Option.some.injEq, Prod.mk.injEq]
      constructor
      · intro hv; exact ⟨e', ⟨hv, rfl⟩, hx⟩
      · intro ⟨e, ⟨hv, _⟩, _⟩; exact hv
    · simp only [hx, if_true, Option.some.injEq, Prod.mk.injEq]
      constructor
      · intro hc; cases hc
      · intro ⟨e, ⟨_, he⟩, hf⟩; subst he; rw [hx] at hf; cases hf

theorem get_eq_none {α : Type} (c : Cache α) (k : String) (now : Nat) :
    c.get k now = none ↔ c k = none ∨ ∃ v e, c k = some (v, e) ∧ expired e now = true := by
  unfold Cache.get
  cases h : c k with
  | none => simp
  | some p =>
    obtain ⟨v', e'⟩ := p
    cases hx : expired e' now
    · simp only [hx, Bool.false_eq_true, if_false, Option.some.injEq, Prod.mk.injEq]
      constructor
      · intro hc; cases hc
      · intro hc
        rcases hc with hc | ⟨v, e, ⟨_, he⟩, hf⟩
        · cases hc
        · subst he; rw [hx] at hf; cases hf
    · simp only [hx, if_true, Option.some.injEq, Prod.mk.injEq, true_iff]
      exact Or.inr ⟨v', e', ⟨rfl, rfl⟩, hx⟩

theorem liveAt_le {cfg : Cfg} {t t' now : Nat} (hle : t ≤ t') (h : liveAt cfg t now = true) : liveAt cfg t' now = true := by
  rw [liveAt_iff] at *; omega

theorem liveAt_self (cfg : Cfg) (t : Nat) : liveAt cfg t t = true := by
  rw [liveAt_iff]; omega
theorem liveAt_anti {cfg : Cfg} {t now d : Nat} (h : liveAt cfg t (now + d) = true) : liveAt cfg t now = true := by
  rw [liveAt_iff] at *; omega
theorem expired_mono {e now d : Nat} (h : expired e now = true) : expired e (now + d) = true := by
  rw [expired_iff] at *; omega

theorem any_congr' {α} (l : List α) (p q : α → Bool) (h : ∀ a ∈ l, p a = q a) : l.any p = l.any q := by
  induction l with
  | nil => rfl
  | cons a l ih =>
    simp only [List.any_cons]
    rw [h a (List.mem_cons_self ..), ih (fun a ha => h a (List.mem_cons_of_mem _ ha))]

/-! ### case analysis of the two writers -/

/-- the cache after a successful `Accept(w, b)` -/
def cacheAfterAccept (cfg : Cfg) (s : St) (w : String) (b : Nat) : Cache Rec :=
  fun k' => if k' = w then some (acceptRec b, expOf cfg s.now) else s.cache k'

theorem accept_cases (cfg : Cfg) (s : St) (w : String) (b : Nat) :
    ((accept cfg s w b).2 = true ∧ (accept cfg s w b).1 = { s with cache := cacheAfterAccept cfg s w b } ∧
      (s.cache.get w s.now = none ∨ ∃ v, s.cache.get w s.now = some v ∧ v.checkBlock < b)) ∨
    ((accept cfg s w b).2 = false ∧ (accept cfg s w b).1 = s ∧
      ∃ v, s.cache.get w s.now = some v ∧ ¬ v.checkBlock < b) := by
  unfold accept cacheAfterAccept
  split
  · rename_i h
    left; simp [set_default, h]
  · rename_i v h
    by_cases hb : v.checkBlock < b
    · left; simp [hb, set_default, h]
    · right; simp [hb, h]; omega

theorem accept_snd (cfg : Cfg) (s : St) (w : String) (b : Nat) :
    (accept cfg s w b).2 = (match s.cache.get w s.now with
      | none => true
      | some v => decide (v.checkBlock < b)) := by
  unfold accept
  cases s.cache.get w s.now with
  | none => rfl
  | some v => by_cases hlt : v.checkBlock < b <;> simp [hlt]

def visitedAfter (cfg : Cfg) (s : St) (e : Event) : Cache Bool :=
  fun k' => if k' = visitedID e then some (true, expOf cfg s.now) else s.visited k'

def cacheAfterEvent (cfg : Cfg) (s : St) (e : Event) : Cache Rec :=
  fun k' => if k' = e.workID then some (eventRec e, expOf cfg s.now) else s.cache k'

/-- what `pollEvent` does, by disposition -/
theorem pollEvent_cases (cfg : Cfg) (s : St) (e : Event) :
    ((pollEvent cfg s e).2.processed = false ∧ (pollEvent cfg s e).1 = s) ∨
    ((pollEvent cfg s e).2 = .old ∧ (pollEvent cfg s e).1 = { s with visited := visitedAfter cfg s e } ∧
        ∃ v, s.cache.get e.workID s.now = some v ∧ e.checkBlock < v.checkBlock) ∨
    (((pollEvent cfg s e).2 = .same ∨ (pollEvent cfg s e).2 = .newer) ∧
        (pollEvent cfg s e).1 = { s with visited := visitedAfter cfg s e, cache := cacheAfterEvent cfg s e } ∧
        ∃ v, s.cache.get e.workID s.now = some v ∧ v.checkBlock ≤ e.checkBlock) := by
  unfold pollEvent visitedAfter cacheAfterEvent
  by_cases hc : e.conf < cfg.minConf
  · left; simp [hc, Disp.processed]
  · simp only [hc, if_false]
    cases hvis : s.visited.get (visitedID e) s.now with
    | some _ => left; simp [Disp.processed]
    | none =>
      cases hget : s.cache.get e.workID s.now with
      | none => left; simp [Disp.processed]
      | some v =>
        simp only
        by_cases h1 : e.checkBlock = v.checkBlock
        · right; right
          simp only [h1, if_true, set_default, set_window]
          refine ⟨Or.inl trivial, ?_, v, rfl, Nat.le_refl _⟩
          simp [eventRec, h1]
        · simp only [h1, if_false]
          by_cases h2 : e.checkBlock > v.checkBlock
          · right; right
            simp only [h2, if_true, set_default, set_window]
            exact ⟨Or.inr trivial, trivial, v, rfl, Nat.le_of_lt h2⟩
          · right; left
            simp only [h2, if_false, set_window]
            exact ⟨trivial, trivial, v, rfl, by omega⟩

/-- an event is processed only with enough confirmations -/
theorem processed_conf (cfg : Cfg) (s : St) (e : Event) (h : (pollEvent cfg s e).2.processed = true) :
    cfg.minConf ≤ e.conf := by
  unfold pollEvent at h
  by_cases hc : e.conf < cfg.minConf
  · simp [hc, Disp.processed] at h
  · exact Int.not_lt.mp hc

/-! ### the invariant -/

/-- relation between the cache and the log, plus two facts about the log itself -/
structure Inv (cfg : Cfg) (sys : Sys) : Prop where
  /-- nothing written for `w` since the restart: no entry -/
  none_of : ∀ w, lastWrite w sys.log = none → sys.st.cache w = none
  /-- otherwise the entry is the newest write with the expiry of its time, or it was collected after expiring -/
  some_of : ∀ w r t, lastWrite w sys.log = some (r, t) →
    t ≤ sys.st.now ∧ (sys.st.cache w = some (r, expOf cfg t) ∨
      (sys.st.cache w = none ∧ expired (expOf cfg t) sys.st.now = true))
  /-- a pending newest write is the acceptance found by the backwards scan -/
  scan : ∀ w r t, lastWrite w sys.log = some (r, t) → r.pending = true →
    awaited w r.checkBlock sys.log = some t
  /-- writes still inside their window are dominated by the newest write -/
  mono : ∀ w t x a, (t, x, a) ∈ writes w sys.log → liveAt cfg t sys.st.now = true →
    ∃ r t', lastWrite w sys.log = some (r, t') ∧ t ≤ t' ∧ x ≤ r.checkBlock ∧
      (a = false → r.pending = true → x < r.checkBlock)

/-- what `Get` returns is determined by the log -/
theorem Inv.get_eq_known {cfg : Cfg} {sys : Sys} (h : Inv cfg sys) (w : String) :
    sys.st.cache.get w sys.st.now = known cfg sys.log sys.st.now w := by
  unfold known
  cases hl : lastWrite w sys.log with
  | none =>
    have := h.none_of w hl
    simp [Cache.get, this]
  | some p =>
    obtain ⟨r, t⟩ := p
    obtain ⟨_, hc⟩ := h.some_of w r t hl
    simp only
    rcases hc with hc | ⟨hc, hx⟩
    · simp only [Cache.get, hc, liveAt]
      by_cases hx : expired (expOf cfg t) sys.st.now = true
      · simp [hx]
      · simp [hx]
    · simp [Cache.get, hc, liveAt, hx]

theorem Inv.get_some {cfg : Cfg} {sys : Sys} (h : Inv cfg sys) {w : String} {v : Rec}
    (hg : sys.st.cache.get w sys.st.now = some v) :
    ∃ t, lastWrite w sys.log = some (v, t) ∧ liveAt cfg t sys.st.now = true ∧ t ≤ sys.st.now := by
  rw [h.get_eq_known] at hg
  unfold known at hg
  cases hl : lastWrite w sys.log with
  | none => simp [hl] at hg
  | some p =>
    obtain ⟨r, t⟩ := p
    simp only [hl] at hg
    by_cases hv : liveAt cfg t sys.st.now = true
    · simp only [hv, if_true, Option.some.injEq] at hg
      subst hg
      exact ⟨t, rfl, hv, (h.some_of w r t hl).1⟩
    · simp [hv] at hg

theorem Inv.get_of_live {cfg : Cfg} {sys : Sys} (h : Inv cfg sys) {w : String} {r : Rec} {t : Nat}
    (hl : lastWrite w sys.log = some (r, t)) (hv : liveAt cfg t sys.st.now = true) :
    sys.st.cache.get w sys.st.now = some r := by
  rw [h.get_eq_known]; simp [known, hl, hv]

theorem inv_init (cfg : Cfg) : Inv cfg Sys.init := by
  refine ⟨?_, ?_, ?_, ?_⟩ <;> simp [Sys.init, St.init, lastWrite, writes, Cache.empty]

theorem inv_restart {cfg : Cfg} {sys : Sys} (_h : Inv cfg sys) : Inv cfg (step cfg sys .restart) := by
  refine ⟨?_, ?_, ?_, ?_⟩ <;> simp [step, St.init, lastWrite, writes, Cache.empty]

theorem inv_advance {cfg : Cfg} {sys : Sys} (h : Inv cfg sys) (d : Nat) : Inv cfg (step cfg sys (.advance d)) := by
  refine ⟨h.none_of, ?_, h.scan, ?_⟩
  · intro w r t hl
    obtain ⟨h1, h2⟩ := h.some_of w r t hl
    refine ⟨by simp only [step]; omega, ?_⟩
    rcases h2 with h2 | ⟨h2, h3⟩
    · exact Or.inl h2
    · exact Or.inr ⟨h2, expired_mono h3⟩
  · intro w t x a hm hv
    exact h.mono w t x a hm (liveAt_anti hv)

theorem inv_gc {cfg : Cfg} {sys : Sys} (h : Inv cfg sys) : Inv cfg (step cfg sys .gc) := by
  refine ⟨?_, ?_, h.scan, h.mono⟩
  · intro w hl
    have := h.none_of w hl
    simp [step, Cache.clearExpired, this]
  · intro w r t hl
    obtain ⟨h1, h2⟩ := h.some_of w r t hl
    refine ⟨h1, ?_⟩
    simp only [step, Cache.clearExpired]
    rcases h2 with h2 | ⟨h2, h3⟩
    · rw [h2]
      cases hx : expired (expOf cfg t) sys.st.now
      · left; simp [hx]
      · right; simp [hx]
    · right; simp [h2, h3]

theorem inv_accept {cfg : Cfg} {sys : Sys} (h : Inv cfg sys) (w : String) (b : Nat) :
    Inv cfg (stepAccept cfg sys w b) := by
  rcases accept_cases cfg sys.st w b with ⟨hok, hst, hget⟩ | ⟨hok, hst, v, hget, hnb⟩
  · -- success: the record is (re)written
    have hv0 : ∀ r0 t0, lastWrite w sys.log = some (r0, t0) → liveAt cfg t0 sys.st.now = true → r0.checkBlock < b := by
      intro r0 t0 hl hv
      have hg := h.get_of_live hl hv
      rcases hget with hn | ⟨v, hs, hlt⟩
      · rw [hn] at hg; cases hg
      · rw [hs] at hg; cases hg; exact hlt
    refine ⟨?_, ?_, ?_, ?_⟩
    · intro w' hl
      simp only [stepAccept, hok, lastWrite] at hl
      by_cases hw : w = w'
      · simp [hw] at hl
      · simp only [hw, false_and, if_false] at hl
        have := h.none_of w' hl
        simp only [stepAccept, hst, cacheAfterAccept]
        have hw' : ¬ w' = w := fun hc => hw hc.symm
        simp [hw', this]
    · intro w' r t hl
      simp only [stepAccept, hok, lastWrite] at hl
      by_cases hw : w = w'
      · subst hw
        simp only [true_and, if_true, Option.some.injEq, Prod.mk.injEq] at hl
        obtain ⟨hr, ht⟩ := hl
        subst hr; subst ht
        refine ⟨by simp [stepAccept, hst], Or.inl ?_⟩
        simp [stepAccept, hst, cacheAfterAccept]
      · simp only [hw, false_and, if_false] at hl
        have hw' : ¬ w' = w := fun hc => hw hc.symm
        have := h.some_of w' r t hl
        simpa [stepAccept, hst, cacheAfterAccept, hw'] using this
    · intro w' r t hl hp
      simp only [stepAccept, hok, lastWrite] at hl
      by_cases hw : w = w'
      · subst hw
        simp only [true_and, if_true, Option.some.injEq, Prod.mk.injEq] at hl
        obtain ⟨hr, ht⟩ := hl
        subst hr; subst ht
        simp [stepAccept, hok, awaited, acceptRec]
      · simp only [hw, false_and, if_false] at hl
        have := h.scan w' r t hl hp
        simp [stepAccept, hok, awaited, hw, this]
    · intro w' t x a hm hv
      simp only [stepAccept, hok, writes] at hm
      simp only [stepAccept, hst] at hv
      by_cases hw : w = w'
      · subst hw
        simp only [true_and, if_true, List.mem_cons, Prod.mk.injEq] at hm
        refine ⟨acceptRec b, sys.st.now, by simp [stepAccept, hok, lastWrite], ?_⟩
        rcases hm with ⟨ht, hx, ha⟩ | hm
        · subst ht; subst hx; subst ha
          simp [acceptRec]
        · obtain ⟨r0, t0, hl0, hle, hx0, _⟩ := h.mono w t x a hm hv
          have hlt := hv0 r0 t0 hl0 (liveAt_le hle hv)
          have ht0 := (h.some_of w r0 t0 hl0).1
          refine ⟨by omega, ?_, ?_⟩
          · simp only [acceptRec]; omega
          · intro _ _; simp only [acceptRec]; omega
      · simp only [hw, false_and, if_false] at hm
        obtain ⟨r0, t0, hl0, rest⟩ := h.mono w' t x a hm hv
        exact ⟨r0, t0, by simp [stepAccept, hok, lastWrite, hw, hl0], rest⟩
  · -- refused: nothing changes, the log entry is skipped by every scan
    have e1 : ∀ w', lastWrite w' (stepAccept cfg sys w b).log = lastWrite w' sys.log := by
      intro w'; simp [stepAccept, hok, lastWrite]
    have e2 : ∀ w' b', awaited w' b' (stepAccept cfg sys w b).log = awaited w' b' sys.log := by
      intro w' b'; simp [stepAccept, hok, awaited]
    have e3 : ∀ w', writes w' (stepAccept cfg sys w b).log = writes w' sys.log := by
      intro w'; simp [stepAccept, hok, writes]
    have e4 : (stepAccept cfg sys w b).st = sys.st := by simp [stepAccept, hst]
    refine ⟨?_, ?_, ?_, ?_⟩
    · intro w' hl; rw [e1] at hl; rw [e4]; exact h.none_of w' hl
    · intro w' r t hl; rw [e1] at hl; rw [e4]; exact h.some_of w' r t hl
    · intro w' r t hl hp; rw [e1] at hl; rw [e2]; exact h.scan w' r t hl hp
    · intro w' t x a hm hv; rw [e3] at hm; rw [e4] at hv; rw [e1]; exact h.mono w' t x a hm hv

theorem inv_event {cfg : Cfg} {sys : Sys} (h : Inv cfg sys) (e : Event) :
    Inv cfg (stepEvent cfg sys e) := by
  rcases pollEvent_cases cfg sys.st e with ⟨hd, hst⟩ | ⟨hd, hst, v, hget, hlt⟩ | ⟨hd, hst, v, hget, hle⟩
  · -- not processed: state unchanged, entry skipped
    have hu : (pollEvent cfg sys.st e).2.updating = false := by
      cases hx : (pollEvent cfg sys.st e).2 <;> simp_all [Disp.processed, Disp.updating]
    have e1 : ∀ w', lastWrite w' (stepEvent cfg sys e).log = lastWrite w' sys.log := by
      intro w'; simp [stepEvent, lastWrite, hu]
    have e2 : ∀ w' b', awaited w' b' (stepEvent cfg sys e).log = awaited w' b' sys.log := by
      intro w' b'; simp [stepEvent, awaited, hd]
    have e3 : ∀ w', writes w' (stepEvent cfg sys e).log = writes w' sys.log := by
      intro w'; simp [stepEvent, writes, hu]
    have e4 : (stepEvent cfg sys e).st = sys.st := by simp [stepEvent, hst]
    refine ⟨?_, ?_, ?_, ?_⟩
    · intro w' hl; rw [e1] at hl; rw [e4]; exact h.none_of w' hl
    · intro w' r t hl; rw [e1] at hl; rw [e4]; exact h.some_of w' r t hl
    · intro w' r t hl hp; rw [e1] at hl; rw [e2]; exact h.scan w' r t hl hp
    · intro w' t x a hm hv; rw [e3] at hm; rw [e4] at hv; rw [e1]; exact h.mono w' t x a hm hv
  · -- old event: only the visited cache changes; the scan passes it because its block is below the awaited one
    have hu : (pollEvent cfg sys.st e).2.updating = false := by simp [hd, Disp.updating]
    have e1 : ∀ w', lastWrite w' (stepEvent cfg sys e).log = lastWrite w' sys.log := by
      intro w'; simp [stepEvent, lastWrite, hu]
    have e3 : ∀ w', writes w' (stepEvent cfg sys e).log = writes w' sys.log := by
      intro w'; simp [stepEvent, writes, hu]
    have e4c : (stepEvent cfg sys e).st.cache = sys.st.cache := by simp [stepEvent, hst]
    have e4n : (stepEvent cfg sys e).st.now = sys.st.now := by simp [stepEvent, hst]
    refine ⟨?_, ?_, ?_, ?_⟩
    · intro w' hl; rw [e1] at hl; rw [e4c]; exact h.none_of w' hl
    · intro w' r t hl; rw [e1] at hl; rw [e4c, e4n]; exact h.some_of w' r t hl
    · intro w' r t hl hp
      rw [e1] at hl
      have hs := h.scan w' r t hl hp
      simp only [stepEvent, awaited]
      by_cases hw : e.workID = w'
      · subst hw
        obtain ⟨t', hl', _, _⟩ := h.get_some hget
        rw [hl] at hl'
        cases hl'
        have : ¬ e.checkBlock ≥ v.checkBlock := by omega
        simp [this, hs]
      · simp [hw, hs]
    · intro w' t x a hm hv; rw [e3] at hm; rw [e4n] at hv; rw [e1]; exact h.mono w' t x a hm hv
  · -- the record is rewritten by the event
    have hu : (pollEvent cfg sys.st e).2.updating = true := by
      rcases hd with hd | hd <;> simp [hd, Disp.updating]
    obtain ⟨tv, hlv, hvv, htv⟩ := h.get_some hget
    have hn : (stepEvent cfg sys e).st.now = sys.st.now := by simp [stepEvent, hst]
    refine ⟨?_, ?_, ?_, ?_⟩
    · intro w' hl
      simp only [stepEvent, lastWrite, hu] at hl
      by_cases hw : e.workID = w'
      · simp [hw] at hl
      · simp only [hw, false_and, if_false] at hl
        have := h.none_of w' hl
        have hw' : ¬ w' = e.workID := fun hc => hw hc.symm
        simp [stepEvent, hst, cacheAfterEvent, hw', this]
    · intro w' r t hl
      simp only [stepEvent, lastWrite, hu] at hl
      by_cases hw : e.workID = w'
      · subst hw
        simp only [and_self, if_true, Option.some.injEq, Prod.mk.injEq] at hl
        obtain ⟨hr, ht⟩ := hl
        subst hr; subst ht
        refine ⟨by simp [stepEvent, hst], Or.inl ?_⟩
        simp [stepEvent, hst, cacheAfterEvent]
      · simp only [hw, false_and, if_false] at hl
        have hw' : ¬ w' = e.workID := fun hc => hw hc.symm
        have := h.some_of w' r t hl
        simpa [stepEvent, hst, cacheAfterEvent, hw'] using this
    · intro w' r t hl hp
      simp only [stepEvent, lastWrite, hu] at hl
      by_cases hw : e.workID = w'
      · subst hw
        simp only [and_self, if_true, Option.some.injEq, Prod.mk.injEq] at hl
        obtain ⟨hr, _⟩ := hl
        subst hr
        simp [eventRec] at hp
      · simp only [hw, false_and, if_false] at hl
        have := h.scan w' r t hl hp
        simp [stepEvent, awaited, hw, this]
    · intro w' t x a hm hv
      simp only [stepEvent, writes, hu] at hm
      rw [hn] at hv
      by_cases hw : e.workID = w'
      · subst hw
        simp only [and_self, if_true, List.mem_cons, Prod.mk.injEq] at hm
        refine ⟨eventRec e, sys.st.now, by simp [stepEvent, lastWrite, hu], ?_⟩
        rcases hm with ⟨ht, hx, ha⟩ | hm
        · subst ht; subst hx; subst ha
          simp [eventRec]
        · obtain ⟨r0, t0, hl0, hle0, hx0, _⟩ := h.mono e.workID t x a hm hv
          rw [hlv] at hl0
          cases hl0
          refine ⟨by omega, by simp only [eventRec]; omega, ?_⟩
          intro _ hp; simp [eventRec] at hp
      · simp only [hw, false_and, if_false] at hm
        obtain ⟨r0, t0, hl0, rest⟩ := h.mono w' t x a hm hv
        exact ⟨r0, t0, by simp [stepEvent, lastWrite, hw, hl0], rest⟩

theorem inv_events {cfg : Cfg} (evs : List Event) : ∀ {sys : Sys}, Inv cfg sys →
    Inv cfg (evs.foldl (stepEvent cfg) sys) := by
  induction evs with
  | nil => intro sys h; exact h
  | cons e es ih => intro sys h; exact ih (inv_event h e)

theorem inv_step {cfg : Cfg} {sys : Sys} (h : Inv cfg sys) (op : Op) : Inv cfg (step cfg sys op) := by
  cases op with
  | accept w b => exact inv_accept h w b
  | poll evs => exact inv_events evs h
  | advance d => exact inv_advance h d
  | gc => exact inv_gc h
  | restart => exact inv_restart h

theorem inv_runFrom {cfg : Cfg} (ops : List Op) : ∀ {sys : Sys}, Inv cfg sys → Inv cfg (runFrom cfg sys ops) := by
  induction ops with
  | nil => intro sys h; exact h
  | cons op ops ih => intro sys h; exact ih (inv_step h op)

/-- the invariant holds after every history -/
theorem inv_run (cfg : Cfg) (ops : List Op) : Inv cfg (run cfg ops) :=
  inv_runFrom ops (inv_init cfg)

/-! ### interleaving model: the mutex makes both bodies atomic -/

theorem seqJobs_snoc (cfg : Cfg) (j : Job) : ∀ (js : List Job) (s : St),
    seqJobs cfg s (js ++ [j]) =
      ((doJob cfg (seqJobs cfg s js).1 j).1, (j, (doJob cfg (seqJobs cfg s js).1 j).2) :: (seqJobs cfg s js).2) := by
  intro js
  induction js with
  | nil => intro s; simp [seqJobs]
  | cons j' js ih => intro s; simp [seqJobs, ih]

theorem acceptSet_eq (cfg : Cfg) (s : St) (w : String) (b : Nat) :
    acceptSet cfg s w b (s.cache.get w s.now) = accept cfg s w b := by
  unfold acceptSet accept
  cases s.cache.get w s.now <;> rfl

theorem eventGet_inl {cfg : Cfg} {s : St} {e : Event} {d : Disp} (h : eventGet cfg s e = .inl d) :
    pollEvent cfg s e = (s, d) := by
  unfold eventGet at h
  unfold pollEvent
  by_cases hc : e.conf < cfg.minConf
  · simp only [hc, if_true] at h ⊢
    cases h; rfl
  · simp only [hc, if_false] at h ⊢
    cases hv : s.visited.get (visitedID e) s.now with
    | some _ => simp only [hv] at h ⊢; cases h; rfl
    | none =>
      simp only [hv] at h ⊢
      cases hg : s.cache.get e.workID s.now with
      | none => simp only [hg] at h ⊢; cases h; rfl
      | some v => simp [hg] at h

theorem eventGet_inr {cfg : Cfg} {s : St} {e : Event} {v : Rec} (h : eventGet cfg s e = .inr v) :
    pollEvent cfg s e = eventSet cfg s e v := by
  unfold eventGet at h
  unfold pollEvent eventSet
  by_cases hc : e.conf < cfg.minConf
  · simp [hc] at h
  · simp only [hc, if_false] at h ⊢
    cases hv : s.visited.get (visitedID e) s.now with
    | some _ => simp [hv] at h
    | none =>
      simp only [hv] at h ⊢
      cases hg : s.cache.get e.workID s.now with
      | none => simp [hg] at h
      | some v' =>
        simp only [hg, Sum.inr.injEq] at h ⊢
        subst h; rfl

/-- what the mutex guarantees between the two steps of a body -/
def LocOk (cfg : Cfg) (c : Conc) (i : Nat) (th : Thread) : Prop :=
  match th.loc with
  | none => c.holder ≠ some i
  | some (.acceptGot w _ v) => c.holder = some i ∧ v = c.st.cache.get w c.st.now
  | some (.eventGot e v) => c.holder = some i ∧ eventGet cfg c.st e = .inr v

structure CInv (cfg : Cfg) (s0 : St) (c : Conc) : Prop where
  seq : seqJobs cfg s0 (c.done.reverse.map (·.1)) = (c.st, c.done)
  locs : ∀ i th, c.threads[i]? = some th → LocOk cfg c i th

theorem cinv_start (cfg : Cfg) (s0 : St) (progs : List (List Job)) : CInv cfg s0 (Conc.start s0 progs) := by
  refine ⟨by simp [Conc.start, seqJobs], ?_⟩
  intro i th h
  simp only [Conc.start, List.getElem?_map] at h
  cases hp : progs[i]? with
  | none => simp [hp] at h
  | some js =>
    simp only [hp, Option.map_some, Option.some.injEq] at h
    subst h
    simp [LocOk, Conc.start]

private theorem others_idle {cfg : Cfg} {s0 : St} {c : Conc} (h : CInv cfg s0 c) {i : Nat}
    (hh : c.holder = some i ∨ c.holder = none) :
    ∀ k th, k ≠ i → c.threads[k]? = some th → th.loc = none := by
  intro k th hk hth
  have := h.locs k th hth
  unfold LocOk at this
  cases hl : th.loc with
  | none => rfl
  | some l =>
    rw [hl] at this
    cases l with
    | acceptGot w b v =>
      rcases hh with hh | hh <;> rw [hh] at this
      · simp at this; exact absurd this.1.symm hk
      · simp at this
    | eventGot e v =>
      rcases hh with hh | hh <;> rw [hh] at this
      · simp at this; exact absurd this.1.symm hk
      · simp at this

theorem cinv_step {cfg : Cfg} {s0 : St} {c : Conc} (h : CInv cfg s0 c) (i : Nat) :
    CInv cfg s0 (cstep cfg true c i) := by
  unfold cstep
  cases hth : c.threads[i]? with
  | none => exact h
  | some th =>
    have hi : i < c.threads.length := by
      rcases Nat.lt_or_ge i c.threads.length with hlt | hge
      · exact hlt
      · rw [List.getElem?_eq_none hge] at hth; cases hth
    have hloc := h.locs i th hth
    simp only
    cases hl : th.loc with
    | none =>
      simp only
      cases hj : th.jobs with
      | nil => exact h
      | cons j rest =>
        simp only [Bool.true_and]
        cases hh : c.holder with
        | some k => simpa [hh] using h
        | none =>
          have hidle := others_idle h (i := i) (Or.inr hh)
          simp only [Option.isSome_none, Bool.false_eq_true, if_false, if_true]
          cases j with
          | accept w b =>
            refine ⟨h.seq, ?_⟩
            intro k thk hk
            simp only [setThread] at hk
            by_cases hki : i = k
            · subst hki
              rw [List.getElem?_set_self hi] at hk
              cases hk
              simp [LocOk]
            · rw [List.getElem?_set_ne hki] at hk
              have := hidle k thk (fun hc => hki hc.symm) hk
              simp only [LocOk, this]
              intro hc; cases hc; exact hki rfl
          | event e =>
            cases hg : eventGet cfg c.st e with
            | inl d =>
              simp only [hg]
              refine ⟨?_, ?_⟩
              · simp only [List.reverse_cons, List.map_append, List.map_cons, List.map_nil]
                rw [seqJobs_snoc, h.seq]
                simp [doJob, eventGet_inl hg]
              · intro k thk hk
                simp only [setThread] at hk
                by_cases hki : i = k
                · subst hki
                  rw [List.getElem?_set_self hi] at hk
                  cases hk
                  simp [LocOk, hh]
                · rw [List.getElem?_set_ne hki] at hk
                  have := hidle k thk (fun hc => hki hc.symm) hk
                  simp [LocOk, this, hh]
            | inr v =>
              simp only [hg]
              refine ⟨h.seq, ?_⟩
              intro k thk hk
              simp only [setThread] at hk
              by_cases hki : i = k
              · subst hki
                rw [List.getElem?_set_self hi] at hk
                cases hk
                simp [LocOk, hg]
              · rw [List.getElem?_set_ne hki] at hk
                have := hidle k thk (fun hc => hki hc.symm) hk
                simp only [LocOk, this]
                intro hc; cases hc; exact hki rfl
    | some l =>
      unfold LocOk at hloc
      rw [hl] at hloc
      cases l with
      | acceptGot w b v =>
        simp only at hloc
        obtain ⟨hh, hv⟩ := hloc
        have hidle := others_idle h (i := i) (Or.inl hh)
        simp only [if_true]
        refine ⟨?_, ?_⟩
        · simp only [List.reverse_cons, List.map_append, List.map_cons, List.map_nil]
          rw [seqJobs_snoc, h.seq]
          simp [doJob, hv, acceptSet_eq]
        · intro k thk hk
          simp only [setThread] at hk
          by_cases hki : i = k
          · subst hki
            rw [List.getElem?_set_self hi] at hk
            cases hk
            simp [LocOk]
          · rw [List.getElem?_set_ne hki] at hk
            have := hidle k thk (fun hc => hki hc.symm) hk
            simp [LocOk, this]
      | eventGot e v =>
        simp only at hloc
        obtain ⟨hh, hv⟩ := hloc
        have hidle := others_idle h (i := i) (Or.inl hh)
        simp only [if_true]
        refine ⟨?_, ?_⟩
        · simp only [List.reverse_cons, List.map_append, List.map_cons, List.map_nil]
          rw [seqJobs_snoc, h.seq]
          simp [doJob, eventGet_inr hv]
        · intro k thk hk
          simp only [setThread] at hk
          by_cases hki : i = k
          · subst hki
            rw [List.getElem?_set_self hi] at hk
            cases hk
            simp [LocOk]
          · rw [List.getElem?_set_ne hki] at hk
            have := hidle k thk (fun hc => hki hc.symm) hk
            simp [LocOk, this]

theorem cinv_run {cfg : Cfg} {s0 : St} (sched : List Nat) : ∀ {c : Conc}, CInv cfg s0 c →
    CInv cfg s0 (crun cfg true c sched) := by
  induction sched with
  | nil => intro c h; exact h
  | cons i is ih => intro c h; exact ih (cinv_step h i)

/-! ### every finished schedule is a merge of the thread programs -/

/-- `out` is an interleaving of the lists `ls` (each element tagged with the index of its list) -/
inductive Interleave {α : Type} : List (List α) → List (Nat × α) → Prop
  | nil {ls : List (List α)} (h : ls.all List.isEmpty = true) : Interleave ls []
  | cons {ls : List (List α)} {i : Nat} {x : α} {rest : List α} {out : List (Nat × α)}
      (h : ls[i]? = some (x :: rest)) (t : Interleave (ls.set i rest) out) : Interleave ls ((i, x) :: out)

theorem totalJobs_empty {α : Type} : ∀ (ls : List (List α)), ls.all List.isEmpty = true → totalJobs ls = 0 := by
  intro ls
  induction ls with
  | nil => intro _; rfl
  | cons l ls ih =>
    intro h
    simp only [List.all_cons, Bool.and_eq_true] at h
    have hl : l = [] := by cases l with
      | nil => rfl
      | cons _ _ => simp at h
    have := ih h.2
    simp only [totalJobs, List.map_cons, List.sum_cons] at this ⊢
    simp [hl, this]

theorem totalJobs_set {α : Type} : ∀ (ls : List (List α)) (i : Nat) (x : α) (rest : List α),
    ls[i]? = some (x :: rest) → totalJobs ls = totalJobs (ls.set i rest) + 1 := by
  intro ls
  induction ls with
  | nil => intro i x rest h; simp at h
  | cons l ls ih =>
    intro i x rest h
    cases i with
    | zero =>
      simp only [List.getElem?_cons_zero, Option.some.injEq] at h
      subst h
      simp only [totalJobs, List.set_cons_zero, List.map_cons, List.sum_cons, List.length_cons]
      omega
    | succ k =>
      simp only [List.getElem?_cons_succ] at h
      have := ih k x rest h
      simp only [totalJobs, List.set_cons_succ, List.map_cons, List.sum_cons] at this ⊢
      omega

theorem Interleave.length {α : Type} {ls : List (List α)} {out : List (Nat × α)} (h : Interleave ls out) :
    out.length = totalJobs ls := by
  induction h with
  | nil h => simp [totalJobs_empty _ h]
  | cons h _ ih => rw [totalJobs_set _ _ _ _ h, List.length_cons, ih]

theorem Interleave.mem_merges {α : Type} {ls : List (List α)} {out : List (Nat × α)} (h : Interleave ls out) :
    ∀ fuel, out.length ≤ fuel → out ∈ merges fuel ls := by
  induction h with
  | nil h => intro fuel _; cases fuel <;> simp [merges, h]
  | @cons ls i x rest out h _ ih =>
    intro fuel hf
    cases fuel with
    | zero => simp at hf
    | succ f =>
      have hi : i < ls.length := by
        rcases Nat.lt_or_ge i ls.length with hlt | hge
        · exact hlt
        · rw [List.getElem?_eq_none hge] at h; cases h
      have hne : ls.all List.isEmpty = false := by
        cases hall : ls.all List.isEmpty with
        | false => rfl
        | true =>
          rw [List.all_eq_true] at hall
          have hm : (x :: rest) ∈ ls := List.mem_of_getElem? h
          have := hall _ hm
          simp at this
      unfold merges
      simp only [hne, Bool.false_eq_true, if_false, List.mem_flatMap, List.mem_range]
      refine ⟨i, hi, ?_⟩
      simp only [h, List.mem_map]
      exact ⟨out, ih f (by simp only [List.length_cons] at hf; omega), rfl⟩

/-- between its two steps a thread still has the job it is executing at the head of its list -/
def HeadOk (th : Thread) : Prop :=
  match th.loc with
  | none => True
  | some (.acceptGot w b _) => ∃ rest, th.jobs = .accept w b :: rest
  | some (.eventGot e _) => ∃ rest, th.jobs = .event e :: rest

/-- the completed jobs (in completion order, tagged with their threads) followed by any
    interleaving of what the threads still have to do are an interleaving of the programs -/
structure MInv (progs : List (List Job)) (threads : List Thread) (done : List (Job × LogE)) : Prop where
  ord : ∃ tord : List (Nat × Job), tord.map (·.2) = done.reverse.map (·.1) ∧
        ∀ out, Interleave (threads.map (·.jobs)) out → Interleave progs (tord ++ out)
  head : ∀ (i : Nat) (th : Thread), threads[i]? = some th → HeadOk th

theorem map_set_same {α β : Type} (f : α → β) (l : List α) (i : Nat) (a a' : α) (h : l[i]? = some a)
    (hf : f a' = f a) : (l.set i a').map f = l.map f := by
  have hi : i < l.length := by
    rcases Nat.lt_or_ge i l.length with hlt | hge
    · exact hlt
    · rw [List.getElem?_eq_none hge] at h; cases h
  rw [List.map_set, hf]
  apply List.ext_getElem?
  intro k
  by_cases hk : i = k
  · subst hk
    rw [List.getElem?_set_self (by simpa using hi)]
    simp [List.getElem?_map, h]
  · rw [List.getElem?_set_ne hk]

theorem minv_start (progs : List (List Job)) :
    MInv progs (progs.map (fun js => ({ jobs := js, loc := none } : Thread))) [] := by
  refine ⟨⟨[], rfl, ?_⟩, ?_⟩
  · intro out h
    simpa [List.map_map, Function.comp_def] using h
  · intro i th h
    simp only [List.getElem?_map] at h
    cases hp : progs[i]? with
    | none => simp [hp] at h
    | some js =>
      simp only [hp, Option.map_some, Option.some.injEq] at h
      subst h
      simp [HeadOk]

theorem minv_keep {progs : List (List Job)} {threads : List Thread} {done : List (Job × LogE)} {i : Nat}
    {th th' : Thread} (h : MInv progs threads done) (hth : threads[i]? = some th)
    (hj : th'.jobs = th.jobs) (hh : HeadOk th') : MInv progs (threads.set i th') done := by
  have hi : i < threads.length := by
    rcases Nat.lt_or_ge i threads.length with hlt | hge
    · exact hlt
    · rw [List.getElem?_eq_none hge] at hth; cases hth
  refine ⟨?_, ?_⟩
  · obtain ⟨tord, ht, hi'⟩ := h.ord
    refine ⟨tord, ht, ?_⟩
    intro out ho
    rw [map_set_same (·.jobs) threads i th th' hth hj] at ho
    exact hi' out ho
  · intro k thk hk
    by_cases hki : i = k
    · subst hki
      rw [List.getElem?_set_self hi] at hk
      cases hk; exact hh
    · rw [List.getElem?_set_ne hki] at hk
      exact h.head k thk hk

theorem minv_complete {progs : List (List Job)} {threads : List Thread} {done : List (Job × LogE)} {i : Nat}
    {th th' : Thread} {j : Job} {rest : List Job} (e : LogE) (h : MInv progs threads done)
    (hth : threads[i]? = some th) (hj : th.jobs = j :: rest) (hj' : th'.jobs = rest) (hl : th'.loc = none) :
    MInv progs (threads.set i th') ((j, e) :: done) := by
  have hi : i < threads.length := by
    rcases Nat.lt_or_ge i threads.length with hlt | hge
    · exact hlt
    · rw [List.getElem?_eq_none hge] at hth; cases hth
  refine ⟨?_, ?_⟩
  · obtain ⟨tord, ht, hi'⟩ := h.ord
    refine ⟨tord ++ [(i, j)], by simp [ht], ?_⟩
    intro out ho
    rw [List.map_set, hj'] at ho
    have hget : (threads.map (·.jobs))[i]? = some (j :: rest) := by
      simp [List.getElem?_map, hth, hj]
    have := hi' _ (Interleave.cons hget ho)
    simpa using this
  · intro k thk hk
    by_cases hki : i = k
    · subst hki
      rw [List.getElem?_set_self hi] at hk
      cases hk
      simp [HeadOk, hl]
    · rw [List.getElem?_set_ne hki] at hk
      exact h.head k thk hk

theorem minv_step {progs : List (List Job)} (cfg : Cfg) (mutexed : Bool) {c : Conc}
    (h : MInv progs c.threads c.done) (i : Nat) :
    MInv progs (cstep cfg mutexed c i).threads (cstep cfg mutexed c i).done := by
  unfold cstep
  cases hth : c.threads[i]? with
  | none => exact h
  | some th =>
    have hhead := h.head i th hth
    simp only
    cases hl : th.loc with
    | none =>
      simp only
      cases hj : th.jobs with
      | nil => exact h
      | cons j rest =>
        simp only
        by_cases hb : (mutexed && c.holder.isSome) = true
        · simp only [hb, if_true]; exact h
        · have hb' : (mutexed && c.holder.isSome) = false := by
            cases hx : (mutexed && c.holder.isSome) with
            | false => rfl
            | true => exact absurd hx hb
          simp only [hb', Bool.false_eq_true, if_false]
          cases j with
          | accept w b =>
            simp only [setThread]
            refine minv_keep h hth ?_ ?_
            · exact hj.symm
            · exact ⟨rest, rfl⟩
          | event e =>
            cases hg : eventGet cfg c.st e with
            | inl d =>
              simp only [hg, setThread]
              refine minv_complete _ h hth hj ?_ ?_ <;> rfl
            | inr v =>
              simp only [hg, setThread]
              refine minv_keep h hth ?_ ?_
              · exact hj.symm
              · exact ⟨rest, rfl⟩
    | some l =>
      unfold HeadOk at hhead
      rw [hl] at hhead
      cases l with
      | acceptGot w b v =>
        simp only at hhead
        obtain ⟨rest, hj⟩ := hhead
        simp only [setThread]
        refine minv_complete _ h hth hj ?_ ?_
        · simp [hj]
        · rfl
      | eventGot e v =>
        simp only at hhead
        obtain ⟨rest, hj⟩ := hhead
        simp only [setThread]
        refine minv_complete _ h hth hj ?_ ?_
        · simp [hj]
        · rfl

theorem minv_run {progs : List (List Job)} (cfg : Cfg) (mutexed : Bool) (sched : List Nat) : ∀ {c : Conc},
    MInv progs c.threads c.done →
    MInv progs (crun cfg mutexed c sched).threads (crun cfg mutexed c sched).done := by
  induction sched with
  | nil => intro c h; exact h
  | cons i is ih => intro c h; exact ih (minv_step cfg mutexed h i)

/-- the state part of `runTagged` is the sequential execution of the untagged jobs -/
theorem runTagged_state (cfg : Cfg) : ∀ (ord : List (Nat × Job)) (s : St),
    (runTagged cfg s ord).1 = (seqJobs cfg s (ord.map (·.2))).1 := by
  intro ord
  induction ord with
  | nil => intro s; rfl
  | cons p ord ih =>
    intro s
    obtain ⟨i, j⟩ := p
    cases j with
    | accept w b => simp [runTagged, seqJobs, doJob, ih]
    | event e => simp [runTagged, seqJobs, doJob, ih]

/-- the `Accept` answer recorded in a ghost entry -/
def answerOf : Job × LogE → Option Bool
  | (_, .accept _ _ _ ok) => some ok
  | _ => none

/-- the answers of `runTagged` are the `Accept` answers of the sequential execution, oldest first -/
theorem runTagged_answers (cfg : Cfg) : ∀ (ord : List (Nat × Job)) (s : St),
    (runTagged cfg s ord).2.map (·.2) = (seqJobs cfg s (ord.map (·.2))).2.reverse.filterMap answerOf := by
  intro ord
  induction ord with
  | nil => intro s; rfl
  | cons p ord ih =>
    intro s
    obtain ⟨i, j⟩ := p
    cases j with
    | accept w b => simp [runTagged, seqJobs, doJob, ih, answerOf]
    | event e => simp [runTagged, seqJobs, doJob, ih, answerOf, List.filterMap_cons]

end AutoVerif.C06
