import AutoVerif.Spec.C14
/-
Helper lemmas and inductive invariants for C14 (see Props/C14.lean for the
property theorems).  Core Lean only.

Every invariant `XInv` comes with `x_step` (preserved by every label — the proof is one
`cases l` over the 45 labels with a uniform tactic and a few special cases), `x_init`
and `x_reach`.  FlowInv / WorkInv / NextInv / ObsInv hold for both variants of the code,
LiveInv for the repaired one.
-/
namespace AutoVerif.C14
set_option linter.unusedSimpArgs false
set_option linter.unusedVariables false

theorem ite_some_none {α} {c : Prop} [Decidable c] {a b : α} :
    (if c then some a else none) = some b ↔ c ∧ a = b := by
  split <;> simp_all

/-! ### lists -/

theorem countP_erase_add {f : Job → Bool} {j : Job} {l : List Job} (h : j ∈ l) :
    (l.erase j).countP f + (if f j then 1 else 0) = l.countP f := by
  induction l with
  | nil => simp at h
  | cons a t ih =>
    by_cases ha : a = j
    · subst ha; simp [List.countP_cons]
    · have hj : j ∈ t := by
        rcases List.mem_cons.mp h with h | h
        · exact absurd h.symm ha
        · exact h
      have hb : (a == j) = false := by simpa using ha
      rw [List.erase_cons, hb]
      simp only [Bool.false_eq_true, ↓reduceIte, List.countP_cons]
      have := ih hj
      omega

theorem countP_filter_split (f q : Job → Bool) (l : List Job) :
    (l.filter q).countP f + (l.filter (fun j => !q j)).countP f = l.countP f := by
  induction l with
  | nil => simp
  | cons a t ih =>
    cases hq : q a <;> simp [List.filter_cons, hq, List.countP_cons] <;> omega

theorem filter_ne_of_countP_eq_zero {g : Nat} {l : List Job}
    (h : l.countP (fun j => j.grp == g) = 0) : l.filter (fun j => j.grp != g) = l := by
  induction l with
  | nil => simp
  | cons a t ih =>
    simp only [List.countP_cons] at h
    have h1 : (a.grp == g) = false := by
      cases hh : (a.grp == g) <;> simp_all
    have h2 : t.countP (fun j => j.grp == g) = 0 := by omega
    have h3 : (a.grp != g) = true := by simp [bne, h1]
    rw [List.filter_cons, h3, if_pos rfl, ih h2]

theorem length_erase_add {j : Job} {l : List Job} (h : j ∈ l) : (l.erase j).length + 1 = l.length := by
  have := List.length_erase_of_mem h
  have : 0 < l.length := List.length_pos_of_mem h
  omega

theorem countP_isGrp_filter_ne (k g : Nat) (l : List Job) :
    (l.filter (fun j => j.grp != g)).countP (isGrp k) = if k = g then 0 else l.countP (isGrp k) := by
  induction l with
  | nil => simp
  | cons a t ih =>
    by_cases ha : a.grp = g
    · have : (a.grp != g) = false := by simp [bne, ha]
      rw [List.filter_cons, this]
      simp only [Bool.false_eq_true, ↓reduceIte, List.countP_cons, ih]
      split
      · rfl
      · rename_i hk
        have : isGrp k a = false := by simp [isGrp, ha]; omega
        simp [this]
    · have : (a.grp != g) = true := by simp [bne, ha]
      rw [List.filter_cons, this]
      simp only [↓reduceIte, List.countP_cons, ih]
      split
      · rename_i hk
        have : isGrp k a = false := by simp [isGrp]; omega
        simp [this]
      · rfl

theorem countP_isGrp_filter_eq (k g : Nat) (l : List Job) :
    (l.filter (fun j => j.grp == g)).countP (isGrp k) = if k = g then l.countP (isGrp g) else 0 := by
  induction l with
  | nil => simp
  | cons a t ih =>
    by_cases ha : a.grp = g
    · have : (a.grp == g) = true := by simp [ha]
      rw [List.filter_cons, this]
      simp only [↓reduceIte, List.countP_cons, ih]
      split
      · rename_i hk; subst hk; rfl
      · rename_i hk
        have : isGrp k a = false := by simp [isGrp, ha]; omega
        simp [this]
    · have h1 : (a.grp == g) = false := by simp [ha]
      rw [List.filter_cons, h1]
      simp only [Bool.false_eq_true, ↓reduceIte, List.countP_cons, ih]
      have : isGrp g a = false := by simp [isGrp, ha]
      simp [this]

theorem countP_isGrp_of_find_none {g : Nat} {l : List Job}
    (h : l.find? (fun k => k.grp == g) = none) : l.countP (isGrp g) = 0 := by
  rw [List.countP_eq_zero]
  intro a ha
  have := List.find?_eq_none.mp h a ha
  simpa [isGrp] using this

theorem find_isSome_of_countP_pos {g : Nat} {l : List Job}
    (h : 0 < l.countP (isGrp g)) : ∃ j, l.find? (fun k => k.grp == g) = some j ∧ j.grp = g := by
  cases hf : l.find? (fun k => k.grp == g) with
  | none => have := countP_isGrp_of_find_none hf; omega
  | some j =>
    refine ⟨j, rfl, ?_⟩
    have := List.find?_some hf
    simpa using this

theorem countP_erase_le (f : Job → Bool) (j : Job) (l : List Job) : (l.erase j).countP f ≤ l.countP f := by
  by_cases h : j ∈ l
  · have := countP_erase_add (f := f) h; omega
  · rw [List.erase_of_not_mem h]; omega

/-! ### items in transit -/

@[simp] theorem optList_none : optList none = [] := rfl
@[simp] theorem optList_some (j : Job) : optList (some j) = [j] := rfl
@[simp] theorem qhand_select : QPc.hand .select = [] := rfl
@[simp] theorem qhand_add (j : Job) : QPc.hand (.add j) = [j] := rfl
@[simp] theorem qhand_notify : QPc.hand .notify = [] := rfl
@[simp] theorem qhand_drain : QPc.hand .drain = [] := rfl
@[simp] theorem qhand_drainAdd (j : Job) : QPc.hand (.drainAdd j) = [j] := rfl
@[simp] theorem qhand_sendStop : QPc.hand .sendStop = [] := rfl
@[simp] theorem qhand_exited : QPc.hand .exited = [] := rfl
@[simp] theorem phand_select : PPc.hand .select = [] := rfl
@[simp] theorem phand_len (f : Bool) : PPc.hand (.len f) = [] := rfl
@[simp] theorem phand_pop (f : Bool) : PPc.hand (.pop f) = [] := rfl
@[simp] theorem phand_doJob (f : Bool) (j : Job) : PPc.hand (.doJob f j) = [j] := rfl
@[simp] theorem phand_exited : PPc.hand .exited = [] := rfl
@[simp] theorem phand_ite_exit (f : Bool) : PPc.hand (if f = true then PPc.exited else PPc.select) = [] := by
  cases f <;> rfl
@[simp] theorem qhand_ite_drain (f : Bool) : QPc.hand (if f = true then QPc.drain else QPc.sendStop) = [] := by
  cases f <;> rfl

/-! ### pc predicates on constructors (so that `simp` never unfolds them into a `match`) -/

@[simp] theorem inDo_loop : SubPc.inDo .loop = false := rfl
@[simp] theorem inDo_doCtx : SubPc.inDo .doCtx = true := rfl
@[simp] theorem inDo_rlock : SubPc.inDo .rlock = true := rfl
@[simp] theorem inDo_closedCheck : SubPc.inDo .closedCheck = true := rfl
@[simp] theorem inDo_select : SubPc.inDo .select = true := rfl
@[simp] theorem inDo_runlockOk : SubPc.inDo .runlockOk = false := rfl
@[simp] theorem inDo_runlockFail : SubPc.inDo .runlockFail = true := rfl
@[simp] theorem inDo_failDone : SubPc.inDo .failDone = true := rfl
@[simp] theorem inDo_wait : SubPc.inDo .wait = false := rfl
@[simp] theorem inDo_remove : SubPc.inDo .remove = false := rfl
@[simp] theorem inDo_closeEnd : SubPc.inDo .closeEnd = false := rfl
@[simp] theorem inDo_returned : SubPc.inDo .returned = false := rfl
@[simp] theorem inDo_ite (c : Prop) [Decidable c] (a b : SubPc) : SubPc.inDo (if c then a else b) = if c then SubPc.inDo a else SubPc.inDo b := by split <;> rfl
@[simp] theorem holdsR_loop : SubPc.holdsR .loop = false := rfl
@[simp] theorem holdsR_doCtx : SubPc.holdsR .doCtx = false := rfl
@[simp] theorem holdsR_rlock : SubPc.holdsR .rlock = false := rfl
@[simp] theorem holdsR_closedCheck : SubPc.holdsR .closedCheck = true := rfl
@[simp] theorem holdsR_select : SubPc.holdsR .select = true := rfl
@[simp] theorem holdsR_runlockOk : SubPc.holdsR .runlockOk = true := rfl
@[simp] theorem holdsR_runlockFail : SubPc.holdsR .runlockFail = true := rfl
@[simp] theorem holdsR_failDone : SubPc.holdsR .failDone = false := rfl
@[simp] theorem holdsR_wait : SubPc.holdsR .wait = false := rfl
@[simp] theorem holdsR_remove : SubPc.holdsR .remove = false := rfl
@[simp] theorem holdsR_closeEnd : SubPc.holdsR .closeEnd = false := rfl
@[simp] theorem holdsR_returned : SubPc.holdsR .returned = false := rfl
@[simp] theorem holdsR_ite (c : Prop) [Decidable c] (a b : SubPc) : SubPc.holdsR (if c then a else b) = if c then SubPc.holdsR a else SubPc.holdsR b := by split <;> rfl
@[simp] theorem past_loop : SubPc.past .loop = false := rfl
@[simp] theorem past_doCtx : SubPc.past .doCtx = false := rfl
@[simp] theorem past_rlock : SubPc.past .rlock = false := rfl
@[simp] theorem past_closedCheck : SubPc.past .closedCheck = false := rfl
@[simp] theorem past_select : SubPc.past .select = false := rfl
@[simp] theorem past_runlockOk : SubPc.past .runlockOk = false := rfl
@[simp] theorem past_runlockFail : SubPc.past .runlockFail = false := rfl
@[simp] theorem past_failDone : SubPc.past .failDone = false := rfl
@[simp] theorem past_wait : SubPc.past .wait = false := rfl
@[simp] theorem past_remove : SubPc.past .remove = true := rfl
@[simp] theorem past_closeEnd : SubPc.past .closeEnd = true := rfl
@[simp] theorem past_returned : SubPc.past .returned = true := rfl
@[simp] theorem past_ite (c : Prop) [Decidable c] (a b : SubPc) : SubPc.past (if c then a else b) = if c then SubPc.past a else SubPc.past b := by split <;> rfl
@[simp] theorem upd_same (f : Nat → Caller) (g : Nat) (c : Caller) : upd f g c g = c := by simp [upd]
theorem upd_other (f : Nat → Caller) {g k : Nat} (c : Caller) (h : k ≠ g) : upd f g c k = f k := by simp [upd, h]

/-! ### more pc predicates on constructors -/

@[simp] theorem qpc_stopping_select  : QPc.stopping .select = false := rfl
@[simp] theorem qpc_stopping_add (j : Job) : QPc.stopping (.add j) = false := rfl
@[simp] theorem qpc_stopping_notify  : QPc.stopping .notify = false := rfl
@[simp] theorem qpc_stopping_drain  : QPc.stopping .drain = true := rfl
@[simp] theorem qpc_stopping_drainAdd (j : Job) : QPc.stopping (.drainAdd j) = true := rfl
@[simp] theorem qpc_stopping_sendStop  : QPc.stopping .sendStop = true := rfl
@[simp] theorem qpc_stopping_exited  : QPc.stopping .exited = true := rfl
@[simp] theorem qpc_afterDrain_select  : QPc.afterDrain .select = false := rfl
@[simp] theorem qpc_afterDrain_add (j : Job) : QPc.afterDrain (.add j) = false := rfl
@[simp] theorem qpc_afterDrain_notify  : QPc.afterDrain .notify = false := rfl
@[simp] theorem qpc_afterDrain_drain  : QPc.afterDrain .drain = false := rfl
@[simp] theorem qpc_afterDrain_drainAdd (j : Job) : QPc.afterDrain (.drainAdd j) = false := rfl
@[simp] theorem qpc_afterDrain_sendStop  : QPc.afterDrain .sendStop = true := rfl
@[simp] theorem qpc_afterDrain_exited  : QPc.afterDrain .exited = true := rfl
@[simp] theorem qpc_pushes_select  : QPc.pushes .select = false := rfl
@[simp] theorem qpc_pushes_add (j : Job) : QPc.pushes (.add j) = false := rfl
@[simp] theorem qpc_pushes_notify  : QPc.pushes .notify = true := rfl
@[simp] theorem qpc_pushes_drain  : QPc.pushes .drain = true := rfl
@[simp] theorem qpc_pushes_drainAdd (j : Job) : QPc.pushes (.drainAdd j) = true := rfl
@[simp] theorem qpc_pushes_sendStop  : QPc.pushes .sendStop = true := rfl
@[simp] theorem qpc_pushes_exited  : QPc.pushes .exited = false := rfl
@[simp] theorem ppc_final_select  : PPc.final .select = false := rfl
@[simp] theorem ppc_final_len (f : Bool) : PPc.final (.len f) = f := rfl
@[simp] theorem ppc_final_pop (f : Bool) : PPc.final (.pop f) = f := rfl
@[simp] theorem ppc_final_doJob (f : Bool) (j : Job) : PPc.final (.doJob f j) = f := rfl
@[simp] theorem ppc_final_exited  : PPc.final .exited = true := rfl
@[simp] theorem ppc_working_select  : PPc.working .select = false := rfl
@[simp] theorem ppc_working_len (f : Bool) : PPc.working (.len f) = true := rfl
@[simp] theorem ppc_working_pop (f : Bool) : PPc.working (.pop f) = true := rfl
@[simp] theorem ppc_working_doJob (f : Bool) (j : Job) : PPc.working (.doJob f j) = true := rfl
@[simp] theorem ppc_working_exited  : PPc.working .exited = false := rfl
@[simp] theorem tpc_started_idle  : TPc.started .idle = false := rfl
@[simp] theorem tpc_started_lock  : TPc.started .lock = true := rfl
@[simp] theorem tpc_started_lockWait  : TPc.started .lockWait = true := rfl
@[simp] theorem tpc_started_set  : TPc.started .set = true := rfl
@[simp] theorem tpc_started_unlock  : TPc.started .unlock = true := rfl
@[simp] theorem tpc_started_send  : TPc.started .send = true := rfl
@[simp] theorem tpc_started_done  : TPc.started .done = true := rfl
@[simp] theorem tpc_pending_idle  : TPc.pending .idle = false := rfl
@[simp] theorem tpc_pending_lock  : TPc.pending .lock = false := rfl
@[simp] theorem tpc_pending_lockWait  : TPc.pending .lockWait = true := rfl
@[simp] theorem tpc_pending_set  : TPc.pending .set = false := rfl
@[simp] theorem tpc_pending_unlock  : TPc.pending .unlock = false := rfl
@[simp] theorem tpc_pending_send  : TPc.pending .send = false := rfl
@[simp] theorem tpc_pending_done  : TPc.pending .done = false := rfl
@[simp] theorem tpc_held_idle  : TPc.held .idle = false := rfl
@[simp] theorem tpc_held_lock  : TPc.held .lock = false := rfl
@[simp] theorem tpc_held_lockWait  : TPc.held .lockWait = false := rfl
@[simp] theorem tpc_held_set  : TPc.held .set = true := rfl
@[simp] theorem tpc_held_unlock  : TPc.held .unlock = true := rfl
@[simp] theorem tpc_held_send  : TPc.held .send = false := rfl
@[simp] theorem tpc_held_done  : TPc.held .done = false := rfl
@[simp] theorem tpc_closed_idle  : TPc.closed .idle = false := rfl
@[simp] theorem tpc_closed_lock  : TPc.closed .lock = false := rfl
@[simp] theorem tpc_closed_lockWait  : TPc.closed .lockWait = false := rfl
@[simp] theorem tpc_closed_set  : TPc.closed .set = false := rfl
@[simp] theorem tpc_closed_unlock  : TPc.closed .unlock = true := rfl
@[simp] theorem tpc_closed_send  : TPc.closed .send = true := rfl
@[simp] theorem tpc_closed_done  : TPc.closed .done = true := rfl
@[simp] theorem tpc_isDone_idle  : TPc.isDone .idle = false := rfl
@[simp] theorem tpc_isDone_lock  : TPc.isDone .lock = false := rfl
@[simp] theorem tpc_isDone_lockWait  : TPc.isDone .lockWait = false := rfl
@[simp] theorem tpc_isDone_set  : TPc.isDone .set = false := rfl
@[simp] theorem tpc_isDone_unlock  : TPc.isDone .unlock = false := rfl
@[simp] theorem tpc_isDone_send  : TPc.isDone .send = false := rfl
@[simp] theorem tpc_isDone_done  : TPc.isDone .done = true := rfl


/-! ### weights on constructors -/

@[simp] theorem offering_loop : SubPc.offering .loop = false := rfl
@[simp] theorem subw_loop : SubPc.weight .loop = 10 := rfl
@[simp] theorem offering_doCtx : SubPc.offering .doCtx = true := rfl
@[simp] theorem subw_doCtx : SubPc.weight .doCtx = 9 := rfl
@[simp] theorem offering_rlock : SubPc.offering .rlock = true := rfl
@[simp] theorem subw_rlock : SubPc.weight .rlock = 8 := rfl
@[simp] theorem offering_closedCheck : SubPc.offering .closedCheck = true := rfl
@[simp] theorem subw_closedCheck : SubPc.weight .closedCheck = 7 := rfl
@[simp] theorem offering_select : SubPc.offering .select = true := rfl
@[simp] theorem subw_select : SubPc.weight .select = 6 := rfl
@[simp] theorem offering_runlockOk : SubPc.offering .runlockOk = false := rfl
@[simp] theorem subw_runlockOk : SubPc.weight .runlockOk = 11 := rfl
@[simp] theorem offering_runlockFail : SubPc.offering .runlockFail = false := rfl
@[simp] theorem subw_runlockFail : SubPc.weight .runlockFail = 5 := rfl
@[simp] theorem offering_failDone : SubPc.offering .failDone = false := rfl
@[simp] theorem subw_failDone : SubPc.weight .failDone = 4 := rfl
@[simp] theorem offering_wait : SubPc.offering .wait = false := rfl
@[simp] theorem subw_wait : SubPc.weight .wait = 3 := rfl
@[simp] theorem offering_remove : SubPc.offering .remove = false := rfl
@[simp] theorem subw_remove : SubPc.weight .remove = 2 := rfl
@[simp] theorem offering_closeEnd : SubPc.offering .closeEnd = false := rfl
@[simp] theorem subw_closeEnd : SubPc.weight .closeEnd = 1 := rfl
@[simp] theorem offering_returned : SubPc.offering .returned = false := rfl
@[simp] theorem subw_returned : SubPc.weight .returned = 0 := rfl
@[simp] theorem rdw_select : RdPc.weight .select = 1 := rfl
@[simp] theorem rdw_results : RdPc.weight .results = 3 := rfl
@[simp] theorem rdw_deliver : RdPc.weight .deliver = 2 := rfl
@[simp] theorem rdw_exited : RdPc.weight .exited = 0 := rfl
@[simp] theorem qw_select : QPc.weight .select = 0 := rfl
@[simp] theorem qw_add (j : Job) : QPc.weight (.add j) = 0 := rfl
@[simp] theorem qw_notify : QPc.weight .notify = 4 := rfl
@[simp] theorem qw_drain : QPc.weight .drain = 4 := rfl
@[simp] theorem qw_drainAdd (j : Job) : QPc.weight (.drainAdd j) = 4 := rfl
@[simp] theorem qw_sendStop : QPc.weight .sendStop = 3 := rfl
@[simp] theorem qw_exited : QPc.weight .exited = 0 := rfl
@[simp] theorem pw_select : PPc.weight .select = 0 := rfl
@[simp] theorem pw_len (f : Bool) : PPc.weight (.len f) = 2 := rfl
@[simp] theorem pw_pop (f : Bool) : PPc.weight (.pop f) = 1 := rfl
@[simp] theorem pw_doJob (f : Bool) (j : Job) : PPc.weight (.doJob f j) = 0 := rfl
@[simp] theorem pw_exited : PPc.weight .exited = 0 := rfl
@[simp] theorem tw_idle : TPc.weight .idle = 10 := rfl
@[simp] theorem tw_lock : TPc.weight .lock = 9 := rfl
@[simp] theorem tw_lockWait : TPc.weight .lockWait = 8 := rfl
@[simp] theorem tw_set : TPc.weight .set = 7 := rfl
@[simp] theorem tw_unlock : TPc.weight .unlock = 6 := rfl
@[simp] theorem tw_send : TPc.weight .send = 5 := rfl
@[simp] theorem tw_done : TPc.weight .done = 0 := rfl
@[simp] theorem subw_ite (c : Prop) [Decidable c] (a b : SubPc) : SubPc.weight (if c then a else b) = if c then a.weight else b.weight := by split <;> rfl
@[simp] theorem pw_ite (c : Prop) [Decidable c] (a b : PPc) : PPc.weight (if c then a else b) = if c then a.weight else b.weight := by split <;> rfl
@[simp] theorem qw_ite (c : Prop) [Decidable c] (a b : QPc) : QPc.weight (if c then a else b) = if c then a.weight else b.weight := by split <;> rfl
@[simp] theorem tw_ite (c : Prop) [Decidable c] (a b : TPc) : TPc.weight (if c then a else b) = if c then a.weight else b.weight := by split <;> rfl
@[simp] theorem offering_ite (c : Prop) [Decidable c] (a b : SubPc) : SubPc.offering (if c then a else b) = if c then a.offering else b.offering := by split <;> rfl
@[simp] theorem phand_ite (c : Prop) [Decidable c] (a b : PPc) : PPc.hand (if c then a else b) = if c then a.hand else b.hand := by split <;> rfl
@[simp] theorem qhand_ite (c : Prop) [Decidable c] (a b : QPc) : QPc.hand (if c then a else b) = if c then a.hand else b.hand := by split <;> rfl

theorem length_filter_split (q : Job → Bool) (l : List Job) :
    (l.filter q).length + (l.filter (fun j => !q j)).length = l.length := by
  induction l with
  | nil => simp
  | cons a t ih =>
    cases hq : q a <;> simp [List.filter_cons, hq] <;> omega

@[simp] theorem failing_loop : SubPc.failing .loop = false := rfl
@[simp] theorem finished_loop : SubPc.finished .loop = false := rfl
@[simp] theorem failing_doCtx : SubPc.failing .doCtx = false := rfl
@[simp] theorem finished_doCtx : SubPc.finished .doCtx = false := rfl
@[simp] theorem failing_rlock : SubPc.failing .rlock = false := rfl
@[simp] theorem finished_rlock : SubPc.finished .rlock = false := rfl
@[simp] theorem failing_closedCheck : SubPc.failing .closedCheck = false := rfl
@[simp] theorem finished_closedCheck : SubPc.finished .closedCheck = false := rfl
@[simp] theorem failing_select : SubPc.failing .select = false := rfl
@[simp] theorem finished_select : SubPc.finished .select = false := rfl
@[simp] theorem failing_runlockOk : SubPc.failing .runlockOk = false := rfl
@[simp] theorem finished_runlockOk : SubPc.finished .runlockOk = false := rfl
@[simp] theorem failing_runlockFail : SubPc.failing .runlockFail = true := rfl
@[simp] theorem finished_runlockFail : SubPc.finished .runlockFail = false := rfl
@[simp] theorem failing_failDone : SubPc.failing .failDone = true := rfl
@[simp] theorem finished_failDone : SubPc.finished .failDone = false := rfl
@[simp] theorem failing_wait : SubPc.failing .wait = false := rfl
@[simp] theorem finished_wait : SubPc.finished .wait = true := rfl
@[simp] theorem failing_remove : SubPc.failing .remove = false := rfl
@[simp] theorem finished_remove : SubPc.finished .remove = true := rfl
@[simp] theorem failing_closeEnd : SubPc.failing .closeEnd = false := rfl
@[simp] theorem finished_closeEnd : SubPc.finished .closeEnd = true := rfl
@[simp] theorem failing_returned : SubPc.failing .returned = false := rfl
@[simp] theorem finished_returned : SubPc.finished .returned = true := rfl
@[simp] theorem failing_ite (c : Prop) [Decidable c] (a b : SubPc) : SubPc.failing (if c then a else b) = if c then a.failing else b.failing := by split <;> rfl
@[simp] theorem finished_ite (c : Prop) [Decidable c] (a b : SubPc) : SubPc.finished (if c then a else b) = if c then a.finished else b.finished := by split <;> rfl

/-! ### sums over callers -/

theorem sumTo_congr {n : Nat} {f f' : Nat → Nat} (h : ∀ k, k < n → f k = f' k) : sumTo n f = sumTo n f' := by
  induction n with
  | zero => rfl
  | succ n ih =>
    simp only [sumTo]
    rw [ih (fun k hk => h k (by omega)), h n (by omega)]

theorem sumTo_upd {n g : Nat} (F : Caller → Nat) (c : Nat → Caller) (v : Caller) (hg : g < n) :
    sumTo n (fun k => F (upd c g v k)) + F (c g) = sumTo n (fun k => F (c k)) + F v := by
  induction n with
  | zero => omega
  | succ n ih =>
    simp only [sumTo]
    by_cases h : g = n
    · subst h
      have : sumTo g (fun k => F (upd c g v k)) = sumTo g (fun k => F (c k)) :=
        sumTo_congr (fun k hk => by rw [upd_other _ _ (Nat.ne_of_lt hk)])
      simp [this]; omega
    · have := ih (by omega)
      have h2 : upd c g v n = c n := by simp [upd]; intro h'; exact absurd h'.symm h
      rw [h2]; omega

theorem sumTo_upd' {n g : Nat} (F : Caller → Nat) (c : Nat → Caller) (v : Caller) (hg : g < n) :
    sumTo n (fun k => F (upd c g v k)) = sumTo n (fun k => F (c k)) + F v - F (c g) := by
  have := sumTo_upd F c v hg
  omega

theorem sumTo_upd2 {n g : Nat} (F : Nat → Caller → Nat) (c : Nat → Caller) (v : Caller) (hg : g < n) :
    sumTo n (fun k => F k (upd c g v k)) + F g (c g) = sumTo n (fun k => F k (c k)) + F g v := by
  induction n with
  | zero => omega
  | succ n ih =>
    simp only [sumTo]
    by_cases h : g = n
    · subst h
      have : sumTo g (fun k => F k (upd c g v k)) = sumTo g (fun k => F k (c k)) :=
        sumTo_congr (fun k hk => by rw [upd_other _ _ (Nat.ne_of_lt hk)])
      simp [this]; omega
    · have := ih (by omega)
      have h2 : upd c g v n = c n := by simp [upd]; intro h'; exact absurd h'.symm h
      rw [h2]; omega

theorem sumTo_upd2' {n g : Nat} (F : Nat → Caller → Nat) (c : Nat → Caller) (v : Caller) (hg : g < n) :
    sumTo n (fun k => F k (upd c g v k)) = sumTo n (fun k => F k (c k)) + F g v - F g (c g) := by
  have := sumTo_upd2 F c v hg
  omega

theorem sumTo_ge {n g : Nat} (f : Nat → Nat) (hg : g < n) : f g ≤ sumTo n f := by
  induction n with
  | zero => omega
  | succ n ih =>
    simp only [sumTo]
    by_cases h : g = n
    · subst h; omega
    · have := ih (by omega); omega

theorem sumTo_pos {n : Nat} {f : Nat → Nat} (h : 0 < sumTo n f) : ∃ k, k < n ∧ 0 < f k := by
  induction n with
  | zero => simp [sumTo] at h
  | succ n ih =>
    simp only [sumTo] at h
    by_cases h0 : 0 < f n
    · exact ⟨n, by omega, h0⟩
    · obtain ⟨k, hk, hp⟩ := ih (by omega)
      exact ⟨k, by omega, hp⟩

theorem sumTo_zero {n : Nat} {f : Nat → Nat} (h : sumTo n f = 0) : ∀ k, k < n → f k = 0 := by
  induction n with
  | zero => intro k hk; omega
  | succ n ih =>
    simp only [sumTo] at h
    intro k hk
    by_cases hkn : k = n
    · subst hkn; omega
    · exact ih (by omega) k (by omega)

/-! ### flow invariant: conservation of jobs, WaitGroup accounting (both variants) -/

structure FlowInv (s : State) : Prop where
  cons : ∀ f, pipe s f + s.delivered.countP f = s.accepted.countP f
  wait : ∀ g, (s.callers g).wait + s.delivered.countP (isGrp g) =
    s.accepted.countP (isGrp g) + (if (s.callers g).sub.inDo then 1 else 0)
  idx : ∀ j ∈ s.accepted, j.idx < (s.callers j.grp).next
  nodup : s.accepted.Nodup
  nopanic : s.panicked = false
  w0 : ∀ g, (s.callers g).sub.past = true → (s.callers g).wait = 0

/-- a caller past `wait.Wait()` has nothing left in the pipeline -/
theorem FlowInv.pipe_zero {s : State} (h : FlowInv s) {g : Nat} (hp : (s.callers g).sub.past = true) :
    pipe s (isGrp g) = 0 := by
  have h1 := h.cons (isGrp g)
  have h2 := h.wait g
  have h3 := h.w0 g hp
  have h4 : (s.callers g).sub.inDo = false := by
    cases hs : (s.callers g).sub <;> simp_all [SubPc.past]
  simp [h3, h4] at h2
  omega

theorem flow_cons {cfg : Cfg} {s s' : State} {l : Label} (h : FlowInv s)
    (hs : step cfg s l = some s') : ∀ f, pipe s' f + s'.delivered.countP f = s'.accepted.countP f := by
  intro f
  have hc := h.cons f
  cases l <;> simp only [step, ite_some_none] at hs <;> obtain ⟨hg, rfl⟩ := hs <;>
    simp only [pipe, State.setC] at hc ⊢ <;>
    (try (simp [hg, List.countP_append, List.countP_cons] at hc ⊢)) <;> try omega
  case subRemove g =>
    have hz := h.pipe_zero (g := g) (by simp [hg.2])
    have : s.results.countP (fun j => j.grp == g) = 0 := by
      simp only [pipe] at hz; unfold isGrp at hz; omega
    rw [filter_ne_of_countP_eq_zero this]; omega
  case rdResults g =>
    have := countP_filter_split f (fun j => j.grp == g) s.results
    simp only [bne] at *
    omega
  case rdDeliver j =>
    have := countP_erase_add (f := f) (List.mem_of_find?_eq_some hg.2.2)
    omega
  case pPop b j =>
    cases hq : s.queue with
    | nil => simp [hq] at hg
    | cons a t =>
      simp [hq] at hg hc ⊢
      simp [hg.2, List.countP_cons] at hc ⊢
      omega
  case wCheckOk j => have := countP_erase_add (f := f) hg; omega
  case wCheckErr j => have := countP_erase_add (f := f) hg.1; omega
  case wRun j => have := countP_erase_add (f := f) hg.1; omega
  case wStore j => have := countP_erase_add (f := f) hg; omega


theorem flow_wait {cfg : Cfg} {s s' : State} {l : Label} (h : FlowInv s)
    (hs : step cfg s l = some s') : ∀ g, (s'.callers g).wait + s'.delivered.countP (isGrp g) =
    s'.accepted.countP (isGrp g) + (if (s'.callers g).sub.inDo then 1 else 0) := by
  intro k
  have hw := h.wait k
  cases l <;> simp only [step, ite_some_none] at hs <;> obtain ⟨hg, rfl⟩ := hs <;>
    simp only [State.setC] at hw ⊢ <;> (try exact hw) <;>
    simp only [upd] <;> split <;> rename_i hk <;>
    first
    | exact hw
    | (subst hk; simp [hg] at hw ⊢; omega)
    | skip
  case subClosed.isTrue g =>
    subst hk; simp only [hg] at hw
    cases hq : s.queueClosed <;> cases hf : cfg.fixed <;> simp [hq, hf, failPc] at hw ⊢ <;> omega
  case subSend.isTrue g =>
    subst hk; simp [hg, isGrp, List.countP_append] at hw ⊢
    first | omega | (split <;> simp <;> omega)
  case subSend.isFalse g =>
    have : isGrp k ⟨g, (s.callers g).next⟩ = false := by simp [isGrp]; omega
    simp [List.countP_append, List.countP_cons, this]; exact hw
  case subSelCtx.isTrue g =>
    subst hk; simp [hg, failPc] at hw ⊢
    first | omega | (split <;> simp <;> omega)
  case subSelStop.isTrue g =>
    subst hk; simp [hg, failPc] at hw ⊢
    first | omega | (split <;> simp <;> omega)
  case subFailDone.isTrue g =>
    subst hk
    have hc := h.cons (isGrp k)
    simp [hg] at hw ⊢
    omega
  case rdDeliver.isTrue j =>
    subst hk
    have hc := h.cons (isGrp j.grp)
    have hm : j ∈ s.rbatch := List.mem_of_find?_eq_some hg.2.2
    have hp : 0 < s.rbatch.countP (isGrp j.grp) := List.countP_pos_iff.mpr ⟨j, hm, by simp [isGrp]⟩
    simp only [pipe] at hc
    have : isGrp j.grp j = true := by simp [isGrp]
    simp [List.countP_append, List.countP_cons, this] at hw ⊢
    split at hw <;> rename_i hd <;> simp [hd] <;> omega
  case rdDeliver.isFalse j =>
    have : isGrp k j = false := by simp [isGrp]; omega
    simp [List.countP_append, List.countP_cons, this]; exact hw

theorem flow_idx {cfg : Cfg} {s s' : State} {l : Label} (h : FlowInv s)
    (hs : step cfg s l = some s') : ∀ j ∈ s'.accepted, j.idx < (s'.callers j.grp).next := by
  intro j hj
  have hi := h.idx j
  cases l <;> simp only [step, ite_some_none] at hs <;> obtain ⟨hg, rfl⟩ := hs <;>
    simp only [State.setC] at hj hi ⊢ <;> (try exact hi hj) <;>
    simp only [upd] <;> split <;> rename_i hk <;>
    first
    | exact hi hj
    | (simp [← hk]; exact hi hj)
    | skip
  case subSend.isTrue g =>
    simp only [List.mem_append, List.mem_singleton] at hj
    rcases hj with hj | hj
    · have := hi hj; rw [hk] at this; simp; omega
    · subst hj; simp
  case subSend.isFalse g =>
    simp only [List.mem_append, List.mem_singleton] at hj
    rcases hj with hj | hj
    · exact hi hj
    · subst hj; simp at hk

theorem flow_nodup {cfg : Cfg} {s s' : State} {l : Label} (h : FlowInv s)
    (hs : step cfg s l = some s') : s'.accepted.Nodup := by
  have hn := h.nodup
  cases l <;> simp only [step, ite_some_none] at hs <;> obtain ⟨hg, rfl⟩ := hs <;>
    simp only [State.setC] <;> (try exact hn)
  case subSend g =>
    rw [List.nodup_append]
    refine ⟨hn, by simp, ?_⟩
    intro a ha b hb
    simp only [List.mem_singleton] at hb
    subst hb
    intro hab
    subst hab
    have := h.idx _ ha
    simp at this

theorem flow_nopanic {cfg : Cfg} {s s' : State} {l : Label} (h : FlowInv s)
    (hs : step cfg s l = some s') : s'.panicked = false := by
  have hn := h.nopanic
  cases l <;> simp only [step, ite_some_none] at hs <;> obtain ⟨hg, rfl⟩ := hs <;>
    simp only [State.setC] <;> (try exact hn)
  case subFailDone g =>
    have hc := h.cons (isGrp g)
    have hw := h.wait g
    simp [hg] at hw
    simp [hn]; omega
  case rdDeliver j =>
    have hc := h.cons (isGrp j.grp)
    have hw := h.wait j.grp
    have hm : j ∈ s.rbatch := List.mem_of_find?_eq_some hg.2.2
    have hp : 0 < s.rbatch.countP (isGrp j.grp) := List.countP_pos_iff.mpr ⟨j, hm, by simp [isGrp]⟩
    simp only [pipe] at hc
    simp [hn]
    split at hw <;> omega

theorem flow_w0 {cfg : Cfg} {s s' : State} {l : Label} (h : FlowInv s)
    (hs : step cfg s l = some s') : ∀ g, (s'.callers g).sub.past = true → (s'.callers g).wait = 0 := by
  intro k
  have hw := h.w0 k
  cases l <;> simp only [step, ite_some_none] at hs <;> obtain ⟨hg, rfl⟩ := hs <;>
    simp only [State.setC] at hw ⊢ <;> (try exact hw) <;>
    simp only [upd] <;> split <;> rename_i hk <;>
    first
    | exact hw
    | (subst hk; simp [hg, failPc] at hw ⊢; done)
    | (subst hk; simp [hg] at hw ⊢; exact hw)
    | skip
  case rdDeliver.isTrue j =>
    subst hk; intro hp; have := hw hp; simp; omega


theorem flow_step {cfg : Cfg} {s s' : State} {l : Label} (h : FlowInv s)
    (hs : step cfg s l = some s') : FlowInv s' :=
  ⟨flow_cons h hs, flow_wait h hs, flow_idx h hs, flow_nodup h hs, flow_nopanic h hs, flow_w0 h hs⟩

theorem flow_init (cfg : Cfg) : FlowInv (init cfg) := by
  constructor <;> simp [init, pipe]

theorem flow_reach {cfg : Cfg} {s : State} (h : Reach cfg s) : FlowInv s := by
  induction h with
  | init => exact flow_init cfg
  | step l _ hs ih => exact flow_step ih hs

/-! ### worker accounting (both variants) -/

structure WorkInv (cfg : Cfg) (s : State) : Prop where
  acct : s.active = s.idle + busy s
  le : s.active ≤ cfg.maxWorkers
  nodrop : s.dropped = 0

theorem work_step {cfg : Cfg} {s s' : State} {l : Label} (h : WorkInv cfg s)
    (hs : step cfg s l = some s') : WorkInv cfg s' := by
  obtain ⟨h1, h2, h3⟩ := h
  cases l <;> simp only [step, ite_some_none] at hs <;> obtain ⟨hg, rfl⟩ := hs <;>
    (constructor <;> simp only [State.setC, busy, List.length_append, List.length_cons, List.length_nil] at * <;>
      try omega)
  case wCheckOk.acct j => have := length_erase_add hg; omega
  case wCheckErr.acct j => have := length_erase_add hg.1; omega
  case wRun.acct j => have := length_erase_add hg.1; omega
  case wStore.acct j => have := length_erase_add hg; omega
  case wPut.acct => split <;> omega
  case wPut.nodrop => split <;> omega

theorem work_init (cfg : Cfg) : WorkInv cfg (init cfg) := by
  constructor <;> simp [init, busy]

theorem work_reach {cfg : Cfg} {s : State} (h : Reach cfg s) : WorkInv cfg s := by
  induction h with
  | init => exact work_init cfg
  | step l _ hs ih => exact work_step ih hs

/-! ### liveness structure of the repaired code (`cfg.fixed = true`) -/

structure LiveInv (cfg : Cfg) (s : State) : Prop where
  stopped_eq : s.stopped = s.t.started
  pending_eq : s.wPending = s.t.pending
  held_eq : s.wHeld = s.t.held
  closed_eq : s.queueClosed = s.t.closed
  done_eq : s.t.isDone = s.q.stopping
  readers_eq : s.readers = sumTo cfg.ncallers (fun g => if (s.callers g).sub.holdsR then 1 else 0)
  held_readers : s.wHeld = true → s.readers = 0
  closed_sub : s.queueClosed = true → ∀ g, g < cfg.ncallers →
    (s.callers g).sub ≠ .select ∧ (s.callers g).sub ≠ .runlockOk
  drained : s.q.afterDrain = true → s.input = none
  final_eq : s.p.final = true ↔ s.q = .exited
  exited_queue : s.p = .exited → s.queue = []
  queue_wake : s.queue ≠ [] → s.inputNotify = true ∨ s.p.working = true ∨ s.q.pushes = true
  res_wake : ∀ g, 0 < s.results.countP (isGrp g) → (s.callers g).notify = true ∨ (s.callers g).rd = .results
  batch_rd : ∀ g, 0 < s.rbatch.countP (isGrp g) → (s.callers g).rd = .deliver
  rd_exit : ∀ g, (s.callers g).rd = .exited → (s.callers g).endClosed = true
  end_eq : ∀ g, (s.callers g).endClosed = true ↔ (s.callers g).sub = .returned
  acc_grp : ∀ j ∈ s.accepted, j.grp < cfg.ncallers

section
variable {cfg : Cfg} {s s' : State} {l : Label}

theorem live_flags (hf : cfg.fixed = true) (h : LiveInv cfg s) (hs : step cfg s l = some s') :
    s'.stopped = s'.t.started ∧ s'.wPending = s'.t.pending ∧ s'.wHeld = s'.t.held ∧
    s'.queueClosed = s'.t.closed ∧ s'.t.isDone = s'.q.stopping := by
  have h1 := h.stopped_eq; have h2 := h.pending_eq; have h3 := h.held_eq
  have h4 := h.closed_eq; have h5 := h.done_eq
  cases l <;> simp only [step, ite_some_none] at hs <;> obtain ⟨hg, rfl⟩ := hs <;>
    simp only [State.setC] <;> (try exact ⟨h1, h2, h3, h4, h5⟩) <;>
    simp [hg, hf] at h1 h2 h3 h4 h5 ⊢ <;> simp [*]

def rdrF (c : Caller) : Nat := if c.sub.holdsR then 1 else 0

theorem live_readers (hf : cfg.fixed = true) (h : LiveInv cfg s) (hs : step cfg s l = some s') :
    s'.readers = sumTo cfg.ncallers (fun g => rdrF (s'.callers g)) := by
  have hr : s.readers = sumTo cfg.ncallers (fun g => rdrF (s.callers g)) := h.readers_eq
  cases l <;> simp only [step, ite_some_none] at hs <;> obtain ⟨hg, rfl⟩ := hs <;>
    simp only [State.setC] <;> (try exact hr) <;>
    first
    | (rw [hr]; apply sumTo_congr; intro k hk; simp only [upd]; split <;> rename_i hk' <;>
        first | rfl | (subst hk'; simp [rdrF, hg]; done))
    | (have hge := sumTo_ge (fun g => rdrF (s.callers g)) hg.1
       rw [sumTo_upd' rdrF _ _ hg.1]
       cases hq : s.queueClosed <;> simp [rdrF, hg, hf, failPc, hq] at hge hr ⊢ <;> omega)
    | skip

theorem live_held (hf : cfg.fixed = true) (h : LiveInv cfg s) (hs : step cfg s l = some s') :
    s'.wHeld = true → s'.readers = 0 := by
  have hr := h.held_readers
  have hh := h.held_eq
  cases l <;> simp only [step, ite_some_none] at hs <;> obtain ⟨hg, rfl⟩ := hs <;>
    simp only [State.setC] <;> (try exact hr) <;> (try simp [hg] at hr hh ⊢) <;> (try omega)
  all_goals (intro hw; have := hr hw; omega)

theorem live_closed_sub (hf : cfg.fixed = true) (h : LiveInv cfg s) (hs : step cfg s l = some s') :
    s'.queueClosed = true → ∀ g, g < cfg.ncallers →
    (s'.callers g).sub ≠ .select ∧ (s'.callers g).sub ≠ .runlockOk := by
  intro hq k hk
  have hc := fun hq => h.closed_sub hq k hk
  cases l <;> simp only [step, ite_some_none] at hs <;> obtain ⟨hg, rfl⟩ := hs <;>
    simp only [State.setC] at hq ⊢ <;> (try exact hc hq) <;>
    first
    | (simp only [upd]; split <;> rename_i hk' <;>
        first
        | exact hc hq
        | (subst hk'; have := hc hq; simp [hg, hf, hq, failPc] at this ⊢; first | done | exact this))
    | skip
  case subCtx g =>
    simp only [upd]; split <;> rename_i hk'
    · subst hk'
      cases hcc : (s.callers k).cancelled <;> simp [hcc, hf]
    · exact hc hq
  case tSet =>
    have h1 := h.held_readers (by rw [h.held_eq, hg]; rfl)
    have h2 := h.readers_eq
    rw [h1] at h2
    have h3 := sumTo_zero h2.symm k hk

    constructor <;> intro hsub <;> simp [hsub] at h3

theorem live_drained (hf : cfg.fixed = true) (h : LiveInv cfg s) (hs : step cfg s l = some s') :
    s'.q.afterDrain = true → s'.input = none := by
  have hd := h.drained
  cases l <;> simp only [step, ite_some_none] at hs <;> obtain ⟨hg, rfl⟩ := hs <;>
    simp only [State.setC] <;> (try exact hd) <;> (try (simp [hg, hf] at hd ⊢; done)) <;> (try (simp_all; done))
  case subSend g =>
    intro ha
    exfalso
    have h1 : s.q.stopping = true := by cases hq : s.q <;> simp_all
    have h2 := h.done_eq
    rw [h1] at h2
    have h3 : s.t = .done := by cases ht : s.t <;> simp_all
    have h4 : s.queueClosed = true := by rw [h.closed_eq, h3]; rfl
    exact (h.closed_sub h4 g hg.1).1 hg.2.1

theorem live_final (hf : cfg.fixed = true) (h : LiveInv cfg s) (hs : step cfg s l = some s') :
    s'.p.final = true ↔ s'.q = .exited := by
  have hd := h.final_eq
  cases l <;> simp only [step, ite_some_none] at hs <;> obtain ⟨hg, rfl⟩ := hs <;>
    simp only [State.setC] <;> (try exact hd) <;> (try (simp [hg, hf] at hd ⊢; done)) <;> (try (simp_all; done))
  case pLen f =>
    rw [hg] at hd
    by_cases hq : s.queue = [] <;> cases f <;> simp_all
  case pPopEmpty f =>
    rw [hg.1] at hd
    cases f <;> simp_all

theorem live_exited_queue (hf : cfg.fixed = true) (h : LiveInv cfg s) (hs : step cfg s l = some s') :
    s'.p = .exited → s'.queue = [] := by
  have hd := h.exited_queue
  have hfin := h.final_eq
  cases l <;> simp only [step, ite_some_none] at hs <;> obtain ⟨hg, rfl⟩ := hs <;>
    simp only [State.setC] <;> (try exact hd) <;> (try (simp [hg, hf] at hd hfin ⊢; done)) <;> (try (simp_all; done))
  case qAdd j => intro hp; rw [hp, hg] at hfin; simp at hfin
  case qDrainAdd j => intro hp; rw [hp, hg] at hfin; simp at hfin
  case pLen f =>
    by_cases hq : s.queue = [] <;> cases f <;> simp_all

theorem live_queue_wake (hf : cfg.fixed = true) (h : LiveInv cfg s) (hs : step cfg s l = some s') :
    s'.queue ≠ [] → s'.inputNotify = true ∨ s'.p.working = true ∨ s'.q.pushes = true := by
  have hd := h.queue_wake
  cases l <;> simp only [step, ite_some_none] at hs <;> obtain ⟨hg, rfl⟩ := hs <;>
    simp only [State.setC] <;> (try exact hd) <;> (try (simp [hg, hf] at hd ⊢; done)) <;> (try (simp_all; done))

theorem live_res_wake (hf : cfg.fixed = true) (h : LiveInv cfg s) (hs : step cfg s l = some s') :
    ∀ g, 0 < s'.results.countP (isGrp g) → (s'.callers g).notify = true ∨ (s'.callers g).rd = .results := by
  intro k
  have hd := h.res_wake k
  cases l <;> simp only [step, ite_some_none] at hs <;> obtain ⟨hg, rfl⟩ := hs <;>
    simp only [State.setC] <;> (try exact hd) <;>
    first
    | (simp only [upd]; split <;> rename_i hk' <;>
        first
        | exact hd
        | (subst hk'; simp [hg, countP_isGrp_filter_ne] at hd ⊢; first | done | exact hd))
    | skip
  case subRemove g =>
    rw [countP_isGrp_filter_ne]
    by_cases hk' : k = g
    · simp [hk']
    · rw [if_neg hk', upd_other _ _ hk']; exact hd
  case rdResults g =>
    rw [countP_isGrp_filter_ne]
    by_cases hk' : k = g
    · simp [hk']
    · rw [if_neg hk', upd_other _ _ hk']; exact hd
  case wStore j =>
    simp only [upd]
    split <;> rename_i hk'
    · simp
    · have : isGrp k j = false := by simp [isGrp]; omega
      simp [List.countP_cons, this]; simpa using hd

theorem live_batch_rd (hf : cfg.fixed = true) (h : LiveInv cfg s) (hs : step cfg s l = some s') :
    ∀ g, 0 < s'.rbatch.countP (isGrp g) → (s'.callers g).rd = .deliver := by
  intro k
  have hd := h.batch_rd k
  cases l <;> simp only [step, ite_some_none] at hs <;> obtain ⟨hg, rfl⟩ := hs <;>
    simp only [State.setC] <;> (try exact hd) <;>
    first
    | (simp only [upd]; split <;> rename_i hk' <;>
        first
        | exact hd
        | (subst hk'; simp [hg] at hd ⊢; first | done | exact hd))
    | skip
  case rdResults g =>
    rw [List.countP_append, List.countP_reverse, countP_isGrp_filter_eq]
    by_cases hk' : k = g
    · subst hk'; simp
    · rw [if_neg hk', upd_other _ _ hk']; simpa using hd
  case rdDeliver j =>
    intro hp
    have hle := countP_erase_le (isGrp k) j s.rbatch
    have := hd (by omega)
    by_cases hk' : k = j.grp
    · subst hk'; simp [this]
    · rw [upd_other _ _ hk']; exact this
  case rdBatchEnd g =>
    by_cases hk' : k = g
    · subst hk'; intro hp; have := countP_isGrp_of_find_none hg.2.2; omega
    · rw [upd_other _ _ hk']; exact hd

theorem live_rd_exit (hf : cfg.fixed = true) (h : LiveInv cfg s) (hs : step cfg s l = some s') :
    ∀ g, (s'.callers g).rd = .exited → (s'.callers g).endClosed = true := by
  intro k
  have hd := h.rd_exit k
  cases l <;> simp only [step, ite_some_none] at hs <;> obtain ⟨hg, rfl⟩ := hs <;>
    simp only [State.setC] <;> (try exact hd) <;>
    first
    | (simp only [upd]; split <;> rename_i hk' <;>
        first
        | exact hd
        | (subst hk'; simp [hg] at hd ⊢; first | done | exact hd))
    | skip

theorem live_end_eq (hf : cfg.fixed = true) (h : LiveInv cfg s) (hs : step cfg s l = some s') :
    ∀ g, (s'.callers g).endClosed = true ↔ (s'.callers g).sub = .returned := by
  intro k
  have hd := h.end_eq k
  cases l <;> simp only [step, ite_some_none] at hs <;> obtain ⟨hg, rfl⟩ := hs <;>
    simp only [State.setC] <;> (try exact hd) <;>
    first
    | (simp only [upd]; split <;> rename_i hk' <;>
        first
        | exact hd
        | (subst hk'; simp [hg, hf, failPc] at hd ⊢; first | done | exact hd))
    | skip
  case subCtx g =>
    by_cases hk' : k = g
    · subst hk'; cases hcc : (s.callers k).cancelled <;> simp [hg, hf, hcc] at hd ⊢ <;> exact hd
    · simp only [upd_other _ _ hk']; exact hd
  case subClosed g =>
    by_cases hk' : k = g
    · subst hk'; cases hcc : s.queueClosed <;> simp [hg, hf, hcc, failPc] at hd ⊢ <;> exact hd
    · simp only [upd_other _ _ hk']; exact hd

theorem live_acc_grp (hf : cfg.fixed = true) (h : LiveInv cfg s) (hs : step cfg s l = some s') :
    ∀ j ∈ s'.accepted, j.grp < cfg.ncallers := by
  have hd := h.acc_grp
  cases l <;> simp only [step, ite_some_none] at hs <;> obtain ⟨hg, rfl⟩ := hs <;>
    simp only [State.setC] <;> (try exact hd)
  case subSend g =>
    intro j hj
    simp only [List.mem_append, List.mem_singleton] at hj
    rcases hj with hj | hj
    · exact hd j hj
    · subst hj; exact hg.1

theorem live_step (hf : cfg.fixed = true) (h : LiveInv cfg s) (hs : step cfg s l = some s') : LiveInv cfg s' := by
  obtain ⟨f1, f2, f3, f4, f5⟩ := live_flags hf h hs
  exact ⟨f1, f2, f3, f4, f5, live_readers hf h hs, live_held hf h hs, live_closed_sub hf h hs,
    live_drained hf h hs, live_final hf h hs, live_exited_queue hf h hs, live_queue_wake hf h hs,
    live_res_wake hf h hs, live_batch_rd hf h hs, live_rd_exit hf h hs, live_end_eq hf h hs,
    live_acc_grp hf h hs⟩

end

theorem sumTo_const_zero (n : Nat) : sumTo n (fun _ => 0) = 0 := by
  induction n with
  | zero => rfl
  | succ n ih => simp [sumTo, ih]

theorem live_init (cfg : Cfg) : LiveInv cfg (init cfg) := by
  constructor <;> simp [init, sumTo_const_zero]

theorem live_reach {cfg : Cfg} (hf : cfg.fixed = true) {s : State} (h : Reach cfg s) : LiveInv cfg s := by
  induction h with
  | init => exact live_init cfg
  | step l _ hs ih => exact live_step hf ih hs

/-! ### progress: no stuck state (repaired code) -/

theorem isSome_ite {α} {c : Prop} [Decidable c] {a : α} :
    (if c then some a else none).isSome = true ↔ c := by
  split <;> simp_all

section
variable {cfg : Cfg} {s : State}

theorem can (l : Label) (hl : l.isEnv = false) (h : (step cfg s l).isSome = true) : CanStep cfg s :=
  ⟨l, hl, h⟩

theorem worker_progress
    (h : s.wStart ≠ [] ∨ s.wRun ≠ [] ∨ s.wStore ≠ [] ∨ 0 < s.wPut) : CanStep cfg s ∨ BlockedJob cfg s := by
  rcases h with h | h | h | h
  · obtain ⟨j, hj⟩ := List.exists_mem_of_ne_nil _ h
    exact .inl (can (.wCheckOk j) rfl (by simp [step, isSome_ite, hj]))
  · obtain ⟨j, hj⟩ := List.exists_mem_of_ne_nil _ h
    by_cases hb : cfg.blocking j = false ∨ (s.callers j.grp).cancelled = true ∨ s.stopped = true
    · exact .inl (can (.wRun j) rfl (by simp only [step, isSome_ite]; exact ⟨hj, hb⟩))
    · refine .inr ⟨j, hj, ?_⟩
      simp only [not_or] at hb
      simpa using hb
  · obtain ⟨j, hj⟩ := List.exists_mem_of_ne_nil _ h
    exact .inl (can (.wStore j) rfl (by simp [step, isSome_ite, hj]))
  · exact .inl (can .wPut rfl (by simp [step, isSome_ite, h]))

theorem ploop_progress (hw : WorkInv cfg s) (hm : 1 ≤ cfg.maxWorkers) (hp : s.p.working = true) :
    CanStep cfg s ∨ BlockedJob cfg s := by
  cases hpc : s.p with
  | select => simp [hpc] at hp
  | exited => simp [hpc] at hp
  | len f => exact .inl (can (.pLen f) rfl (by simp [step, isSome_ite, hpc]))
  | pop f =>
    cases hq : s.queue with
    | nil => exact .inl (can (.pPopEmpty f) rfl (by simp [step, isSome_ite, hpc, hq]))
    | cons j t => exact .inl (can (.pPop f j) rfl (by simp [step, isSome_ite, hpc, hq]))
  | doJob f j =>
    by_cases h1 : s.active < cfg.maxWorkers
    · exact .inl (can (.pSpawnNew f j) rfl (by simp [step, isSome_ite, hpc, h1]))
    · by_cases h2 : 0 < s.idle
      · exact .inl (can (.pSpawnReuse f j) rfl (by simp [step, isSome_ite, hpc, h1, h2]))
      · apply worker_progress
        have := hw.acct
        simp only [busy] at this
        by_cases a : s.wStart = [] <;> by_cases b : s.wRun = [] <;> by_cases c : s.wStore = [] <;> simp_all
        omega

theorem queue_progress (hl : LiveInv cfg s) (hw : WorkInv cfg s) (hm : 1 ≤ cfg.maxWorkers) (hq : s.queue ≠ []) :
    CanStep cfg s ∨ BlockedJob cfg s := by
  have hpcase : s.p = .select ∨ s.p.working = true ∨ s.p = .exited := by
    cases hpc : s.p <;> simp
  have hnex : s.p ≠ .exited := fun he => hq (hl.exited_queue he)
  rcases hl.queue_wake hq with hn | hwk | hpu
  · rcases hpcase with hp | hp | hp
    · exact .inl (can .pNotify rfl (by simp [step, isSome_ite, hp, hn]))
    · exact ploop_progress hw hm hp
    · exact absurd hp hnex
  · exact ploop_progress hw hm hwk
  · cases hqc : s.q with
    | select => simp [hqc] at hpu
    | add j => simp [hqc] at hpu
    | exited => simp [hqc] at hpu
    | notify => exact .inl (can .qNotify rfl (by simp [step, isSome_ite, hqc]))
    | drain =>
      cases hi : s.input with
      | none => exact .inl (can .qDrainEmpty rfl (by simp [step, isSome_ite, hqc, hi]))
      | some j => exact .inl (can (.qDrainRecv j) rfl (by simp [step, isSome_ite, hqc, hi]))
    | drainAdd j => exact .inl (can (.qDrainAdd j) rfl (by simp [step, isSome_ite, hqc]))
    | sendStop =>
      rcases hpcase with hp | hp | hp
      · exact .inl (can .qSendStop rfl (by simp [step, isSome_ite, hqc, hp]))
      · exact ploop_progress hw hm hp
      · exact absurd hp hnex

theorem input_progress (hl : LiveInv cfg s) {j : Job} (hi : s.input = some j) : CanStep cfg s := by
  cases hqc : s.q with
  | select => exact can (.qRecv j) rfl (by simp [step, isSome_ite, hqc, hi])
  | add k => exact can (.qAdd k) rfl (by simp [step, isSome_ite, hqc])
  | notify => exact can .qNotify rfl (by simp [step, isSome_ite, hqc])
  | drain => exact can (.qDrainRecv j) rfl (by simp [step, isSome_ite, hqc, hi])
  | drainAdd k => exact can (.qDrainAdd k) rfl (by simp [step, isSome_ite, hqc])
  | sendStop => have := hl.drained (by simp [hqc]); simp [hi] at this
  | exited => have := hl.drained (by simp [hqc]); simp [hi] at this

theorem qhand_progress {j : Job} (hj : j ∈ s.q.hand) : CanStep cfg s := by
  cases hqc : s.q <;> simp [hqc] at hj
  case add k => exact can (.qAdd k) rfl (by simp [step, isSome_ite, hqc])
  case drainAdd k => exact can (.qDrainAdd k) rfl (by simp [step, isSome_ite, hqc])

/-- a job anywhere in the pipeline has been accepted -/
theorem mem_accepted_of_pipe (hf : FlowInv s) {j : Job} (hp : 0 < pipe s (fun k => k == j)) : j ∈ s.accepted := by
  have := hf.cons (fun k => k == j)
  have h2 : 0 < s.accepted.countP (fun k => k == j) := by omega
  obtain ⟨a, ha, hb⟩ := List.countP_pos_iff.mp h2
  have : a = j := by simpa using hb
  exact this ▸ ha

theorem countP_self_pos {j : Job} {l : List Job} (h : j ∈ l) : 0 < l.countP (fun k => k == j) :=
  List.countP_pos_iff.mpr ⟨j, h, by simp⟩

theorem reader_progress (hl : LiveInv cfg s) (hf : FlowInv s) {g : Nat} (hg : g < cfg.ncallers)
    (hn : (s.callers g).notify = true ∨ (s.callers g).rd = .results ∨ (s.callers g).rd = .deliver)
    (hpipe : 0 < pipe s (isGrp g)) : CanStep cfg s := by
  cases hrd : (s.callers g).rd with
  | select =>
    rcases hn with hn | hn | hn
    · exact can (.rdNotify g) rfl (by simp [step, isSome_ite, hg, hrd, hn])
    · simp [hrd] at hn
    · simp [hrd] at hn
  | results => exact can (.rdResults g) rfl (by simp [step, isSome_ite, hg, hrd])
  | deliver =>
    cases hfd : s.rbatch.find? (fun k => k.grp == g) with
    | none => exact can (.rdBatchEnd g) rfl (by simp [step, isSome_ite, hg, hrd, hfd])
    | some j =>
      have hjg : j.grp = g := by simpa using List.find?_some hfd
      subst hjg
      exact can (.rdDeliver j) rfl (by simp [step, isSome_ite, hg, hrd, hfd])
  | exited =>
    exfalso
    have h1 := hl.rd_exit g hrd
    have h2 := (hl.end_eq g).mp h1
    have := hf.pipe_zero (g := g) (by simp [h2])
    omega

theorem pipe_progress (hl : LiveInv cfg s) (hf : FlowInv s) (hw : WorkInv cfg s) (hm : 1 ≤ cfg.maxWorkers)
    (f : Job → Bool) (hp : 0 < pipe s f) : CanStep cfg s ∨ BlockedJob cfg s := by
  simp only [pipe] at hp
  by_cases h1 : 0 < (optList s.input).countP f
  · obtain ⟨j, hj, -⟩ := List.countP_pos_iff.mp h1
    cases hi : s.input with
    | none => simp [hi] at hj
    | some k => exact .inl (input_progress hl hi)
  by_cases h2 : 0 < s.q.hand.countP f
  · obtain ⟨j, hj, -⟩ := List.countP_pos_iff.mp h2
    exact .inl (qhand_progress hj)
  by_cases h3 : 0 < s.queue.countP f
  · obtain ⟨j, hj, -⟩ := List.countP_pos_iff.mp h3
    exact queue_progress hl hw hm (List.ne_nil_of_mem hj)
  by_cases h4 : 0 < s.p.hand.countP f
  · obtain ⟨j, hj, -⟩ := List.countP_pos_iff.mp h4
    apply ploop_progress hw hm
    cases hpc : s.p <;> simp [hpc] at hj ⊢
  by_cases h5 : 0 < s.wStart.countP f
  · obtain ⟨j, hj, -⟩ := List.countP_pos_iff.mp h5
    exact worker_progress (.inl (List.ne_nil_of_mem hj))
  by_cases h6 : 0 < s.wRun.countP f
  · obtain ⟨j, hj, -⟩ := List.countP_pos_iff.mp h6
    exact worker_progress (.inr (.inl (List.ne_nil_of_mem hj)))
  by_cases h7 : 0 < s.wStore.countP f
  · obtain ⟨j, hj, -⟩ := List.countP_pos_iff.mp h7
    exact worker_progress (.inr (.inr (.inl (List.ne_nil_of_mem hj))))
  by_cases h8 : 0 < s.results.countP f
  · obtain ⟨j, hj, -⟩ := List.countP_pos_iff.mp h8
    have hacc : j ∈ s.accepted := mem_accepted_of_pipe hf (by
      have := countP_self_pos hj; simp only [pipe]; omega)
    have hg := hl.acc_grp j hacc
    have hc : 0 < s.results.countP (isGrp j.grp) := List.countP_pos_iff.mpr ⟨j, hj, by simp [isGrp]⟩
    refine .inl (reader_progress hl hf hg ?_ (by simp only [pipe]; omega))
    rcases hl.res_wake j.grp hc with h | h
    · exact .inl h
    · exact .inr (.inl h)
  · have h9 : 0 < s.rbatch.countP f := by omega
    obtain ⟨j, hj, -⟩ := List.countP_pos_iff.mp h9
    have hacc : j ∈ s.accepted := mem_accepted_of_pipe hf (by
      have := countP_self_pos hj; simp only [pipe]; omega)
    have hg := hl.acc_grp j hacc
    have hc : 0 < s.rbatch.countP (isGrp j.grp) := List.countP_pos_iff.mpr ⟨j, hj, by simp [isGrp]⟩
    exact .inl (reader_progress hl hf hg (.inr (.inr (hl.batch_rd j.grp hc))) (by simp only [pipe]; omega))

/-- a submitter inside `Do`'s select can always move, or the queuing loop can -/
theorem select_progress (hl : LiveInv cfg s) {g : Nat} (hg : g < cfg.ncallers)
    (hs : (s.callers g).sub = .select) : CanStep cfg s := by
  cases hi : s.input with
  | none => exact can (.subSend g) rfl (by simp [step, isSome_ite, hg, hs, hi])
  | some j => exact input_progress hl hi

theorem holder_progress (hl : LiveInv cfg s) {g : Nat} (hg : g < cfg.ncallers)
    (hs : (s.callers g).sub.holdsR = true) : CanStep cfg s := by
  cases hsub : (s.callers g).sub <;> simp [hsub] at hs
  · exact can (.subClosed g) rfl (by simp [step, isSome_ite, hg, hsub])
  · exact select_progress hl hg hsub
  · exact can (.subRUnlockOk g) rfl (by simp [step, isSome_ite, hg, hsub])
  · exact can (.subRUnlockFail g) rfl (by simp [step, isSome_ite, hg, hsub])

theorem caller_progress (hfx : cfg.fixed = true) (hl : LiveInv cfg s) (hf : FlowInv s) (hw : WorkInv cfg s)
    (hm : 1 ≤ cfg.maxWorkers) {g : Nat} (hg : g < cfg.ncallers) (hnr : (s.callers g).sub ≠ .returned) :
    CanStep cfg s ∨ BlockedJob cfg s := by
  cases hsub : (s.callers g).sub with
  | returned => exact absurd hsub hnr
  | loop =>
    by_cases hn : (s.callers g).next < cfg.jobs g
    · exact .inl (can (.subAdd g) rfl (by simp [step, isSome_ite, hg, hsub, hn]))
    · exact .inl (can (.subLoopEnd g) rfl (by simp [step, isSome_ite, hg, hsub, hn]))
  | doCtx => exact .inl (can (.subCtx g) rfl (by simp [step, isSome_ite, hg, hsub]))
  | rlock =>
    by_cases hfree : s.wPending = false ∧ s.wHeld = false
    · exact .inl (can (.subRLock g) rfl (by simp [step, isSome_ite, hg, hsub, hfree]))
    · have hp := hl.pending_eq
      have hh := hl.held_eq
      cases ht : s.t <;> simp [ht] at hp hh <;> simp [hp, hh] at hfree
      · -- lockWait
        by_cases hr : s.readers = 0
        · exact .inl (can .tLockAcq rfl (by simp [step, isSome_ite, ht, hr]))
        · have hre := hl.readers_eq
          obtain ⟨k, hk, hpos⟩ := sumTo_pos (n := cfg.ncallers)
            (f := fun g => if (s.callers g).sub.holdsR then 1 else 0) (by omega)
          have : (s.callers k).sub.holdsR = true := by
            by_cases hx : (s.callers k).sub.holdsR = true
            · exact hx
            · simp [hx] at hpos
          exact .inl (holder_progress hl hk this)
      · exact .inl (can .tSet rfl (by simp [step, isSome_ite, ht]))
      · exact .inl (can .tUnlock rfl (by simp [step, isSome_ite, ht]))
  | closedCheck => exact .inl (can (.subClosed g) rfl (by simp [step, isSome_ite, hg, hsub]))
  | select => exact .inl (select_progress hl hg hsub)
  | runlockOk => exact .inl (can (.subRUnlockOk g) rfl (by simp [step, isSome_ite, hg, hsub]))
  | runlockFail => exact .inl (can (.subRUnlockFail g) rfl (by simp [step, isSome_ite, hg, hsub]))
  | failDone => exact .inl (can (.subFailDone g) rfl (by simp [step, isSome_ite, hg, hsub]))
  | remove => exact .inl (can (.subRemove g) rfl (by simp [step, isSome_ite, hg, hsub]))
  | closeEnd => exact .inl (can (.subCloseEnd g) rfl (by simp [step, isSome_ite, hg, hsub]))
  | wait =>
    by_cases hw0 : (s.callers g).wait = 0
    · exact .inl (can (.subWait g) rfl (by simp [step, isSome_ite, hg, hsub, hw0]))
    · apply pipe_progress hl hf hw hm (isGrp g)
      have h1 := hf.cons (isGrp g)
      have h2 := hf.wait g
      simp [hsub] at h2
      omega

end
/-! ### termination measure -/

/-- while `Do` is deciding about job `next`, that job exists -/
def NextInv (cfg : Cfg) (s : State) : Prop :=
  ∀ g, (s.callers g).sub.offering = true → (s.callers g).next < cfg.jobs g

section
variable {cfg : Cfg} {s s' : State} {l : Label}

theorem next_step (h : NextInv cfg s) (hs : step cfg s l = some s') : NextInv cfg s' := by
  intro k
  have hd := h k
  cases l <;> simp only [step, ite_some_none] at hs <;> obtain ⟨hg, rfl⟩ := hs <;>
    simp only [State.setC] <;> (try exact hd) <;>
    first
    | (simp only [upd]; split <;> rename_i hk' <;>
        first
        | exact hd
        | (subst hk'; simp [hg, failPc] at hd ⊢; first | done | exact hd | omega))
    | skip

set_option hygiene false in
/-- rewrite the sum over callers after an update of caller `g` (guard `hg.1 : g < cfg.ncallers`) and finish with `omega` -/
local macro "caller_tac" : tactic => `(tactic| (
  have hge := sumTo_ge (fun g => callerWeight cfg g (s.callers g)) hg.1
  rw [sumTo_upd2' (callerWeight cfg) _ _ hg.1]
  generalize sumTo cfg.ncallers (fun g => callerWeight cfg g (s.callers g)) = S at hge ⊢
  simp only [callerWeight, Caller.weight] at hge ⊢
  simp [hg, failPc, *] at hge ⊢
  omega))

theorem measure_step (hn : NextInv cfg s) (hs : step cfg s l = some s') : measure cfg s' < measure cfg s := by
  cases l <;> simp only [step, ite_some_none] at hs <;> obtain ⟨hg, rfl⟩ := hs <;>
    simp only [measure, State.setC] <;>
    first
    | (simp [hg]; done)
    | (simp [hg]; omega)
    | (cases hfx : cfg.fixed <;> simp [hg, hfx] <;> omega)
    | caller_tac
    | (cases hfx : cfg.fixed <;> caller_tac)
    | skip
  case subCtx g =>
    cases hfx : cfg.fixed <;> cases hcc : (s.callers g).cancelled <;> caller_tac
  case subClosed g =>
    cases hfx : cfg.fixed <;> cases hcc : s.queueClosed <;> caller_tac
  case subSend g =>
    have hnx := hn g (by simp [hg])
    cases hfx : cfg.fixed <;> caller_tac
  case subRemove g =>
    have hle := List.length_filter_le (fun j : Job => j.grp != g) s.results
    caller_tac
  case rdResults g =>
    have hsp := length_filter_split (fun j : Job => j.grp == g) s.results
    simp only [bne] at *
    caller_tac
  case rdDeliver j =>
    have hle := length_erase_add (List.mem_of_find?_eq_some hg.2.2)
    caller_tac
  case pLen f =>
    by_cases hq : s.queue = [] <;> cases f <;> simp [hg, hq] <;> omega
  case pPop f j =>
    cases hq : s.queue with
    | nil => simp [hq] at hg
    | cons a t => simp [hg, hq]; omega
  case wCheckOk j => have := length_erase_add hg; simp; omega
  case wCheckErr j => have := length_erase_add hg.1; simp; omega
  case wRun j => have := length_erase_add hg.1; simp; omega
  case wStore j =>
    have hle := length_erase_add hg
    by_cases hj : j.grp < cfg.ncallers
    · have hge := sumTo_ge (fun g => callerWeight cfg g (s.callers g)) hj
      rw [sumTo_upd2' (callerWeight cfg) _ _ hj]
      generalize sumTo cfg.ncallers (fun g => callerWeight cfg g (s.callers g)) = S at hge ⊢
      simp only [callerWeight, Caller.weight] at hge ⊢
      have := Bool.toNat_le (s.callers j.grp).notify
      simp at hge ⊢
      omega
    · have : sumTo cfg.ncallers (fun g => callerWeight cfg g (upd s.callers j.grp
          { s.callers j.grp with notify := true } g)) =
          sumTo cfg.ncallers (fun g => callerWeight cfg g (s.callers g)) :=
        sumTo_congr (fun k hk => by rw [upd_other]; omega)
      rw [this]; simp; omega

end

theorem next_reach {cfg : Cfg} {s : State} (h : Reach cfg s) : NextInv cfg s := by
  induction h with
  | init => intro g; simp [init]
  | step l _ hs ih => exact next_step ih hs

/-! ### quiescence after Stop -/

section
variable {cfg : Cfg} {s : State}

/-- quiescent after Stop: every goroutine of the group and of the callers has ended -/
theorem quiescent_clean (hfx : cfg.fixed = true) (hl : LiveInv cfg s) (hf : FlowInv s) (hw : WorkInv cfg s)
    (hm : 1 ≤ cfg.maxWorkers) (hq : ¬ CanStep cfg s) (hst : s.stopped = true) :
    s.t = .done ∧ s.q = .exited ∧ s.p = .exited ∧ busy s = 0 ∧
    ∀ g, g < cfg.ncallers → (s.callers g).sub = .returned ∧ (s.callers g).rd = .exited := by
  have hnb : ¬ BlockedJob cfg s := by
    rintro ⟨j, _, _, _, h⟩; rw [hst] at h; cases h
  have hret : ∀ g, g < cfg.ncallers → (s.callers g).sub = .returned := by
    intro g hg
    apply Classical.byContradiction
    intro hnr
    rcases caller_progress hfx hl hf hw hm hg hnr with h | h
    · exact hq h
    · exact hnb h
  have hbusy : busy s = 0 := by
    apply Classical.byContradiction
    intro hb
    have : s.wStart ≠ [] ∨ s.wRun ≠ [] ∨ s.wStore ≠ [] ∨ 0 < s.wPut := by
      simp only [busy] at hb
      by_cases a : s.wStart = [] <;> by_cases b : s.wRun = [] <;> by_cases c : s.wStore = [] <;> simp_all
      omega
    rcases worker_progress (cfg := cfg) this with h | h
    · exact hq h
    · exact hnb h
  have hrd : ∀ g, g < cfg.ncallers → (s.callers g).rd = .exited := by
    intro g hg
    have hend := (hl.end_eq g).mpr (hret g hg)
    cases hrd : (s.callers g).rd with
    | exited => rfl
    | select => exact absurd (can (.rdEnd g) rfl (by simp [step, isSome_ite, hg, hrd, hend])) hq
    | results => exact absurd (can (.rdResults g) rfl (by simp [step, isSome_ite, hg, hrd])) hq
    | deliver =>
      cases hfd : s.rbatch.find? (fun k => k.grp == g) with
      | none => exact absurd (can (.rdBatchEnd g) rfl (by simp [step, isSome_ite, hg, hrd, hfd])) hq
      | some j =>
        have hjg : j.grp = g := by simpa using List.find?_some hfd
        subst hjg
        exact absurd (can (.rdDeliver j) rfl (by simp [step, isSome_ite, hg, hrd, hfd])) hq
  have hp_nw : s.p.working = false := by
    cases hpw : s.p.working with
    | false => rfl
    | true =>
      rcases ploop_progress hw hm hpw with h | h
      · exact absurd h hq
      · exact absurd h hnb
  have ht : s.t = .done := by
    have hs := hl.stopped_eq
    rw [hst] at hs
    cases ht : s.t with
    | done => rfl
    | idle => simp [ht] at hs
    | lock => exact absurd (can .tLockReq rfl (by simp [step, isSome_ite, ht])) hq
    | lockWait =>
      by_cases hr : s.readers = 0
      · exact absurd (can .tLockAcq rfl (by simp [step, isSome_ite, ht, hr])) hq
      · have hre := hl.readers_eq
        obtain ⟨k, hk, hpos⟩ := sumTo_pos (n := cfg.ncallers)
          (f := fun g => if (s.callers g).sub.holdsR then 1 else 0) (by omega)
        have := hret k hk
        simp [this] at hpos
    | set => exact absurd (can .tSet rfl (by simp [step, isSome_ite, ht])) hq
    | unlock => exact absurd (can .tUnlock rfl (by simp [step, isSome_ite, ht])) hq
    | send =>
      have hd := hl.done_eq
      rw [ht] at hd
      cases hqc : s.q with
      | select => exact absurd (can .tSend rfl (by simp [step, isSome_ite, ht, hqc])) hq
      | add j => exact absurd (can (.qAdd j) rfl (by simp [step, isSome_ite, hqc])) hq
      | notify => exact absurd (can .qNotify rfl (by simp [step, isSome_ite, hqc])) hq
      | drain => simp [hqc] at hd
      | drainAdd j => simp [hqc] at hd
      | sendStop => simp [hqc] at hd
      | exited => simp [hqc] at hd
  have hqx : s.q = .exited := by
    have hd := hl.done_eq
    rw [ht] at hd
    cases hqc : s.q with
    | exited => rfl
    | select => simp [hqc] at hd
    | add j => simp [hqc] at hd
    | notify => simp [hqc] at hd
    | drain =>
      cases hi : s.input with
      | none => exact absurd (can .qDrainEmpty rfl (by simp [step, isSome_ite, hqc, hi])) hq
      | some j => exact absurd (can (.qDrainRecv j) rfl (by simp [step, isSome_ite, hqc, hi])) hq
    | drainAdd j => exact absurd (can (.qDrainAdd j) rfl (by simp [step, isSome_ite, hqc])) hq
    | sendStop =>
      cases hpc : s.p with
      | select => exact absurd (can .qSendStop rfl (by simp [step, isSome_ite, hqc, hpc])) hq
      | exited => have := hl.final_eq.mp (by simp [hpc]); simp [hqc] at this
      | len f => simp [hpc] at hp_nw
      | pop f => simp [hpc] at hp_nw
      | doJob f j => simp [hpc] at hp_nw
  have hpx : s.p = .exited := by
    have := hl.final_eq.mpr hqx
    cases hpc : s.p with
    | exited => rfl
    | select => simp [hpc] at this
    | len f => simp [hpc] at hp_nw
    | pop f => simp [hpc] at hp_nw
    | doJob f j => simp [hpc] at hp_nw
  exact ⟨ht, hqx, hpx, hbusy, fun g hg => ⟨hret g hg, hrd g hg⟩⟩

end

/-! ### what an outside observer can conclude -/

/-- bookkeeping behind the observation: what an outside observer can conclude -/
structure ObsInv (cfg : Cfg) (s : State) : Prop where
  acc_next : ∀ g, s.accepted.countP (isGrp g) = (s.callers g).next
  next_le : ∀ g, (s.callers g).next ≤ cfg.jobs g
  pre : ∀ f, prePipe s f + s.started.countP f + s.skipped.countP f = s.accepted.countP f
  stop_eq : s.stopped = s.t.started
  skip_stop : s.skipped ≠ [] → s.stopped = true
  closed_stop : s.queueClosed = true → s.stopped = true
  fail_why : ∀ g, (s.callers g).sub.failing = true → (s.callers g).cancelled = true ∨ s.stopped = true
  fin_why : ∀ g, (s.callers g).sub.finished = true →
    (s.callers g).next = cfg.jobs g ∨ (s.callers g).cancelled = true ∨ s.stopped = true

section
variable {cfg : Cfg} {s s' : State} {l : Label}

theorem obs_acc_next (h : ObsInv cfg s) (hs : step cfg s l = some s') :
    ∀ g, s'.accepted.countP (isGrp g) = (s'.callers g).next := by
  intro k
  have hd := h.acc_next k
  cases l <;> simp only [step, ite_some_none] at hs <;> obtain ⟨hg, rfl⟩ := hs <;>
    simp only [State.setC] <;> (try exact hd) <;>
    first
    | (simp only [upd]; split <;> rename_i hk' <;>
        first
        | exact hd
        | (subst hk'; simp [hg] at hd ⊢; first | done | exact hd))
    | skip
  case subSend g =>
    by_cases hk' : k = g
    · subst hk'; simp [List.countP_append, isGrp, hd]
    · have : isGrp k ⟨g, (s.callers g).next⟩ = false := by simp [isGrp]; omega
      simp [List.countP_append, List.countP_cons, this, upd_other _ _ hk', hd]

theorem obs_next_le (hn : NextInv cfg s) (h : ObsInv cfg s) (hs : step cfg s l = some s') :
    ∀ g, (s'.callers g).next ≤ cfg.jobs g := by
  intro k
  have hd := h.next_le k
  have hn' := hn k
  cases l <;> simp only [step, ite_some_none] at hs <;> obtain ⟨hg, rfl⟩ := hs <;>
    simp only [State.setC] <;> (try exact hd) <;>
    first
    | (simp only [upd]; split <;> rename_i hk' <;>
        first
        | exact hd
        | (subst hk'; simp [hg, failPc] at hd ⊢; first | done | exact hd | omega))
    | skip
  case subSend g =>
    by_cases hk' : k = g
    · subst hk'; have := hn' (by simp [hg]); simp; omega
    · rw [upd_other _ _ hk']; exact hd

theorem obs_pre (h : ObsInv cfg s) (hs : step cfg s l = some s') :
    ∀ f, prePipe s' f + s'.started.countP f + s'.skipped.countP f = s'.accepted.countP f := by
  intro f
  have hc := h.pre f
  cases l <;> simp only [step, ite_some_none] at hs <;> obtain ⟨hg, rfl⟩ := hs <;>
    simp only [prePipe, State.setC] at hc ⊢ <;>
    (try (simp [hg, List.countP_append, List.countP_cons] at hc ⊢)) <;> try omega
  case pPop b j =>
    cases hq : s.queue with
    | nil => simp [hq] at hg
    | cons a t =>
      simp [hq] at hg hc ⊢
      simp [hg.2, List.countP_cons] at hc ⊢
      omega
  case wCheckOk j => have := countP_erase_add (f := f) hg; omega
  case wCheckErr j => have := countP_erase_add (f := f) hg.1; omega

theorem obs_stop_eq (h : ObsInv cfg s) (hs : step cfg s l = some s') : s'.stopped = s'.t.started := by
  have hd := h.stop_eq
  cases l <;> simp only [step, ite_some_none] at hs <;> obtain ⟨hg, rfl⟩ := hs <;>
    simp only [State.setC] <;> (try exact hd) <;>
    (cases hfx : cfg.fixed <;> simp [hg, hfx] at hd ⊢ <;> simp [*])

theorem obs_skip_stop (h : ObsInv cfg s) (hs : step cfg s l = some s') :
    s'.skipped ≠ [] → s'.stopped = true := by
  have hd := h.skip_stop
  cases l <;> simp only [step, ite_some_none] at hs <;> obtain ⟨hg, rfl⟩ := hs <;>
    simp only [State.setC] <;> (try exact hd) <;> (try (simp [hg] at hd ⊢; done)) <;> (try (simp_all; done))

theorem obs_closed_stop (h : ObsInv cfg s) (hs : step cfg s l = some s') :
    s'.queueClosed = true → s'.stopped = true := by
  have hd := h.closed_stop
  cases l <;> simp only [step, ite_some_none] at hs <;> obtain ⟨hg, rfl⟩ := hs <;>
    simp only [State.setC] <;> (try exact hd) <;> (try (simp [hg] at hd ⊢; done)) <;> (try (simp_all; done))
  case tSet =>
    intro _; rw [h.stop_eq, hg]; rfl

theorem obs_fail_why (h : ObsInv cfg s) (hs : step cfg s l = some s') :
    ∀ g, (s'.callers g).sub.failing = true → (s'.callers g).cancelled = true ∨ s'.stopped = true := by
  intro k
  have hd := h.fail_why k
  have hcs := h.closed_stop
  cases l <;> simp only [step, ite_some_none] at hs <;> obtain ⟨hg, rfl⟩ := hs <;>
    simp only [State.setC] <;> (try exact hd) <;>
    first
    | (simp only [upd]; split <;> rename_i hk' <;>
        first
        | exact hd
        | (subst hk'; simp [hg, failPc] at hd ⊢; first | done | exact hd | omega))
    | skip
  case stopBegin => intro _; exact .inr trivial
  case subCtx g =>
    by_cases hk' : k = g
    · subst hk'
      cases hcc : (s.callers k).cancelled <;> cases hfx : cfg.fixed <;> simp [hcc, hfx]
    · simp only [upd_other _ _ hk']; exact hd
  case subClosed g =>
    by_cases hk' : k = g
    · subst hk'
      cases hcc : s.queueClosed <;> cases hfx : cfg.fixed <;> simp [hcc, hfx, failPc]
      all_goals exact .inr (hcs hcc)
    · simp only [upd_other _ _ hk']; exact hd

theorem obs_fin_why (hn : NextInv cfg s) (h : ObsInv cfg s) (hs : step cfg s l = some s') :
    ∀ g, (s'.callers g).sub.finished = true →
      (s'.callers g).next = cfg.jobs g ∨ (s'.callers g).cancelled = true ∨ s'.stopped = true := by
  intro k
  have hd := h.fin_why k
  have hfw := h.fail_why k
  have hle := h.next_le k
  cases l <;> simp only [step, ite_some_none] at hs <;> obtain ⟨hg, rfl⟩ := hs <;>
    simp only [State.setC] <;> (try exact hd) <;>
    first
    | (simp only [upd]; split <;> rename_i hk' <;>
        first
        | exact hd
        | (subst hk'; simp [hg, failPc] at hd hfw ⊢; first | done | exact hd | exact hfw | omega))
    | skip
  case stopBegin => intro _; exact .inr (.inr trivial)
  case subFailDone g =>
    by_cases hk' : k = g
    · subst hk'
      intro _
      rcases hfw (by simp [hg]) with h1 | h1
      · exact .inr (.inl (by simpa using h1))
      · exact .inr (.inr h1)
    · simp only [upd_other _ _ hk']; exact hd

theorem obs_step (hn : NextInv cfg s) (h : ObsInv cfg s) (hs : step cfg s l = some s') : ObsInv cfg s' :=
  ⟨obs_acc_next h hs, obs_next_le hn h hs, obs_pre h hs, obs_stop_eq h hs, obs_skip_stop h hs,
   obs_closed_stop h hs, obs_fail_why h hs, obs_fin_why hn h hs⟩

end

theorem obs_init (cfg : Cfg) : ObsInv cfg (init cfg) := by
  constructor <;> simp [init, prePipe]

theorem obs_reach {cfg : Cfg} {s : State} (h : Reach cfg s) : ObsInv cfg s := by
  induction h with
  | init => exact obs_init cfg
  | step l hr hs ih => exact obs_step (next_reach hr) ih hs


/-! ### the Spec predicate on the model's observation -/

theorem nodup_map_of_inj {l : List Job} {f : Job → Nat} (h : l.Nodup)
    (hinj : ∀ a ∈ l, ∀ b ∈ l, f a = f b → a = b) : (l.map f).Nodup := by
  induction l with
  | nil => simp
  | cons x t ih =>
    rw [List.nodup_cons] at h
    rw [List.map_cons, List.nodup_cons]
    refine ⟨?_, ih h.2 (fun a ha b hb => hinj a (List.mem_cons_of_mem _ ha) b (List.mem_cons_of_mem _ hb))⟩
    intro hx
    obtain ⟨y, hy, hxy⟩ := List.mem_map.mp hx
    have := hinj y (List.mem_cons_of_mem _ hy) x (List.mem_cons_self ..) hxy
    exact h.1 (this ▸ hy)

theorem prePipe_le_pipe (s : State) (f : Job → Bool) : prePipe s f ≤ pipe s f := by
  simp only [prePipe, pipe]; omega

section
variable {cfg : Cfg} {s : State}

/-- facts about one returned caller -/
structure RetFacts (cfg : Cfg) (s : State) (g : Nat) : Prop where
  del_nodup : s.delivered.Nodup
  st_nodup : s.started.Nodup
  st_acc : ∀ j ∈ s.started, j ∈ s.accepted
  acc_del : ∀ j ∈ s.accepted, j.grp = g → j ∈ s.delivered
  del_acc : ∀ j ∈ s.delivered, j ∈ s.accepted
  acc_idx : ∀ j ∈ s.accepted, j.idx < (s.callers j.grp).next
  del_len : (s.delivered.filter (isGrp g)).length = (s.callers g).next
  next_le : (s.callers g).next ≤ cfg.jobs g
  del_start : s.stopped = false → ∀ j ∈ s.delivered, j ∈ s.started
  all_acc : s.stopped = false → (s.callers g).cancelled = false → (s.callers g).next = cfg.jobs g

theorem retFacts (hr : Reach cfg s) {g : Nat} (hret : (s.callers g).sub = .returned) : RetFacts cfg s g := by
  have hf := flow_reach hr
  have ho := obs_reach hr
  have hacc1 : ∀ j, s.accepted.countP (fun k => k == j) ≤ 1 := by
    intro j; have := (List.nodup_iff_count.mp hf.nodup) j; simpa [List.count_eq_countP] using this
  have hdn : s.delivered.Nodup := by
    rw [List.nodup_iff_count]; intro j
    have h1 := hf.cons (fun k => k == j); have := hacc1 j
    simp only [List.count_eq_countP]; omega
  have hdacc : ∀ j ∈ s.delivered, j ∈ s.accepted := by
    intro j hj
    have h1 := hf.cons (fun k => k == j)
    have h2 := countP_self_pos hj
    have h3 : 0 < s.accepted.countP (fun k => k == j) := by omega
    obtain ⟨a, ha, hb⟩ := List.countP_pos_iff.mp h3
    have : a = j := by simpa using hb
    exact this ▸ ha
  have hpast : (s.callers g).sub.past = true := by simp [hret]
  have hz := hf.pipe_zero hpast
  refine ⟨hdn, ?_, ?_, ?_, hdacc, hf.idx, ?_, ho.next_le g, ?_, ?_⟩
  · rw [List.nodup_iff_count]; intro j
    have h1 := ho.pre (fun k => k == j); have := hacc1 j
    simp only [List.count_eq_countP]; omega
  · intro j hj
    have h1 := ho.pre (fun k => k == j)
    have h2 := countP_self_pos hj
    have h3 : 0 < s.accepted.countP (fun k => k == j) := by omega
    obtain ⟨a, ha, hb⟩ := List.countP_pos_iff.mp h3
    have : a = j := by simpa using hb
    exact this ▸ ha
  · intro j hj hg
    have h1 := hf.cons (fun k => k == j)
    have h2 := countP_self_pos hj
    have h3 : pipe s (fun k => k == j) ≤ pipe s (isGrp g) := by
      have hmono : ∀ l : List Job, l.countP (fun k => k == j) ≤ l.countP (isGrp g) := by
        intro l
        apply List.countP_mono_left
        intro a _ ha
        have : a = j := by simpa using ha
        simp [this, isGrp, hg]
      simp only [pipe]
      have a1 := hmono (optList s.input); have a2 := hmono s.q.hand; have a3 := hmono s.queue
      have a4 := hmono s.p.hand; have a5 := hmono s.wStart; have a6 := hmono s.wRun
      have a7 := hmono s.wStore; have a8 := hmono s.results; have a9 := hmono s.rbatch
      omega
    have h4 : 0 < s.delivered.countP (fun k => k == j) := by omega
    obtain ⟨a, ha, hb⟩ := List.countP_pos_iff.mp h4
    have : a = j := by simpa using hb
    exact this ▸ ha
  · have h1 := hf.wait g
    have h2 := hf.w0 g hpast
    have h3 := ho.acc_next g
    simp [hret, h2] at h1
    rw [← List.countP_eq_length_filter]
    omega
  · intro hst j hj
    have hsk : s.skipped = [] := by
      apply Classical.byContradiction
      intro hne; have := ho.skip_stop hne; rw [hst] at this; cases this
    have h1 := hf.cons (fun k => k == j)
    have h2 := ho.pre (fun k => k == j)
    have h3 := countP_self_pos hj
    have h4 := hacc1 j
    have h5 := prePipe_le_pipe s (fun k => k == j)
    have h6 : 0 < s.started.countP (fun k => k == j) := by simp [hsk] at h2; omega
    obtain ⟨a, ha, hb⟩ := List.countP_pos_iff.mp h6
    have : a = j := by simpa using hb
    exact this ▸ ha
  · intro hst hc
    rcases ho.fin_why g (by simp [hret]) with h | h | h
    · exact h
    · rw [hc] at h; cases h
    · rw [hst] at h; cases h

theorem job_ext {a b : Job} (h1 : a.grp = b.grp) (h2 : a.idx = b.idx) : a = b := by
  cases a; cases b; simp_all

theorem callerOk_of_facts {g : Nat} (cs : Case) (hret : (s.callers g).sub = .returned) (F : RetFacts cfg s g)
    (hq : cs.quiet = true → s.stopped = false ∧ (s.callers g).cancelled = false)
    (hns : cs.noStop = true → s.stopped = false) :
    callerOk cs (observeCaller cfg s g) = true := by
  have hgrp : ∀ a, a ∈ s.delivered.filter (isGrp g) → a.grp = g := by
    intro a ha; have := (List.mem_filter.mp ha).2; simpa [isGrp] using this
  have hsplit := length_filter_split (fun j => s.started.contains j) (s.delivered.filter (isGrp g))
  have hanon0 : s.stopped = false →
      ((s.delivered.filter (isGrp g)).filter (fun j => !s.started.contains j)).length = 0 := by
    intro hst
    rw [List.length_eq_zero_iff, List.filter_eq_nil_iff]
    intro a ha
    have := F.del_start hst a (List.mem_filter.mp ha).1
    simp [this]
  -- the fields of the observation
  have e_del : (observeCaller cfg s g).delivered =
      ((s.delivered.filter (isGrp g)).filter (fun j => s.started.contains j)).map (·.idx) := rfl
  have e_st : (observeCaller cfg s g).started = (s.started.filter (isGrp g)).map (·.idx) := rfl
  have e_anon : (observeCaller cfg s g).anon =
      ((s.delivered.filter (isGrp g)).filter (fun j => !s.started.contains j)).length := rfl
  have e_jobs : (observeCaller cfg s g).jobs = cfg.jobs g := rfl
  have e_ret : (observeCaller cfg s g).returned = decide ((s.callers g).sub = .returned) := rfl
  have e_at : (observeCaller cfg s g).atReturn = some (s.delivered.filter (isGrp g)).length := rfl
  have e_late : (observeCaller cfg s g).late = 0 := rfl
  have e_tot : (observeCaller cfg s g).total = (s.callers g).next := by
    simp only [CallerObs.total, e_del, e_anon, List.length_map]
    have := F.del_len; omega
  have st_idx : ∀ i ∈ (observeCaller cfg s g).started, i < (s.callers g).next := by
    intro i hi
    rw [e_st] at hi
    obtain ⟨a, ha, rfl⟩ := List.mem_map.mp hi
    have h1 := List.mem_filter.mp ha
    have hag : a.grp = g := by simpa [isGrp] using h1.2
    have := F.acc_idx a (F.st_acc a h1.1)
    rw [hag] at this
    exact this
  unfold callerOk callerChecks
  simp only [List.all_cons, List.all_nil, Bool.and_true, Bool.and_eq_true]
  have e_pan : (observeCaller cfg s g).panicked =
      ((s.started.filter (isGrp g)).filter cfg.panics).map (·.idx) := rfl
  have e_err : (observeCaller cfg s g).errDelivered =
      (((s.delivered.filter (isGrp g)).filter (fun j => s.started.contains j)).filter cfg.panics).map (·.idx) := rfl
  refine ⟨by simp [e_ret, hret], ?_, ?_, ?_, ?_, ?_, ?_, ?_, ?_, ?_, ?_⟩
  · -- identified results pairwise distinct
    apply decide_eq_true
    rw [e_del]
    apply nodup_map_of_inj ((F.del_nodup.filter _).filter _)
    intro a ha b hb hab
    exact job_ext ((hgrp a (List.mem_filter.mp ha).1).trans (hgrp b (List.mem_filter.mp hb).1).symm) hab
  · -- identified results come from started jobs
    rw [List.all_eq_true]
    intro i hi
    rw [e_del] at hi
    obtain ⟨a, ha, rfl⟩ := List.mem_map.mp hi
    have h1 := List.mem_filter.mp ha
    have h2 : a ∈ s.started := by simpa using h1.2
    have h3 := (List.mem_filter.mp h1.1).2
    rw [List.contains_iff_mem, e_st]
    exact List.mem_map.mpr ⟨a, List.mem_filter.mpr ⟨h2, h3⟩, rfl⟩
  · -- every started job was delivered
    rw [List.all_eq_true]
    intro i hi
    rw [e_st] at hi
    obtain ⟨a, ha, rfl⟩ := List.mem_map.mp hi
    have h1 := List.mem_filter.mp ha
    have hag : a.grp = g := by simpa [isGrp] using h1.2
    have h2 := F.acc_del a (F.st_acc a h1.1) hag
    rw [List.contains_iff_mem, e_del]
    refine List.mem_map.mpr ⟨a, ?_, rfl⟩
    exact List.mem_filter.mpr ⟨List.mem_filter.mpr ⟨h2, h1.2⟩, by simpa using h1.1⟩
  · -- a job function runs once, for a submitted job
    constructor
    · apply decide_eq_true
      rw [e_st]
      apply nodup_map_of_inj (F.st_nodup.filter _)
      intro a ha b hb hab
      have h1 : a.grp = g := by simpa [isGrp] using (List.mem_filter.mp ha).2
      have h2 : b.grp = g := by simpa [isGrp] using (List.mem_filter.mp hb).2
      exact job_ext (h1.trans h2.symm) hab
    · rw [List.all_eq_true]
      intro i hi
      apply decide_eq_true
      have := st_idx i hi
      have := F.next_le
      rw [e_jobs]; omega
  · apply decide_eq_true
    have := F.next_le
    rw [e_tot, e_jobs]; omega
  · rw [List.all_eq_true]
    intro i hi
    apply decide_eq_true
    rw [e_tot]; exact st_idx i hi
  · constructor
    · apply decide_eq_true; exact e_late
    · rw [e_at, e_tot, F.del_len]; simp
  · cases hqq : cs.quiet with
    | false => simp
    | true =>
      obtain ⟨h1, h2⟩ := hq hqq
      have h3 := hanon0 h1; have h4 := F.all_acc h1 h2; have h5 := F.del_len
      simp only [Bool.not_true, Bool.false_or, Bool.and_eq_true]
      constructor
      · apply decide_eq_true; rw [e_del, e_jobs, List.length_map]; omega
      · apply decide_eq_true; rw [e_anon]; exact h3
  · cases hnn : cs.noStop with
    | false => simp
    | true =>
      simp only [Bool.not_true, Bool.false_or]
      apply decide_eq_true; rw [e_anon]; exact hanon0 (hns hnn)
  · -- the error result of a recovered panic: delivered for exactly the jobs that panicked
    refine ⟨⟨?_, ?_⟩, ?_⟩
    · rw [List.all_eq_true]
      intro i hi
      rw [e_pan] at hi
      obtain ⟨a, ha, rfl⟩ := List.mem_map.mp hi
      have h0 := List.mem_filter.mp ha
      have h1 := List.mem_filter.mp h0.1
      have hag : a.grp = g := by simpa [isGrp] using h1.2
      have h2 := F.acc_del a (F.st_acc a h1.1) hag
      rw [List.contains_iff_mem, e_err]
      refine List.mem_map.mpr ⟨a, ?_, rfl⟩
      exact List.mem_filter.mpr ⟨List.mem_filter.mpr ⟨List.mem_filter.mpr ⟨h2, h1.2⟩, by simpa using h1.1⟩, h0.2⟩
    · rw [List.all_eq_true]
      intro i hi
      rw [e_err] at hi
      obtain ⟨a, ha, rfl⟩ := List.mem_map.mp hi
      have h0 := List.mem_filter.mp ha
      have h1 := List.mem_filter.mp h0.1
      have h2 : a ∈ s.started := by simpa using h1.2
      have h3 := (List.mem_filter.mp h1.1).2
      rw [List.contains_iff_mem, e_pan]
      exact List.mem_map.mpr ⟨a, List.mem_filter.mpr ⟨List.mem_filter.mpr ⟨h2, h3⟩, h0.2⟩, rfl⟩
    · rw [List.all_eq_true]
      intro i hi
      rw [e_err] at hi
      obtain ⟨a, ha, rfl⟩ := List.mem_map.mp hi
      rw [List.contains_iff_mem, e_del]
      exact List.mem_map.mpr ⟨a, (List.mem_filter.mp ha).1, rfl⟩

theorem spec_of_final_aux (hfix : cfg.fixed = true) (hmax : 1 ≤ cfg.maxWorkers)
    (h : Reach cfg s) (hq : ¬ CanStep cfg s) (hst : s.stopped = true) (mc : Nat) (hmc : mc ≤ cfg.maxWorkers) :
    spec { workers := cfg.maxWorkers, quiet := false, noStop := false } (observe cfg s mc) = true := by
  obtain ⟨ht, hqx, hpx, hb, hc⟩ :=
    quiescent_clean hfix (live_reach hfix h) (flow_reach h) (work_reach h) hmax hq hst
  have hleft : goroutinesLeft cfg s = 0 := by
    have : sumTo cfg.ncallers (fun g => (if (s.callers g).sub = .returned then 0 else 1) +
        (if (s.callers g).rd = .exited then 0 else 1)) = 0 := by
      rw [sumTo_congr (f' := fun _ => 0)]
      · exact sumTo_const_zero _
      · intro k hk; simp [(hc k hk).1, (hc k hk).2]
    simp [goroutinesLeft, hqx, hpx, hb, this]
  unfold spec globalChecks
  simp only [List.all_cons, List.all_nil, Bool.and_true, Bool.and_eq_true]
  refine ⟨⟨by simp [observe], ?_, ?_⟩, ?_⟩
  · apply decide_eq_true; exact hmc
  · apply decide_eq_true; exact hleft
  · simp only [observe, List.all_map, List.all_eq_true, List.mem_range]
    intro g hg
    exact callerOk_of_facts _ (hc g hg).1 (retFacts h (hc g hg).1) (by simp) (by simp)

/-- a state in which every goroutine has ended is quiescent -/
theorem final_quiescent (ht : s.t = .done) (hq : s.q = .exited) (hp : s.p = .exited)
    (h1 : s.wStart = []) (h2 : s.wRun = []) (h3 : s.wStore = []) (h4 : s.wPut = 0)
    (hc : ∀ g, g < cfg.ncallers → (s.callers g).sub = .returned ∧ (s.callers g).rd = .exited) :
    ¬ CanStep cfg s := by
  rintro ⟨l, hl, he⟩
  simp only [enabled] at he
  cases l <;> simp only [step, isSome_ite] at he <;>
    first
    | (simp [Label.isEnv] at hl; done)
    | (simp_all; done)
    | (have := hc _ he.1; simp_all; done)
    | skip

end

/-! ### the pre-fix variant gets stuck -/

/-- everything that can still change in `stuckOld` is the caller's `cancelled` flag -/
structure StuckOld (s : State) : Prop where
  q : s.q = .exited
  p : s.p = .exited
  input : s.input = some ⟨0, 0⟩
  queue : s.queue = []
  w1 : s.wStart = []
  w2 : s.wRun = []
  w3 : s.wStore = []
  w4 : s.wPut = 0
  res : s.results = []
  rb : s.rbatch = []
  t : s.t = .done
  sub : (s.callers 0).sub = .wait
  wait : (s.callers 0).wait = 1
  rd : (s.callers 0).rd = .select
  ntf : (s.callers 0).notify = false
  ec : (s.callers 0).endClosed = false

theorem runSched_some : (runSched cfgOld (init cfgOld) schedOld).isSome = true := by decide

theorem stuckOld_inv : StuckOld stuckOld := by
  constructor <;> decide

theorem stuckOld_step {s s' : State} {l : Label} (h : StuckOld s) (hs : step cfgOld s l = some s') :
    StuckOld s' ∧ l.isEnv = true := by
  obtain ⟨h1, h2, h3, h4, h5, h6, h7, h8, h9, h10, h11, h12, h13, h14, h15, h16⟩ := h
  cases l <;> simp only [step, ite_some_none] at hs <;> obtain ⟨hg, rfl⟩ := hs <;>
    first
    | (simp_all; done)
    | (have hg0 : ‹Nat› = 0 := by have := hg.1; simp [cfgOld] at this; omega
       subst hg0; simp_all; done)
    | skip
  case cancel g =>
    have hg0 : g = 0 := by have := hg.1; simp [cfgOld] at this; omega
    subst hg0
    refine ⟨?_, rfl⟩
    constructor <;> simp [State.setC, *]

theorem stuckOld_steps {s' : State} (h : Steps cfgOld stuckOld s') : StuckOld s' := by
  induction h with
  | refl => exact stuckOld_inv
  | step l _ hs ih => exact (stuckOld_step ih hs).1

theorem reach_runSched {cfg : Cfg} {s s' : State} {sched : List Label} (h : Reach cfg s)
    (hr : runSched cfg s sched = some s') : Reach cfg s' := by
  induction sched generalizing s with
  | nil => simp [runSched] at hr; exact hr ▸ h
  | cons l ls ih =>
    simp only [runSched] at hr
    cases hs : step cfg s l with
    | none => simp [hs] at hr
    | some s1 => rw [hs] at hr; exact ih (Reach.step l h hs) hr

theorem stuckOld_reach : Reach cfgOld stuckOld := by
  apply reach_runSched (Reach.init)
  have := runSched_some
  unfold stuckOld
  cases h : runSched cfgOld (init cfgOld) schedOld with
  | none => simp [h] at this
  | some s => simp


/-! ### trace validation: what `Spec.C14.replay` accepts is a run of the model -/

theorem tstep_reach {cfg : Cfg} {t t' : TState} {e : Ev} (h : Reach cfg t.s) (hs : tstep cfg t e = some t') :
    Reach cfg t'.s := by
  unfold tstep at hs
  cases hi : interp cfg t e with
  | none => simp [hi] at hs
  | some p =>
    obtain ⟨ls, ex, bw⟩ := p
    simp only [hi] at hs
    cases hr : runSched cfg t.s ls with
    | none => simp [hr] at hs
    | some s' =>
      simp only [hr, Option.some.injEq] at hs
      subst hs
      exact reach_runSched h hr

theorem replay_reach {cfg : Cfg} {evs : Array Ev} {order : List Nat} {t t' : TState} (h : Reach cfg t.s)
    (hr : replay cfg evs t order = some t') : Reach cfg t'.s := by
  induction order generalizing t with
  | nil => simp [replay] at hr; exact hr ▸ h
  | cons i is ih =>
    simp only [replay] at hr
    cases he : evs[i]? with
    | none => simp [he] at hr
    | some e =>
      simp only [he] at hr
      cases hs : tstep cfg t e with
      | none => simp [hs] at hr
      | some t1 =>
        simp only [hs] at hr
        exact ih (tstep_reach h hs) hr

theorem replay_take {cfg : Cfg} {evs : Array Ev} {order : List Nat} {t t' : TState}
    (hr : replay cfg evs t order = some t') (k : Nat) : ∃ t'', replay cfg evs t (order.take k) = some t'' := by
  induction order generalizing t k with
  | nil => exact ⟨t, by simp [replay]⟩
  | cons i is ih =>
    cases k with
    | zero => exact ⟨t, by simp [replay]⟩
    | succ k =>
      simp only [replay] at hr
      cases he : evs[i]? with
      | none => simp [he] at hr
      | some e =>
        simp only [he] at hr
        cases hs : tstep cfg t e with
        | none => simp [hs] at hr
        | some t1 =>
          simp only [hs] at hr
          obtain ⟨t2, h2⟩ := ih hr k
          exact ⟨t2, by simp [replay, he, hs, h2]⟩


/-! ### the two arms of the model that no reachable state takes -/

/-- `processQueue` is the only consumer of the queue: between its `Len() != 0` test and its `Pop()` the
queue can only grow -/
def PopInv (s : State) : Prop := ∀ f, s.p = .pop f → s.queue ≠ []

theorem pop_step {cfg : Cfg} {s s' : State} {l : Label} (h : PopInv s) (hs : step cfg s l = some s') : PopInv s' := by
  unfold PopInv at *
  cases l <;> simp only [step, ite_some_none] at hs <;> obtain ⟨hg, rfl⟩ := hs <;>
    simp only [State.setC] <;> (try exact h) <;> intro f hf
  case qAdd j => simp
  case qDrainAdd j => simp
  case qSendStop => cases hf
  case pNotify => cases hf
  case pLen f' =>
    by_cases hq : s.queue = []
    · simp only [hq, if_true] at hf; cases f' <;> cases hf
    · exact hq
  case pPopEmpty f' => cases f' <;> simp at hf
  case pPop f' j => cases hf
  case pSpawnNew f' j => cases hf
  case pSpawnReuse f' j => cases hf

theorem pop_reach {cfg : Cfg} {s : State} (h : Reach cfg s) : PopInv s := by
  induction h with
  | init => intro f hf; cases hf
  | step l _ hs ih => exact pop_step ih hs

/-! ### direct use of the public API: the store with map entries refines the entry-less monitor -/

@[simp] theorem setAt_same {α : Type} (f : Nat → α) (g : Nat) (v : α) : setAt f g v g = v := by simp [setAt]
theorem setAt_other {α : Type} (f : Nat → α) {g k : Nat} (v : α) (h : k ≠ g) : setAt f g v k = f k := by simp [setAt, h]

/-- what the monitor sees of a store: a missing entry is an empty list / a channel without token -/
structure DRel (d : DState) (m : DMon) : Prop where
  data : ∀ g, (d.store.data g).getD [] = (m.owed g).reverse
  notify : ∀ g, (d.store.notify g).getD false = m.sig g
  out : d.outstanding = m.outstanding
  queue : d.queue = m.fifo
  held : ∀ g, d.held g = m.held g

theorem queuePop_eq (q : List Nat) : queuePop q = (q.head?, q.tail) := by
  cases q <;> rfl

/-- after `storeResult` the group's entries exist, whatever was there before: the result is on top of
what the group had and a token is on its channel -/
theorem store_store_data (st : Store) (g r k : Nat) :
    ((st.store g r).data k).getD [] = if k = g then r :: (st.data g).getD [] else (st.data k).getD [] := by
  by_cases hk : k = g
  · subst hk
    cases hd : st.data k <;> simp [Store.store, Store.dataEnsured, hd]
  · cases hd : st.data g <;> simp [Store.store, Store.dataEnsured, hd, setAt_other _ _ hk, hk]

theorem store_store_notify (st : Store) (g r k : Nat) :
    ((st.store g r).notify k).getD false = if k = g then true else (st.notify k).getD false := by
  by_cases hk : k = g
  · subst hk
    cases hd : st.notify k <;> simp [Store.store, Store.notifyEnsured, hd]
  · cases hd : st.notify g <;> simp [Store.store, Store.notifyEnsured, hd, setAt_other _ _ hk, hk]

theorem store_ensure_data (st : Store) (g k : Nat) : ((st.ensure g).data k).getD [] = (st.data k).getD [] := by
  by_cases hk : k = g
  · subst hk
    cases hd : st.data k <;> simp [Store.ensure, hd]
  · cases hd : st.data g <;> simp [Store.ensure, hd, setAt_other _ _ hk]

theorem store_ensure_notify (st : Store) (g k : Nat) : ((st.ensure g).notify k).getD false = (st.notify k).getD false := by
  by_cases hk : k = g
  · subst hk
    cases hd : st.notify k <;> simp [Store.ensure, hd]
  · cases hd : st.notify g <;> simp [Store.ensure, hd, setAt_other _ _ hk]

theorem store_watch_notify (st : Store) (g k : Nat) : ((st.watch g).notify k).getD false = (st.notify k).getD false := by
  by_cases hk : k = g
  · subst hk
    cases hd : st.notify k <;> simp [Store.watch, hd]
  · cases hd : st.notify g <;> simp [Store.watch, hd, setAt_other _ _ hk]

/-- one call: the model's outcome is accepted by the monitor and the relation is kept -/
theorem drel_step (workers : Nat) {d : DState} {m : DMon} (h : DRel d m) (op : DOp) :
    ∃ m', dmonStep workers m op (dstep workers d op).1 = .ok m' ∧ DRel (dstep workers d op).2 m' := by
  obtain ⟨hd, hn, ho, hq, hh⟩ := h
  cases op with
  | submit g v =>
    refine ⟨_, by simp only [dstep, dmonStep, Nat.min_le_left, if_true]; rfl, ?_⟩
    exact ⟨fun k => by simpa [dstep, store_ensure_data] using hd k,
           fun k => by simpa [dstep, store_ensure_notify] using hn k, by simp [dstep, ho], by simpa [dstep] using hq,
           by simpa [dstep] using hh⟩
  | submitCancelled g => exact ⟨m, rfl, ⟨hd, hn, ho, hq, hh⟩⟩
  | finish g v =>
    refine ⟨_, by simp only [dstep, dmonStep, Nat.min_le_left, if_true]; rfl, ?_⟩
    refine ⟨fun k => ?_, fun k => ?_, by simp [dstep, ho], by simpa [dstep] using hq, by simpa [dstep] using hh⟩
    · simp only [dstep, store_store_data]
      by_cases hk : k = g
      · subst hk; simp [hd k]
      · simp [hk, setAt_other _ _ hk, hd k]
    · simp only [dstep, store_store_notify]
      by_cases hk : k = g
      · subst hk; simp
      · simp [hk, setAt_other _ _ hk, hn k]
  | remove g =>
    refine ⟨_, rfl, ⟨fun k => ?_, fun k => ?_, by simp [dstep, ho], by simpa [dstep] using hq, fun k => ?_⟩⟩
    · by_cases hk : k = g
      · subst hk; simp [dstep, Store.remove]
      · simp [dstep, Store.remove, setAt_other _ _ hk, hd k]
    · by_cases hk : k = g
      · subst hk; simp [dstep, Store.remove]
      · simp [dstep, Store.remove, setAt_other _ _ hk, hn k]
    · simp only [dstep, hn g]
      by_cases hk : k = g
      · subst hk; simp [hh k]
      · simp [setAt_other _ _ hk, hh k]
  | results g =>
    have hl : (d.store.results g).1 = m.owed g := by simp [Store.results, hd g]
    refine ⟨_, by simp only [dstep, dmonStep, hl, if_true]; rfl, ⟨fun k => ?_, fun k => ?_, by simp [dstep, ho], by simpa [dstep] using hq,
      by simpa [dstep] using hh⟩⟩
    · by_cases hk : k = g
      · subst hk; simp [dstep, Store.results]
      · simp [dstep, Store.results, setAt_other _ _ hk, hd k]
    · simpa [dstep, Store.results] using hn k
  | poll g =>
    have hl : (d.store.poll g).1 = m.sig g := by simp [Store.poll, hn g]
    refine ⟨_, by simp only [dstep, dmonStep, hl, if_true]; rfl, ⟨fun k => ?_, fun k => ?_, by simp [dstep, ho], by simpa [dstep] using hq,
      by simpa [dstep] using hh⟩⟩
    · simpa [dstep, Store.poll] using hd k
    · by_cases hk : k = g
      · subst hk; simp [dstep, Store.poll]
      · simp [dstep, Store.poll, setAt_other _ _ hk, hn k]
  | qAdd vs =>
    exact ⟨_, rfl, ⟨by simpa [dstep] using hd, by simpa [dstep] using hn, by simp [dstep, ho], by simp [dstep, hq],
      by simpa [dstep] using hh⟩⟩
  | qPop =>
    refine ⟨_, by simp only [dstep, dmonStep, queuePop_eq, hq, if_true]; rfl, ?_⟩
    exact ⟨by simpa [dstep] using hd, by simpa [dstep] using hn, by simp [dstep, ho], by simp [dstep, queuePop_eq, hq],
      by simpa [dstep] using hh⟩
  | qLen =>
    refine ⟨_, by simp only [dstep, dmonStep, hq, if_true]; rfl, ?_⟩
    exact ⟨by simpa [dstep] using hd, by simpa [dstep] using hn, by simp [dstep, ho], by simpa [dstep] using hq,
      by simpa [dstep] using hh⟩
  | watch g =>
    refine ⟨_, rfl, ⟨by simpa [dstep, Store.watch] using hd, fun k => by simpa [dstep, store_watch_notify] using hn k,
      by simp [dstep, ho], by simpa [dstep] using hq, fun k => ?_⟩⟩
    by_cases hk : k = g
    · subst hk; simp [dstep]
    · simp [dstep, setAt_other _ _ hk, hh k]
  | pollHeld g =>
    cases hg : d.held g with
    | none =>
      have hm : m.held g = .none := by rw [← hh g, hg]
      refine ⟨m, by simp [dstep, dmonStep, pollHeldStep, hg, hm], ?_⟩
      exact ⟨by simpa [dstep, pollHeldStep, hg] using hd, by simpa [dstep, pollHeldStep, hg] using hn, by simp [dstep, ho],
        by simpa [dstep] using hq, by simpa [dstep, pollHeldStep, hg] using hh⟩
    | attached =>
      have hm : m.held g = .attached := by rw [← hh g, hg]
      refine ⟨{ m with sig := setAt m.sig g false }, by simp [dstep, dmonStep, pollHeldStep, hg, hm, hn g], ?_⟩
      refine ⟨by simpa [dstep, pollHeldStep, hg] using hd, fun k => ?_, by simp [dstep, ho], by simpa [dstep] using hq,
        by simpa [dstep, pollHeldStep, hg] using hh⟩
      by_cases hk : k = g
      · subst hk
        cases hx : d.store.notify k <;> simp [dstep, pollHeldStep, hg, hx]
      · simp [dstep, pollHeldStep, hg, setAt_other _ _ hk, hn k]
    | detached t =>
      have hm : m.held g = .detached t := by rw [← hh g, hg]
      refine ⟨{ m with held := setAt m.held g (.detached false) }, by simp [dstep, dmonStep, pollHeldStep, hg, hm], ?_⟩
      refine ⟨by simpa [dstep, pollHeldStep, hg] using hd, by simpa [dstep, pollHeldStep, hg] using hn, by simp [dstep, ho],
        by simpa [dstep] using hq, fun k => ?_⟩
      by_cases hk : k = g
      · subst hk; simp [dstep, pollHeldStep, hg]
      · simp [dstep, pollHeldStep, hg, setAt_other _ _ hk, hh k]

theorem drel_run (workers : Nat) (ops : List DOp) : ∀ {d : DState} {m : DMon}, DRel d m →
    ∃ m', dmonRun workers m ops (drun workers d ops) = .ok m' := by
  induction ops with
  | nil => intro d m _; exact ⟨m, rfl⟩
  | cons op ops ih =>
    intro d m h
    obtain ⟨m1, h1, h2⟩ := drel_step workers h op
    obtain ⟨m2, h3⟩ := ih h2
    exact ⟨m2, by simp only [drun, dmonRun, h1, h3]⟩

/-- the monitor's bookkeeping: per group, what finished = what was handed out + what the client wiped +
what is still owed (as multisets) -/
def DCons (m : DMon) : Prop :=
  ∀ g v, (m.finished g).count v = (m.delivered g).count v + (m.wiped g).count v + (m.owed g).count v

theorem dcons_step {workers : Nat} {m m' : DMon} {op : DOp} {out : DOut} (h : DCons m)
    (hs : dmonStep workers m op out = .ok m') : DCons m' := by
  unfold DCons at *
  cases op <;> cases out <;> simp only [dmonStep] at hs <;> (try (cases hs; done))
  case submit.accepted g v r =>
    split at hs <;> cases hs
    exact h
  case submitCancelled.refused g => cases hs; exact h
  case finish.finished g v r =>
    split at hs <;> cases hs
    intro k w
    by_cases hk : k = g
    · subst hk; have := h k w; simp [List.count_append]; omega
    · simpa [setAt_other _ _ hk] using h k w
  case remove.unit g =>
    cases hs
    intro k w
    by_cases hk : k = g
    · subst hk; have := h k w; simp [List.count_append]; omega
    · simpa [setAt_other _ _ hk] using h k w
  case results.vals g l =>
    split at hs <;> cases hs
    rename_i hl
    intro k w
    by_cases hk : k = g
    · subst hk; have := h k w; simp [List.count_append, hl]; omega
    · simpa [setAt_other _ _ hk] using h k w
  case poll.token g b =>
    split at hs <;> cases hs
    exact h
  case qAdd.unit vs => cases hs; exact h
  case qPop.popped o =>
    split at hs <;> cases hs
    exact h
  case qLen.len n =>
    split at hs <;> cases hs
    exact h
  case watch.unit g => cases hs; exact h
  case pollHeld.token g b =>
    split at hs <;> split at hs <;> cases hs <;> exact h

theorem dcons_run {workers : Nat} (ops : List DOp) : ∀ {outs : List DOut} {m m' : DMon}, DCons m →
    dmonRun workers m ops outs = .ok m' → DCons m' := by
  induction ops with
  | nil =>
    intro outs m m' h hr
    cases outs with
    | nil => simp only [dmonRun] at hr; cases hr; exact h
    | cons o os => simp [dmonRun] at hr
  | cons op ops ih =>
    intro outs m m' h hr
    cases outs with
    | nil => simp [dmonRun] at hr
    | cons o os =>
      simp only [dmonRun] at hr
      cases hs : dmonStep workers m op o with
      | error e => simp [hs] at hr
      | ok m1 =>
        simp only [hs] at hr
        exact ih (dcons_step h hs) hr

/-! ### VOLUME: a kept channel and a long result list, for any number of groups / results -/

theorem drun_append (workers : Nat) (a b : List DOp) : ∀ d : DState,
    drun workers d (a ++ b) = drun workers d a ++ drun workers (dend workers d a) b := by
  induction a with
  | nil => intro d; rfl
  | cons op a ih => intro d; simp only [List.cons_append, drun, dend, ih]

theorem dend_append (workers : Nat) (a b : List DOp) : ∀ d : DState,
    dend workers d (a ++ b) = dend workers (dend workers d a) b := by
  induction a with
  | nil => intro d; rfl
  | cons op a ih => intro d; simp only [List.cons_append, dend, ih]

/-- every call except `RemoveGroup(g)` itself and a receive from `g`'s channel keeps "the reader of `g` has
its group's live channel and a token is on it": in particular `RemoveGroup` of ANY OTHER group, and calls
on any number of other groups in any state -/
theorem woken_step (workers : Nat) {d : DState} {g : Nat} (h : Woken d g) (op : DOp)
    (h1 : op ≠ .remove g) (h2 : op ≠ .poll g) (h3 : op ≠ .pollHeld g) : Woken (dstep workers d op).2 g := by
  obtain ⟨hh, hn⟩ := h
  cases op with
  | submit k v =>
    refine ⟨by simpa [dstep] using hh, ?_⟩
    by_cases hk : g = k
    · subst hk; simp [dstep, Store.ensure, hn]
    · cases hx : d.store.notify k <;> simp [dstep, Store.ensure, hx, setAt_other _ _ hk, hn]
  | submitCancelled k => exact ⟨hh, hn⟩
  | finish k v =>
    refine ⟨by simpa [dstep] using hh, ?_⟩
    by_cases hk : g = k
    · subst hk; simp [dstep, Store.store, Store.notifyEnsured, hn]
    · cases hx : d.store.notify k <;> simp [dstep, Store.store, Store.notifyEnsured, hx, setAt_other _ _ hk, hn]
  | remove k =>
    have hk : g ≠ k := fun e => h1 (by rw [e])
    refine ⟨?_, by simp [dstep, Store.remove, setAt_other _ _ hk, hn]⟩
    simp [dstep, setAt_other _ _ hk, hh]
  | results k => exact ⟨by simpa [dstep] using hh, by simpa [dstep, Store.results] using hn⟩
  | poll k =>
    have hk : g ≠ k := fun e => h2 (by rw [e])
    exact ⟨by simpa [dstep] using hh, by simp [dstep, Store.poll, setAt_other _ _ hk, hn]⟩
  | qAdd vs => exact ⟨by simpa [dstep] using hh, by simpa [dstep] using hn⟩
  | qPop => exact ⟨by simpa [dstep] using hh, by simpa [dstep] using hn⟩
  | qLen => exact ⟨by simpa [dstep] using hh, by simpa [dstep] using hn⟩
  | watch k =>
    by_cases hk : g = k
    · subst hk; exact ⟨by simp [dstep], by simp [dstep, Store.watch, hn]⟩
    · refine ⟨by simp [dstep, setAt_other _ _ hk, hh], ?_⟩
      cases hx : d.store.notify k <;> simp [dstep, Store.watch, hx, setAt_other _ _ hk, hn]
  | pollHeld k =>
    have hk : g ≠ k := fun e => h3 (by rw [e])
    cases hx : d.held k <;> simp [Woken, dstep, pollHeldStep, hx, setAt_other _ _ hk, hh, hn]

theorem woken_run (workers : Nat) {g : Nat} : ∀ (ops : List DOp) {d : DState}, Woken d g →
    (∀ op ∈ ops, op ≠ .remove g ∧ op ≠ .poll g ∧ op ≠ .pollHeld g) → Woken (dend workers d ops) g := by
  intro ops
  induction ops with
  | nil => intro d h _; exact h
  | cons op ops ih =>
    intro d h hall
    have ho := hall op (List.mem_cons_self ..)
    exact ih (woken_step workers h op ho.1 ho.2.1 ho.2.2) (fun o hm => hall o (List.mem_cons_of_mem _ hm))

/-- fetching the channel and a result stored for the group: the kept channel is the live one, with a token -/
theorem woken_after_watch_finish (workers : Nat) (d : DState) (g v : Nat) :
    Woken (dend workers d [.watch g, .finish g v]) g := by
  refine ⟨by simp [dend, dstep], ?_⟩
  cases hx : d.store.notify g <;> simp [dend, dstep, Store.watch, Store.store, Store.notifyEnsured, hx]

/-- `k` results stored for a group, whatever `k`: all of them are in the group's list, newest first -/
theorem dend_finishes_data (workers : Nat) (g : Nat) : ∀ (vs : List Nat) (d : DState),
    ((dend workers d (vs.map (.finish g))).store.data g).getD [] = vs.reverse ++ (d.store.data g).getD [] := by
  intro vs
  induction vs with
  | nil => intro d; rfl
  | cons v vs ih =>
    intro d
    simp only [List.map_cons, dend, ih, dstep, store_store_data, if_true, List.reverse_cons, List.append_assoc,
      List.singleton_append]

end AutoVerif.C14
