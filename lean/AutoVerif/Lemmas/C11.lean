import AutoVerif.Spec.C11
/-
Helper lemmas for Props/C11 (core Lean only).
-/
namespace AutoVerif.C11

/-! ### Go map as association list -/
namespace GMap
variable {V : Type}

theorem get_del_self (m : GMap V) (k : String) : (m.del k).get k = none := by
  induction m with
  | nil => rfl
  | cons e m ih =>
    obtain ⟨k', v⟩ := e
    by_cases h : k' = k
    · simp [del, h] at ih ⊢; exact ih
    · simp [del, h, get] at ih ⊢; exact ih

theorem get_del_ne (m : GMap V) {k k' : String} (h : k' ≠ k) : (m.del k).get k' = m.get k' := by
  induction m with
  | nil => rfl
  | cons e m ih =>
    obtain ⟨k₀, v⟩ := e
    by_cases h0 : k₀ = k
    · subst h0
      have : k₀ ≠ k' := fun hc => h hc.symm
      simp [del, get, this] at ih ⊢; exact ih
    · simp only [del, List.filter_cons, h0, ne_eq, not_false_eq_true, decide_true, if_true, get] at ih ⊢
      split <;> simp_all

theorem get_set_self (m : GMap V) (k : String) (v : V) : (m.set k v).get k = some v := by
  simp [set, get]

theorem get_set_ne (m : GMap V) {k k' : String} (v : V) (h : k' ≠ k) : (m.set k v).get k' = m.get k' := by
  have : k ≠ k' := fun hc => h hc.symm
  simp [set, get, this, get_del_ne m h]

theorem get_set (m : GMap V) (k k' : String) (v : V) :
    (m.set k v).get k' = if k' = k then some v else m.get k' := by
  by_cases h : k' = k
  · subst h; simp [get_set_self]
  · simp [h, get_set_ne m v h]

theorem get_del (m : GMap V) (k k' : String) :
    (m.del k).get k' = if k' = k then none else m.get k' := by
  by_cases h : k' = k
  · subst h; simp [get_del_self]
  · simp [h, get_del_ne m h]

/-- no key twice -/
def KN (m : GMap V) : Prop := (m.keys).Nodup

theorem KN_nil : KN ([] : GMap V) := by simp [KN, keys]

theorem KN_filter {m : GMap V} (p : String × V → Bool) (h : KN m) : KN (m.filter p) := by
  unfold KN keys at *
  exact List.Nodup.sublist (List.Sublist.map _ List.filter_sublist) h

theorem KN_del {m : GMap V} (k : String) (h : KN m) : KN (m.del k) := KN_filter _ h

theorem not_mem_keys_del (m : GMap V) (k : String) : k ∉ (m.del k).keys := by
  simp [keys, del]

theorem KN_set {m : GMap V} (k : String) (v : V) (h : KN m) : KN (m.set k v) := by
  unfold KN at *
  simp only [set, keys, List.map_cons, List.nodup_cons]
  exact ⟨not_mem_keys_del m k, KN_del k h⟩

theorem mem_of_get {m : GMap V} {k : String} {v : V} (h : m.get k = some v) : (k, v) ∈ m := by
  induction m with
  | nil => simp [get] at h
  | cons e m ih =>
    obtain ⟨k', v'⟩ := e
    simp only [get] at h
    split at h
    · rename_i hk; subst hk; simp at h; subst h; simp
    · exact List.mem_cons_of_mem _ (ih h)

theorem get_of_mem {m : GMap V} (hn : KN m) {k : String} {v : V} (h : (k, v) ∈ m) : m.get k = some v := by
  induction m with
  | nil => simp at h
  | cons e m ih =>
    obtain ⟨k', v'⟩ := e
    simp only [KN, keys, List.map_cons, List.nodup_cons] at hn
    rcases List.mem_cons.mp h with h | h
    · simp at h; obtain ⟨rfl, rfl⟩ := h; simp [get]
    · have hk : k ∈ m.map (·.1) := List.mem_map.mpr ⟨(k, v), h, rfl⟩
      have : k' ≠ k := fun hc => hn.1 (hc ▸ hk)
      simp [get, this]; exact ih hn.2 h

theorem get_isSome_iff_mem_keys (m : GMap V) (k : String) : (m.get k).isSome ↔ k ∈ m.keys := by
  induction m with
  | nil => simp [get, keys]
  | cons e m ih =>
    obtain ⟨k', v'⟩ := e
    by_cases h : k' = k
    · simp [get, keys, h]
    · have h' : k ≠ k' := fun hc => h hc.symm
      simp [get, h, keys, h'] at ih ⊢; exact ih

end GMap

/-! ### `sort.Strings` -/

theorem insertSorted_perm (k : String) (l : List String) : (insertSorted k l).Perm (k :: l) := by
  induction l with
  | nil => simp [insertSorted]
  | cons x xs ih =>
    unfold insertSorted
    split
    · exact List.Perm.refl _
    · exact (List.Perm.cons x ih).trans (List.Perm.swap k x xs)

theorem sortStrings_perm (l : List String) : (sortStrings l).Perm l := by
  induction l with
  | nil => simp [sortStrings]
  | cons x xs ih =>
    have : sortStrings (x :: xs) = insertSorted x (sortStrings xs) := rfl
    rw [this]
    exact (insertSorted_perm x _).trans (List.Perm.cons x ih)

theorem mem_sortStrings {l : List String} {k : String} : k ∈ sortStrings l ↔ k ∈ l :=
  (sortStrings_perm l).mem_iff

theorem insertSorted_sorted (k : String) (l : List String) (h : List.Pairwise (· ≤ ·) l) :
    List.Pairwise (· ≤ ·) (insertSorted k l) := by
  induction l with
  | nil => simp [insertSorted]
  | cons x xs ih =>
    unfold insertSorted
    rw [List.pairwise_cons] at h
    split
    · rename_i hkx
      rw [List.pairwise_cons]
      refine ⟨?_, List.pairwise_cons.mpr h⟩
      intro y hy
      rcases List.mem_cons.mp hy with hy | hy
      · subst hy; exact hkx
      · exact String.le_trans hkx (h.1 y hy)
    · rename_i hkx
      have hxk : x ≤ k := by
        rcases String.le_total k x with h1 | h1
        · exact absurd h1 hkx
        · exact h1
      rw [List.pairwise_cons]
      refine ⟨?_, ih h.2⟩
      intro y hy
      rcases List.mem_cons.mp ((insertSorted_perm k xs).mem_iff.mp hy) with hy | hy
      · subst hy; exact hxk
      · exact h.1 y hy

theorem sortStrings_sorted (l : List String) : List.Pairwise (· ≤ ·) (sortStrings l) := by
  induction l with
  | nil => simp [sortStrings]
  | cons x xs ih =>
    have : sortStrings (x :: xs) = insertSorted x (sortStrings xs) := rfl
    rw [this]
    exact insertSorted_sorted x _ ih

theorem sortStrings_nodup {l : List String} (h : l.Nodup) : (sortStrings l).Nodup :=
  (sortStrings_perm l).nodup_iff.mpr h

/-- a duplicate-free key list is sorted strictly -/
theorem sortStrings_strict {l : List String} (h : l.Nodup) : List.Pairwise (· < ·) (sortStrings l) := by
  have h1 := sortStrings_sorted l
  have h2 := List.nodup_iff_pairwise_ne.mp (sortStrings_nodup h)
  exact (h1.and h2).imp (fun ⟨hle, hne⟩ => Std.lt_of_le_of_ne hle hne)

/-! ### ordered map -/

theorem filterMap_congr' {α β : Type} {f g : α → Option β} : ∀ (l : List α), (∀ x ∈ l, f x = g x) →
    l.filterMap f = l.filterMap g
  | [], _ => rfl
  | x :: xs, h => by
    have h1 := h x (by simp)
    have h2 := filterMap_congr' xs (fun y hy => h y (by simp [hy]))
    simp [List.filterMap_cons, h1, h2]

theorem filter_true' {α : Type} (l : List α) : l.filter (fun _ => true) = l := by
  induction l <;> simp_all

/-- representation invariant of `orderedMap`: `keys` lists the keys of `values`, each once -/
structure WF (m : OMap) : Prop where
  keysNodup : m.keys.Nodup
  valsKN : GMap.KN m.values
  dom : ∀ k, k ∈ m.keys ↔ (m.values.get k).isSome

theorem WF_empty : WF OMap.empty :=
  ⟨by simp [OMap.empty], GMap.KN_nil, by simp [OMap.empty, GMap.get]⟩

theorem WF_add {m : OMap} (h : WF m) (key : String) (v : Rec) : WF (m.add key v) := by
  unfold OMap.add
  split
  · rename_i hs
    refine ⟨h.keysNodup, GMap.KN_set _ _ h.valsKN, ?_⟩
    intro k
    simp only [GMap.get_set]
    split
    · rename_i hk; subst hk; simp [(h.dom k).mpr hs]
    · exact h.dom k
  · rename_i hs
    have hnot : key ∉ m.keys := fun hc => hs ((h.dom key).mp hc)
    refine ⟨?_, GMap.KN_set _ _ h.valsKN, ?_⟩
    · simp only [List.nodup_append, List.nodup_cons, List.not_mem_nil, not_false_eq_true, List.nodup_nil,
        and_self, List.mem_cons, or_false, true_and]
      exact ⟨h.keysNodup, fun a ha b hb => by subst hb; intro hc; subst hc; exact hnot ha⟩
    · intro k
      simp only [List.mem_append, List.mem_singleton, GMap.get_set]
      split
      · rename_i hk; simp [hk]
      · rename_i hk; simp [hk]; exact h.dom k

theorem delete_keys {m : OMap} (h : WF m) (key : String) :
    (m.delete key).keys = m.keys.filter (fun k => k != key) := by
  simp only [OMap.delete]
  exact List.Nodup.erase_eq_filter h.keysNodup key

theorem WF_delete {m : OMap} (h : WF m) (key : String) : WF (m.delete key) := by
  refine ⟨?_, GMap.KN_del _ h.valsKN, ?_⟩
  · exact List.Nodup.erase key h.keysNodup
  · intro k
    simp only [OMap.delete, List.Nodup.mem_erase_iff h.keysNodup, GMap.get_del]
    split
    · rename_i hk; simp [hk]
    · rename_i hk; simp [hk]; exact h.dom k

theorem WF_sorted {m : OMap} (h : WF m) : WF { m with keys := sortStrings m.keys } :=
  ⟨sortStrings_nodup h.keysNodup, h.valsKN, fun k => by simp only [mem_sortStrings]; exact h.dom k⟩

/-- `expired` of the record `Get` returns (the zero record of a missing key is expired) -/
def deadK (expr now : Nat) (vals : GMap Rec) (k : String) : Bool :=
  match vals.get k with
  | some r => recExpired expr now r
  | none => true

/-- the proposal a live key contributes to a view -/
def liveProp (expr now : Nat) (vals : GMap Rec) (k : String) : Option Proposal :=
  match vals.get k with
  | some r => if recExpired expr now r then none else some r.proposal
  | none => none

/-- closed form of the state and result after ranging over `ks` -/
def viewPost (expr now : Nat) (ks : List String) (m : OMap) (res : List Proposal) : List Proposal × OMap :=
  (res ++ ks.filterMap (liveProp expr now m.values),
   { keys := m.keys.filter (fun k => !(decide (k ∈ ks) && deadK expr now m.values k)),
     values := m.values.filter (fun e => !(decide (e.1 ∈ ks) && recExpired expr now e.2)) })

private theorem viewPost_dead (expr now : Nat) (key : String) (ks : List String) (m : OMap) (res : List Proposal)
    (h : WF m) (hnd : (key :: ks).Nodup) (hdead : deadK expr now m.values key = true) :
    viewPost expr now ks (m.delete key) res = viewPost expr now (key :: ks) m res := by
  have hkey : key ∉ ks := (List.nodup_cons.mp hnd).1
  have hget : ∀ k, k ≠ key → (m.delete key).values.get k = m.values.get k := fun k hk => by
    simp [OMap.delete, GMap.get_del, hk]
  have hlp : liveProp expr now m.values key = none := by
    unfold liveProp; unfold deadK at hdead
    split <;> simp_all
  unfold viewPost
  congr 1
  · congr 1
    rw [List.filterMap_cons, hlp]
    apply filterMap_congr'
    intro k hk
    have : k ≠ key := fun hc => hkey (hc ▸ hk)
    simp [liveProp, hget k this]
  · congr 1
    · rw [delete_keys h, List.filter_filter]
      apply List.filter_congr
      intro k _
      by_cases hk : k = key
      · subst hk; simp [hdead]
      · simp [hk, deadK, hget k hk]
    · simp only [OMap.delete, GMap.del, List.filter_filter]
      apply List.filter_congr
      intro e he
      by_cases hk : e.1 = key
      · have hg : m.values.get key = some e.2 := by
          have := GMap.get_of_mem h.valsKN (k := e.1) (v := e.2) he
          rwa [hk] at this
        have : recExpired expr now e.2 = true := by simpa [deadK, hg] using hdead
        simp [hk, this]
      · simp [hk]

theorem viewLoop_eq (expr now : Nat) : ∀ (ks : List String) (m : OMap) (res : List Proposal),
    WF m → ks.Nodup → viewLoop expr now ks m res = viewPost expr now ks m res := by
  intro ks
  induction ks with
  | nil => intro m res _ _; cases m; simp [viewLoop, viewPost, filter_true']
  | cons key ks ih =>
    intro m res h hnd
    have hnd' : ks.Nodup := (List.nodup_cons.mp hnd).2
    have hkey : key ∉ ks := (List.nodup_cons.mp hnd).1
    unfold viewLoop
    cases hg : m.get key with
    | none =>
      simp only
      rw [ih _ _ (WF_delete h key) hnd']
      exact viewPost_dead expr now key ks m res h hnd (by simp [deadK, show m.values.get key = none from hg])
    | some r =>
      simp only
      have hg' : m.values.get key = some r := hg
      split
      · rename_i hexp
        rw [ih _ _ (WF_delete h key) hnd']
        exact viewPost_dead expr now key ks m res h hnd (by simp [deadK, hg', hexp])
      · rename_i hexp
        rw [ih _ _ h hnd']
        unfold viewPost
        congr 1
        · simp [liveProp, hg', hexp]
        · congr 1
          · apply List.filter_congr
            intro k _
            by_cases hk : k = key
            · subst hk; simp [deadK, hg', hexp]
            · simp [hk]
          · apply List.filter_congr
            intro e he
            by_cases hk : e.1 = key
            · have hg2 : m.values.get key = some e.2 := by
                have := GMap.get_of_mem h.valsKN (k := e.1) (v := e.2) he
                rwa [hk] at this
              have : e.2 = r := by rw [hg'] at hg2; exact (Option.some.inj hg2).symm
              simp [hk, this, hexp]
            · simp [hk]

theorem GMap.get_filter {V : Type} {m : GMap V} (hn : GMap.KN m) (p : String × V → Bool) (k : String) :
    (GMap.get (m.filter p) k) = (GMap.get m k).bind (fun v => if p (k, v) then some v else none) := by
  induction m with
  | nil => simp [GMap.get]
  | cons e m ih =>
    obtain ⟨k', v'⟩ := e
    simp only [GMap.KN, GMap.keys, List.map_cons, List.nodup_cons] at hn
    have ih := ih hn.2
    by_cases hk : k' = k
    · subst hk
      have hnone : GMap.get m k' = none := by
        cases hg : GMap.get m k' with
        | none => rfl
        | some v =>
          have := GMap.mem_of_get hg
          exact absurd (List.mem_map.mpr ⟨(k', v), this, rfl⟩) hn.1
      by_cases hp : p (k', v') = true
      · simp [hp, GMap.get]
      · simp [hp, GMap.get, ih, hnone]
    · by_cases hp : p (k', v') = true
      · simp [hp, GMap.get, hk, ih]
      · simp [hp, GMap.get, hk, ih]

/-- the closed form of `OMap.view` -/
theorem view_eq (expr now : Nat) {m : OMap} (h : WF m) :
    m.view expr now =
      ((sortStrings m.keys).filterMap (liveProp expr now m.values),
       { keys := (sortStrings m.keys).filter (fun k => !deadK expr now m.values k),
         values := liveOf expr now m.values }) := by
  unfold OMap.view OMap.keysCopy
  simp only
  rw [viewLoop_eq expr now _ _ _ (WF_sorted h) (sortStrings_nodup h.keysNodup)]
  unfold viewPost
  simp only [List.nil_append]
  congr 2
  · apply List.filter_congr
    intro k hk
    simp [hk]
  · unfold liveOf
    apply List.filter_congr
    intro e he
    have : e.1 ∈ sortStrings m.keys := by
      rw [mem_sortStrings, h.dom]
      simp [GMap.get_of_mem h.valsKN (k := e.1) (v := e.2) he]
    simp [this]

theorem WF_view (expr now : Nat) {m : OMap} (h : WF m) : WF (m.view expr now).2 := by
  rw [view_eq expr now h]
  refine ⟨List.Nodup.sublist List.filter_sublist (sortStrings_nodup h.keysNodup), GMap.KN_filter _ h.valsKN, ?_⟩
  intro k
  simp only [List.mem_filter, mem_sortStrings, liveOf, GMap.get_filter h.valsKN, deadK]
  cases hg : m.values.get k with
  | none => simp [h.dom k, hg]
  | some r => simp [h.dom k, hg]

/-- records are stored under their proposal's work id -/
def Keyed (m : OMap) : Prop := ∀ k r, m.values.get k = some r → r.proposal.workID = k

theorem add_values (m : OMap) (key : String) (v : Rec) : (m.add key v).values = m.values.set key v := by
  unfold OMap.add; split <;> rfl

theorem Keyed_add {m : OMap} (h : Keyed m) (now : Nat) (p : Proposal) :
    Keyed (m.add p.workID { createdAt := now, proposal := p }) := by
  intro k r hg
  rw [add_values, GMap.get_set] at hg
  split at hg
  · rename_i hk; simp at hg; subst hg; exact hk.symm
  · exact h k r hg

theorem Keyed_delete {m : OMap} (h : Keyed m) (key : String) : Keyed (m.delete key) := by
  intro k r hg
  simp only [OMap.delete, GMap.get_del] at hg
  split at hg
  · simp at hg
  · exact h k r hg

theorem Keyed_view (expr now : Nat) {m : OMap} (hw : WF m) (h : Keyed m) : Keyed (m.view expr now).2 := by
  intro k r hg
  rw [view_eq expr now hw] at hg
  simp only [liveOf, GMap.get_filter hw.valsKN] at hg
  cases hg' : m.values.get k with
  | none => simp [hg'] at hg
  | some r' =>
    simp [hg'] at hg
    exact hg.2 ▸ h k r' hg'

theorem map_workID_filterMap {m : OMap} (hk : Keyed m) (expr now : Nat) (l : List String) :
    (l.filterMap (liveProp expr now m.values)).map (·.workID) = l.filter (fun k => !deadK expr now m.values k) := by
  induction l with
  | nil => rfl
  | cons k l ih =>
    cases hg : m.values.get k with
    | none =>
      have h1 : liveProp expr now m.values k = none := by simp [liveProp, hg]
      have h2 : deadK expr now m.values k = true := by simp [deadK, hg]
      simp [h1, h2, ih]
    | some r =>
      by_cases he : recExpired expr now r = true
      · have h1 : liveProp expr now m.values k = none := by simp [liveProp, hg, he]
        have h2 : deadK expr now m.values k = true := by simp [deadK, hg, he]
        simp [h1, h2, ih]
      · have h1 : liveProp expr now m.values k = some r.proposal := by simp [liveProp, hg, he]
        have h2 : deadK expr now m.values k = false := by simp [deadK, hg, he]
        simp [h1, h2, ih, hk k r hg]

theorem mem_view_iff (expr now : Nat) {m : OMap} (h : WF m) (p : Proposal) :
    p ∈ (m.view expr now).1 ↔ ∃ k r, m.values.get k = some r ∧ recExpired expr now r = false ∧ r.proposal = p := by
  rw [view_eq expr now h]
  simp only [List.mem_filterMap, mem_sortStrings, liveProp]
  constructor
  · rintro ⟨k, _, hk⟩
    cases hg : m.values.get k with
    | none => simp [hg] at hk
    | some r =>
      simp only [hg] at hk
      split at hk
      · simp at hk
      · rename_i he
        exact ⟨k, r, hg, by simpa using he, by simpa using hk⟩
  · rintro ⟨k, r, hg, he, hp⟩
    exact ⟨k, (h.dom k).mpr (by simp [hg]), by simp [hg, he, hp]⟩

/-- the model's view result satisfies the Spec's view clause -/
theorem viewOk_view (expr now : Nat) {m : OMap} (h : WF m) (hk : Keyed m) :
    viewOk (liveOf expr now m.values) (m.view expr now).1 = true := by
  simp only [viewOk, Bool.and_eq_true, decide_eq_true_eq, List.all_eq_true, List.any_eq_true,
    List.contains_iff_mem, beq_iff_eq]
  refine ⟨⟨?_, ?_⟩, ?_⟩
  · rw [view_eq expr now h]
    simp only [map_workID_filterMap hk]
    exact List.Nodup.sublist List.filter_sublist (sortStrings_nodup h.keysNodup)
  · intro e he
    simp only [liveOf, List.mem_filter, Bool.not_eq_true'] at he
    exact (mem_view_iff expr now h _).mpr ⟨e.1, e.2, GMap.get_of_mem h.valsKN he.1, he.2, rfl⟩
  · intro p hp
    obtain ⟨k, r, hg, he, hpr⟩ := (mem_view_iff expr now h p).mp hp
    exact ⟨(k, r), by simp [liveOf, GMap.mem_of_get hg, he], hpr⟩

/-! ### build hooks of the observation -/

theorem find_wid_some {view : List Proposal} {k : String} {p : Proposal}
    (h : view.find? (fun p => p.workID == k) = some p) : p ∈ view ∧ p.workID = k :=
  ⟨List.mem_of_find?_eq_some h, by simpa using List.find?_some h⟩

theorem wid_inj : ∀ {view : List Proposal}, (view.map (·.workID)).Nodup → ∀ {p p' : Proposal},
    p ∈ view → p' ∈ view → p.workID = p'.workID → p = p'
  | [], _, _, _, hp, _, _ => by simp at hp
  | x :: xs, hnd, p, p', hp, hp', hw => by
    simp only [List.map_cons, List.nodup_cons, List.mem_map, not_exists, not_and] at hnd
    rcases List.mem_cons.mp hp with rfl | h1 <;> rcases List.mem_cons.mp hp' with rfl | h2
    · rfl
    · exact absurd hw.symm (hnd.1 p' h2)
    · exact absurd hw (hnd.1 p h1)
    · exact wid_inj hnd.2 h1 h2 hw

theorem mem_view_of_mem_shuffleBy {order : List String} {view : List Proposal} {p : Proposal}
    (h : p ∈ shuffleBy order view) : p ∈ view := by
  simp only [shuffleBy, List.mem_append, List.mem_filterMap, List.mem_filter] at h
  rcases h with ⟨k, _, hk⟩ | ⟨h, _⟩
  · exact (find_wid_some hk).1
  · exact h

/-- the shuffle loses nothing -/
theorem mem_shuffleBy_of_mem {order : List String} {view : List Proposal} (hnd : (view.map (·.workID)).Nodup)
    {p : Proposal} (h : p ∈ view) : p ∈ shuffleBy order view := by
  simp only [shuffleBy, List.mem_append, List.mem_filterMap, List.mem_filter]
  by_cases hc : order.contains p.workID = true
  · left
    refine ⟨p.workID, by simpa using hc, ?_⟩
    cases hf : view.find? (fun q => q.workID == p.workID) with
    | none =>
      have := List.find?_eq_none.mp hf p h
      simp at this
    | some p' =>
      obtain ⟨hm, hw⟩ := find_wid_some hf
      rw [wid_inj hnd hm h hw]
  · right; exact ⟨h, by simpa using hc⟩

private theorem map_wid_picks (order : List String) (view : List Proposal) :
    (order.filterMap (fun k => view.find? (fun p => p.workID == k))).map (·.workID) =
      order.filter (fun k => (view.find? (fun p => p.workID == k)).isSome) := by
  induction order with
  | nil => rfl
  | cons k ks ih =>
    cases hf : view.find? (fun p => p.workID == k) with
    | none => simp [hf, ih]
    | some p => simp [hf, ih, (find_wid_some hf).2]

/-- … and repeats nothing -/
theorem shuffleBy_nodup {order : List String} {view : List Proposal} (ho : order.Nodup)
    (hnd : (view.map (·.workID)).Nodup) : ((shuffleBy order view).map (·.workID)).Nodup := by
  simp only [shuffleBy, List.map_append, List.nodup_append]
  refine ⟨?_, ?_, ?_⟩
  · rw [map_wid_picks]; exact List.Nodup.sublist List.filter_sublist ho
  · exact List.Nodup.sublist (List.filter_sublist.map _) hnd
  · intro a ha b hb hab
    rw [map_wid_picks] at ha
    have ha' : a ∈ order := (List.mem_filter.mp ha).1
    obtain ⟨q, hq, hqb⟩ := List.mem_map.mp hb
    have := (List.mem_filter.mp hq).2
    simp only [Bool.not_eq_true', List.contains_eq_mem, decide_eq_false_iff_not] at this
    exact this (hqb ▸ hab ▸ ha')

theorem shuffleBy_nil (order : List String) : shuffleBy order [] = [] := by
  simp only [shuffleBy, List.find?_nil, List.filter_nil, List.append_nil]
  induction order with
  | nil => rfl
  | cons k ks ih => simp [List.filterMap_cons, ih]

theorem cutTo_sublist (limit : Nat) (l : List Proposal) : (cutTo limit l).Sublist l := by
  unfold cutTo; split
  · exact List.take_sublist _ _
  · exact List.Sublist.refl _

theorem cutTo_length (limit : Nat) (l : List Proposal) :
    (cutTo limit l).length ≤ limit ∧ ((cutTo limit l).length = limit ∨ cutTo limit l = l) := by
  unfold cutTo; split
  · rename_i h; simp only [List.length_take]; omega
  · rename_i h; exact ⟨by omega, Or.inr rfl⟩

theorem observeHook_nil (limit : Nat) (order : List String) : observeHook limit order [] = [] := by
  simp [observeHook, shuffleBy_nil, cutTo]

/-- what a build hook adds to the observation satisfies the Spec's observation clause: unexpired pending
proposals only, none twice, at most `limit`, all of them when they fit — for every shuffle -/
theorem obsOk_observe (expr now limit : Nat) (order : List String) (ho : order.Nodup) {m : OMap}
    (h : WF m) (hk : Keyed m) :
    obsOk limit (liveOf expr now m.values) (observeHook limit order (m.view expr now).1) = true := by
  have hvnd : (((m.view expr now).1).map (·.workID)).Nodup := by
    rw [view_eq expr now h]
    simp only [map_workID_filterMap hk]
    exact List.Nodup.sublist List.filter_sublist (sortStrings_nodup h.keysNodup)
  have hsub := cutTo_sublist limit (shuffleBy order (m.view expr now).1)
  obtain ⟨hlen, hfull⟩ := cutTo_length limit (shuffleBy order (m.view expr now).1)
  simp only [obsOk, observeHook, Bool.and_eq_true, Bool.or_eq_true, List.all_eq_true,
    List.any_eq_true, List.contains_iff_mem, beq_iff_eq]
  refine ⟨⟨⟨?_, ?_⟩, decide_eq_true hlen⟩, ?_⟩
  · exact decide_eq_true (List.Nodup.sublist (hsub.map _) (shuffleBy_nodup ho hvnd))
  · intro p hp
    obtain ⟨k, r, hg, he, hpr⟩ := (mem_view_iff expr now h p).mp (mem_view_of_mem_shuffleBy (hsub.subset hp))
    exact ⟨(k, r), by simp [liveOf, GMap.mem_of_get hg, he], hpr⟩
  · rcases hfull with hl | he
    · exact Or.inl (decide_eq_true hl)
    · right
      intro e hel
      rw [he]
      simp only [liveOf, List.mem_filter, Bool.not_eq_true'] at hel
      exact mem_shuffleBy_of_mem hvnd
        ((mem_view_iff expr now h _).mpr ⟨e.1, e.2, GMap.get_of_mem h.valsKN hel.1, hel.2, rfl⟩)

/-- picking, in the order of their work ids, proposals that the view holds gives them back -/
theorem picks_self {view : List Proposal} (hv : (view.map (·.workID)).Nodup) : ∀ {out : List Proposal},
    (∀ p ∈ out, p ∈ view) →
    (out.map (·.workID)).filterMap (fun k => view.find? (fun p => p.workID == k)) = out
  | [], _ => rfl
  | p :: ps, hsub => by
    have hp : p ∈ view := hsub p (by simp)
    have hf : view.find? (fun q => q.workID == p.workID) = some p := by
      cases hf : view.find? (fun q => q.workID == p.workID) with
      | none =>
        have := List.find?_eq_none.mp hf p hp
        simp at this
      | some p' =>
        obtain ⟨hm, hw⟩ := find_wid_some hf
        rw [wid_inj hv hm hp hw]
    simp only [List.map_cons, List.filterMap_cons, hf]
    rw [picks_self hv (fun q hq => hsub q (by simp [hq]))]

/-- the shuffle a build hook took is recoverable from what it added to the observation: run with "the
work ids it returned, in its order" the model returns the same proposals (and the state after the view does
not depend on the shuffle at all) -/
theorem observeHook_recovered (limit : Nat) (o1 : List String) (view : List Proposal)
    (hv : (view.map (·.workID)).Nodup) :
    observeHook limit ((observeHook limit o1 view).map (·.workID)) view = observeHook limit o1 view := by
  have hsubl := cutTo_sublist limit (shuffleBy o1 view)
  have hmem : ∀ p ∈ observeHook limit o1 view, p ∈ view :=
    fun p hp => mem_view_of_mem_shuffleBy (hsubl.subset hp)
  generalize hout : observeHook limit o1 view = out at hmem
  have hpk := picks_self hv hmem
  have hsh : shuffleBy (out.map (·.workID)) view =
      out ++ view.filter (fun p => !(out.map (·.workID)).contains p.workID) := by
    simp only [shuffleBy, hpk]
  unfold observeHook at hout ⊢
  rw [hsh]
  unfold cutTo at hout
  split at hout
  · rename_i hlong
    have hlen : out.length = limit := by rw [← hout, List.length_take]; omega
    unfold cutTo
    split
    · exact List.take_left' hlen
    · rename_i hns
      simp only [List.length_append] at hns
      have h0 : (view.filter (fun p => !(out.map (·.workID)).contains p.workID)).length = 0 := by omega
      rw [List.eq_nil_of_length_eq_zero h0, List.append_nil]
  · rename_i hshort
    have hrest : view.filter (fun p => !(out.map (·.workID)).contains p.workID) = [] := by
      apply List.filter_eq_nil_iff.mpr
      intro p hp
      have hpo : p ∈ out := by rw [← hout]; exact mem_shuffleBy_of_mem hv hp
      simp only [Bool.not_eq_true', List.contains_eq_mem, decide_eq_false_iff_not, List.mem_map]
      exact fun hno => hno ⟨p, hpo, rfl⟩
    rw [hrest, List.append_nil]
    rw [hout] at hshort
    unfold cutTo
    rw [if_neg hshort]

/-- the filterer's test on the viewed proposals is the test on the live records -/
theorem any_view_eq_any_live (expr now : Nat) {m : OMap} (h : WF m) (w : String) :
    ((m.view expr now).1).any (fun v => v.workID == w) =
      (liveOf expr now m.values).any (fun e => e.2.proposal.workID == w) := by
  rw [Bool.eq_iff_iff]
  simp only [List.any_eq_true, beq_iff_eq]
  constructor
  · rintro ⟨p, hp, hw⟩
    obtain ⟨k, r, hg, he, hpr⟩ := (mem_view_iff expr now h p).mp hp
    exact ⟨(k, r), by simp [liveOf, GMap.mem_of_get hg, he], by simpa [hpr] using hw⟩
  · rintro ⟨e, hel, hw⟩
    simp only [liveOf, List.mem_filter, Bool.not_eq_true'] at hel
    exact ⟨e.2.proposal, (mem_view_iff expr now h _).mpr ⟨e.1, e.2, GMap.get_of_mem h.valsKN hel.1, hel.2, rfl⟩, hw⟩

theorem filterOk_filterer (expr now : Nat) (ps : List Proposal) {m : OMap} (h : WF m) :
    filterOk (liveOf expr now m.values) ps (filterPayloads (m.view expr now).1 ps) = true := by
  simp only [filterOk, filterPayloads, beq_iff_eq]
  apply List.filter_congr
  intro p _
  rw [any_view_eq_any_live expr now h]

/-! ### metadata store: invariant and abstraction -/

structure WFS (s : MStore) : Prop where
  cond : WF s.cond
  log : WF s.log
  condK : Keyed s.cond
  logK : Keyed s.log

theorem Keyed_empty : Keyed OMap.empty := by intro k r h; simp [OMap.empty, GMap.get] at h

theorem WFS_empty : WFS MStore.empty := ⟨WF_empty, WF_empty, Keyed_empty, Keyed_empty⟩

theorem WFS_add1 (tg : String → Nat) (now : Nat) {s : MStore} (h : WFS s) (p : Proposal) :
    WFS (MStore.add1 tg now s p) := by
  unfold MStore.add1
  split
  · exact ⟨h.cond, WF_add h.log _ _, h.condK, Keyed_add h.logK now p⟩
  · split
    · exact ⟨WF_add h.cond _ _, h.log, Keyed_add h.condK now p, h.logK⟩
    · exact h

theorem WFS_addProposals (tg : String → Nat) (now : Nat) (ps : List Proposal) {s : MStore} (h : WFS s) :
    WFS (s.addProposals tg now ps) := by
  unfold MStore.addProposals
  induction ps generalizing s with
  | nil => exact h
  | cons p ps ih => exact ih (WFS_add1 tg now h p)

theorem WFS_remove1 (tg : String → Nat) {s : MStore} (h : WFS s) (p : Proposal) :
    WFS (MStore.remove1 tg s p) := by
  unfold MStore.remove1
  split
  · exact ⟨h.cond, WF_delete h.log _, h.condK, Keyed_delete h.logK _⟩
  · split
    · exact ⟨WF_delete h.cond _, h.log, Keyed_delete h.condK _, h.logK⟩
    · exact h

theorem WFS_foldl_remove1 (tg : String → Nat) (ps : List Proposal) {s : MStore} (h : WFS s) :
    WFS (ps.foldl (MStore.remove1 tg) s) := by
  induction ps generalizing s with
  | nil => exact h
  | cons p ps ih => exact ih (WFS_remove1 tg h p)

theorem WFS_removeProposals (tg : String → Nat) (ps : List Proposal) {s : MStore} (h : WFS s) :
    WFS (s.removeProposals tg ps) := WFS_foldl_remove1 tg ps h

theorem WFS_view (t now : Nat) {s : MStore} (h : WFS s) : WFS (s.viewProposals t now).2 := by
  unfold MStore.viewProposals
  split
  · exact ⟨h.cond, WF_view _ _ h.log, h.condK, Keyed_view _ _ h.log h.logK⟩
  · split
    · exact ⟨WF_view _ _ h.cond, h.log, Keyed_view _ _ h.cond h.condK, h.logK⟩
    · exact h

theorem WFS_observe (t limit now : Nat) (order : List String) {s : MStore} (h : WFS s) :
    WFS (s.observe t limit now order).2 := WFS_view t now h

theorem WFS_filterer (t now : Nat) (ps : List Proposal) {s : MStore} (h : WFS s) :
    WFS (s.filterer t now ps).2 := WFS_view t now h

/-- the remove hook is one `remove` per surfaced proposal, in order -/
theorem removeHook_eq (tg : String → Nat) (sf : List (List Proposal)) (s : MStore) :
    removeFromMetadataHook tg sf s = sf.flatten.foldl (MStore.remove1 tg) s := by
  unfold removeFromMetadataHook
  induction sf generalizing s with
  | nil => rfl
  | cons round sf ih =>
    simp only [List.foldl_cons, List.flatten_cons, List.foldl_append]
    rw [ih]
    rfl

theorem WFS_removeHook (tg : String → Nat) (sf : List (List Proposal)) {s : MStore} (h : WFS s) :
    WFS (removeFromMetadataHook tg sf s) := by
  rw [removeHook_eq]; exact WFS_foldl_remove1 tg _ h

/-- the add-to-queue hook enqueues every surfaced proposal, in order -/
theorem addHook_eq (now : Nat) (sf : List (List Proposal)) (q : Queue) :
    addToProposalQHook now sf q = enqueue now sf.flatten q := by
  unfold addToProposalQHook enqueue
  induction sf generalizing q with
  | nil => rfl
  | cons round sf ih => simp only [List.foldl_cons, List.flatten_cons, List.foldl_append]; exact ih _

/-- iteration orders of a history visit no key twice (a Go map range does not, a shuffle\nis a permutation) -/
def opOrder : Op → List String
  | .deq _ _ o => o
  | .tick _ _ o _ => o
  | .observe _ _ o => o
  | _ => []

def OrdersNodup (ops : List Op) : Prop := ∀ op ∈ ops, (opOrder op).Nodup

theorem OrdersNodup_cons {op : Op} {ops : List Op} (h : OrdersNodup (op :: ops)) :
    OrdersNodup [op] ∧ OrdersNodup ops :=
  ⟨fun o ho => h o (by simp at ho; simp [ho]), fun o ho => h o (by simp [ho])⟩

/-- the Spec's abstract state is the model state without the key slices -/
def Sim (st : St) (s : SSt) : Prop :=
  s.cond = st.ms.cond.values ∧ s.log = st.ms.log.values ∧ s.q = st.q ∧ s.now = st.now

theorem sim_add (tg : String → Nat) (now : Nat) (ps : List Proposal) (ms : MStore) (s : SSt)
    (hc : s.cond = ms.cond.values) (hl : s.log = ms.log.values) :
    (ps.foldl (sAdd1 tg now) s).cond = (ps.foldl (MStore.add1 tg now) ms).cond.values ∧
    (ps.foldl (sAdd1 tg now) s).log = (ps.foldl (MStore.add1 tg now) ms).log.values ∧
    (ps.foldl (sAdd1 tg now) s).q = s.q ∧ (ps.foldl (sAdd1 tg now) s).now = s.now := by
  induction ps generalizing ms s with
  | nil => exact ⟨hc, hl, rfl, rfl⟩
  | cons p ps ih =>
    simp only [List.foldl_cons]
    have key : (sAdd1 tg now s p).cond = (MStore.add1 tg now ms p).cond.values ∧
        (sAdd1 tg now s p).log = (MStore.add1 tg now ms p).log.values ∧
        (sAdd1 tg now s p).q = s.q ∧ (sAdd1 tg now s p).now = s.now := by
      unfold sAdd1 MStore.add1
      split
      · simp [add_values, hc, hl]
      · split <;> simp [add_values, hc, hl]
    obtain ⟨h1, h2, h3, h4⟩ := ih _ _ key.1 key.2.1
    exact ⟨h1, h2, h3.trans key.2.2.1, h4.trans key.2.2.2⟩

theorem sim_remove (tg : String → Nat) (ps : List Proposal) (ms : MStore) (s : SSt)
    (hc : s.cond = ms.cond.values) (hl : s.log = ms.log.values) :
    (ps.foldl (sRemove1 tg) s).cond = (ps.foldl (MStore.remove1 tg) ms).cond.values ∧
    (ps.foldl (sRemove1 tg) s).log = (ps.foldl (MStore.remove1 tg) ms).log.values ∧
    (ps.foldl (sRemove1 tg) s).q = s.q ∧ (ps.foldl (sRemove1 tg) s).now = s.now := by
  induction ps generalizing ms s with
  | nil => exact ⟨hc, hl, rfl, rfl⟩
  | cons p ps ih =>
    simp only [List.foldl_cons]
    have key : (sRemove1 tg s p).cond = (MStore.remove1 tg ms p).cond.values ∧
        (sRemove1 tg s p).log = (MStore.remove1 tg ms p).log.values ∧
        (sRemove1 tg s p).q = s.q ∧ (sRemove1 tg s p).now = s.now := by
      unfold sRemove1 MStore.remove1
      split
      · simp [OMap.delete, hc, hl]
      · split <;> simp [OMap.delete, hc, hl]
    obtain ⟨h1, h2, h3, h4⟩ := ih _ _ key.1 key.2.1
    exact ⟨h1, h2, h3.trans key.2.2.1, h4.trans key.2.2.2⟩

/-- one step: the abstraction is kept, the view verdict on the model's own output is `true`,
and the Spec logs exactly the model's hand-outs -/
theorem sim_step (tg : String → Nat) {st : St} {s : SSt} (hw : WFS st.ms) (hs : Sim st s) (op : Op)
    (ho : (opOrder op).Nodup) :
    Sim (step tg st op) (sStep tg s op ((stepOut tg st op).getD [])).1 ∧
    (sStep tg s op ((stepOut tg st op).getD [])).2.1 = true ∧
    (sStep tg s op ((stepOut tg st op).getD [])).2.2 = opEvents tg st op ∧
    WFS (step tg st op).ms := by
  obtain ⟨hc, hl, hq, hn⟩ := hs
  cases op with
  | add ps =>
    obtain ⟨h1, h2, h3, h4⟩ := sim_add tg s.now ps st.ms s hc hl
    refine ⟨⟨?_, ?_, ?_, ?_⟩, rfl, rfl, ?_⟩
    · simpa [sStep, step, MStore.addProposals, hn] using h1
    · simpa [sStep, step, MStore.addProposals, hn] using h2
    · simpa [sStep, step, hq] using h3
    · simpa [sStep, step, hn] using h4
    · exact WFS_addProposals tg _ ps hw
  | remove ps =>
    obtain ⟨h1, h2, h3, h4⟩ := sim_remove tg ps st.ms s hc hl
    refine ⟨⟨?_, ?_, ?_, ?_⟩, rfl, rfl, ?_⟩
    · simpa [sStep, step, MStore.removeProposals] using h1
    · simpa [sStep, step, MStore.removeProposals] using h2
    · simpa [sStep, step, hq] using h3
    · simpa [sStep, step, hn] using h4
    · exact WFS_removeProposals tg ps hw
  | view t =>
    refine ⟨?_, ?_, ?_, WFS_view t st.now hw⟩
    · simp only [sStep, step, stepOut, MStore.viewProposals, Option.getD_some]
      split
      · refine ⟨hc, ?_, hq, hn⟩
        simp [view_eq _ _ hw.log, hl, hn]
      · split
        · refine ⟨?_, hl, hq, hn⟩
          simp [view_eq _ _ hw.cond, hc, hn]
        · exact ⟨hc, hl, hq, hn⟩
    · simp only [sStep, stepOut, MStore.viewProposals, Option.getD_some]
      split
      · simp only [hl, hn]; exact viewOk_view _ _ hw.log hw.logK
      · split
        · simp only [hc, hn]; exact viewOk_view _ _ hw.cond hw.condK
        · simp
    · simp only [sStep, opEvents]
      split
      · rfl
      · split <;> rfl
  | observe t limit order =>
    have hnd : order.Nodup := ho
    refine ⟨?_, ?_, ?_, WFS_observe t limit st.now order hw⟩
    · simp only [sStep, step, stepOut, MStore.observe, MStore.viewProposals, Option.getD_some]
      split
      · refine ⟨hc, ?_, hq, hn⟩
        simp [view_eq _ _ hw.log, hl, hn]
      · split
        · refine ⟨?_, hl, hq, hn⟩
          simp [view_eq _ _ hw.cond, hc, hn]
        · exact ⟨hc, hl, hq, hn⟩
    · simp only [sStep, stepOut, MStore.observe, MStore.viewProposals, Option.getD_some]
      split
      · simp only [hl, hn]; exact obsOk_observe _ _ limit order hnd hw.log hw.logK
      · split
        · simp only [hc, hn]; exact obsOk_observe _ _ limit order hnd hw.cond hw.condK
        · simp [observeHook_nil]
    · simp only [sStep, opEvents]
      split
      · rfl
      · split <;> rfl
  | svc b => exact ⟨⟨hc, hl, hq, hn⟩, rfl, rfl, hw⟩
  | filter t ps =>
    refine ⟨?_, ?_, ?_, WFS_filterer t st.now ps hw⟩
    · simp only [sStep, step, stepOut, MStore.filterer, MStore.viewProposals, Option.getD_some]
      split
      · refine ⟨hc, ?_, hq, hn⟩
        simp [view_eq _ _ hw.log, hl, hn]
      · split
        · refine ⟨?_, hl, hq, hn⟩
          simp [view_eq _ _ hw.cond, hc, hn]
        · exact ⟨hc, hl, hq, hn⟩
    · simp only [sStep, stepOut, MStore.filterer, MStore.viewProposals, Option.getD_some]
      split
      · simp only [hl, hn]; exact filterOk_filterer _ _ ps hw.log
      · split
        · simp only [hc, hn]; exact filterOk_filterer _ _ ps hw.cond
        · simp [filterPayloads]
    · simp only [sStep, opEvents]
      split
      · rfl
      · split <;> rfl
  | adv d => exact ⟨⟨hc, hl, hq, by simp [sStep, step, hn]⟩, rfl, rfl, hw⟩
  | enq ps => exact ⟨⟨hc, hl, by simp [sStep, step, hq, hn], hn⟩, rfl, rfl, hw⟩
  | deq t n order =>
    refine ⟨⟨hc, hl, ?_, hn⟩, rfl, ?_, hw⟩
    · simp [sStep, step, stepOut, dequeue, hq, hn]
    · simp [sStep, stepOut, opEvents, deqEvents, dequeue, hq, hn]
  | tick t n order ok =>
    refine ⟨⟨hc, hl, ?_, hn⟩, rfl, ?_, hw⟩
    · simp [sStep, step, hq, hn]
    · cases ok <;> simp [sStep, stepOut, opEvents, deqEvents, dequeue, hq, hn]
  | outcome sf =>
    obtain ⟨h1, h2, h3, h4⟩ := sim_remove tg sf.flatten st.ms s hc hl
    refine ⟨⟨?_, ?_, ?_, ?_⟩, rfl, rfl, ?_⟩
    · simpa [sStep, step, removeHook_eq] using h1
    · simpa [sStep, step, removeHook_eq] using h2
    · simp [sStep, step, hq, hn]
    · simpa [sStep, step, hn] using h4
    · exact WFS_removeHook tg sf hw

/-- replaying the model's own outputs: every view verdict holds and the Spec's log is the
model's hand-out log -/
theorem sRun_model (tg : String → Nat) (ops : List Op) {st : St} {s : SSt} (hw : WFS st.ms) (hs : Sim st s)
    (hn : OrdersNodup ops) :
    sRun tg ops (run tg ops st) s = (true, handouts tg ops st) := by
  induction ops generalizing st s with
  | nil => rfl
  | cons op ops ih =>
    obtain ⟨hn1, hn2⟩ := OrdersNodup_cons hn
    obtain ⟨h1, h2, h3, h4⟩ := sim_step tg hw hs op (hn1 op (by simp))
    have hout : ((run tg (op :: ops) st).head?.join.getD []) = (stepOut tg st op).getD [] := by
      simp only [run, List.head?_cons]
      cases stepOut tg st op <;> rfl
    simp only [sRun, hout]
    have htail : (run tg (op :: ops) st).tail = run tg ops (step tg st op) := rfl
    rw [htail, ih h4 h1 hn2, h2, h3]
    simp [handouts]

/-! ### proposal queue -/

/-- every record sits under its proposal's work id and was first seen between `lo` and `now` -/
def QInv (lo now : Nat) (q : Queue) : Prop :=
  ∀ k r, q.get k = some r → r.proposal.workID = k ∧ lo ≤ r.createdAt ∧ r.createdAt ≤ now

/-- what the queue state guarantees about a past hand-out `e`: the record for its work id is gone
only after `e`'s window; a record first seen inside the window is on a block ≥ `e.b`, and if on
`e.b` it is flagged as dequeued -/
def Cover (q : Queue) (now : Nat) (e : Ev) : Prop :=
  match q.get e.w with
  | none => now > e.c + Gen.proposalExpiryNs
  | some r => r.createdAt > e.c + Gen.proposalExpiryNs ∨
      (e.c ≤ r.createdAt ∧ e.b ≤ r.proposal.trigger.blockNumber ∧
        (r.proposal.trigger.blockNumber = e.b → r.removed = true))

theorem QInv_nil (lo now : Nat) : QInv lo now [] := by intro k r h; simp [GMap.get] at h

theorem QInv_mono {lo now now' : Nat} {q : Queue} (h : QInv lo now q) (hle : now ≤ now') : QInv lo now' q := by
  intro k r hg
  obtain ⟨h1, h2, h3⟩ := h k r hg
  exact ⟨h1, h2, by omega⟩

theorem Cover_mono {q : Queue} {now now' : Nat} {e : Ev} (h : Cover q now e) (hle : now ≤ now') : Cover q now' e := by
  unfold Cover at *
  cases hg : q.get e.w with
  | none => simp only [hg] at h ⊢; omega
  | some r => simp only [hg] at h ⊢; exact h

theorem enqueue1_get (now : Nat) (q : Queue) (p : Proposal) (k : String) :
    (enqueue1 now q p).get k =
      if k = p.workID then
        (match q.get p.workID with
         | some ex => if ex.proposal.trigger.blockNumber ≥ p.trigger.blockNumber then some ex
                      else some { proposal := p, removed := false, createdAt := now }
         | none => some { proposal := p, removed := false, createdAt := now })
      else q.get k := by
  unfold enqueue1
  cases hg : q.get p.workID with
  | none => simp only [GMap.get_set]
  | some ex =>
    simp only
    split
    · split
      · rename_i hk; rw [hk, hg]
      · rfl
    · simp only [GMap.get_set]

theorem QInv_enqueue1 {lo now : Nat} {q : Queue} (h : QInv lo now q) (hlo : lo ≤ now) (p : Proposal) :
    QInv lo now (enqueue1 now q p) := by
  intro k r hg
  rw [enqueue1_get] at hg
  split at hg
  · rename_i hk
    cases hq : q.get p.workID with
    | none => simp [hq] at hg; subst hg; exact ⟨hk.symm, hlo, Nat.le_refl _⟩
    | some ex =>
      simp only [hq] at hg
      split at hg
      · simp at hg; subst hg; rw [hk]; exact h _ _ hq
      · simp at hg; subst hg; exact ⟨hk.symm, hlo, Nat.le_refl _⟩
  · exact h k r hg

theorem Cover_enqueue1 {lo now : Nat} {q : Queue} (h : QInv lo now q) (p : Proposal) {e : Ev}
    (hc : Cover q now e) : Cover (enqueue1 now q p) now e := by
  unfold Cover at *
  rw [enqueue1_get]
  by_cases hk : e.w = p.workID
  · simp only [hk, if_true]
    rw [hk] at hc
    cases hq : q.get p.workID with
    | none =>
      simp only [hq] at hc ⊢
      left; exact hc
    | some ex =>
      simp only [hq] at hc ⊢
      have hex := h _ _ hq
      by_cases hge : ex.proposal.trigger.blockNumber ≥ p.trigger.blockNumber
      · simp only [hge, if_true]; exact hc
      · simp only [hge, if_false]
        rcases hc with hc | ⟨h1, h2, _⟩
        · left; omega
        · right; refine ⟨by omega, by omega, ?_⟩
          intro hb; omega
  · simp only [hk, if_false]; exact hc

theorem QInv_enqueue {lo now : Nat} (hlo : lo ≤ now) (ps : List Proposal) {q : Queue} (h : QInv lo now q) :
    QInv lo now (enqueue now ps q) := by
  unfold enqueue
  induction ps generalizing q with
  | nil => exact h
  | cons p ps ih => exact ih (QInv_enqueue1 h hlo p)

theorem Cover_enqueue {lo now : Nat} (hlo : lo ≤ now) (ps : List Proposal) {q : Queue} (h : QInv lo now q)
    {e : Ev} (hc : Cover q now e) : Cover (enqueue now ps q) now e := by
  unfold enqueue
  induction ps generalizing q with
  | nil => exact hc
  | cons p ps ih => exact ih (QInv_enqueue1 h hlo p) (Cover_enqueue1 h p hc)

/-- the proposal a key contributes to the candidates of a `Dequeue` scan -/
def scanCand (tg : String → Nat) (t now : Nat) (q : Queue) (k : String) : Option Proposal :=
  match q.get k with
  | some r => if qExpired now r then none else if r.removed then none
              else if tg r.proposal.upkeepID = t then some r.proposal else none
  | none => none

/-- the key holds an expired record (deleted when the scan visits it) -/
def scanDead (now : Nat) (q : Queue) (k : String) : Bool :=
  match q.get k with
  | some r => qExpired now r
  | none => false

theorem scan_spec (tg : String → Nat) (t now lo : Nat) : ∀ (order : List String) (q : Queue) (acc : List Proposal),
    QInv lo now q → order.Nodup →
    (dequeueScan tg t now order q acc).1 = acc ++ order.filterMap (scanCand tg t now q) ∧
    ∀ k, (dequeueScan tg t now order q acc).2.get k =
      if k ∈ order ∧ scanDead now q k = true then none else q.get k := by
  intro order
  induction order with
  | nil => intro q acc _ _; simp [dequeueScan]
  | cons k ks ih =>
    intro q acc hq hnd
    have hnd' : ks.Nodup := (List.nodup_cons.mp hnd).2
    have hk : k ∉ ks := (List.nodup_cons.mp hnd).1
    unfold dequeueScan
    cases hg : q.get k with
    | none =>
      simp only
      obtain ⟨h1, h2⟩ := ih q acc hq hnd'
      refine ⟨by simp [h1, scanCand, hg], ?_⟩
      intro k'
      rw [h2]
      by_cases hkk : k' = k
      · subst hkk; simp [hk, scanDead, hg]
      · simp [hkk]
    | some r =>
      simp only
      have hwid : r.proposal.workID = k := (hq k r hg).1
      split
      · rename_i hexp
        have hq' : QInv lo now (q.del k) := by
          intro k' r' hg'
          rw [GMap.get_del] at hg'
          split at hg'
          · simp at hg'
          · exact hq k' r' hg'
        rw [hwid]
        obtain ⟨h1, h2⟩ := ih (q.del k) acc hq' hnd'
        refine ⟨?_, ?_⟩
        · rw [h1]
          have : scanCand tg t now q k = none := by simp [scanCand, hg, hexp]
          simp only [List.filterMap_cons, this]
          congr 1
          apply filterMap_congr'
          intro k' hk'
          have : k' ≠ k := fun hc => hk (hc ▸ hk')
          simp [scanCand, GMap.get_del, this]
        · intro k'
          rw [h2]
          by_cases hkk : k' = k
          · subst hkk
            simp [GMap.get_del, scanDead, hg, hexp]
          · simp [hkk, scanDead, GMap.get_del]
      · rename_i hexp
        have hdead : scanDead now q k = false := by simp [scanDead, hg, hexp]
        have hget : ∀ (acc' : List Proposal) k', (if k' ∈ ks ∧ scanDead now q k' = true then none else q.get k') =
            (if k' ∈ k :: ks ∧ scanDead now q k' = true then none else q.get k') := by
          intro _ k'
          by_cases hkk : k' = k
          · subst hkk; simp [hdead]
          · simp [hkk]
        split
        · rename_i hrem
          obtain ⟨h1, h2⟩ := ih q acc hq hnd'
          refine ⟨by simp [h1, scanCand, hg, hexp, hrem], fun k' => by rw [h2, hget acc k']⟩
        · rename_i hrem
          split
          · rename_i hty
            obtain ⟨h1, h2⟩ := ih q (acc ++ [r.proposal]) hq hnd'
            refine ⟨by simp [h1, scanCand, hg, hexp, hrem, hty], fun k' => by rw [h2, hget acc k']⟩
          · rename_i hty
            obtain ⟨h1, h2⟩ := ih q acc hq hnd'
            refine ⟨by simp [h1, scanCand, hg, hexp, hrem, hty], fun k' => by rw [h2, hget acc k']⟩

def markRec (r : QRec) : QRec := { r with removed := true }

theorem markRemoved_get : ∀ (ps : List Proposal) (q : Queue), (∀ p ∈ ps, (q.get p.workID).isSome) →
    ∀ k, (markRemoved q ps).get k = if k ∈ ps.map (·.workID) then (q.get k).map markRec else q.get k := by
  intro ps
  induction ps with
  | nil => intro q _ k; simp [markRemoved]
  | cons p ps ih =>
    intro q hall k
    have hp : (q.get p.workID).isSome := hall p (by simp)
    obtain ⟨r, hr⟩ := Option.isSome_iff_exists.mp hp
    have h1 : ∀ k', (markRemoved1 q p).get k' = if k' = p.workID then some (markRec r) else q.get k' := by
      intro k'
      simp only [markRemoved1, hr, GMap.get_set, markRec]
    have hall' : ∀ p' ∈ ps, ((markRemoved1 q p).get p'.workID).isSome := by
      intro p' hp'
      rw [h1]
      split
      · rfl
      · exact hall p' (by simp [hp'])
    have := ih (markRemoved1 q p) hall' k
    simp only [markRemoved, List.foldl_cons] at this ⊢
    rw [this, h1]
    by_cases hk : k = p.workID
    · subst hk
      by_cases hin : p.workID ∈ ps.map (·.workID)
      · simp [hin, hr, markRec]
      · simp [hin, hr]
    · simp only [hk, if_false, List.map_cons, List.mem_cons, false_or]

theorem cand_facts {tg : String → Nat} {t now lo : Nat} {q : Queue} (hq : QInv lo now q) {k : String} {p : Proposal}
    (h : scanCand tg t now q k = some p) :
    ∃ r, q.get k = some r ∧ r.proposal = p ∧ p.workID = k ∧ qExpired now r = false ∧ r.removed = false ∧
      tg p.upkeepID = t := by
  unfold scanCand at h
  cases hg : q.get k with
  | none => simp [hg] at h
  | some r =>
    simp only [hg] at h
    by_cases h1 : qExpired now r = true
    · simp [h1] at h
    · by_cases h2 : r.removed = true
      · simp [h1, h2] at h
      · by_cases h3 : tg r.proposal.upkeepID = t
        · simp [h1, h2, h3] at h
          refine ⟨r, rfl, h, ?_, by simpa using h1, by simpa using h2, h ▸ h3⟩
          rw [← h]; exact (hq k r hg).1
        · simp [h1, h2, h3] at h

theorem cands_sublist {tg : String → Nat} {t now lo : Nat} {q : Queue} (hq : QInv lo now q) (l : List String) :
    ((l.filterMap (scanCand tg t now q)).map (·.workID)).Sublist l := by
  induction l with
  | nil => simp
  | cons k l ih =>
    simp only [List.filterMap_cons]
    cases hc : scanCand tg t now q k with
    | none => exact List.Sublist.cons _ ih
    | some p =>
      obtain ⟨r, _, _, hw, _⟩ := cand_facts hq hc
      simp only [List.map_cons, hw]
      exact List.Sublist.cons_cons _ ih

theorem dequeue_def (tg : String → Nat) (t n now : Nat) (order : List String) (q : Queue) :
    dequeue tg t n now order q =
      ((dequeueScan tg t now order q []).1.take n,
       markRemoved (dequeueScan tg t now order q []).2 ((dequeueScan tg t now order q []).1.take n)) := by
  unfold dequeue; rfl

theorem deqEvents_def (tg : String → Nat) (t n now : Nat) (order : List String) (q : Queue) :
    deqEvents tg t n now order q =
      ((dequeueScan tg t now order q []).1.take n).map (mkEv (dequeueScan tg t now order q []).2 now) := by
  unfold deqEvents; rfl

/-- everything the proofs need to know about one `Dequeue` -/
theorem dequeue_facts (tg : String → Nat) (t n now lo : Nat) (order : List String) (q : Queue)
    (hq : QInv lo now q) (hnd : order.Nodup) :
    let out := (dequeue tg t n now order q).1
    (out.map (·.workID)).Nodup ∧
    (∀ p ∈ out, ∃ r, q.get p.workID = some r ∧ r.proposal = p ∧ qExpired now r = false ∧ r.removed = false ∧
        tg p.upkeepID = t ∧ p.workID ∈ order ∧
        mkEv (dequeueScan tg t now order q []).2 now p = ⟨p.workID, p.trigger.blockNumber, r.createdAt, now⟩) ∧
    (∀ k, (dequeue tg t n now order q).2.get k =
        if k ∈ order ∧ scanDead now q k = true then none
        else if k ∈ out.map (·.workID) then (q.get k).map markRec else q.get k) := by
  obtain ⟨h1, h2⟩ := scan_spec tg t now lo order q [] hq hnd
  simp only [List.nil_append] at h1
  rw [dequeue_def]
  simp only
  rw [h1]
  have hsub : (((order.filterMap (scanCand tg t now q)).take n).map (·.workID)).Sublist order :=
    (List.Sublist.map _ (List.take_sublist _ _)).trans (cands_sublist hq order)
  have hmem : ∀ p ∈ (order.filterMap (scanCand tg t now q)).take n,
      ∃ r, q.get p.workID = some r ∧ r.proposal = p ∧ qExpired now r = false ∧ r.removed = false ∧
        tg p.upkeepID = t ∧ p.workID ∈ order := by
    intro p hp
    obtain ⟨k, hk, hc⟩ := List.mem_filterMap.mp (List.mem_of_mem_take hp)
    obtain ⟨r, hg, hrp, hw, he, hr, hty⟩ := cand_facts hq hc
    exact ⟨r, hw ▸ hg, hrp, he, hr, hty, hw ▸ hk⟩
  have hq1 : ∀ p ∈ (order.filterMap (scanCand tg t now q)).take n,
      (dequeueScan tg t now order q []).2.get p.workID = q.get p.workID := by
    intro p hp
    obtain ⟨r, hg, _, he, _⟩ := hmem p hp
    rw [h2]
    simp [scanDead, hg, he]
  refine ⟨List.Nodup.sublist hsub hnd, ?_, ?_⟩
  · intro p hp
    obtain ⟨r, hg, hrp, he, hr, hty, hin⟩ := hmem p hp
    refine ⟨r, hg, hrp, he, hr, hty, hin, ?_⟩
    simp [mkEv, firstSeen, hq1 p hp, hg]
  · intro k
    rw [markRemoved_get _ _ (fun p hp => by rw [hq1 p hp]; obtain ⟨r, hg, _⟩ := hmem p hp; simp [hg])]
    by_cases hin : k ∈ ((order.filterMap (scanCand tg t now q)).take n).map (·.workID)
    · obtain ⟨p, hp, hpk⟩ := List.mem_map.mp hin
      obtain ⟨r, hg, _, he, _⟩ := hmem p hp
      have hnd' : ¬ (k ∈ order ∧ scanDead now q k = true) := by
        rw [← hpk]; simp [scanDead, hg, he]
      simp only [hin, if_true, hnd', if_false]
      rw [← hpk, hq1 p hp]
    · simp only [hin, if_false]
      rw [h2]

theorem deq_step (tg : String → Nat) (t n now lo : Nat) (order : List String) (q : Queue)
    (hq : QInv lo now q) (hnd : order.Nodup) (H : List Ev)
    (hcov : ∀ e ∈ H, Cover q now e) (hsep : List.Pairwise sep H) :
    QInv lo now (dequeue tg t n now order q).2 ∧
    (∀ e ∈ H ++ deqEvents tg t n now order q, Cover (dequeue tg t n now order q).2 now e) ∧
    List.Pairwise sep (H ++ deqEvents tg t n now order q) ∧
    (∀ e ∈ deqEvents tg t n now order q, lo ≤ e.c ∧ e.c ≤ e.t ∧ e.t = now) := by
  obtain ⟨hnodup, hmem, hget⟩ := dequeue_facts tg t n now lo order q hq hnd
  have hev : deqEvents tg t n now order q =
      (dequeue tg t n now order q).1.map (mkEv (dequeueScan tg t now order q []).2 now) := by
    rw [deqEvents_def, dequeue_def]
  -- every new event, spelled out
  have hnew : ∀ e ∈ deqEvents tg t n now order q, ∃ p r, p ∈ (dequeue tg t n now order q).1 ∧
      q.get p.workID = some r ∧ r.proposal = p ∧ qExpired now r = false ∧ r.removed = false ∧
      e = ⟨p.workID, p.trigger.blockNumber, r.createdAt, now⟩ := by
    intro e he
    rw [hev] at he
    obtain ⟨p, hp, hpe⟩ := List.mem_map.mp he
    obtain ⟨r, hg, hrp, hexp, hrem, _, _, hmk⟩ := hmem p hp
    exact ⟨p, r, hp, hg, hrp, hexp, hrem, by rw [← hpe, hmk]⟩
  have hcovOld : ∀ e ∈ H, Cover (dequeue tg t n now order q).2 now e := by
    intro e he
    have hc := hcov e he
    unfold Cover at hc ⊢
    rw [hget]
    cases hg : q.get e.w with
    | none =>
      simp only [hg] at hc
      simp [scanDead, hg, hc]
    | some r =>
      simp only [hg] at hc
      by_cases hd : e.w ∈ order ∧ scanDead now q e.w = true
      · simp only [hd, and_self, if_true]
        have : Gen.proposalExpiryNs < now - r.createdAt := by
          have := hd.2; simpa [scanDead, hg, qExpired] using this
        omega
      · simp only [hd, if_false]
        by_cases hin : e.w ∈ (dequeue tg t n now order q).1.map (·.workID)
        · simp only [hin, if_true, Option.map_some, markRec]
          rcases hc with hc | ⟨a, b, _⟩
          · exact Or.inl hc
          · exact Or.inr ⟨a, b, fun _ => trivial⟩
        · simp only [hin, if_false]; exact hc
  refine ⟨?_, ?_, ?_, ?_⟩
  · intro k r' hg'
    rw [hget] at hg'
    by_cases hd : k ∈ order ∧ scanDead now q k = true
    · simp [hd] at hg'
    · simp only [hd, if_false] at hg'
      by_cases hin : k ∈ (dequeue tg t n now order q).1.map (·.workID)
      · simp only [hin, if_true] at hg'
        cases hg : q.get k with
        | none => simp [hg] at hg'
        | some r =>
          simp only [hg, Option.map_some, Option.some.injEq] at hg'
          subst hg'
          exact hq k r hg
      · simp only [hin, if_false] at hg'
        exact hq k r' hg'
  · intro e he
    rcases List.mem_append.mp he with he | he
    · exact hcovOld e he
    · obtain ⟨p, r, hp, hg, hrp, hexp, hrem, rfl⟩ := hnew e he
      unfold Cover
      rw [hget]
      have hd : ¬ (p.workID ∈ order ∧ scanDead now q p.workID = true) := by simp [scanDead, hg, hexp]
      have hin : p.workID ∈ (dequeue tg t n now order q).1.map (·.workID) := List.mem_map.mpr ⟨p, hp, rfl⟩
      simp only [hd, if_false, hin, if_true, hg, Option.map_some, markRec]
      exact Or.inr ⟨Nat.le_refl _, by rw [hrp]; exact Nat.le_refl _, fun _ => trivial⟩
  · rw [List.pairwise_append]
    refine ⟨hsep, ?_, ?_⟩
    · rw [hev, List.pairwise_map]
      have := List.nodup_iff_pairwise_ne.mp hnodup
      rw [List.pairwise_map] at this
      exact this.imp (fun {a b} hab => by intro hw; exact absurd hw (by simpa [mkEv] using hab))
    · intro e he e2 he2
      obtain ⟨p, r, hp, hg, hrp, hexp, hrem, rfl⟩ := hnew e2 he2
      intro hw hb
      simp only at hw hb
      have hc := hcov e he
      unfold Cover at hc
      rw [hw, hg] at hc
      simp only at hc
      rcases hc with hc | ⟨_, _, h3⟩
      · exact hc
      · have : r.removed = true := h3 (by rw [hrp, hb])
        rw [hrem] at this; exact absurd this (by simp)
  · intro e he
    obtain ⟨p, r, hp, hg, hrp, hexp, hrem, rfl⟩ := hnew e he
    have := hq _ _ hg
    exact ⟨this.2.1, this.2.2, rfl⟩

/-- total time a history lets pass -/
def duration : List Op → Nat
  | [] => 0
  | .adv d :: ops => d + duration ops
  | _ :: ops => duration ops

theorem step_now_le (tg : String → Nat) (st : St) (op : Op) : st.now ≤ (step tg st op).now := by
  cases op <;> simp [step]

/-- the queue part of one step: invariant, coverage of all past hand-outs, separation -/
theorem q_step (tg : String → Nat) (lo : Nat) (st : St) (op : Op) (hop : OrdersNodup [op])
    (hq : QInv lo st.now st.q) (hlo : lo ≤ st.now) (H : List Ev)
    (hcov : ∀ e ∈ H, Cover st.q st.now e) (hsep : List.Pairwise sep H) :
    QInv lo (step tg st op).now (step tg st op).q ∧
    (∀ e ∈ H ++ opEvents tg st op, Cover (step tg st op).q (step tg st op).now e) ∧
    List.Pairwise sep (H ++ opEvents tg st op) ∧
    (∀ e ∈ opEvents tg st op, lo ≤ e.c ∧ e.c ≤ e.t ∧ e.t = st.now) := by
  cases op with
  | add ps => simpa [step, opEvents] using ⟨hq, hcov, hsep⟩
  | remove ps => simpa [step, opEvents] using ⟨hq, hcov, hsep⟩
  | view t => simpa [step, opEvents] using ⟨hq, hcov, hsep⟩
  | observe t limit order => simpa [step, opEvents] using ⟨hq, hcov, hsep⟩
  | svc b => simpa [step, opEvents] using ⟨hq, hcov, hsep⟩
  | filter t ps => simpa [step, opEvents] using ⟨hq, hcov, hsep⟩
  | adv d =>
    simp only [step, opEvents, List.append_nil, List.not_mem_nil, false_imp_iff, implies_true, and_true]
    exact ⟨QInv_mono hq (Nat.le_add_right _ _), fun e he => Cover_mono (hcov e he) (Nat.le_add_right _ _), hsep⟩
  | enq ps =>
    simp only [step, opEvents, List.append_nil, List.not_mem_nil, false_imp_iff, implies_true, and_true]
    exact ⟨QInv_enqueue hlo ps hq, fun e he => Cover_enqueue hlo ps hq (hcov e he), hsep⟩
  | outcome sf =>
    simp only [step, opEvents, List.append_nil, List.not_mem_nil, false_imp_iff, implies_true, and_true, addHook_eq]
    exact ⟨QInv_enqueue hlo _ hq, fun e he => Cover_enqueue hlo _ hq (hcov e he), hsep⟩
  | deq t n order =>
    have hnd : order.Nodup := hop (.deq t n order) (by simp)
    simpa [step, opEvents] using deq_step tg t n st.now lo order st.q hq hnd H hcov hsep
  | tick t n order ok =>
    have hnd : order.Nodup := hop (.tick t n order ok) (by simp)
    obtain ⟨d1, d2, d3, d4⟩ := deq_step tg t n st.now lo order st.q hq hnd H hcov hsep
    cases ok with
    | true => exact ⟨by simpa [step] using d1, by simpa [step, opEvents] using d2, by simpa [opEvents] using d3,
        by simpa [opEvents] using d4⟩
    | false =>
      -- the builder failed: the records are marked as dequeued, nothing is handed on
      simp only [step, opEvents, List.append_nil, Bool.false_eq_true, if_false, List.not_mem_nil,
        false_imp_iff, implies_true, and_true]
      exact ⟨d1, fun e he => d2 e (List.mem_append_left _ he), hsep⟩

theorem handouts_sep_aux (tg : String → Nat) (lo : Nat) : ∀ (ops : List Op) (st : St) (H : List Ev),
    OrdersNodup ops → QInv lo st.now st.q → lo ≤ st.now →
    (∀ e ∈ H, Cover st.q st.now e) → List.Pairwise sep H →
    List.Pairwise sep (H ++ handouts tg ops st) ∧
    (∀ e ∈ handouts tg ops st, lo ≤ e.c ∧ e.c ≤ e.t ∧ st.now ≤ e.t ∧ e.t ≤ st.now + duration ops) := by
  intro ops
  induction ops with
  | nil => intro st H _ _ _ _ hsep; simpa [handouts] using hsep
  | cons op ops ih =>
    intro st H hop hq hlo hcov hsep
    obtain ⟨hop1, hops⟩ := OrdersNodup_cons hop
    obtain ⟨h1, h2, h3, h4⟩ := q_step tg lo st op hop1 hq hlo H hcov hsep
    have hle := step_now_le tg st op
    obtain ⟨i1, i2⟩ := ih (step tg st op) (H ++ opEvents tg st op) hops h1 (Nat.le_trans hlo hle) h2 h3
    have hdur : (step tg st op).now + duration ops = st.now + duration (op :: ops) := by
      cases op <;> simp [step, duration]; omega
    refine ⟨by simpa [handouts, List.append_assoc] using i1, ?_⟩
    intro e he
    simp only [handouts, List.mem_append] at he
    rcases he with he | he
    · obtain ⟨a, b, c⟩ := h4 e he
      exact ⟨a, b, by omega, by omega⟩
    · obtain ⟨a, b, c, d⟩ := i2 e he
      exact ⟨a, b, by omega, by omega⟩

/-- a checkable form of `OrdersNodup` -/
theorem OrdersNodup_of_all (ops : List Op)
    (h : ops.all (fun op => decide (opOrder op).Nodup) = true) : OrdersNodup ops := by
  intro op hm
  have := List.all_eq_true.mp h _ hm
  simpa using this

theorem filterMap_some_id {α : Type} {f : α → Option α} : ∀ (l : List α), (∀ x ∈ l, f x = some x) →
    l.filterMap f = l
  | [], _ => rfl
  | x :: xs, h => by
    simp only [List.filterMap_cons, h x (by simp)]
    rw [filterMap_some_id xs (fun y hy => h y (by simp [hy]))]

/-- the iteration order the driver recovers from a `Dequeue` result: the returned work ids first -/
def recovered (o1 : List String) (out : List Proposal) : List String :=
  out.map (·.workID) ++ o1.filter (fun k => !(out.map (·.workID)).contains k)

theorem scanCand_of_facts {tg : String → Nat} {t now : Nat} {q : Queue} {p : Proposal} {r : QRec}
    (hg : q.get p.workID = some r) (hrp : r.proposal = p) (he : qExpired now r = false)
    (hr : r.removed = false) (hty : tg p.upkeepID = t) : scanCand tg t now q p.workID = some p := by
  simp [scanCand, hg, he, hr, hrp, hty]

theorem dequeue_recovered (tg : String → Nat) (t n now lo : Nat) (o1 : List String) (q : Queue)
    (hq : QInv lo now q) (hnd : o1.Nodup) :
    (recovered o1 (dequeue tg t n now o1 q).1).Perm o1 ∧
    (dequeue tg t n now (recovered o1 (dequeue tg t n now o1 q).1) q).1 = (dequeue tg t n now o1 q).1 ∧
    ∀ k, (dequeue tg t n now (recovered o1 (dequeue tg t n now o1 q).1) q).2.get k =
         (dequeue tg t n now o1 q).2.get k := by
  obtain ⟨hnodup, hmem, hget⟩ := dequeue_facts tg t n now lo o1 q hq hnd
  obtain ⟨s1, _⟩ := scan_spec tg t now lo o1 q [] hq hnd
  simp only [List.nil_append] at s1
  have hout : (dequeue tg t n now o1 q).1 = (o1.filterMap (scanCand tg t now q)).take n := by
    rw [dequeue_def]; simp only; rw [s1]
  generalize hO : (dequeue tg t n now o1 q).1 = out at hnodup hmem hget hout ⊢
  -- the recovered order is a permutation of the original one
  have hnd2 : (recovered o1 out).Nodup := by
    unfold recovered
    rw [List.nodup_append]
    refine ⟨hnodup, List.Nodup.sublist List.filter_sublist hnd, ?_⟩
    intro a ha b hb hab
    subst hab
    simp only [List.mem_filter, Bool.not_eq_true', List.contains_eq_mem, decide_eq_false_iff_not] at hb
    exact hb.2 ha
  have hmem2 : ∀ k, k ∈ recovered o1 out ↔ k ∈ o1 := by
    intro k
    unfold recovered
    simp only [List.mem_append, List.mem_filter, Bool.not_eq_true', List.contains_eq_mem, decide_eq_false_iff_not]
    constructor
    · rintro (h | h)
      · obtain ⟨p, hp, rfl⟩ := List.mem_map.mp h
        obtain ⟨r, _, _, _, _, _, hin, _⟩ := hmem p hp
        exact hin
      · exact h.1
    · intro h
      by_cases hk : k ∈ out.map (·.workID)
      · exact Or.inl hk
      · exact Or.inr ⟨h, hk⟩
  have hperm : (recovered o1 out).Perm o1 := (List.perm_ext_iff_of_nodup hnd2 hnd).mpr hmem2
  obtain ⟨hnodup2, hmemB, hget2⟩ := dequeue_facts tg t n now lo (recovered o1 out) q hq hnd2
  obtain ⟨s2, _⟩ := scan_spec tg t now lo (recovered o1 out) q [] hq hnd2
  simp only [List.nil_append] at s2
  -- same result
  have hres : (dequeue tg t n now (recovered o1 out) q).1 = out := by
    rw [dequeue_def]; simp only; rw [s2]
    unfold recovered
    rw [List.filterMap_append]
    have hfirst : (out.map (·.workID)).filterMap (scanCand tg t now q) = out := by
      rw [List.filterMap_map]
      have : ∀ p ∈ out, (scanCand tg t now q ∘ (·.workID)) p = some p := by
        intro p hp
        obtain ⟨r, hg, hrp, he, hr, hty, _, _⟩ := hmem p hp
        exact scanCand_of_facts hg hrp he hr hty
      exact filterMap_some_id _ this
    rw [hfirst]
    by_cases hlen : (o1.filterMap (scanCand tg t now q)).length ≤ n
    · -- nothing was cut off: no other candidate is left
      have hall : out = o1.filterMap (scanCand tg t now q) := by rw [hout, List.take_of_length_le hlen]
      have hrest : (o1.filter (fun k => !(out.map (·.workID)).contains k)).filterMap (scanCand tg t now q) = [] := by
        rw [List.filterMap_eq_nil_iff]
        intro k hk
        simp only [List.mem_filter, Bool.not_eq_true', List.contains_eq_mem, decide_eq_false_iff_not] at hk
        cases hc : scanCand tg t now q k with
        | none => rfl
        | some p =>
          exfalso
          obtain ⟨r, _, _, hw, _⟩ := cand_facts hq hc
          apply hk.2
          rw [hall]
          exact List.mem_map.mpr ⟨p, List.mem_filterMap.mpr ⟨k, hk.1, hc⟩, hw⟩
      rw [hrest, List.append_nil]
      apply List.take_of_length_le
      rw [hall]; exact hlen
    · have : out.length = n := by
        rw [hout, List.length_take]; omega
      exact List.take_left' this
  refine ⟨hperm, hres, ?_⟩
  intro k
  rw [hget2, hget, hres]
  simp only [hmem2]

end AutoVerif.C11
