import AutoVerif.Spec.C10
/-
Helper lemmas for Props/C10: the association list behaves like a map
(`get`/`set`/`erase`/`gc` under `WF`), the per-key view of a step (`stepK`),
and membership in a view.  Core Lean only.
-/
namespace AutoVerif.C10

def keys (s : Store) : List String := s.map (·.1)

/-- one slot per key, and the key of a slot is the work id of the stored result -/
def WF (s : Store) : Prop := (keys s).Nodup ∧ ∀ p ∈ s, p.2.data.workID = p.1

theorem WF_nil : WF [] := ⟨by simp [keys], by simp⟩

/-! ### get / set / erase -/

theorem get_of_not_mem_keys {s : Store} {w : String} (h : w ∉ keys s) : get s w = none := by
  induction s with
  | nil => rfl
  | cons p s ih =>
    obtain ⟨k, e⟩ := p
    simp only [keys, List.map_cons, List.mem_cons, not_or] at h
    simp only [get]
    rw [if_neg (fun hk => h.1 hk.symm)]
    exact ih h.2

theorem mem_of_get {s : Store} {w : String} {e : Entry} (h : get s w = some e) : (w, e) ∈ s := by
  induction s with
  | nil => simp [get] at h
  | cons p s ih =>
    obtain ⟨k, v⟩ := p
    simp only [get] at h
    split at h
    · rename_i hk
      simp only [Option.some.injEq] at h
      subst hk; subst h; simp
    · exact List.mem_cons_of_mem _ (ih h)

theorem get_of_mem {s : Store} {w : String} {e : Entry} (hnd : (keys s).Nodup) (h : (w, e) ∈ s) :
    get s w = some e := by
  induction s with
  | nil => simp at h
  | cons p s ih =>
    obtain ⟨k, v⟩ := p
    simp only [keys, List.map_cons, List.nodup_cons] at hnd
    simp only [get]
    rcases List.mem_cons.mp h with h | h
    · simp only [Prod.mk.injEq] at h
      rw [if_pos h.1.symm, h.2]
    · have hk : k ≠ w := by
        intro hk; subst hk
        exact hnd.1 (List.mem_map.mpr ⟨(k, e), h, rfl⟩)
      rw [if_neg hk]
      exact ih hnd.2 h

theorem mem_keys_of_get {s : Store} {w : String} {e : Entry} (h : get s w = some e) : w ∈ keys s :=
  List.mem_map.mpr ⟨(w, e), mem_of_get h, rfl⟩

theorem get_wid {s : Store} (h : WF s) {w : String} {e : Entry} (hg : get s w = some e) :
    e.data.workID = w := h.2 (w, e) (mem_of_get hg)

theorem get_set_self (s : Store) (w : String) (e : Entry) : get (set s w e) w = some e := by
  induction s with
  | nil => simp [set, get]
  | cons p s ih =>
    obtain ⟨k, v⟩ := p
    simp only [set]
    split
    · rename_i hk; simp [get, hk]
    · rename_i hk; simp [get, hk, ih]

theorem get_set_ne (s : Store) {w w' : String} (e : Entry) (h : w' ≠ w) :
    get (set s w e) w' = get s w' := by
  induction s with
  | nil => simp [set, get, Ne.symm h]
  | cons p s ih =>
    obtain ⟨k, v⟩ := p
    simp only [set]
    split
    · rename_i hk
      subst hk
      simp [get, Ne.symm h]
    · simp only [get, ih]

theorem mem_set {s : Store} {w : String} {e : Entry} {p : String × Entry} (h : p ∈ set s w e) :
    p = (w, e) ∨ p ∈ s := by
  induction s with
  | nil => simp only [set, List.mem_singleton] at h; exact Or.inl h
  | cons q s ih =>
    obtain ⟨k, v⟩ := q
    simp only [set] at h
    split at h
    · rename_i hk
      rcases List.mem_cons.mp h with h | h
      · left; rw [h, hk]
      · right; exact List.mem_cons_of_mem _ h
    · rcases List.mem_cons.mp h with h | h
      · right; rw [h]; exact List.mem_cons_self
      · rcases ih h with h | h
        · exact Or.inl h
        · exact Or.inr (List.mem_cons_of_mem _ h)

theorem mem_keys_set {s : Store} {w k : String} {e : Entry} (h : k ∈ keys (set s w e)) :
    k = w ∨ k ∈ keys s := by
  obtain ⟨p, hp, hk⟩ := List.mem_map.mp h
  rcases mem_set hp with hp | hp
  · left; rw [← hk, hp]
  · right; exact List.mem_map.mpr ⟨p, hp, hk⟩

theorem nodup_keys_set {s : Store} (w : String) (e : Entry) (h : (keys s).Nodup) :
    (keys (set s w e)).Nodup := by
  induction s with
  | nil => simp [set, keys]
  | cons p s ih =>
    obtain ⟨k, v⟩ := p
    simp only [keys, List.map_cons, List.nodup_cons] at h
    simp only [set]
    split
    · simp only [keys, List.map_cons, List.nodup_cons]; exact h
    · rename_i hk
      simp only [keys, List.map_cons, List.nodup_cons]
      refine ⟨?_, ih h.2⟩
      intro hm
      rcases mem_keys_set hm with hm | hm
      · exact hk hm
      · exact h.1 hm

theorem WF_set {s : Store} {w : String} {e : Entry} (h : WF s) (he : e.data.workID = w) :
    WF (set s w e) := by
  refine ⟨nodup_keys_set w e h.1, ?_⟩
  intro p hp
  rcases mem_set hp with hp | hp
  · rw [hp]; exact he
  · exact h.2 p hp

theorem WF_filter {s : Store} (f : String × Entry → Bool) (h : WF s) : WF (s.filter f) := by
  refine ⟨?_, fun p hp => h.2 p (List.mem_filter.mp hp).1⟩
  exact List.Nodup.sublist (List.Sublist.map _ List.filter_sublist) h.1

theorem get_filter {s : Store} (f : Entry → Bool) (hnd : (keys s).Nodup) (w : String) :
    get (s.filter (fun p => f p.2)) w = (get s w).filter f := by
  induction s with
  | nil => simp [get]
  | cons p s ih =>
    obtain ⟨k, e⟩ := p
    simp only [keys, List.map_cons, List.nodup_cons] at hnd
    by_cases hk : k = w
    · subst hk
      have hn : get s k = none := get_of_not_mem_keys hnd.1
      by_cases hf : f e = true
      · simp [hf, get, Option.filter]
      · have := ih hnd.2
        rw [hn] at this
        simp [hf, get, Option.filter, this]
    · by_cases hf : f e = true
      · simp [hf, get, hk, ih hnd.2]
      · simp [hf, get, hk, ih hnd.2]

theorem get_erase_self {s : Store} (w : String) : get (erase s w) w = none := by
  apply get_of_not_mem_keys
  intro h
  obtain ⟨p, hp, hk⟩ := List.mem_map.mp h
  have := (List.mem_filter.mp hp).2
  simp [hk] at this

theorem get_erase_ne {s : Store} {w w' : String} (h : w' ≠ w) : get (erase s w) w' = get s w' := by
  induction s with
  | nil => simp [erase, get]
  | cons p s ih =>
    obtain ⟨k, e⟩ := p
    simp only [erase] at ih
    by_cases hk : k = w
    · subst hk
      simp [erase, get, Ne.symm h]
      simpa using ih
    · simp [erase, hk, get]
      simp at ih
      rw [ih]

/-! ### the per-key reading of a step -/

/-- what one event does to the slot of work id `w` -/
def stepK (ttl : Nat) (w : String) (o : Option Entry) : Ev → Option Entry
  | .add t r =>
    if r.workID = w then
      (match o with
       | none => some ⟨r, t⟩
       | some v =>
         if expired ttl t v then some ⟨r, t⟩
         else if blk v.data < blk r then some ⟨r, t⟩ else some v)
    else o
  | .remove _ id => if id = w then none else o
  | .gc t => o.filter (fun e => !expired ttl t e)
  | .view _ _ => o

theorem get_add1 (ttl t : Nat) (s : Store) (r : CheckResult) (w : String) :
    get (add1 ttl t s r) w = stepK ttl w (get s w) (.add t r) := by
  simp only [add1, stepK]
  by_cases hw : r.workID = w
  · subst hw
    simp only [if_true]
    cases hg : get s r.workID with
    | none => simp [get_set_self]
    | some v =>
      simp only
      split
      · simp [get_set_self]
      · split
        · simp [get_set_self]
        · exact hg
  · simp only [if_neg hw]
    cases hg : get s r.workID with
    | none => simp [get_set_ne _ _ (Ne.symm hw)]
    | some v =>
      simp only
      split
      · simp [get_set_ne _ _ (Ne.symm hw)]
      · split
        · simp [get_set_ne _ _ (Ne.symm hw)]
        · rfl

theorem get_remove1 (s : Store) (id w : String) :
    get (remove1 s id) w = if id = w then none else get s w := by
  simp only [remove1]
  by_cases hw : id = w
  · subst hw
    simp only [if_true]
    cases hg : get s id with
    | none => simpa using hg
    | some v => simp [get_erase_self]
  · simp only [if_neg hw]
    cases hg : get s id with
    | none => rfl
    | some v => simp [get_erase_ne (Ne.symm hw)]

theorem get_step {ttl : Nat} {s : Store} (h : WF s) (e : Ev) (w : String) :
    get (step ttl s e) w = stepK ttl w (get s w) e := by
  cases e with
  | add t r => simpa [step, stepK] using get_add1 ttl t s r w
  | remove t id => simpa [step, stepK] using get_remove1 s id w
  | gc t => simpa [step, stepK, gc] using get_filter (fun e => !expired ttl t e) h.1 w
  | view t out => rfl

theorem WF_add1 {s : Store} (h : WF s) (ttl t : Nat) (r : CheckResult) : WF (add1 ttl t s r) := by
  simp only [add1]
  split
  · exact WF_set h rfl
  · split
    · exact WF_set h rfl
    · split
      · exact WF_set h rfl
      · exact h

theorem WF_remove1 {s : Store} (h : WF s) (id : String) : WF (remove1 s id) := by
  simp only [remove1]
  split
  · exact h
  · exact WF_filter _ h

theorem WF_step {ttl : Nat} {s : Store} (h : WF s) (e : Ev) : WF (step ttl s e) := by
  cases e with
  | add t r => exact WF_add1 h ttl t r
  | remove t id => exact WF_remove1 h id
  | gc t => exact WF_filter _ h
  | view t out => exact h

theorem WF_run {ttl : Nat} (evs : List Ev) {s : Store} (h : WF s) : WF (run ttl s evs) := by
  induction evs generalizing s with
  | nil => exact h
  | cons e evs ih => exact ih (WF_step h e)

theorem run_append (ttl : Nat) (s : Store) (a b : List Ev) :
    run ttl s (a ++ b) = run ttl (run ttl s a) b := by
  simp [run, List.foldl_append]

/-! ### views -/

theorem mem_view {ttl now : Nat} {s : Store} (h : WF s) (r : CheckResult) :
    r ∈ view ttl now s ↔ ∃ e, get s r.workID = some e ∧ e.data = r ∧ expired ttl now e = false := by
  constructor
  · intro hr
    obtain ⟨p, hp, hpr⟩ := List.mem_map.mp hr
    obtain ⟨hps, hpe⟩ := List.mem_filter.mp hp
    refine ⟨p.2, ?_, hpr, by simpa using hpe⟩
    apply get_of_mem h.1
    have := h.2 p hps
    rw [hpr] at this
    rw [this]
    exact hps
  · rintro ⟨e, hg, he, hx⟩
    apply List.mem_map.mpr
    refine ⟨(r.workID, e), List.mem_filter.mpr ⟨mem_of_get hg, by simp [hx]⟩, he⟩

theorem view_wids_nodup {ttl now : Nat} {s : Store} (h : WF s) :
    ((view ttl now s).map (·.workID)).Nodup := by
  have : (view ttl now s).map (·.workID) = (s.filter (fun p => !expired ttl now p.2)).map (·.1) := by
    simp only [view, List.map_map]
    apply List.map_congr_left
    intro p hp
    exact h.2 p (List.mem_filter.mp hp).1
  rw [this]
  exact List.Nodup.sublist (List.Sublist.map _ List.filter_sublist) h.1

theorem fresh_iff (ttl t ta : Nat) : fresh ttl t ta = true ↔ t - ta ≤ ttl := by simp [fresh]

theorem expired_false_iff (ttl t : Nat) (e : Entry) : expired ttl t e = false ↔ t - e.addedAt ≤ ttl := by
  simp [expired]

theorem expired_true_iff (ttl t : Nat) (e : Entry) : expired ttl t e = true ↔ t - e.addedAt > ttl := by
  simp [expired]

/-! ### candidate add times -/

theorem candTimes_cons (r : CheckResult) (x : Ev) (pre : List Ev) :
    candTimes r (x :: pre) =
      if clean r.workID (blk r) x then (addTime r x).toList ++ candTimes r pre else [] := by
  simp only [candTimes, List.takeWhile_cons]
  split
  · cases h : addTime r x <;> simp [h]
  · simp

theorem candTimes_mono {r : CheckResult} {x : Ev} {pre : List Ev} {ta : Nat}
    (hc : clean r.workID (blk r) x = true) (h : ta ∈ candTimes r pre) : ta ∈ candTimes r (x :: pre) := by
  rw [candTimes_cons, if_pos hc]
  exact List.mem_append_right _ h

theorem candTimes_self (r : CheckResult) (t : Nat) (pre : List Ev) :
    t ∈ candTimes r (.add t r :: pre) := by
  rw [candTimes_cons]
  have : clean r.workID (blk r) (.add t r) = true := by simp [clean, removes, addsHigher]
  rw [if_pos this]
  simp [addTime]

/-! ### dominating add times -/

theorem domTimes_self (ttl : Nat) (r : CheckResult) (b ta mx t : Nat) (pre : List Ev)
    (hmx : mx ≤ blk r) (hb : b ≤ blk r) (hf : ta - t ≤ ttl) :
    t ∈ domTimes ttl r.workID b ta (.add t r :: pre) mx := by
  simp only [domTimes, beq_self_eq_true, if_true]
  have : (decide (mx ≤ blk r) && decide (b ≤ blk r) && fresh ttl ta t) = true := by
    simp [fresh, hmx, hb, hf]
  rw [if_pos this]
  simp

theorem domTimes_add_same {ttl : Nat} {w : String} {b ta mx a t : Nat} {r : CheckResult} {pre : List Ev}
    (hw : r.workID = w) (h : a ∈ domTimes ttl w b ta pre (max mx (blk r))) :
    a ∈ domTimes ttl w b ta (.add t r :: pre) mx := by
  simp only [domTimes, hw, beq_self_eq_true, if_true]
  exact List.mem_append_right _ h

theorem domTimes_add_other {ttl : Nat} {w : String} {b ta mx t : Nat} {r : CheckResult} {pre : List Ev}
    (hw : r.workID ≠ w) : domTimes ttl w b ta (.add t r :: pre) mx = domTimes ttl w b ta pre mx := by
  simp [domTimes, hw]

theorem domTimes_remove_other {ttl : Nat} {w id : String} {b ta mx t : Nat} {pre : List Ev}
    (hw : id ≠ w) : domTimes ttl w b ta (.remove t id :: pre) mx = domTimes ttl w b ta pre mx := by
  simp [domTimes, hw]

/-! ### the live part of a slot -/

/-- the slot as a view at time `t` sees it -/
def liveO (ttl t : Nat) (o : Option Entry) : Option Entry := o.filter (fun e => !expired ttl t e)

theorem liveO_some_iff {ttl t : Nat} {o : Option Entry} {e : Entry} :
    liveO ttl t o = some e ↔ o = some e ∧ expired ttl t e = false := by
  simp [liveO, Option.filter_eq_some_iff]

theorem liveO_liveO {ttl t t' : Nat} (h : t ≤ t') (o : Option Entry) :
    liveO ttl t' (liveO ttl t o) = liveO ttl t' o := by
  cases o with
  | none => rfl
  | some e =>
    by_cases hx : expired ttl t e = true
    · have : expired ttl t' e = true := by rw [expired_true_iff] at *; omega
      simp [liveO, Option.filter, hx, this]
    · simp [liveO, Option.filter, hx]

theorem liveO_stepK (ttl : Nat) (w : String) (o : Option Entry) (x : Ev) :
    liveO ttl x.now (stepK ttl w o x) = liveO ttl x.now (stepK ttl w (liveO ttl x.now o) x) := by
  cases o with
  | none => rfl
  | some v =>
    by_cases hx : expired ttl x.now v = true
    · cases x with
      | add t r =>
        simp only [Ev.now] at hx
        by_cases hw : r.workID = w <;> simp [liveO, Option.filter, stepK, hw, hx, Ev.now]
      | remove t id =>
        simp only [Ev.now] at hx
        by_cases hw : id = w <;> simp [liveO, Option.filter, stepK, hw, hx, Ev.now]
      | gc t => simp only [Ev.now] at hx; simp [liveO, Option.filter, stepK, hx, Ev.now]
      | view t out => simp only [Ev.now] at hx; simp [liveO, Option.filter, stepK, hx, Ev.now]
    · simp [liveO, Option.filter, hx]

theorem liveO_gc (ttl t : Nat) (w : String) (o : Option Entry) :
    liveO ttl t (stepK ttl w o (.gc t)) = liveO ttl t o := by
  cases o with
  | none => rfl
  | some v => by_cases hx : expired ttl t v = true <;> simp [liveO, Option.filter, stepK, hx]

theorem mem_view_live {ttl t : Nat} {s : Store} (h : WF s) (r : CheckResult) :
    r ∈ view ttl t s ↔ ∃ e, liveO ttl t (get s r.workID) = some e ∧ e.data = r := by
  rw [mem_view h]
  constructor
  · rintro ⟨e, hg, he, hx⟩; exact ⟨e, liveO_some_iff.mpr ⟨hg, hx⟩, he⟩
  · rintro ⟨e, hl, he⟩
    obtain ⟨hg, hx⟩ := liveO_some_iff.mp hl
    exact ⟨e, hg, he, hx⟩

theorem nodup_of_map {α β} (f : α → β) : ∀ {l : List α}, (l.map f).Nodup → l.Nodup
  | [], _ => List.nodup_nil
  | a :: l, h => by
    simp only [List.map_cons, List.nodup_cons] at h ⊢
    exact ⟨fun ha => h.1 (List.mem_map.mpr ⟨a, ha, rfl⟩), nodup_of_map f h.2⟩

end AutoVerif.C10
