import AutoVerif.Spec.C03
/-
Helper lemmas for Props/C03: the carried-over history, the new round of `coordinatedBlockProposals.set`,
stamping, and sizes.  Core Lean only.
-/
namespace AutoVerif.C03
open AutoVerif.Outcome

theorem nodup_of_map {α β} (f : α → β) {l : List α} (h : (l.map f).Nodup) : l.Nodup := by
  rw [List.Nodup, List.pairwise_map] at h
  exact h.imp (fun hab he => hab (by rw [he]))

theorem sortByKey_perm {α} (key : String → String) (wid : α → String) (l : List α) :
    (sortByKey key wid l).Perm l := by
  unfold sortByKey; exact List.mergeSort_perm _ _

/-! ### carried-over rounds -/

theorem carryOver_length (agreed : List CheckResult) (prev : List (List Proposal)) :
    (carryOver agreed prev).length = prev.length := by
  simp [carryOver]

theorem carryOver_round (agreed : List CheckResult) (prev : List (List Proposal)) :
    ∀ round ∈ carryOver agreed prev, ∃ r' ∈ prev, round.Sublist r' := by
  intro round h
  simp only [carryOver, List.mem_map] at h
  obtain ⟨r', hr', rfl⟩ := h
  exact ⟨r', hr', List.filter_sublist⟩

theorem carryOver_flatten_sublist (agreed : List CheckResult) :
    ∀ prev : List (List Proposal), (carryOver agreed prev).flatten.Sublist prev.flatten
  | [] => by simp [carryOver]
  | x :: xs => by
    have ih := carryOver_flatten_sublist agreed xs
    simp only [carryOver, List.map_cons, List.flatten_cons] at ih ⊢
    exact List.Sublist.append List.filter_sublist ih

theorem take_flatten_sublist {α} : ∀ (l : List (List α)) (n : Nat), (l.take n).flatten.Sublist l.flatten
  | [], _ => by simp
  | _ :: _, 0 => by simp
  | x :: xs, n + 1 => by
    simp only [List.take_succ_cons, List.flatten_cons]
    exact List.Sublist.append (List.Sublist.refl x) (take_flatten_sublist xs n)

/-- the history that `set` keeps below the new round -/
def keptHistory (lim : Limits) (carried : List (List Proposal)) : List (List Proposal) :=
  if carried.length ≥ lim.roundHistory then carried.take (lim.roundHistory - 1) else carried

theorem keptHistory_length (lim : Limits) (carried : List (List Proposal)) (h : 1 ≤ lim.roundHistory) :
    (keptHistory lim carried).length + 1 ≤ lim.roundHistory := by
  unfold keptHistory
  split
  · rw [List.length_take]; omega
  · omega

theorem keptHistory_mem (lim : Limits) (carried : List (List Proposal)) :
    ∀ r ∈ keptHistory lim carried, r ∈ carried := by
  intro r hr
  unfold keptHistory at hr
  split at hr
  · exact List.mem_of_mem_take hr
  · exact hr

theorem keptHistory_flatten_sublist (lim : Limits) (carried : List (List Proposal)) :
    (keptHistory lim carried).flatten.Sublist carried.flatten := by
  unfold keptHistory
  split
  · exact take_flatten_sublist _ _
  · exact List.Sublist.refl _

/-! ### proposals -/

theorem proposalExists_false {hist : List (List Proposal)} {p : Proposal}
    (h : proposalExists hist p = false) : p.workID ∉ hist.flatten.map (·.workID) := by
  intro hm
  simp only [List.mem_map, List.mem_flatten] at hm
  obtain ⟨q, ⟨round, hround, hq⟩, hw⟩ := hm
  have : proposalExists hist p = true := by
    simp only [proposalExists, List.any_eq_true, beq_iff_eq]
    exact ⟨round, hround, q, hq, hw⟩
  rw [this] at h; cases h

theorem stamp_workID (b : BlockKey) (p : Proposal) : (stamp b p).workID = p.workID := rfl
theorem stamp_upkeepID (b : BlockKey) (p : Proposal) : (stamp b p).upkeepID = p.upkeepID := rfl

/-- the trigger a proposal carries after coordination -/
def stampTrigger (b : BlockKey) (t : Trigger) : Trigger :=
  { blockNumber := b.number, blockHash := b.hash, ext := t.ext.map (fun e => { e with blockNumber := 0 }) }

theorem stamp_trigger (b : BlockKey) (p : Proposal) : (stamp b p).trigger = stampTrigger b p.trigger := rfl

/-- the production work-id generators ignore the check block (number, hash) and the log's block number: these are exactly
the fields coordination overwrites -/
def WgIgnoresCoordinatedFields (ctx : Ctx) : Prop :=
  ∀ (u : String) (t : Trigger) (b : BlockKey), ctx.wg u (stampTrigger b t) = ctx.wg u t

theorem validTriggerExt_stamp (b : BlockKey) (t : Trigger) (ut : UpkeepType) :
    validTriggerExt (stampTrigger b t) ut = validTriggerExt t ut := by
  cases ut <;> cases h : t.ext <;> simp [validTriggerExt, stampTrigger, h]

theorem validProposal_stamp {ctx : Ctx} (hwg : WgIgnoresCoordinatedFields ctx) (b : BlockKey) (p : Proposal)
    (h : validProposal ctx p = true) : validProposal ctx (stamp b p) = true := by
  simp only [validProposal, Bool.and_eq_true, decide_eq_true_eq] at h ⊢
  rw [stamp_trigger, stamp_upkeepID, stamp_workID, validTriggerExt_stamp, hwg]
  exact h

/-- invariant of the loop that builds the new round -/
structure RoundInv (ctx : Ctx) (hist : List (List Proposal)) (acc : List Proposal) : Prop where
  nodup : (acc.map (·.workID)).Nodup
  fresh : ∀ q ∈ acc, q.workID ∉ hist.flatten.map (·.workID)
  valid : ∀ q ∈ acc, validProposal ctx q = true

theorem newRound_inv {ctx : Ctx} (hwg : WgIgnoresCoordinatedFields ctx) (agreed : List CheckResult)
    (hist : List (List Proposal)) (b : BlockKey) :
    ∀ (ps acc : List Proposal), (∀ p ∈ ps, validProposal ctx p = true) → RoundInv ctx hist acc →
      RoundInv ctx hist (newRound agreed hist b ps acc)
  | [], acc, _, h => by simpa [newRound] using h
  | p :: ps, acc, hv, h => by
    unfold newRound
    have hv' : ∀ q ∈ ps, validProposal ctx q = true := fun q hq => hv q (by simp [hq])
    split
    · exact newRound_inv hwg agreed hist b ps acc hv' h
    · rename_i hc
      simp only [Bool.or_eq_true, not_or, Bool.not_eq_true] at hc
      obtain ⟨⟨he, _⟩, ha⟩ := hc
      apply newRound_inv hwg agreed hist b ps _ hv'
      refine ⟨?_, ?_, ?_⟩
      · rw [List.map_append, List.nodup_append]
        refine ⟨h.nodup, by simp, ?_⟩
        intro x hx y hy
        simp only [List.map_cons, List.map_nil, List.mem_singleton] at hy
        subst hy
        intro hxy
        rw [stamp_workID] at hxy
        have : (acc.map (·.workID)).contains p.workID = true := List.contains_iff_mem.mpr (hxy ▸ hx)
        rw [this] at ha; cases ha
      · intro q hq
        rcases List.mem_append.mp hq with hq | hq
        · exact h.fresh q hq
        · simp only [List.mem_singleton] at hq
          subst hq
          rw [stamp_workID]
          exact proposalExists_false he
      · intro q hq
        rcases List.mem_append.mp hq with hq | hq
        · exact h.valid q hq
        · simp only [List.mem_singleton] at hq
          subst hq
          exact validProposal_stamp hwg b p (hv p (by simp))

/-! ### sizes -/

theorem sum_map_le_length_mul {α} (f : α → Nat) (B : Nat) :
    ∀ (l : List α), (∀ x ∈ l, f x ≤ B) → (l.map f).sum ≤ l.length * B
  | [], _ => by simp
  | x :: xs, h => by
    have ih := sum_map_le_length_mul f B xs (fun y hy => h y (by simp [hy]))
    have hx := h x (by simp)
    simp only [List.map_cons, List.sum_cons, List.length_cons, Nat.add_mul, Nat.one_mul]
    omega

/-- an array of at most `n` items of at most `B` bytes takes at most `2 + n·(B+1)` bytes -/
theorem arrLen_le (items : List Nat) (n B : Nat) (hn : items.length ≤ n) (hB : ∀ x ∈ items, x ≤ B) :
    arrLen items ≤ 2 + n * (B + 1) := by
  have h1 := sum_map_le_length_mul (fun x => x) B items (by simpa using hB)
  simp only [List.map_id'] at h1
  have h2 : items.length * B ≤ n * B := Nat.mul_le_mul_right B hn
  unfold arrLen
  rw [Nat.mul_succ]
  omega


/-! ### the validation loops with a `seen` map -/

/-- `for _, x := range xs { if rej(seen[key x]) { return error }; seen[key x] = true }`: true when the loop completes -/
def scanSeen {α} [DecidableEq α] (rej : Bool → Bool) : List α → List α → Bool
  | _, [] => true
  | seen, x :: xs => if rej (seen.contains x) then false else scanSeen rej (x :: seen) xs

theorem scanSeen_eq {α} [DecidableEq α] (rej : Bool → Bool) (hr : ∀ b, rej b = b) :
    ∀ (l seen : List α), scanSeen rej seen l = decide (l.Nodup ∧ ∀ x ∈ l, x ∉ seen)
  | [], seen => by simp [scanSeen]
  | x :: xs, seen => by
    have ih := scanSeen_eq rej hr xs (x :: seen)
    unfold scanSeen
    rw [hr]
    by_cases hx : x ∈ seen
    · have : seen.contains x = true := List.contains_iff_mem.mpr hx
      simp [this, hx]
    · have : seen.contains x = false := by
        cases h : seen.contains x
        · rfl
        · exact absurd (List.contains_iff_mem.mp h) hx
      rw [this, ih]
      simp only [Bool.false_eq_true, if_false, List.nodup_cons, List.mem_cons, not_or, decide_eq_decide]
      constructor
      · rintro ⟨hn, hall⟩
        exact ⟨⟨fun hm => (hall x hm).1 rfl, hn⟩, fun y hy => by
          rcases hy with rfl | hy
          · exact hx
          · exact (hall y hy).2⟩
      · rintro ⟨⟨hxn, hn⟩, hall⟩
        exact ⟨hn, fun y hy => ⟨fun e => hxn (e ▸ hy), hall y (Or.inr hy)⟩⟩

theorem scanSeen_nodup {α} [DecidableEq α] (rej : Bool → Bool) (hr : ∀ b, rej b = b) (l : List α) :
    scanSeen rej [] l = decide l.Nodup := by
  rw [scanSeen_eq rej hr]; simp

theorem not_gt_eq_le (n l : Nat) : (!decide (n > l)) = decide (n ≤ l) := by
  by_cases h : n ≤ l <;> simp [h] <;> omega


/-! ### validation loops whose body is a regenerated decision tree -/

/-- run a validation loop: `body x seen` is the exit the loop body takes for element `x` when its key has (not) been seen
before; exit 0 = end of the body (the key is recorded, next iteration), any other exit = an error `return` -/
def runLoop {α κ} [DecidableEq κ] (key : α → κ) (body : α → Bool → Nat) : List κ → List α → Bool
  | _, [] => true
  | seen, x :: xs => if body x (seen.contains (key x)) = 0 then runLoop key body (key x :: seen) xs else false

theorem runLoop_iff {α κ} [DecidableEq κ] (key : α → κ) (body : α → Bool → Nat) (ok : α → Bool)
    (hb : ∀ x s, body x s = 0 ↔ (ok x = true ∧ s = false)) :
    ∀ (l : List α) (seen : List κ),
      runLoop key body seen l = true ↔
        ((∀ x ∈ l, ok x = true) ∧ (l.map key).Nodup ∧ ∀ x ∈ l, key x ∉ seen)
  | [], seen => by simp [runLoop]
  | x :: xs, seen => by
    have ih := runLoop_iff key body ok hb xs (key x :: seen)
    unfold runLoop
    by_cases h0 : body x (seen.contains (key x)) = 0
    · obtain ⟨hok, hs⟩ := (hb _ _).mp h0
      have hx : key x ∉ seen := by
        intro hm
        rw [List.contains_iff_mem.mpr hm] at hs; cases hs
      rw [if_pos h0, ih]
      constructor
      · rintro ⟨ha, hn, hall⟩
        refine ⟨?_, ?_, ?_⟩
        · intro y hy
          rcases List.mem_cons.mp hy with rfl | hy
          · exact hok
          · exact ha y hy
        · rw [List.map_cons, List.nodup_cons]
          refine ⟨?_, hn⟩
          intro hm
          obtain ⟨y, hy, e⟩ := List.mem_map.mp hm
          exact hall y hy (by rw [e]; exact List.mem_cons_self)
        · intro y hy
          rcases List.mem_cons.mp hy with rfl | hy
          · exact hx
          · exact fun hm => hall y hy (List.mem_cons_of_mem _ hm)
      · rintro ⟨ha, hn, hall⟩
        rw [List.map_cons, List.nodup_cons] at hn
        refine ⟨fun y hy => ha y (List.mem_cons_of_mem _ hy), hn.2, ?_⟩
        intro y hy hm
        rcases List.mem_cons.mp hm with e | hm
        · exact hn.1 (List.mem_map.mpr ⟨y, hy, e⟩)
        · exact hall y (List.mem_cons_of_mem _ hy) hm
    · rw [if_neg h0]
      constructor
      · intro h; cases h
      · rintro ⟨ha, _, hall⟩
        have hok := ha x List.mem_cons_self
        have hx := hall x List.mem_cons_self
        have hs : seen.contains (key x) = false := by
          cases h : seen.contains (key x)
          · rfl
          · exact absurd (List.contains_iff_mem.mp h) hx
        exact absurd ((hb _ _).mpr ⟨hok, hs⟩) h0

theorem runLoop_all_nodup {α κ} [DecidableEq κ] (key : α → κ) (body : α → Bool → Nat) (ok : α → Bool)
    (hb : ∀ x s, body x s = 0 ↔ (ok x = true ∧ s = false)) (l : List α) :
    runLoop key body [] l = (l.all ok && decide ((l.map key).Nodup)) := by
  rw [Bool.eq_iff_iff, runLoop_iff key body ok hb]
  simp

end AutoVerif.C03
