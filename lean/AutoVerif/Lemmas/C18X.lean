import AutoVerif.Spec.C18
import AutoVerif.Lemmas.C18
import AutoVerif.Lemmas.C18Trace
/-
Lemmas for the directly driven recoverer (`XCore`, `xstep`: Model/C18) — core Lean only:
  * `xrun` on core labels is `runC` (`xrun_core`), and a path that takes none of the caller's three extra actions and
    starts with a live context projects to a path of `runC` (`xrun_project`);
  * the closure machinery of Lemmas/C18 for `XCore` (a code = the core's code plus two bits);
  * every event / hidden item the X trace checker accepts is a sequence of `xstep` steps (`replayX_path`).
-/
namespace AutoVerif.C18

theorem xrun_append (x : XCore) (a b : List XLabel) :
    xrun x (a ++ b) = (xrun x a).bind fun x' => xrun x' b := by
  induction a generalizing x with
  | nil => simp [xrun]
  | cons l a ih =>
    simp only [List.cons_append, xrun]
    cases xstep x l with
    | none => simp
    | some x' => simp [ih]

/-- on the labels of `Core`, `xrun` is `runC` -/
theorem xrun_core (ctx hon : Bool) : ∀ (ls : List CLabel) (c c' : Core), runC c ls = some c' →
    xrun { c := c, ctxDone := ctx, honours := hon } (ls.map .core) = some { c := c', ctxDone := ctx, honours := hon } := by
  intro ls
  induction ls with
  | nil => intro c c' h; simp [runC] at h; simp [xrun, h]
  | cons l ls ih =>
    intro c c' h
    simp only [runC] at h
    cases hs : stepCore c l with
    | none => simp [hs] at h
    | some c1 =>
      simp only [hs] at h
      simp only [List.map_cons, xrun, xstep, hs, Option.map_some]
      exact ih c1 c' h

/-- the labels that only a caller of the public constructor — or a failing collaborator of the wrapped service — can cause -/
def XLabel.callerOnly : XLabel → Bool
  | .ctxCancel | .startRefused | .startAgain | .cSvcCloseErr => true
  | _ => false

/-- with a live context and none of the caller's extra actions, a step of `xstep` is a step of `stepCore` -/
theorem xstep_project {x x' : XCore} {l : XLabel} (hctx : x.ctxDone = false) (hl : l.callerOnly = false)
    (h : xstep x l = some x') : x'.ctxDone = false ∧ x'.honours = x.honours ∧ ∃ cl, stepCore x.c cl = some x'.c := by
  cases l with
  | core cl =>
    simp only [xstep] at h
    cases hs : stepCore x.c cl with
    | none => simp [hs] at h
    | some c1 => simp [hs] at h; subst h; exact ⟨hctx, rfl, cl, hs⟩
  | ctxCancel => simp [XLabel.callerOnly] at hl
  | startRefused => simp [XLabel.callerOnly] at hl
  | startAgain => simp [XLabel.callerOnly] at hl
  | cSvcCloseErr => simp [XLabel.callerOnly] at hl
  | sCtxDone => simp [xstep, ctxArmEnabled, hctx] at h
  | gCtxSeen => simp [xstep, hctx] at h

theorem xrun_project : ∀ (ls : List XLabel) (x x' : XCore), x.ctxDone = false → (∀ l ∈ ls, l.callerOnly = false) →
    xrun x ls = some x' → ∃ cls, runC x.c cls = some x'.c := by
  intro ls
  induction ls with
  | nil => intro x x' _ _ h; simp [xrun] at h; subst h; exact ⟨[], rfl⟩
  | cons l ls ih =>
    intro x x' hctx hall h
    simp only [xrun] at h
    cases hs : xstep x l with
    | none => simp [hs] at h
    | some x1 =>
      simp only [hs] at h
      obtain ⟨h1, _, cl, hcl⟩ := xstep_project hctx (hall l (by simp)) hs
      obtain ⟨cls, hcls⟩ := ih x1 x' h1 (fun l' hl' => hall l' (by simp [hl'])) h
      exact ⟨cl :: cls, by simp only [runC, hcl]; exact hcls⟩

/-! ### closure machinery for `XCore` -/

def encodeX (x : XCore) : Nat := b2n x.ctxDone + 2 * (b2n x.honours + 2 * encode x.c)
def decodeX (k : Nat) : XCore := { ctxDone := n2b (k % 2), honours := n2b (k / 2 % 2), c := decode (k / 4) }

def SchedX (ls : List XLabel) (sched : List XLabel) : Prop := ∀ l ∈ sched, l ∈ ls

def succsX (ls : List XLabel) (x : XCore) : List XCore := ls.filterMap (xstep x)

def exploreX (ls : List XLabel) : Nat → List Nat → List Nat → List Nat
  | 0, _, visited => visited
  | _ + 1, [], visited => visited
  | n + 1, k :: rest, visited =>
    if visited.contains k then exploreX ls n rest visited
    else exploreX ls n (rest ++ (succsX ls (decodeX k)).map encodeX) (k :: visited)

def closedKX (ls : List XLabel) (K : List Nat) : Bool :=
  K.all fun k => (succsX ls (decodeX k)).all fun x' => K.contains (encodeX x') && decide (decodeX (encodeX x') = x')

def InKX (K : List Nat) (x : XCore) : Prop := ∃ k ∈ K, decodeX k = x

theorem inKX_of_roundtrip {K : List Nat} {x : XCore} (hm : K.contains (encodeX x) = true) (hr : decodeX (encodeX x) = x) : InKX K x :=
  ⟨encodeX x, by simpa using hm, hr⟩

theorem closedKX_step {ls : List XLabel} {K : List Nat} (h : closedKX ls K = true) {x x' : XCore} {l : XLabel}
    (hx : InKX K x) (hl : l ∈ ls) (hs : xstep x l = some x') : InKX K x' := by
  obtain ⟨k, hk, rfl⟩ := hx
  simp only [closedKX, List.all_eq_true] at h
  have h1 := h k hk x' (by
    simp only [succsX, List.mem_filterMap]
    exact ⟨l, hl, hs⟩)
  simp only [Bool.and_eq_true, decide_eq_true_eq] at h1
  exact inKX_of_roundtrip h1.1 h1.2

theorem closedKX_sound {ls : List XLabel} {K : List Nat} (h : closedKX ls K = true) :
    ∀ (sched : List XLabel) (x x' : XCore), InKX K x → SchedX ls sched → xrun x sched = some x' → InKX K x' := by
  intro sched
  induction sched with
  | nil => intro x x' hx _ hr; simp [xrun] at hr; exact hr ▸ hx
  | cons l ls' ih =>
    intro x x' hx hs hr
    simp only [xrun] at hr
    cases hstep : xstep x l with
    | none => simp [hstep] at hr
    | some x1 =>
      simp only [hstep] at hr
      exact ih x1 x' (closedKX_step h hx (hs l (by simp)) hstep) (fun y hy => hs y (by simp [hy])) hr

theorem allKX {K : List Nat} {P : XCore → Bool} (h : K.all (fun k => P (decodeX k)) = true) {x : XCore} (hx : InKX K x) : P x = true := by
  obtain ⟨k, hk, rfl⟩ := hx
  exact (List.all_eq_true.mp h) k hk

/-- the system's own steps of the directly driven recoverer: those of `Core` (the cool-down timer included) and the two
    context arms -/
def xsysAll : List XLabel := sysLabels.map .core ++ [.sCtxDone, .gCtxSeen]

/-- no step of the system is enabled (time included) -/
def xterminal (x : XCore) : Bool := (xsysAll.filterMap (xstep x)).isEmpty

/-! ### the X trace checker accepts only paths of `xstep` -/

theorem liftT_path {s s' : TStateX} {e : Ev} (h : liftT s (tstep false s.t e) = some s') :
    ∃ ls, xrun s.x ls = some s'.x ∧ s'.honours = s.honours := by
  unfold liftT at h
  cases ht : tstep false s.t e with
  | none => simp [ht] at h
  | some t1 =>
    simp [ht] at h
    subst h
    obtain ⟨ls, hls⟩ := tstep_path ht
    exact ⟨ls.map .core, by simpa [TStateX.x] using xrun_core s.ctxDone s.honours ls s.t.c t1.c hls, rfl⟩

theorem withX_x (s : TStateX) (x : XCore) (hh : x.honours = s.honours) : (s.withX x).x = x := by
  cases x; simp_all [TStateX.withX, TStateX.x]

theorem xrun_honours : ∀ (ls : List XLabel) (x x' : XCore), xrun x ls = some x' → x'.honours = x.honours := by
  intro ls
  induction ls with
  | nil => intro x x' h; simp [xrun] at h; subst h; rfl
  | cons l ls ih =>
    intro x x' h
    simp only [xrun] at h
    cases hs : xstep x l with
    | none => simp [hs] at h
    | some x1 =>
      simp only [hs] at h
      have h1 : x1.honours = x.honours := by
        cases l with
        | core cl =>
          simp only [xstep] at hs
          cases hc : stepCore x.c cl with
          | none => simp [hc] at hs
          | some c1 => simp [hc] at hs; subst hs; rfl
        | ctxCancel => simp only [xstep] at hs; split at hs <;> simp at hs; subst hs; rfl
        | sCtxDone => simp only [xstep] at hs; split at hs <;> simp at hs; subst hs; rfl
        | gCtxSeen => simp only [xstep] at hs; split at hs <;> simp at hs; subst hs; rfl
        | startRefused => simp only [xstep] at hs; split at hs <;> simp at hs; subst hs; rfl
        | startAgain => simp only [xstep] at hs; split at hs <;> simp at hs; subst hs; rfl
        | cSvcCloseErr => simp only [xstep] at hs; split at hs <;> simp at hs; subst hs; rfl
      rw [ih x1 x' h, h1]

theorem mapWithX_path {s s' : TStateX} {ls : List XLabel} (h : (xrun s.x ls).map s.withX = some s') :
    xrun s.x ls = some s'.x ∧ s'.honours = s.honours := by
  cases hx : xrun s.x ls with
  | none => simp [hx] at h
  | some x1 =>
    simp [hx] at h
    subst h
    have hh : x1.honours = s.honours := by simpa [TStateX.x] using xrun_honours ls s.x x1 hx
    exact ⟨by rw [withX_x s x1 hh], by simp [TStateX.withX]⟩

theorem tstepX_path {s s' : TStateX} {e : Ev} (h : tstepX s e = some s') :
    ∃ ls, xrun s.x ls = some s'.x ∧ s'.honours = s.honours := by
  unfold tstepX at h
  repeat' split at h
  all_goals (try (simp at h; done))
  all_goals (first
    | exact liftT_path h
    | exact ⟨_, mapWithX_path h⟩)

theorem replayX_path {evs : Array Ev} : ∀ (items : List ItemX) (s s' : TStateX), replayX evs s items = some s' →
    ∃ ls, xrun s.x ls = some s'.x := by
  intro items
  induction items with
  | nil => intro s s' h; simp [replayX] at h; subst h; exact ⟨[], rfl⟩
  | cons it is ih =>
    intro s s' h
    cases it with
    | ev i =>
      simp only [replayX] at h
      cases he : evs[i]? with
      | none => simp [he] at h
      | some e =>
        simp only [he] at h
        cases hs : tstepX s e with
        | none => simp [hs] at h
        | some s1 =>
          simp only [hs] at h
          obtain ⟨l1, h1, _⟩ := tstepX_path hs
          obtain ⟨l2, h2⟩ := ih s1 s' h
          exact ⟨l1 ++ l2, by rw [xrun_append, h1]; simpa using h2⟩
    | hid l =>
      simp only [replayX] at h
      split at h
      · cases hs : xrun s.x [.core l] with
        | none => simp [hs] at h
        | some x1 =>
          simp only [hs] at h
          have hh : x1.honours = s.honours := by simpa [TStateX.x] using xrun_honours _ s.x x1 hs
          obtain ⟨l2, h2⟩ := ih (s.withX x1) s' h
          rw [withX_x s x1 hh] at h2
          exact ⟨[.core l] ++ l2, by rw [xrun_append, hs]; simpa using h2⟩
      · simp at h
    | cancel =>
      simp only [replayX] at h
      split at h
      · simp at h
      · cases hs : xrun s.x [.ctxCancel] with
        | none => simp [hs] at h
        | some x1 =>
          simp only [hs] at h
          have hh : x1.honours = s.honours := by simpa [TStateX.x] using xrun_honours _ s.x x1 hs
          obtain ⟨l2, h2⟩ := ih _ s' h
          have hx : ({ s.withX x1 with cancels := s.cancels - 1 } : TStateX).x = x1 := by
            have := withX_x s x1 hh
            simpa [TStateX.x, TStateX.withX] using this
          rw [hx] at h2
          exact ⟨[.ctxCancel] ++ l2, by rw [xrun_append, hs]; simpa using h2⟩
    | closeErr =>
      simp only [replayX] at h
      split at h
      · cases hs : xrun s.x [.cSvcCloseErr] with
        | none => simp [hs] at h
        | some x1 =>
          simp only [hs] at h
          have hh : x1.honours = s.honours := by simpa [TStateX.x] using xrun_honours _ s.x x1 hs
          obtain ⟨l2, h2⟩ := ih (s.withX x1) s' h
          rw [withX_x s x1 hh] at h2
          exact ⟨[.cSvcCloseErr] ++ l2, by rw [xrun_append, hs]; simpa using h2⟩
      · simp at h
    | gctx =>
      simp only [replayX] at h
      cases hs : xrun s.x [.gCtxSeen] with
      | none => simp [hs] at h
      | some x1 =>
        simp only [hs] at h
        have hh : x1.honours = s.honours := by simpa [TStateX.x] using xrun_honours _ s.x x1 hs
        obtain ⟨l2, h2⟩ := ih (s.withX x1) s' h
        rw [withX_x s x1 hh] at h2
        exact ⟨[.gCtxSeen] ++ l2, by rw [xrun_append, hs]; simpa using h2⟩

end AutoVerif.C18
