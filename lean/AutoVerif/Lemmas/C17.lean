import AutoVerif.Spec.C17
/-
Helper lemmas for Props/C17: numerals (`parseBig ∘ renderNat = id`), the order
algebra on `NB`, the tie `shouldUpdate` ↔ `NB.lt` for canonical blockers, caches
inside one window, and the simulation between the coordinator state and the
ghost of a history.
-/
namespace AutoVerif.C17

/-! ### numerals -/

/-- value of little-endian decimal digit characters -/
def valLE : List Nat → Nat
  | [] => 0
  | d :: ds => (d - 48) + 10 * valLE ds

def allDigits (l : List Nat) : Prop := ∀ c ∈ l, 48 ≤ c ∧ c ≤ 57

theorem digitsVal_append (xs ys : List Nat) (acc : Nat) :
    digitsVal (xs ++ ys) acc = (digitsVal xs acc).bind (digitsVal ys) := by
  induction xs generalizing acc with
  | nil => simp [digitsVal]
  | cons c cs ih =>
    simp only [List.cons_append, digitsVal]
    split
    · exact ih _
    · simp

theorem digitsVal_reverse (l : List Nat) (h : allDigits l) :
    digitsVal l.reverse 0 = some (valLE l) := by
  induction l with
  | nil => simp [digitsVal, valLE]
  | cons d ds ih =>
    have hd : 48 ≤ d ∧ d ≤ 57 := h d (by simp)
    have hds : allDigits ds := fun c hc => h c (by simp [hc])
    rw [List.reverse_cons, digitsVal_append, ih hds]
    simp only [Option.bind_some, digitsVal, hd, and_self, if_true, valLE]
    congr 1; omega

theorem digitsRev_spec (fuel n : Nat) (h : n < fuel) :
    allDigits (digitsRev fuel n) ∧ valLE (digitsRev fuel n) = n ∧ digitsRev fuel n ≠ [] := by
  induction fuel generalizing n with
  | zero => omega
  | succ f ih =>
    unfold digitsRev
    split
    · refine ⟨?_, ?_, by simp⟩
      · intro c hc; simp at hc; omega
      · simp [valLE]
    · have hlt : n / 10 < f := by omega
      obtain ⟨h1, h2, _⟩ := ih (n / 10) hlt
      refine ⟨?_, ?_, by simp⟩
      · intro c hc
        simp only [List.mem_cons] at hc
        rcases hc with hc | hc
        · omega
        · exact h1 c hc
      · simp only [valLE, h2]; omega

theorem renderNat_digits (n : Nat) : allDigits (renderNat n) ∧ renderNat n ≠ [] := by
  obtain ⟨h1, _, h3⟩ := digitsRev_spec (n + 1) n (by omega)
  refine ⟨?_, ?_⟩
  · intro c hc; exact h1 c (by simpa [renderNat] using hc)
  · simpa [renderNat] using h3

theorem parseBig_digits (s : Str) (hne : s ≠ []) (hd : allDigits s) :
    parseBig s = (digitsVal s 0).map Int.ofNat := by
  cases s with
  | nil => exact absurd rfl hne
  | cons c ds =>
    have hc := hd c (by simp)
    have h1 : c ≠ 45 := by omega
    have h2 : c ≠ 43 := by omega
    simp [parseBig, h1, h2]

/-- P1: `SetString(String(n)) = n` -/
theorem parseBig_renderNat (n : Nat) : parseBig (renderNat n) = some (Int.ofNat n) := by
  obtain ⟨hd, hne⟩ := renderNat_digits n
  rw [parseBig_digits _ hne hd]
  obtain ⟨h1, h2, _⟩ := digitsRev_spec (n + 1) n (by omega)
  simp [renderNat, digitsVal_reverse _ h1, h2]

theorem renderNat_inj {a b : Nat} (h : renderNat a = renderNat b) : a = b := by
  have := parseBig_renderNat a
  rw [h, parseBig_renderNat] at this
  simp only [Option.some.injEq, Int.ofNat_eq_natCast] at this
  omega

theorem isCanon_iff (s : Str) : isCanon s = true ↔ s = renderNat (num s) ∧ parseBig s = some (Int.ofNat (num s)) := by
  unfold isCanon num
  constructor
  · intro h
    split at h
    · next n hp => simp only [beq_iff_eq] at h; simp [hp, ← h]
    · exact absurd h (by simp)
  · intro ⟨h1, h2⟩
    rw [h2] at h1 ⊢
    simp only [Int.toNat_natCast, Int.ofNat_eq_natCast] at h1
    simp [← h1]

theorem isCanon_renderNat (n : Nat) : isCanon (renderNat n) = true := by
  simp [isCanon, parseBig_renderNat]

theorem num_renderNat (n : Nat) : num (renderNat n) = n := by
  simp [num, parseBig_renderNat]

theorem canon_eq {s : Str} (h : isCanon s = true) : s = renderNat (num s) := ((isCanon_iff s).mp h).1

theorem canon_parse {s : Str} (h : isCanon s = true) : parseBig s = some (Int.ofNat (num s)) := ((isCanon_iff s).mp h).2

theorem canon_inj {a b : Str} (ha : isCanon a = true) (hb : isCanon b = true) (h : num a = num b) : a = b := by
  rw [canon_eq ha, canon_eq hb, h]

theorem after_canon {a b : Str} (ha : isCanon a = true) (hb : isCanon b = true) :
    after a b = some (decide (num a > num b)) := by
  simp [after, canon_parse ha, canon_parse hb]

theorem indefinite_eq : indefinite = renderNat two64 := by decide

theorem isCanon_indefinite : isCanon indefinite = true := by rw [indefinite_eq]; exact isCanon_renderNat _

theorem num_indefinite : num indefinite = two64 := by rw [indefinite_eq]; exact num_renderNat _

theorem canon_eq_indefinite {s : Str} (h : isCanon s = true) : s = indefinite ↔ num s = two64 := by
  constructor
  · intro e; rw [e]; exact num_indefinite
  · intro e; exact canon_inj h isCanon_indefinite (by rw [e, num_indefinite])

theorem increment_canon {a : Str} (ha : isCanon a = true) : increment a = some (renderNat (num a + 1)) := by
  simp only [increment, canon_parse ha]
  have : (Int.ofNat (num a) + 1) = Int.ofNat (num a + 1) := by simp
  rw [this]; rfl

/-! ### the order on `NB` -/

theorem NB.join_idem (a : NB) : a.join a = a := by
  simp [NB.join, NB.lt]

theorem NB.join_comm (a b : NB) : a.join b = b.join a := by
  cases a with | mk ac au => cases b with | mk bc bu =>
  simp only [NB.join, NB.lt]
  by_cases h1 : ac < bc ∨ ac = bc ∧ au < bu <;> by_cases h2 : bc < ac ∨ bc = ac ∧ bu < au <;>
    simp only [h1, h2, decide_true, decide_false, if_true, if_false, Bool.false_eq_true, NB.mk.injEq] <;> omega

theorem NB.join_assoc (a b c : NB) : (a.join b).join c = a.join (b.join c) := by
  cases a with | mk ac au => cases b with | mk bc bu => cases c with | mk cc cu =>
  simp only [NB.join, NB.lt]
  by_cases h1 : ac < bc ∨ ac = bc ∧ au < bu <;> by_cases h2 : bc < cc ∨ bc = cc ∧ bu < cu <;>
    by_cases h3 : ac < cc ∨ ac = cc ∧ au < cu <;>
    simp only [h1, h2, h3, decide_true, decide_false, if_true, if_false, Bool.false_eq_true, NB.mk.injEq] <;> omega

/-- `x ≤ y` in the lexicographic order -/
def NB.le (x y : NB) : Prop := y.lt x = false

instance (x y : NB) : Decidable (NB.le x y) := by unfold NB.le; infer_instance

theorem NB.le_iff (x y : NB) :
    NB.le x y ↔ ¬ (y.check < x.check ∨ (y.check = x.check ∧ y.upto < x.upto)) := by
  unfold NB.le NB.lt; exact decide_eq_false_iff_not

theorem NB.join_eq_left {a x : NB} (h : NB.le x a) : a.join x = a := by
  unfold NB.le at h; simp [NB.join, h]

theorem NB.le_join_left (a x : NB) : NB.le a (a.join x) := by
  cases a with | mk ac au => cases x with | mk xc xu =>
  simp only [NB.le, NB.join, NB.lt]
  by_cases h1 : ac < xc ∨ ac = xc ∧ au < xu <;>
    simp only [h1, decide_true, decide_false, if_true, if_false, Bool.false_eq_true, decide_eq_false_iff_not] <;> omega

theorem NB.le_join_right (a x : NB) : NB.le x (a.join x) := by
  cases a with | mk ac au => cases x with | mk xc xu =>
  simp only [NB.le, NB.join, NB.lt]
  by_cases h1 : ac < xc ∨ ac = xc ∧ au < xu <;>
    simp only [h1, decide_true, decide_false, if_true, if_false, Bool.false_eq_true, decide_eq_false_iff_not] <;> omega

theorem NB.le_trans {a b c : NB} (h1 : NB.le a b) (h2 : NB.le b c) : NB.le a c := by
  cases a with | mk ac au => cases b with | mk bc bu => cases c with | mk cc cu =>
  simp only [NB.le, NB.lt, decide_eq_false_iff_not] at *
  omega

theorem NB.le_refl (a : NB) : NB.le a a := by
  simp [NB.le, NB.lt]

theorem NB.le_antisymm {a b : NB} (h1 : NB.le a b) (h2 : NB.le b a) : a = b := by
  cases a with | mk ac au => cases b with | mk bc bu =>
  simp only [NB.le, NB.lt, decide_eq_false_iff_not, NB.mk.injEq] at *
  omega

/-! ### `joinAll` -/

theorem joinAll_cons (x : NB) (l : List NB) :
    joinAll (x :: l) = some (match joinAll l with | none => x | some a => a.join x) := by
  simp only [joinAll]; cases joinAll l <;> rfl

theorem joinAll_le {l : List NB} {x m : NB} (hx : x ∈ l) (hm : joinAll l = some m) : NB.le x m := by
  induction l generalizing m with
  | nil => simp at hx
  | cons y l ih =>
    rw [joinAll_cons] at hm
    simp only [Option.some.injEq] at hm
    rcases List.mem_cons.mp hx with rfl | hx
    · cases hj : joinAll l with
      | none => rw [hj] at hm; subst hm; exact NB.le_refl _
      | some a => rw [hj] at hm; subst hm; exact NB.le_join_right _ _
    · cases hj : joinAll l with
      | none => cases l with
        | nil => simp at hx
        | cons z l => rw [joinAll_cons] at hj; simp at hj
      | some a => rw [hj] at hm; subst hm; exact NB.le_trans (ih hx hj) (NB.le_join_left _ _)

theorem joinAll_mem {l : List NB} {m : NB} (hm : joinAll l = some m) : m ∈ l := by
  induction l generalizing m with
  | nil => simp [joinAll] at hm
  | cons y l ih =>
    rw [joinAll_cons] at hm
    simp only [Option.some.injEq] at hm
    cases hj : joinAll l with
    | none => rw [hj] at hm; subst hm; simp
    | some a =>
      rw [hj] at hm; subst hm
      simp only [NB.join]
      split
      · simp
      · exact List.mem_cons_of_mem _ (ih hj)

theorem joinAll_isSome {l : List NB} (h : l ≠ []) : ∃ m, joinAll l = some m := by
  cases l with
  | nil => exact absurd rfl h
  | cons x l => rw [joinAll_cons]; exact ⟨_, rfl⟩

/-- the join is the maximum: characterisation used by every clause -/
theorem joinAll_eq_of_max {l : List NB} {x : NB} (hx : x ∈ l) (hmax : ∀ y ∈ l, NB.le y x) :
    joinAll l = some x := by
  obtain ⟨m, hm⟩ := joinAll_isSome (List.ne_nil_of_mem hx)
  rw [hm]; congr 1
  exact NB.le_antisymm (hmax m (joinAll_mem hm)) (joinAll_le hx hm)

theorem joinAll_perm {l l' : List NB} (h : l.Perm l') : joinAll l = joinAll l' := by
  induction h with
  | nil => rfl
  | cons x _ ih => rw [joinAll_cons, joinAll_cons, ih]
  | swap x y l =>
    rw [joinAll_cons, joinAll_cons, joinAll_cons, joinAll_cons]
    cases joinAll l with
    | none => simp [NB.join_comm]
    | some a =>
      simp only [Option.some.injEq]
      rw [NB.join_assoc, NB.join_assoc, NB.join_comm x y]
  | trans _ _ ih1 ih2 => rw [ih1, ih2]

/-! ### `shouldUpdate` on canonical blockers is the order on `NB` -/

/-- both block keys are canonical numerals -/
def canonBlk (b : IdBlocker) : Prop := isCanon b.check = true ∧ isCanon b.transmit = true

instance (b : IdBlocker) : Decidable (canonBlk b) := by unfold canonBlk; infer_instance

/-- a canonical blocker in numbers -/
def ofBlk (b : IdBlocker) : NB := { check := num b.check, upto := rankOf (num b.transmit) }

theorem shouldUpdate_canon {b v : IdBlocker} (hb : canonBlk b) (hv : canonBlk v) :
    shouldUpdate b v = some (decide ((ofBlk b).lt (ofBlk v) = true ∨
      (num b.check = num v.check ∧ num b.transmit = two64))) := by
  simp only [shouldUpdate, after_canon hv.1 hb.1, after_canon hb.1 hv.1, after_canon hv.2 hb.2,
    canon_eq_indefinite hb.2, canon_eq_indefinite hv.2, ofBlk, NB.lt]
  by_cases h3 : num b.transmit = two64 <;> by_cases h4 : num v.transmit = two64 <;>
    by_cases h1 : num v.check > num b.check <;> by_cases h2 : num b.check > num v.check <;>
    simp only [rankOf, h1, h2, h3, h4, decide_true, decide_false, if_true, if_false,
      Option.some.injEq, true_eq_decide_iff, false_eq_decide_iff, decide_eq_decide, decide_eq_true_eq,
      true_or, false_or, or_false, and_true, and_false, Bool.false_eq_true,
      Nat.lt_irrefl, Nat.not_lt_zero, Nat.zero_lt_succ] <;> omega

theorem ofBlk_joinBlk {b v : IdBlocker} (hb : canonBlk b) (hv : canonBlk v) :
    ofBlk (joinBlk b v) = (ofBlk b).join (ofBlk v) := by
  simp only [joinBlk, shouldUpdate_canon hb hv, NB.join, Option.some.injEq, decide_eq_true_eq]
  by_cases h : (ofBlk b).lt (ofBlk v) = true
  · simp [h]
  · by_cases h' : num b.check = num v.check ∧ num b.transmit = two64
    · simp only [h, h', and_self, or_true, if_true, Bool.false_eq_true, if_false]
      -- equal check, `b` indefinite, not below `v`: `v` is indefinite as well
      obtain ⟨e1, e2⟩ := h'
      have h0 : ¬ ((num b.check < num v.check) ∨
          (num b.check = num v.check ∧ rankOf (num b.transmit) < rankOf (num v.transmit))) := by
        intro hc; apply h; simp only [ofBlk, NB.lt]; exact decide_eq_true hc
      have hb0 : rankOf (num b.transmit) = 0 := by simp [rankOf, e2]
      simp only [ofBlk, NB.mk.injEq]
      omega
    · simp [h, h']

theorem canonBlk_joinBlk {b v : IdBlocker} (hb : canonBlk b) (hv : canonBlk v) : canonBlk (joinBlk b v) := by
  unfold joinBlk; split <;> assumption

theorem rankOf_inj {a b : Nat} (h : rankOf a = rankOf b) : a = b := by
  unfold rankOf at h; split at h <;> split at h <;> omega

theorem ofBlk_inj {b v : IdBlocker} (hb : canonBlk b) (hv : canonBlk v) (h : ofBlk b = ofBlk v) : b = v := by
  cases b with | mk bc bt => cases v with | mk vc vt =>
  simp only [ofBlk, NB.mk.injEq] at h
  have h1 := canon_inj hb.1 hv.1 h.1
  have h2 := canon_inj hb.2 hv.2 (rankOf_inj h.2)
  simp only at h1 h2
  rw [h1, h2]

/-! ### caches inside one window -/

theorem find_filter_ne {α} (c : Cache α) (k k' : Str) :
    Cache.find (c.filter (fun p => p.1 ≠ k)) k' = if k' = k then none else Cache.find c k' := by
  induction c with
  | nil => simp [Cache.find]
  | cons p c ih =>
    obtain ⟨pk, pv⟩ := p
    by_cases h : pk = k
    · subst h
      simp only [List.filter_cons, ne_eq, not_true_eq_false, decide_false, Bool.false_eq_true, if_false, ih, Cache.find]
      by_cases h' : k' = pk
      · simp [h']
      · have : ¬ pk = k' := fun e => h' e.symm
        simp [h', this]
    · simp only [List.filter_cons, ne_eq, h, not_false_eq_true, decide_true, if_true, Cache.find, ih]
      by_cases h' : k' = k
      · subst h'; simp [h]
      · simp [h']

theorem find_set {α} (c : Cache α) (now ttl : Nat) (k : Str) (v : α) (k' : Str) :
    (c.set now ttl k v).find k' = if k' = k then some (v, if ttl > 0 then now + ttl else 0) else c.find k' := by
  simp only [Cache.set, Cache.find, find_filter_ne]
  by_cases h : k' = k
  · subst h; simp
  · have : ¬ k = k' := fun e => h e.symm
    simp [h, this]

/-- no entry expires before `lim` -/
def Fresh {α} (c : Cache α) (lim : Nat) : Prop := ∀ k v e, c.find k = some (v, e) → lim ≤ e

theorem fresh_empty {α} (lim : Nat) : Fresh (Cache.empty : Cache α) lim := by
  intro k v e h; simp [Cache.empty, Cache.find] at h

theorem get_of_fresh {α} {c : Cache α} {lim now : Nat} (hf : Fresh c lim) (hn : now ≤ lim) (k : Str) :
    c.get now k = (c.find k).map (·.1) := by
  unfold Cache.get
  cases h : c.find k with
  | none => rfl
  | some p =>
    obtain ⟨v, e⟩ := p
    have := hf k v e h
    have hne : ¬ (e > 0 ∧ now > e) := by omega
    simp [hne]

theorem fresh_set {α} {c : Cache α} {lim now ttl : Nat} (hf : Fresh c lim) (hpos : 0 < ttl) (hl : lim ≤ now + ttl)
    (k : Str) (v : α) : Fresh (c.set now ttl k v) lim := by
  intro k' v' e' h
  rw [find_set] at h
  by_cases hk : k' = k
  · simp only [hk, if_true, gt_iff_lt, hpos, Option.some.injEq, Prod.mk.injEq] at h
    omega
  · simp only [hk, if_false] at h
    exact hf k' v' e' h

theorem window_pos (cfg : Cfg) : 0 < cfg.window := by
  unfold Cfg.window defaultLockoutNs
  split
  · omega
  · omega

/-- what `updateIdBlock` does to a cache of canonical blockers inside the window -/
theorem find_updateIdBlock (cfg : Cfg) (c : Cache IdBlocker) (lim now : Nat) (id : Str) (val : IdBlocker)
    (hf : Fresh c lim) (hn : now ≤ lim) (hl : lim ≤ now + cfg.window)
    (hc : ∀ k b e, c.find k = some (b, e) → canonBlk b) (hv : canonBlk val) :
    Fresh (updateIdBlock cfg c now id val) lim ∧
    (∀ k b e, (updateIdBlock cfg c now id val).find k = some (b, e) → canonBlk b) ∧
    (∀ k, k ≠ id → (updateIdBlock cfg c now id val).find k = c.find k) ∧
    ((updateIdBlock cfg c now id val).find id).map (fun p => ofBlk p.1) =
      some (match c.find id with
        | none => ofBlk val
        | some p => (ofBlk p.1).join (ofBlk val)) := by
  have hset : Fresh (c.set now cfg.window id val) lim := fresh_set hf (window_pos cfg) hl id val
  have hsetc : ∀ k b e, (c.set now cfg.window id val).find k = some (b, e) → canonBlk b := by
    intro k b e h
    rw [find_set] at h
    split at h
    · simp only [Option.some.injEq, Prod.mk.injEq] at h; rw [← h.1]; exact hv
    · exact hc k b e h
  have hsetne : ∀ k, k ≠ id → (c.set now cfg.window id val).find k = c.find k := by
    intro k hk; rw [find_set]; simp [hk]
  unfold updateIdBlock
  rw [get_of_fresh hf hn]
  cases hfind : c.find id with
  | none =>
    simp only [Option.map_none]
    refine ⟨hset, hsetc, hsetne, ?_⟩
    rw [find_set]; simp
  | some p =>
    obtain ⟨b, e⟩ := p
    have hb : canonBlk b := hc id b e hfind
    simp only [Option.map_some]
    have hj := ofBlk_joinBlk hb hv
    unfold joinBlk at hj
    cases hsu : shouldUpdate b val with
    | none =>
      have hj' : ofBlk b = (ofBlk b).join (ofBlk val) := by
        rw [hsu] at hj; simpa using hj
      refine ⟨hf, hc, fun _ _ => rfl, ?_⟩
      rw [hfind, ← hj']; rfl
    | some t =>
      cases t with
      | false =>
        have hj' : ofBlk b = (ofBlk b).join (ofBlk val) := by
          rw [hsu] at hj; simpa using hj
        refine ⟨hf, hc, fun _ _ => rfl, ?_⟩
        rw [hfind, ← hj']; rfl
      | true =>
        have hj' : ofBlk val = (ofBlk b).join (ofBlk val) := by
          rw [hsu] at hj; simpa using hj
        refine ⟨hset, hsetc, hsetne, ?_⟩
        rw [find_set, ← hj']; simp

/-! ### the ghost of a history -/

theorem forId_of_contribs {g g' : Ghost} {id' : Str} {x : NB} (h : g'.contribs = (id', x) :: g.contribs) (id : Str) :
    g'.forId id = if id' = id then x :: g.forId id else g.forId id := by
  unfold Ghost.forId
  rw [h, List.filter_cons]
  by_cases e : id' = id <;> simp [e]

theorem block_of_contribs {g g' : Ghost} {id' : Str} {x : NB} (h : g'.contribs = (id', x) :: g.contribs) (id : Str) :
    g'.block id = if id' = id then some (match g.block id with | none => x | some a => a.join x) else g.block id := by
  unfold Ghost.block
  rw [forId_of_contribs h]
  by_cases e : id' = id
  · simp only [e, if_true, joinAll_cons]
  · simp [e]

theorem block_of_contribs_eq {g g' : Ghost} (h : g'.contribs = g.contribs) (id : Str) : g'.block id = g.block id := by
  unfold Ghost.block Ghost.forId; rw [h]

theorem mem_forId {g : Ghost} {id : Str} {x : NB} (h : (id, x) ∈ g.contribs) : x ∈ g.forId id := by
  unfold Ghost.forId
  simp only [List.mem_map, List.mem_filter, decide_eq_true_eq]
  exact ⟨(id, x), ⟨h, rfl⟩, rfl⟩

theorem rankOf_two64 : rankOf two64 = 0 := by simp [rankOf]

theorem ofBlk_indefinite (c : Str) : ofBlk { check := c, transmit := indefinite } = { check := num c, upto := 0 } := by
  simp [ofBlk, num_indefinite, rankOf_two64]

/-! ### simulation: coordinator state ↔ ghost

`limI` / `limA`: no id-block / active-key entry expires before; `PA` / `PL`: keys accepted / logged in an earlier window
(their contributions have expired with that window, so they are exempt from the witness invariant). -/

structure Sim2 (limI limA : Nat) (PA PL : List Str) (s : State) (g : Ghost) : Prop where
  freshI : Fresh s.idBlocks limI
  freshA : Fresh s.activeKeys limA
  canon  : ∀ k b e, s.idBlocks.find k = some (b, e) → canonBlk b
  blocks : ∀ id, (s.idBlocks.find id).map (fun p => ofBlk p.1) = g.block id
  active : ∀ k, (s.activeKeys.find k).map (·.1) = if k ∈ g.accepted then some (decide (k ∈ g.logged)) else none
  wit    : ∀ k, (k ∈ g.accepted ∧ k ∉ PA) ∨ (k ∈ g.logged ∧ k ∉ PL) →
             ∃ c id x, splitUpkeepKey k = some (c, id) ∧ (id, x) ∈ g.contribs ∧ x.check = num c
  logAcc : ∀ k ∈ g.logged, k ∈ g.accepted

/-- one window, nothing before it -/
abbrev Sim (lim : Nat) (s : State) (g : Ghost) : Prop := Sim2 lim lim [] [] s g

theorem sim_init2 (limI limA : Nat) (PA PL : List Str) : Sim2 limI limA PA PL State.init Ghost.init := by
  refine ⟨fresh_empty _, fresh_empty _, ?_, ?_, ?_, ?_, ?_⟩ <;>
    simp [State.init, Ghost.init, Cache.empty, Cache.find, Ghost.block, Ghost.forId, joinAll]

theorem sim_init (lim : Nat) : Sim lim State.init Ghost.init := sim_init2 lim lim [] []

theorem activeTtl_pos : 0 < activeTtlNs := by unfold activeTtlNs; omega

/-- a key accepted or logged in this window blocks its id at least at `(check, indefinite)` -/
theorem Sim2.block_ge {limI limA : Nat} {PA PL : List Str} {s : State} {g : Ghost} (h : Sim2 limI limA PA PL s g)
    {k c id : Str} (hk : (k ∈ g.accepted ∧ k ∉ PA) ∨ (k ∈ g.logged ∧ k ∉ PL)) (hs : splitUpkeepKey k = some (c, id)) :
    ∃ m, g.block id = some m ∧ NB.le { check := num c, upto := 0 } m := by
  obtain ⟨c', id', x, hs', hm, hx⟩ := h.wit k hk
  rw [hs] at hs'
  simp only [Option.some.injEq, Prod.mk.injEq] at hs'
  obtain ⟨rfl, rfl⟩ := hs'
  have hmem := mem_forId hm
  obtain ⟨m, hm'⟩ := joinAll_isSome (List.ne_nil_of_mem hmem)
  refine ⟨m, hm', NB.le_trans ?_ (joinAll_le hmem hm')⟩
  rw [NB.le_iff]; simp only; omega

/-- the witness invariant after key `k` (check block `c`, id `id`) gained the contribution `(id, x)` -/
theorem wit_cons {PA PL : List Str} {g g' : Ghost} {k c id : Str} {x : NB}
    (hw : ∀ k, (k ∈ g.accepted ∧ k ∉ PA) ∨ (k ∈ g.logged ∧ k ∉ PL) →
      ∃ c id x, splitUpkeepKey k = some (c, id) ∧ (id, x) ∈ g.contribs ∧ x.check = num c)
    (hs : splitUpkeepKey k = some (c, id)) (hx : x.check = num c)
    (hc : g'.contribs = (id, x) :: g.contribs)
    (ha : ∀ k', k' ∈ g'.accepted → k' = k ∨ k' ∈ g.accepted) (hl : ∀ k', k' ∈ g'.logged → k' = k ∨ k' ∈ g.logged) :
    ∀ k', (k' ∈ g'.accepted ∧ k' ∉ PA) ∨ (k' ∈ g'.logged ∧ k' ∉ PL) →
      ∃ c id x, splitUpkeepKey k' = some (c, id) ∧ (id, x) ∈ g'.contribs ∧ x.check = num c := by
  intro k' hk'
  by_cases e : k' = k
  · subst e; exact ⟨c, id, x, hs, by rw [hc]; exact List.mem_cons_self, hx⟩
  · have hold : (k' ∈ g.accepted ∧ k' ∉ PA) ∨ (k' ∈ g.logged ∧ k' ∉ PL) := by
      rcases hk' with ⟨h1, h2⟩ | ⟨h1, h2⟩
      · rcases ha k' h1 with h | h
        · exact absurd h e
        · exact Or.inl ⟨h, h2⟩
      · rcases hl k' h1 with h | h
        · exact absurd h e
        · exact Or.inr ⟨h, h2⟩
    obtain ⟨c', id', x', h1, h2, h3⟩ := hw k' hold
    exact ⟨c', id', x', h1, by rw [hc]; exact List.mem_cons_of_mem _ h2, h3⟩

theorem ghost_accept_none {cfg : Cfg} {g : Ghost} {k : Str} (hs : splitUpkeepKey k = none) :
    g.step cfg (.accept k) = g := by simp [Ghost.step, hs]

theorem ghost_accept_some {cfg : Cfg} {g : Ghost} {k c id : Str} (hs : splitUpkeepKey k = some (c, id)) :
    g.step cfg (.accept k) =
      { g with accepted := k :: g.accepted, contribs := (id, { check := num c, upto := 0 }) :: g.contribs } := by
  simp [Ghost.step, hs]

theorem accept_none {cfg : Cfg} {s : State} {t : Nat} {k : Str} (hs : splitUpkeepKey k = none) :
    accept cfg s t k = s := by simp [accept, hs]

theorem accept_active {cfg : Cfg} {s : State} {t : Nat} {k c id : Str} {v : Bool}
    (hs : splitUpkeepKey k = some (c, id)) (hg : s.activeKeys.get t k = some v) :
    accept cfg s t k = s := by simp [accept, hs, hg]

theorem accept_new {cfg : Cfg} {s : State} {t : Nat} {k c id : Str}
    (hs : splitUpkeepKey k = some (c, id)) (hg : s.activeKeys.get t k = none) :
    accept cfg s t k =
      { activeKeys := s.activeKeys.set t activeTtlNs k false
        idBlocks := updateIdBlock cfg s.idBlocks t id { check := c, transmit := indefinite } } := by
  simp [accept, hs, hg]

theorem sim_accept (cfg : Cfg) {limI limA t : Nat} {PA PL : List Str} {s : State} {g : Ghost}
    (h : Sim2 limI limA PA PL s g) (k : Str)
    (ht : t ≤ limI) (hw : limI ≤ t + cfg.window) (hta : t ≤ limA) (ha : limA ≤ t + activeTtlNs)
    (hc : opCanon (.accept k) = true) (hPA : k ∉ PA) :
    Sim2 limI limA PA PL (accept cfg s t k) (g.step cfg (.accept k)) := by
  cases hs : splitUpkeepKey k with
  | none => rw [accept_none hs, ghost_accept_none hs]; exact h
  | some p =>
    obtain ⟨c, id⟩ := p
    have hcc : isCanon c = true := by simpa [opCanon, hs] using hc
    rw [ghost_accept_some hs]
    have hblk : ∀ id', Ghost.block { g with accepted := k :: g.accepted, contribs := (id, ({ check := num c, upto := 0 } : NB)) :: g.contribs } id' =
        if id = id' then some (match g.block id' with
          | none => ({ check := num c, upto := 0 } : NB)
          | some a => a.join { check := num c, upto := 0 }) else g.block id' :=
      fun id' => block_of_contribs (g := g) rfl id'
    have hget := get_of_fresh h.freshA hta k
    have hact := h.active k
    by_cases hk : k ∈ g.accepted
    · -- already active: no change; the ghost gains a duplicate contribution
      rw [if_pos hk] at hact
      cases hf : s.activeKeys.find k with
      | none => rw [hf] at hact; simp at hact
      | some q =>
        rw [hf] at hget
        rw [accept_active hs hget]
        obtain ⟨m, hm, hle⟩ := h.block_ge (Or.inl ⟨hk, hPA⟩) hs
        refine ⟨h.freshI, h.freshA, h.canon, ?_, ?_, ?_, fun k' hk' => List.mem_cons_of_mem _ (h.logAcc k' hk')⟩
        · intro id'
          rw [h.blocks, hblk]
          by_cases e : id = id'
          · subst e; simp only [if_true, hm, NB.join_eq_left hle]
          · simp [e]
        · intro k'
          rw [h.active]
          by_cases e : k' = k
          · subst e; simp [hk]
          · simp [e]
        · exact wit_cons (g := g) h.wit hs rfl rfl (fun k' hk' => by simpa using hk') (fun k' hk' => Or.inr hk')
    · rw [if_neg hk] at hact
      cases hf : s.activeKeys.find k with
      | some q => rw [hf] at hact; simp at hact
      | none =>
        rw [hf] at hget
        rw [accept_new hs hget]
        have hv : canonBlk { check := c, transmit := indefinite } := ⟨hcc, isCanon_indefinite⟩
        obtain ⟨u1, u2, u3, u4⟩ := find_updateIdBlock cfg s.idBlocks limI t id _ h.freshI ht hw h.canon hv
        refine ⟨u1, fresh_set h.freshA activeTtl_pos ha _ _, u2, ?_, ?_, ?_, ?_⟩
        · intro id'
          rw [hblk]
          by_cases e : id = id'
          · subst e
            simp only [if_true]
            rw [u4, ← h.blocks id, ofBlk_indefinite]
            cases s.idBlocks.find id <;> rfl
          · have e' : id' ≠ id := fun x => e x.symm
            simp only [e, if_false]
            rw [u3 id' e', h.blocks]
        · intro k'
          rw [find_set]
          by_cases e : k' = k
          · subst e
            have : k' ∉ g.logged := fun x => hk (h.logAcc _ x)
            simp [this]
          · simp only [e, if_false, List.mem_cons, false_or]
            exact h.active k'
        · exact wit_cons (g := g) h.wit hs rfl rfl (fun k' hk' => by simpa using hk') (fun k' hk' => Or.inr hk')
        · intro k' hk'
          exact List.mem_cons_of_mem _ (h.logAcc k' hk')

/-- the ghost after a log for `key` that passes its own checks -/
def Ghost.logged' (g : Ghost) (key id : Str) (x : NB) : Ghost :=
  if key ∈ g.accepted then { g with logged := key :: g.logged, contribs := (id, x) :: g.contribs } else g

theorem sim_processLog (cfg : Cfg) {limI limA t : Nat} {PA PL : List Str} {s : State} {g : Ghost}
    (h : Sim2 limI limA PA PL s g) (key c id tb : Str)
    (hs : splitUpkeepKey key = some (c, id)) (hcc : isCanon c = true) (htb : isCanon tb = true)
    (ht : t ≤ limI) (hw : limI ≤ t + cfg.window) (hta : t ≤ limA) (ha : limA ≤ t + activeTtlNs) (hPL : key ∉ PL) :
    Sim2 limI limA PA PL (processLog cfg s t key c id tb) (g.logged' key id { check := num c, upto := rankOf (num tb) }) := by
  have hget := get_of_fresh h.freshA hta key
  have hact := h.active key
  have hv : canonBlk { check := c, transmit := tb } := ⟨hcc, htb⟩
  have hov : ofBlk { check := c, transmit := tb } = { check := num c, upto := rankOf (num tb) } := rfl
  unfold Ghost.logged'
  by_cases hk : key ∈ g.accepted
  · rw [if_pos hk]
    rw [if_pos hk] at hact
    have hblk : ∀ id', Ghost.block { g with logged := key :: g.logged, contribs := (id, ({ check := num c, upto := rankOf (num tb) } : NB)) :: g.contribs } id' =
        if id = id' then some (match g.block id' with
          | none => ({ check := num c, upto := rankOf (num tb) } : NB)
          | some a => a.join { check := num c, upto := rankOf (num tb) }) else g.block id' :=
      fun id' => block_of_contribs (g := g) rfl id'
    have hacc := wit_cons (g := g)
      (g' := { g with logged := key :: g.logged, contribs := (id, ({ check := num c, upto := rankOf (num tb) } : NB)) :: g.contribs })
      h.wit hs rfl rfl (fun k' hk' => Or.inr hk') (fun k' hk' => by simpa using hk')
    cases hf : s.activeKeys.find key with
    | none => rw [hf] at hact; simp at hact
    | some q =>
      obtain ⟨confirmed, e⟩ := q
      rw [hf] at hget hact
      simp only [Option.map_some, Option.some.injEq] at hget hact
      cases confirmed with
      | false =>
        -- first log for an accepted key
        have hnl : key ∉ g.logged := by
          intro x; simp [x] at hact
        have : processLog cfg s t key c id tb =
            { activeKeys := s.activeKeys.set t activeTtlNs key true
              idBlocks := updateIdBlock cfg s.idBlocks t id { check := c, transmit := tb } } := by
          simp [processLog, hget]
        rw [this]
        obtain ⟨u1, u2, u3, u4⟩ := find_updateIdBlock cfg s.idBlocks limI t id _ h.freshI ht hw h.canon hv
        refine ⟨u1, fresh_set h.freshA activeTtl_pos ha _ _, u2, ?_, ?_, hacc, ?_⟩
        · intro id'
          rw [hblk]
          by_cases e' : id = id'
          · subst e'
            simp only [if_true]
            rw [u4, ← h.blocks id, hov]
            cases s.idBlocks.find id <;> rfl
          · have e'' : id' ≠ id := fun x => e' x.symm
            simp only [e', if_false]
            rw [u3 id' e'', h.blocks]
        · intro k'
          rw [find_set]
          by_cases e' : k' = key
          · subst e'; simp [hk]
          · simp only [e', if_false, List.mem_cons, false_or]
            exact h.active k'
        · intro k' hk'
          simp only [List.mem_cons] at hk'
          rcases hk' with rfl | hk'
          · exact hk
          · exact h.logAcc k' hk'
      | true =>
        -- the key already had a log: only a re-org / stale-after-perform update of the id block
        have hl : key ∈ g.logged := by
          by_cases x : key ∈ g.logged
          · exact x
          · simp [x] at hact
        obtain ⟨m, hm, hle⟩ := h.block_ge (Or.inr ⟨hl, hPL⟩) hs
        have hfi := h.blocks id
        rw [hm] at hfi
        cases hfid : s.idBlocks.find id with
        | none => rw [hfid] at hfi; simp at hfi
        | some pb =>
          obtain ⟨b, eb⟩ := pb
          rw [hfid] at hfi
          simp only [Option.map_some, Option.some.injEq] at hfi
          have hb : canonBlk b := h.canon id b eb hfid
          have hgetI : s.idBlocks.get t id = some b := by
            rw [get_of_fresh h.freshI ht, hfid]; rfl
          have hactive : ∀ k', (s.activeKeys.find k').map (·.1) =
              if k' ∈ g.accepted then some (decide (k' ∈ key :: g.logged)) else none := by
            intro k'
            rw [h.active]
            by_cases e' : k' = key
            · subst e'; simp [hl]
            · simp [e']
          have hlog : ∀ k' ∈ key :: g.logged, k' ∈ g.accepted := by
            intro k' hk'
            simp only [List.mem_cons] at hk'
            rcases hk' with rfl | hk'
            · exact hk
            · exact h.logAcc k' hk'
          by_cases hguard : b.check = c ∧ b.transmit ≠ tb
          · have : processLog cfg s t key c id tb =
                { s with idBlocks := updateIdBlock cfg s.idBlocks t id { check := c, transmit := tb } } := by
              simp [processLog, hget, hgetI, hguard]
            rw [this]
            obtain ⟨u1, u2, u3, u4⟩ := find_updateIdBlock cfg s.idBlocks limI t id _ h.freshI ht hw h.canon hv
            refine ⟨u1, h.freshA, u2, ?_, hactive, hacc, hlog⟩
            intro id'
            rw [hblk]
            by_cases e' : id = id'
            · subst e'
              simp only [if_true]
              rw [u4, ← h.blocks id, hov]
              cases s.idBlocks.find id <;> rfl
            · have e'' : id' ≠ id := fun x => e' x.symm
              simp only [e', if_false]
              rw [u3 id' e'', h.blocks]
          · have : processLog cfg s t key c id tb = s := by
              simp only [processLog, hget, hgetI]
              rw [if_neg hguard]
            rw [this]
            refine ⟨h.freshI, h.freshA, h.canon, ?_, hactive, hacc, hlog⟩
            intro id'
            rw [hblk, h.blocks]
            by_cases e' : id = id'
            · subst e'
              simp only [if_true, hm]
              -- the contribution is absorbed
              have hx : NB.le { check := num c, upto := rankOf (num tb) } m := by
                rw [← hfi]
                by_cases hc1 : b.check = c
                · have hc2 : b.transmit = tb := by
                    by_cases x : b.transmit = tb
                    · exact x
                    · exact absurd ⟨hc1, x⟩ hguard
                  simp only [ofBlk, hc1, hc2]; exact NB.le_refl _
                · have hne : num b.check ≠ num c := fun x => hc1 (canon_inj hb.1 hcc x)
                  rw [← hfi] at hle
                  rw [NB.le_iff] at hle ⊢
                  simp only [ofBlk] at hle ⊢
                  omega
              rw [NB.join_eq_left hx]
            · simp [e']
  · rw [if_neg hk]
    rw [if_neg hk] at hact
    cases hf : s.activeKeys.find key with
    | some q => rw [hf] at hact; simp at hact
    | none =>
      rw [hf] at hget
      have : processLog cfg s t key c id tb = s := by simp [processLog, hget]
      rw [this]; exact h

theorem addLog_eq_logged' (cfg : Cfg) (g : Ghost) (op : Op) {k id : Str} {x : NB}
    (h : logContrib cfg op = some (k, id, x)) : g.addLog cfg op = g.logged' k id x := by
  simp [Ghost.addLog, Ghost.logged', h]

theorem addLog_none (cfg : Cfg) (g : Ghost) (op : Op) (h : logContrib cfg op = none) : g.addLog cfg op = g := by
  simp [Ghost.addLog, h]

theorem sim_perform (cfg : Cfg) {limI limA t : Nat} {PA PL : List Str} {s : State} {g : Ghost}
    (h : Sim2 limI limA PA PL s g) (l : Log)
    (ht : t ≤ limI) (hw : limI ≤ t + cfg.window) (hta : t ≤ limA) (ha : limA ≤ t + activeTtlNs)
    (hc : opCanon (.perform l) = true) (hPL : l.key ∉ PL) :
    Sim2 limI limA PA PL (performLog cfg s t l) (g.step cfg (.perform l)) := by
  show Sim2 limI limA PA PL (performLog cfg s t l) (g.addLog cfg (.perform l))
  unfold performLog
  by_cases hconf : l.confs < cfg.minConfs
  · rw [if_pos hconf, addLog_none]
    · exact h
    · simp [logContrib, hconf]
  · rw [if_neg hconf]
    cases hs : splitUpkeepKey l.key with
    | none =>
      rw [addLog_none]
      · exact h
      · simp [logContrib, hconf, hs]
    | some p =>
      obtain ⟨c, id⟩ := p
      have hcan : isCanon c = true ∧ isCanon l.transmit = true := by simpa [opCanon, hs] using hc
      rw [addLog_eq_logged' (k := l.key) (id := id) (x := { check := num c, upto := rankOf (num l.transmit) })]
      · exact sim_processLog cfg h l.key c id l.transmit hs hcan.1 hcan.2 ht hw hta ha hPL
      · simp [logContrib, hconf, hs]

theorem sim_stale (cfg : Cfg) {limI limA t : Nat} {PA PL : List Str} {s : State} {g : Ghost}
    (h : Sim2 limI limA PA PL s g) (l : Log)
    (ht : t ≤ limI) (hw : limI ≤ t + cfg.window) (hta : t ≤ limA) (ha : limA ≤ t + activeTtlNs)
    (hc : opCanon (.stale l) = true) (hPL : l.key ∉ PL) :
    Sim2 limI limA PA PL (staleLog cfg s t l) (g.step cfg (.stale l)) := by
  show Sim2 limI limA PA PL (staleLog cfg s t l) (g.addLog cfg (.stale l))
  unfold staleLog
  by_cases hconf : l.confs < cfg.minConfs
  · rw [if_pos hconf, addLog_none]
    · exact h
    · simp [logContrib, hconf]
  · rw [if_neg hconf]
    cases hs : splitUpkeepKey l.key with
    | none =>
      rw [addLog_none]
      · exact h
      · simp [logContrib, hconf, hs]
    | some p =>
      obtain ⟨c, id⟩ := p
      have hcan : isCanon c = true := by simpa [opCanon, hs] using hc
      simp only [increment_canon hcan]
      rw [addLog_eq_logged' (k := l.key) (id := id) (x := { check := num c, upto := rankOf (num c + 1) })]
      · have := sim_processLog cfg h l.key c id (renderNat (num c + 1)) hs hcan (isCanon_renderNat _) ht hw hta ha hPL
        rw [num_renderNat] at this
        exact this
      · simp [logContrib, hconf, hs, canon_parse hcan]

/-- `op` does not touch a key of an earlier window: no re-accept of a key accepted then, no log of a key logged then -/
def opFree (PA PL : List Str) : Op → Prop
  | .accept k => k ∉ PA
  | .perform l => l.key ∉ PL
  | .stale l => l.key ∉ PL

theorem sim_step (cfg : Cfg) {limI limA t : Nat} {PA PL : List Str} {s : State} {g : Ghost}
    (h : Sim2 limI limA PA PL s g) (op : Op)
    (ht : t ≤ limI) (hw : limI ≤ t + cfg.window) (hta : t ≤ limA) (ha : limA ≤ t + activeTtlNs)
    (hc : opCanon op = true) (hf : opFree PA PL op) :
    Sim2 limI limA PA PL (step cfg s t op) (g.step cfg op) := by
  cases op with
  | accept k => exact sim_accept cfg h k ht hw hta ha hc hf
  | perform l => exact sim_perform cfg h l ht hw hta ha hc hf
  | stale l => exact sim_stale cfg h l ht hw hta ha hc hf

theorem sim_run2 (cfg : Cfg) (limI limA : Nat) (PA PL : List Str) (h : List (Nat × Op)) (s : State) (g : Ghost)
    (hs : Sim2 limI limA PA PL s g)
    (hh : ∀ p ∈ h, opCanon p.2 = true ∧ p.1 ≤ limI ∧ limI ≤ p.1 + cfg.window ∧ p.1 ≤ limA ∧ limA ≤ p.1 + activeTtlNs ∧
      opFree PA PL p.2) :
    Sim2 limI limA PA PL (run cfg s h) (ghostFrom cfg g (h.map (·.2))) := by
  induction h generalizing s g with
  | nil => exact hs
  | cons p h ih =>
    obtain ⟨t, op⟩ := p
    obtain ⟨h1, h2, h3, h4, h5, h6⟩ := hh (t, op) (by simp)
    simp only [run, List.map_cons, ghostFrom]
    exact ih _ _ (sim_step cfg hs op h2 h3 h4 h5 h1 h6) (fun p hp => hh p (List.mem_cons_of_mem _ hp))

theorem opFree_nil (op : Op) : opFree [] [] op := by cases op <;> simp [opFree]

theorem sim_run (cfg : Cfg) (lim : Nat) (h : List (Nat × Op)) (s : State) (g : Ghost) (hs : Sim lim s g)
    (hh : ∀ p ∈ h, opCanon p.2 = true ∧ p.1 ≤ lim ∧ lim ≤ p.1 + cfg.window ∧ lim ≤ p.1 + activeTtlNs) :
    Sim lim (run cfg s h) (ghostFrom cfg g (h.map (·.2))) := by
  apply sim_run2 cfg lim lim [] [] h s g hs
  intro p hp
  obtain ⟨a, b, c, d⟩ := hh p hp
  exact ⟨a, b, c, b, d, opFree_nil _⟩

/-- the window hypothesis in the form `sim_run` wants -/
theorem inWindow_spec {cfg : Cfg} {t0 now : Nat} {h : List (Nat × Op)} (hw : inWindow cfg t0 h now = true) :
    now ≤ t0 + cfg.horizon ∧
    ∀ p ∈ h, p.1 ≤ t0 + cfg.horizon ∧ t0 + cfg.horizon ≤ p.1 + cfg.window ∧ t0 + cfg.horizon ≤ p.1 + activeTtlNs := by
  simp only [inWindow, Bool.and_eq_true, List.all_eq_true, decide_eq_true_eq] at hw
  refine ⟨hw.2, fun p hp => ?_⟩
  obtain ⟨h1, h2⟩ := hw.1 p hp
  have : cfg.horizon ≤ cfg.window ∧ cfg.horizon ≤ activeTtlNs := by
    unfold Cfg.horizon; omega
  omega

/-! ### the ghost of an admissible history does not depend on the order -/

/-- order-insensitive summaries (relative to `all`, the keys accepted anywhere) -/
def accKey : Op → Option Str
  | .accept k => match splitUpkeepKey k with
    | none => none
    | some _ => some k
  | _ => none

def logKeyOf (cfg : Cfg) (all : List Str) (op : Op) : Option Str :=
  match logContrib cfg op with
  | none => none
  | some (k, _, _) => if k ∈ all then some k else none

def contribOf (cfg : Cfg) (all : List Str) : Op → Option (Str × NB)
  | .accept k => match splitUpkeepKey k with
    | none => none
    | some (c, id) => some (id, { check := num c, upto := 0 })
  | op => match logContrib cfg op with
    | none => none
    | some (k, id, x) => if k ∈ all then some (id, x) else none

theorem logContrib_key {cfg : Cfg} {op : Op} {k id : Str} {x : NB} (h : logContrib cfg op = some (k, id, x)) :
    (∃ l, (op = .perform l ∨ op = .stale l) ∧ l.key = k) ∧ (splitUpkeepKey k).isSome = true := by
  cases op with
  | accept k' => simp [logContrib] at h
  | perform l =>
    simp only [logContrib] at h
    split at h
    · simp at h
    · split at h
      · simp at h
      · next c id' hs =>
        simp only [Option.some.injEq, Prod.mk.injEq] at h
        refine ⟨⟨l, Or.inl rfl, h.1⟩, ?_⟩
        rw [← h.1, hs]; rfl
  | stale l =>
    simp only [logContrib] at h
    split at h
    · simp at h
    · split at h
      · simp at h
      · next c id' hs =>
        split at h
        · simp at h
        · simp only [Option.some.injEq, Prod.mk.injEq] at h
          refine ⟨⟨l, Or.inr rfl, h.1⟩, ?_⟩
          rw [← h.1, hs]; rfl

theorem filterMap_cons_toList {α β} (f : α → Option β) (a : α) (l : List α) :
    (a :: l).filterMap f = (f a).toList ++ l.filterMap f := by
  rw [List.filterMap_cons]; cases f a <;> simp

/-- one step of the ghost, summarised relative to `all` -/
theorem ghost_log_summary (cfg : Cfg) (all : List Str) (g : Ghost) (acc : List Str) (op : Op) (l : Log)
    (hop : op = .perform l ∨ op = .stale l)
    (hacc : ∀ k, k ∈ g.accepted ↔ (k ∈ acc ∧ (splitUpkeepKey k).isSome = true))
    (hsub : ∀ k ∈ acc, k ∈ all) (haf : l.key ∈ acc ∨ ¬ l.key ∈ all) :
    (g.addLog cfg op).accepted = g.accepted ∧
    (g.addLog cfg op).logged = (logKeyOf cfg all op).toList ++ g.logged ∧
    (g.addLog cfg op).contribs = (contribOf cfg all op).toList ++ g.contribs := by
  have hco : contribOf cfg all op = match logContrib cfg op with
      | none => none
      | some (k, id, x) => if k ∈ all then some (id, x) else none := by
    rcases hop with rfl | rfl <;> rfl
  cases hl : logContrib cfg op with
  | none =>
    rw [addLog_none _ _ _ hl, hco]
    simp [logKeyOf, hl]
  | some q =>
    obtain ⟨k, id, x⟩ := q
    obtain ⟨⟨l', hl', hkey⟩, hsp⟩ := logContrib_key hl
    have hkl : l.key = k := by
      rcases hop with rfl | rfl <;> rcases hl' with e | e <;> cases e <;> exact hkey
    have hiff : k ∈ g.accepted ↔ k ∈ all := by
      rw [hacc]
      constructor
      · intro ⟨a, _⟩; exact hsub k a
      · intro a
        rcases haf with b | b
        · exact ⟨hkl ▸ b, hsp⟩
        · exact absurd (hkl ▸ a) b
    rw [addLog_eq_logged' _ _ _ hl, hco]
    unfold Ghost.logged'
    by_cases hk : k ∈ g.accepted
    · have hk' := hiff.mp hk
      simp [logKeyOf, hl, hk, hk']
    · have hk' : k ∉ all := fun a => hk (hiff.mpr a)
      simp [logKeyOf, hl, hk, hk']

theorem ghostFrom_summary (cfg : Cfg) (all : List Str) (h : List Op) (g : Ghost) (acc : List Str)
    (hacc : ∀ k, k ∈ g.accepted ↔ (k ∈ acc ∧ (splitUpkeepKey k).isSome = true))
    (hsub : ∀ k ∈ acc, k ∈ all) (hsuf : ∀ k ∈ acceptedKeys h, k ∈ all)
    (haf : acceptFirstFrom all acc h = true) :
    (ghostFrom cfg g h).accepted = (h.filterMap accKey).reverse ++ g.accepted ∧
    (ghostFrom cfg g h).logged = (h.filterMap (logKeyOf cfg all)).reverse ++ g.logged ∧
    (ghostFrom cfg g h).contribs = (h.filterMap (contribOf cfg all)).reverse ++ g.contribs := by
  induction h generalizing g acc with
  | nil => simp [ghostFrom]
  | cons op h ih =>
    simp only [ghostFrom, filterMap_cons_toList, List.reverse_append, List.append_assoc]
    cases op with
    | accept k =>
      simp only [acceptFirstFrom] at haf
      have hk : k ∈ all := hsuf k (by simp [acceptedKeys])
      have hsuf' : ∀ k' ∈ acceptedKeys h, k' ∈ all := fun k' hk' => hsuf k' (by simp [acceptedKeys, hk'])
      have hsub' : ∀ k' ∈ k :: acc, k' ∈ all := by
        intro k' hk'; simp only [List.mem_cons] at hk'
        rcases hk' with rfl | hk'
        · exact hk
        · exact hsub k' hk'
      have e2 : logKeyOf cfg all (.accept k) = none := by simp [logKeyOf, logContrib]
      cases hs : splitUpkeepKey k with
      | none =>
        rw [ghost_accept_none hs]
        have hacc' : ∀ k', k' ∈ g.accepted ↔ (k' ∈ k :: acc ∧ (splitUpkeepKey k').isSome = true) := by
          intro k'
          rw [hacc]
          constructor
          · intro ⟨a, b⟩; exact ⟨List.mem_cons_of_mem _ a, b⟩
          · intro ⟨a, b⟩
            simp only [List.mem_cons] at a
            rcases a with rfl | a
            · simp [hs] at b
            · exact ⟨a, b⟩
        have e1 : accKey (.accept k) = none := by simp [accKey, hs]
        have e3 : contribOf cfg all (.accept k) = none := by simp [contribOf, hs]
        obtain ⟨i1, i2, i3⟩ := ih g (k :: acc) hacc' hsub' hsuf' haf
        rw [e1, e2, e3, i1, i2, i3]; simp
      | some p =>
        obtain ⟨c, id⟩ := p
        rw [ghost_accept_some hs]
        have hacc' : ∀ k', k' ∈ k :: g.accepted ↔ (k' ∈ k :: acc ∧ (splitUpkeepKey k').isSome = true) := by
          intro k'
          simp only [List.mem_cons, hacc]
          constructor
          · rintro (rfl | ⟨a, b⟩)
            · exact ⟨Or.inl rfl, by simp [hs]⟩
            · exact ⟨Or.inr a, b⟩
          · rintro ⟨rfl | a, b⟩
            · exact Or.inl rfl
            · exact Or.inr ⟨a, b⟩
        have e1 : accKey (.accept k) = some k := by simp [accKey, hs]
        have e3 : contribOf cfg all (.accept k) = some (id, { check := num c, upto := 0 }) := by simp [contribOf, hs]
        obtain ⟨i1, i2, i3⟩ := ih { g with accepted := k :: g.accepted, contribs := (id, { check := num c, upto := 0 }) :: g.contribs }
          (k :: acc) hacc' hsub' hsuf' haf
        rw [e1, e2, e3, i1, i2, i3]; simp
    | perform l =>
      simp only [acceptFirstFrom, Bool.and_eq_true, Bool.or_eq_true, decide_eq_true_eq, Bool.not_eq_true',
        decide_eq_false_iff_not] at haf
      have hsuf' : ∀ k' ∈ acceptedKeys h, k' ∈ all := fun k' hk' => hsuf k' (by simpa [acceptedKeys] using hk')
      have hstep : g.step cfg (.perform l) = g.addLog cfg (.perform l) := rfl
      obtain ⟨s1, s2, s3⟩ := ghost_log_summary cfg all g acc (.perform l) l (Or.inl rfl) hacc hsub haf.1
      have e1 : accKey (.perform l) = none := rfl
      have hacc' : ∀ k, k ∈ (g.addLog cfg (.perform l)).accepted ↔ (k ∈ acc ∧ (splitUpkeepKey k).isSome = true) := by
        intro k; rw [s1]; exact hacc k
      obtain ⟨i1, i2, i3⟩ := ih (g.addLog cfg (.perform l)) acc hacc' hsub hsuf' haf.2
      rw [hstep, i1, i2, i3, s1, s2, s3, e1]
      cases logKeyOf cfg all (.perform l) <;> cases contribOf cfg all (.perform l) <;> simp
    | stale l =>
      simp only [acceptFirstFrom, Bool.and_eq_true, Bool.or_eq_true, decide_eq_true_eq, Bool.not_eq_true',
        decide_eq_false_iff_not] at haf
      have hsuf' : ∀ k' ∈ acceptedKeys h, k' ∈ all := fun k' hk' => hsuf k' (by simpa [acceptedKeys] using hk')
      have hstep : g.step cfg (.stale l) = g.addLog cfg (.stale l) := rfl
      obtain ⟨s1, s2, s3⟩ := ghost_log_summary cfg all g acc (.stale l) l (Or.inr rfl) hacc hsub haf.1
      have e1 : accKey (.stale l) = none := rfl
      have hacc' : ∀ k, k ∈ (g.addLog cfg (.stale l)).accepted ↔ (k ∈ acc ∧ (splitUpkeepKey k).isSome = true) := by
        intro k; rw [s1]; exact hacc k
      obtain ⟨i1, i2, i3⟩ := ih (g.addLog cfg (.stale l)) acc hacc' hsub hsuf' haf.2
      rw [hstep, i1, i2, i3, s1, s2, s3, e1]
      cases logKeyOf cfg all (.stale l) <;> cases contribOf cfg all (.stale l) <;> simp

theorem acceptedKeys_eq (h : List Op) :
    acceptedKeys h = h.filterMap (fun op => match op with | .accept k => some k | _ => none) := by
  induction h with
  | nil => rfl
  | cons op h ih => cases op <;> simp [acceptedKeys, ih]

theorem ghost_summary (cfg : Cfg) (h : List Op) (haf : acceptFirst h = true) :
    (ghost cfg h).accepted = (h.filterMap accKey).reverse ∧
    (ghost cfg h).logged = (h.filterMap (logKeyOf cfg (acceptedKeys h))).reverse ∧
    (ghost cfg h).contribs = (h.filterMap (contribOf cfg (acceptedKeys h))).reverse := by
  have := ghostFrom_summary cfg (acceptedKeys h) h Ghost.init [] (by simp [Ghost.init]) (by simp)
    (fun k hk => hk) haf
  simpa [ghost, Ghost.init] using this

theorem logKeyOf_congr (cfg : Cfg) {all all' : List Str} (hiff : ∀ k, k ∈ all ↔ k ∈ all') :
    logKeyOf cfg all = logKeyOf cfg all' := by
  funext op
  unfold logKeyOf
  cases logContrib cfg op with
  | none => rfl
  | some q => obtain ⟨k, id, x⟩ := q; simp only [hiff k]

theorem contribOf_congr (cfg : Cfg) {all all' : List Str} (hiff : ∀ k, k ∈ all ↔ k ∈ all') :
    contribOf cfg all = contribOf cfg all' := by
  funext op
  cases op with
  | accept k => rfl
  | perform l =>
    show (match logContrib cfg (.perform l) with | none => none | some (k, id, x) => if k ∈ all then some (id, x) else none) =
      (match logContrib cfg (.perform l) with | none => none | some (k, id, x) => if k ∈ all' then some (id, x) else none)
    cases logContrib cfg (.perform l) with
    | none => rfl
    | some q => obtain ⟨k, id, x⟩ := q; simp only [hiff k]
  | stale l =>
    show (match logContrib cfg (.stale l) with | none => none | some (k, id, x) => if k ∈ all then some (id, x) else none) =
      (match logContrib cfg (.stale l) with | none => none | some (k, id, x) => if k ∈ all' then some (id, x) else none)
    cases logContrib cfg (.stale l) with
    | none => rfl
    | some q => obtain ⟨k, id, x⟩ := q; simp only [hiff k]

/-- the ghosts of two admissible orderings of one history agree up to order -/
theorem ghost_perm (cfg : Cfg) {h h' : List Op} (hp : h.Perm h') (ha : acceptFirst h = true) (ha' : acceptFirst h' = true) :
    (ghost cfg h).accepted.Perm (ghost cfg h').accepted ∧
    (ghost cfg h).logged.Perm (ghost cfg h').logged ∧
    (ghost cfg h).contribs.Perm (ghost cfg h').contribs := by
  obtain ⟨a1, a2, a3⟩ := ghost_summary cfg h ha
  obtain ⟨b1, b2, b3⟩ := ghost_summary cfg h' ha'
  have hall : ∀ k, k ∈ acceptedKeys h ↔ k ∈ acceptedKeys h' := by
    intro k
    rw [acceptedKeys_eq, acceptedKeys_eq]
    exact (hp.filterMap _).mem_iff
  rw [a1, a2, a3, b1, b2, b3, logKeyOf_congr cfg hall, contribOf_congr cfg hall]
  refine ⟨?_, ?_, ?_⟩
  · exact (List.reverse_perm _).trans ((hp.filterMap _).trans (List.reverse_perm _).symm)
  · exact (List.reverse_perm _).trans ((hp.filterMap _).trans (List.reverse_perm _).symm)
  · exact (List.reverse_perm _).trans ((hp.filterMap _).trans (List.reverse_perm _).symm)

theorem block_perm {g g' : Ghost} (h : g.contribs.Perm g'.contribs) (id : Str) : g.block id = g'.block id := by
  unfold Ghost.block Ghost.forId
  exact joinAll_perm ((h.filter _).map _)

theorem expPending_perm {g g' : Ghost} (h : g.contribs.Perm g'.contribs) (key : Str) :
    expPending g key = expPending g' key := by
  unfold expPending
  cases splitUpkeepKey key with
  | none => rfl
  | some p => obtain ⟨b, id⟩ := p; simp only [block_perm h id]

theorem expConfirmed_perm {g g' : Ghost} (h1 : g.accepted.Perm g'.accepted) (h2 : g.logged.Perm g'.logged) (key : Str) :
    expConfirmed g key = expConfirmed g' key := by
  unfold expConfirmed
  rw [decide_eq_decide.mpr h1.mem_iff, decide_eq_decide.mpr h2.mem_iff]

/-! ### the ghost in terms of the history (any order) -/

theorem ghostFrom_append (cfg : Cfg) (g : Ghost) (h1 h2 : List Op) :
    ghostFrom cfg g (h1 ++ h2) = ghostFrom cfg (ghostFrom cfg g h1) h2 := by
  induction h1 generalizing g with
  | nil => rfl
  | cons op h1 ih => simp only [List.cons_append, ghostFrom, ih]

theorem step_accepted_iff (cfg : Cfg) (g : Ghost) (op : Op) (k : Str) :
    k ∈ (g.step cfg op).accepted ↔ k ∈ g.accepted ∨ (op = .accept k ∧ (splitUpkeepKey k).isSome = true) := by
  cases op with
  | accept k' =>
    cases hs : splitUpkeepKey k' with
    | none =>
      rw [ghost_accept_none hs]
      constructor
      · intro h; exact Or.inl h
      · rintro (h | ⟨h1, h2⟩)
        · exact h
        · cases h1; simp [hs] at h2
    | some p =>
      obtain ⟨c, id⟩ := p
      rw [ghost_accept_some hs]
      simp only [List.mem_cons, Op.accept.injEq]
      constructor
      · rintro (rfl | h)
        · exact Or.inr ⟨rfl, by simp [hs]⟩
        · exact Or.inl h
      · rintro (h | ⟨h1, _⟩)
        · exact Or.inr h
        · exact Or.inl h1.symm
  | perform l =>
    show k ∈ (g.addLog cfg (.perform l)).accepted ↔ _
    have : (g.addLog cfg (.perform l)).accepted = g.accepted := by
      unfold Ghost.addLog; split
      · rfl
      · split <;> rfl
    rw [this]; simp
  | stale l =>
    show k ∈ (g.addLog cfg (.stale l)).accepted ↔ _
    have : (g.addLog cfg (.stale l)).accepted = g.accepted := by
      unfold Ghost.addLog; split
      · rfl
      · split <;> rfl
    rw [this]; simp

theorem ghostFrom_accepted_iff (cfg : Cfg) (g : Ghost) (h : List Op) (k : Str) :
    k ∈ (ghostFrom cfg g h).accepted ↔ k ∈ g.accepted ∨ (Op.accept k ∈ h ∧ (splitUpkeepKey k).isSome = true) := by
  induction h generalizing g with
  | nil => simp [ghostFrom]
  | cons op h ih =>
    simp only [ghostFrom]
    rw [ih, step_accepted_iff]
    simp only [List.mem_cons]
    constructor
    · rintro ((a | ⟨a, b⟩) | ⟨a, b⟩)
      · exact Or.inl a
      · exact Or.inr ⟨Or.inl a.symm, b⟩
      · exact Or.inr ⟨Or.inr a, b⟩
    · rintro (a | ⟨a | a, b⟩)
      · exact Or.inl (Or.inl a)
      · exact Or.inl (Or.inr ⟨a.symm, b⟩)
      · exact Or.inr ⟨a, b⟩

/-- `op` is a log for `k` that passes its own checks (confirmations, key and block parse) -/
def logFor (cfg : Cfg) (op : Op) (k : Str) : Prop := ∃ id x, logContrib cfg op = some (k, id, x)

theorem step_logged_iff (cfg : Cfg) (g : Ghost) (op : Op) (k : Str) :
    k ∈ (g.step cfg op).logged ↔ k ∈ g.logged ∨ (logFor cfg op k ∧ k ∈ g.accepted) := by
  have hadd : ∀ op, k ∈ (g.addLog cfg op).logged ↔ k ∈ g.logged ∨ (logFor cfg op k ∧ k ∈ g.accepted) := by
    intro op
    unfold logFor
    cases hl : logContrib cfg op with
    | none => rw [addLog_none _ _ _ hl]; simp
    | some q =>
      obtain ⟨k', id, x⟩ := q
      rw [addLog_eq_logged' _ _ _ hl]
      unfold Ghost.logged'
      by_cases hk : k' ∈ g.accepted
      · rw [if_pos hk]
        simp only [List.mem_cons, Option.some.injEq, Prod.mk.injEq]
        constructor
        · rintro (rfl | h)
          · exact Or.inr ⟨⟨id, x, rfl, rfl, rfl⟩, hk⟩
          · exact Or.inl h
        · rintro (h | ⟨⟨_, _, h1, _⟩, _⟩)
          · exact Or.inr h
          · exact Or.inl h1.symm
      · rw [if_neg hk]
        simp only [Option.some.injEq, Prod.mk.injEq]
        constructor
        · intro h; exact Or.inl h
        · rintro (h | ⟨⟨_, _, h1, _⟩, h2⟩)
          · exact h
          · exact absurd (h1 ▸ h2) hk
  cases op with
  | accept k' =>
    have h1 : (g.step cfg (.accept k')).logged = g.logged := by
      cases hs : splitUpkeepKey k' with
      | none => rw [ghost_accept_none hs]
      | some p => obtain ⟨c, id⟩ := p; rw [ghost_accept_some hs]
    have h2 : ¬ logFor cfg (.accept k') k := by
      rintro ⟨id, x, h⟩; simp [logContrib] at h
    rw [h1]; simp [h2]
  | perform l => exact hadd _
  | stale l => exact hadd _

theorem logFor_split {cfg : Cfg} {op : Op} {k : Str} (h : logFor cfg op k) : (splitUpkeepKey k).isSome = true := by
  obtain ⟨id, x, h⟩ := h
  exact (logContrib_key h).2

theorem ghostFrom_logged_iff (cfg : Cfg) (g : Ghost) (h : List Op) (k : Str) :
    k ∈ (ghostFrom cfg g h).logged ↔
      k ∈ g.logged ∨ ∃ pre op post, h = pre ++ op :: post ∧ logFor cfg op k ∧ (k ∈ g.accepted ∨ Op.accept k ∈ pre) := by
  induction h generalizing g with
  | nil => simp [ghostFrom]
  | cons op0 h ih =>
    simp only [ghostFrom]
    rw [ih, step_logged_iff]
    constructor
    · rintro ((a | ⟨a, b⟩) | ⟨pre, op, post, e, c, d⟩)
      · exact Or.inl a
      · exact Or.inr ⟨[], op0, h, rfl, a, Or.inl b⟩
      · refine Or.inr ⟨op0 :: pre, op, post, by rw [e]; rfl, c, ?_⟩
        rcases d with d | d
        · rcases (step_accepted_iff cfg g op0 k).mp d with d | ⟨d, _⟩
          · exact Or.inl d
          · exact Or.inr (by rw [d]; exact List.mem_cons_self)
        · exact Or.inr (List.mem_cons_of_mem _ d)
    · rintro (a | ⟨pre, op, post, e, c, d⟩)
      · exact Or.inl (Or.inl a)
      · cases pre with
        | nil =>
          simp only [List.nil_append, List.cons.injEq] at e
          obtain ⟨rfl, rfl⟩ := e
          rcases d with d | d
          · exact Or.inl (Or.inr ⟨c, d⟩)
          · simp at d
        | cons p0 pre =>
          simp only [List.cons_append, List.cons.injEq] at e
          obtain ⟨rfl, rfl⟩ := e
          refine Or.inr ⟨pre, op, post, rfl, c, ?_⟩
          rcases d with d | d
          · exact Or.inl ((step_accepted_iff cfg g op0 k).mpr (Or.inl d))
          · simp only [List.mem_cons] at d
            rcases d with d | d
            · exact Or.inl ((step_accepted_iff cfg g op0 k).mpr (Or.inr ⟨d.symm, logFor_split c⟩))
            · exact Or.inr d

theorem step_contribs_mono (cfg : Cfg) (g : Ghost) (op : Op) {y : Str × NB} (h : y ∈ g.contribs) :
    y ∈ (g.step cfg op).contribs := by
  have hadd : ∀ op, y ∈ (g.addLog cfg op).contribs := by
    intro op
    unfold Ghost.addLog
    split
    · exact h
    · split
      · exact List.mem_cons_of_mem _ h
      · exact h
  cases op with
  | accept k =>
    cases hs : splitUpkeepKey k with
    | none => rw [ghost_accept_none hs]; exact h
    | some p => obtain ⟨c, id⟩ := p; rw [ghost_accept_some hs]; exact List.mem_cons_of_mem _ h
  | perform l => exact hadd _
  | stale l => exact hadd _

theorem ghostFrom_contribs_mono (cfg : Cfg) (g : Ghost) (h : List Op) {y : Str × NB} (hy : y ∈ g.contribs) :
    y ∈ (ghostFrom cfg g h).contribs := by
  induction h generalizing g with
  | nil => exact hy
  | cons op h ih => exact ih _ (step_contribs_mono cfg g op hy)

/-- an accept contributes `(check, indefinite)` for its id -/
theorem accept_contrib_mem (cfg : Cfg) (ops : List Op) {k c id : Str} (hk : Op.accept k ∈ ops)
    (hs : splitUpkeepKey k = some (c, id)) : (id, ({ check := num c, upto := 0 } : NB)) ∈ (ghost cfg ops).contribs := by
  obtain ⟨pre, post, rfl⟩ := List.append_of_mem hk
  unfold ghost
  rw [ghostFrom_append]
  simp only [ghostFrom]
  apply ghostFrom_contribs_mono
  rw [ghost_accept_some hs]
  exact List.mem_cons_self

/-- a log that passes its own checks and comes after the accept of its key contributes -/
theorem log_contrib_mem (cfg : Cfg) {pre post : List Op} {op : Op} {k id : Str} {x : NB}
    (hl : logContrib cfg op = some (k, id, x)) (hk : Op.accept k ∈ pre) :
    (id, x) ∈ (ghost cfg (pre ++ op :: post)).contribs := by
  unfold ghost
  rw [ghostFrom_append]
  simp only [ghostFrom]
  apply ghostFrom_contribs_mono
  have hacc : k ∈ (ghostFrom cfg Ghost.init pre).accepted :=
    (ghostFrom_accepted_iff cfg _ pre k).mpr (Or.inr ⟨hk, (logContrib_key hl).2⟩)
  have : (ghostFrom cfg Ghost.init pre).step cfg op = (ghostFrom cfg Ghost.init pre).addLog cfg op := by
    cases op with
    | accept k' => simp [logContrib] at hl
    | perform l => rfl
    | stale l => rfl
  rw [this, addLog_eq_logged' _ _ _ hl]
  unfold Ghost.logged'
  rw [if_pos hacc]
  exact List.mem_cons_self

/-! ### reading the answers off the simulation -/

theorem pendingN_ofBlk {bl : IdBlocker} (blk : Nat) :
    pendingN (ofBlk bl) blk = !decide (blk > num bl.transmit) := by
  unfold pendingN ofBlk rankOf
  by_cases h : num bl.transmit = two64
  · simp only [h, if_true]; rw [Bool.eq_iff_iff]; simp only [decide_eq_true_eq, Bool.not_eq_true', decide_eq_false_iff_not]; omega
  · simp only [h, if_false]
    have : ¬ (num bl.transmit + 1 = 0) := by omega
    simp only [this, if_false]; rw [Bool.eq_iff_iff]; simp only [decide_eq_true_eq, Bool.not_eq_true', decide_eq_false_iff_not]; omega

theorem isPending_of_sim {lim limA now : Nat} {PA PL : List Str} {s : State} {g : Ghost} (h : Sim2 lim limA PA PL s g) (hn : now ≤ lim) (key : Str)
    (hc : probeCanon key = true) : isPending s now key = expPending g key := by
  unfold isPending expPending
  cases hs : splitUpkeepKey key with
  | none => rfl
  | some p =>
    obtain ⟨b, id⟩ := p
    have hb : isCanon b = true := by simpa [probeCanon, hs] using hc
    simp only
    rw [get_of_fresh h.freshI hn, ← h.blocks id]
    cases hf : s.idBlocks.find id with
    | none => rfl
    | some q =>
      obtain ⟨bl, e⟩ := q
      have hbl := h.canon id bl e hf
      simp only [Option.map_some, after_canon hb hbl.2, pendingN_ofBlk]

theorem isConfirmed_of_sim {limI lim now : Nat} {PA PL : List Str} {s : State} {g : Ghost} (h : Sim2 limI lim PA PL s g) (hn : now ≤ lim) (key : Str) :
    isConfirmed s now key = expConfirmed g key := by
  unfold isConfirmed expConfirmed
  rw [get_of_fresh h.freshA hn, h.active key]
  by_cases hk : key ∈ g.accepted <;> simp [hk]

/-! ### expiry: the lockout ends -/

/-- every entry expires, and not later than `T` -/
def Bounded {α} (c : Cache α) (T : Nat) : Prop := ∀ k v e, c.find k = some (v, e) → 0 < e ∧ e ≤ T

theorem bounded_set {α} {c : Cache α} {T now ttl : Nat} (hb : Bounded c T) (hpos : 0 < ttl) (hl : now + ttl ≤ T)
    (k : Str) (v : α) : Bounded (c.set now ttl k v) T := by
  intro k' v' e' h
  rw [find_set] at h
  by_cases hk : k' = k
  · simp only [hk, if_true, gt_iff_lt, hpos, Option.some.injEq, Prod.mk.injEq] at h
    omega
  · simp only [hk, if_false] at h
    exact hb k' v' e' h

theorem bounded_updateIdBlock (cfg : Cfg) {c : Cache IdBlocker} {T now : Nat} (hb : Bounded c T)
    (hl : now + cfg.window ≤ T) (id : Str) (val : IdBlocker) : Bounded (updateIdBlock cfg c now id val) T := by
  unfold updateIdBlock
  split
  · split
    · exact bounded_set hb (window_pos cfg) hl _ _
    · exact hb
  · exact bounded_set hb (window_pos cfg) hl _ _

theorem bounded_step (cfg : Cfg) {s : State} {T t : Nat} (hb : Bounded s.idBlocks T) (hl : t + cfg.window ≤ T) (op : Op) :
    Bounded (step cfg s t op).idBlocks T := by
  have hproc : ∀ key c id tb, Bounded (processLog cfg s t key c id tb).idBlocks T := by
    intro key c id tb
    unfold processLog
    split
    · exact hb
    · exact bounded_updateIdBlock cfg hb hl _ _
    · split
      · split
        · exact bounded_updateIdBlock cfg hb hl _ _
        · exact hb
      · exact hb
  cases op with
  | accept k =>
    simp only [step, accept]
    split
    · exact hb
    · split
      · exact hb
      · exact bounded_updateIdBlock cfg hb hl _ _
  | perform l =>
    simp only [step, performLog]
    split
    · exact hb
    · split
      · exact hb
      · exact hproc _ _ _ _
  | stale l =>
    simp only [step, staleLog]
    split
    · exact hb
    · split
      · exact hb
      · split
        · exact hb
        · exact hproc _ _ _ _

theorem bounded_run (cfg : Cfg) (T : Nat) (h : List (Nat × Op)) (s : State) (hb : Bounded s.idBlocks T)
    (hh : ∀ p ∈ h, p.1 + cfg.window ≤ T) : Bounded (run cfg s h).idBlocks T := by
  induction h generalizing s with
  | nil => exact hb
  | cons p h ih =>
    obtain ⟨t, op⟩ := p
    simp only [run]
    exact ih _ (bounded_step cfg hb (hh (t, op) (by simp)) op) (fun p hp => hh p (List.mem_cons_of_mem _ hp))

theorem get_none_of_bounded {α} {c : Cache α} {T now : Nat} (hb : Bounded c T) (hn : T < now) (k : Str) :
    c.get now k = none := by
  unfold Cache.get
  cases h : c.find k with
  | none => rfl
  | some p =>
    obtain ⟨v, e⟩ := p
    have := hb k v e h
    have : e > 0 ∧ now > e := by omega
    simp [this]

/-! ### the cleaners are not observable -/

def KeysNodup {α} (c : Cache α) : Prop := (c.map (·.1)).Nodup

theorem find_none_of_not_mem {α} (c : Cache α) (k : Str) (h : k ∉ c.map (·.1)) : c.find k = none := by
  induction c with
  | nil => rfl
  | cons p c ih =>
    obtain ⟨k', ve⟩ := p
    simp only [List.map_cons, List.mem_cons, not_or] at h
    have : ¬ k' = k := fun e => h.1 e.symm
    simp only [Cache.find, this, if_false]
    exact ih h.2

theorem find_filter_of_nodup {α} (c : Cache α) (q : Str × α × Nat → Bool) (hn : KeysNodup c) (k : Str) :
    Cache.find (c.filter q) k = match c.find k with
      | none => none
      | some ve => if q (k, ve) then some ve else none := by
  induction c with
  | nil => rfl
  | cons p c ih =>
    obtain ⟨k', ve⟩ := p
    have hn' : KeysNodup c := (List.nodup_cons.mp hn).2
    have hk' : k' ∉ c.map (·.1) := (List.nodup_cons.mp hn).1
    by_cases hk : k' = k
    · subst hk
      by_cases hq : q (k', ve) = true
      · simp [hq, Cache.find]
      · have hnone : Cache.find (c.filter q) k' = none := by
          apply find_none_of_not_mem
          intro hm
          apply hk'
          simp only [List.mem_map, List.mem_filter] at hm ⊢
          obtain ⟨a, ⟨ha, _⟩, hb⟩ := hm
          exact ⟨a, ha, hb⟩
        simp [hq, Cache.find, hnone]
    · by_cases hq : q (k', ve) = true
      · simp only [List.filter_cons, hq, if_true, Cache.find, hk, if_false]; exact ih hn'
      · simp only [List.filter_cons, hq, Bool.false_eq_true, if_false, Cache.find, hk]; exact ih hn'

theorem keysNodup_set {α} {c : Cache α} (hn : KeysNodup c) (now ttl : Nat) (k : Str) (v : α) :
    KeysNodup (c.set now ttl k v) := by
  unfold KeysNodup Cache.set
  simp only [List.map_cons, List.nodup_cons]
  refine ⟨?_, ?_⟩
  · simp only [List.mem_map, List.mem_filter, decide_eq_true_eq]
    rintro ⟨a, ⟨_, ha⟩, hb⟩
    exact ha hb
  · exact (List.Sublist.map _ List.filter_sublist).nodup hn

/-! ### the predicate on the model's own output -/

theorem zipAll_map_self {α β} (f : α → β → Bool) (g : α → β) (l : List α) (h : ∀ a ∈ l, f a (g a) = true) :
    zipAll f l (l.map g) = true := by
  induction l with
  | nil => rfl
  | cons a l ih =>
    simp only [List.map_cons, zipAll, Bool.and_eq_true]
    exact ⟨h a (by simp), ih (fun a' ha' => h a' (List.mem_cons_of_mem _ ha'))⟩

theorem finalPoint_getLast (cfg : Cfg) (probes ckeys : List Str) (r : Run) {now : Nat} (h : finalPoint r = some now) :
    (modelRun cfg probes ckeys r).getLast? = some (observe cfg probes ckeys r.ops now) := by
  unfold finalPoint at h
  unfold modelRun
  rw [List.getLast?_map]
  cases hl : r.points.getLast? with
  | none => rw [hl] at h; simp at h
  | some p =>
    obtain ⟨n, t⟩ := p
    rw [hl] at h
    simp only at h
    split at h
    · next hn =>
      simp only [Option.some.injEq] at h
      subst h
      simp [hn]
    · simp at h

/-! ### a second window: everything written before a pause longer than the lockout is invisible afterwards -/

theorem run_app (cfg : Cfg) (s : State) (h1 h2 : List (Nat × Op)) :
    run cfg s (h1 ++ h2) = run cfg (run cfg s h1) h2 := by
  induction h1 generalizing s with
  | nil => rfl
  | cons p h1 ih => obtain ⟨t, op⟩ := p; simp only [List.cons_append, run, ih]

/-- same active keys, and every `Get` on the id blocks at or after `t0` answers alike -/
def GetEq (t0 : Nat) (s s' : State) : Prop :=
  s.activeKeys = s'.activeKeys ∧ ∀ k now, t0 ≤ now → s.idBlocks.get now k = s'.idBlocks.get now k

theorem get_set {α} (c : Cache α) (t ttl : Nat) (k : Str) (v : α) (now : Nat) (k' : Str) :
    (c.set t ttl k v).get now k' =
      if k' = k then (if (if ttl > 0 then t + ttl else 0) > 0 ∧ now > (if ttl > 0 then t + ttl else 0) then none else some v)
      else c.get now k' := by
  unfold Cache.get
  rw [find_set]
  by_cases h : k' = k <;> simp [h]

theorem getEq_updateIdBlock (cfg : Cfg) {c c' : Cache IdBlocker} {t0 t : Nat}
    (h : ∀ k now, t0 ≤ now → c.get now k = c'.get now k) (ht : t0 ≤ t) (id : Str) (val : IdBlocker) :
    ∀ k now, t0 ≤ now → (updateIdBlock cfg c t id val).get now k = (updateIdBlock cfg c' t id val).get now k := by
  intro k now hn
  have hid := h id t ht
  cases hg : c'.get t id with
  | none =>
    rw [hg] at hid
    simp only [updateIdBlock, hid, hg, get_set, h k now hn]
  | some b =>
    rw [hg] at hid
    cases hsu : shouldUpdate b val with
    | none => simp only [updateIdBlock, hid, hg, hsu, h k now hn]
    | some su =>
      cases su with
      | false => simp only [updateIdBlock, hid, hg, hsu, h k now hn]
      | true => simp only [updateIdBlock, hid, hg, hsu, get_set, h k now hn]

theorem getEq_processLog (cfg : Cfg) {s s' : State} {t0 t : Nat} (h : GetEq t0 s s') (ht : t0 ≤ t) (key c id tb : Str) :
    GetEq t0 (processLog cfg s t key c id tb) (processLog cfg s' t key c id tb) := by
  obtain ⟨hA, hI⟩ := h
  have hid := hI id t ht
  cases hk : s'.activeKeys.get t key with
  | none =>
    have hk' : s.activeKeys.get t key = none := by rw [hA]; exact hk
    simp only [processLog, hk, hk']; exact ⟨hA, hI⟩
  | some cf =>
    have hk' : s.activeKeys.get t key = some cf := by rw [hA]; exact hk
    cases cf with
    | false =>
      simp only [processLog, hk, hk']
      exact ⟨by rw [hA], getEq_updateIdBlock cfg hI ht id _⟩
    | true =>
      cases hg : s'.idBlocks.get t id with
      | none =>
        rw [hg] at hid
        simp only [processLog, hk, hk', hg, hid]; exact ⟨hA, hI⟩
      | some b =>
        rw [hg] at hid
        by_cases hgd : b.check = c ∧ b.transmit ≠ tb
        · simp only [processLog, hk, hk', hg, hid, hgd, ne_eq, not_false_eq_true, and_self, if_true]
          exact ⟨hA, getEq_updateIdBlock cfg hI ht id _⟩
        · simp only [processLog, hk, hk', hg, hid, hgd, if_false]
          exact ⟨hA, hI⟩

theorem getEq_step (cfg : Cfg) {s s' : State} {t0 t : Nat} (h : GetEq t0 s s') (ht : t0 ≤ t) (op : Op) :
    GetEq t0 (step cfg s t op) (step cfg s' t op) := by
  have hA := h.1
  have hI := h.2
  cases op with
  | accept k =>
    cases hs : splitUpkeepKey k with
    | none => simp only [step, accept, hs]; exact h
    | some p =>
      obtain ⟨bk, id⟩ := p
      cases hk : s'.activeKeys.get t k with
      | some v =>
        have hk' : s.activeKeys.get t k = some v := by rw [hA]; exact hk
        simp only [step, accept, hs, hk, hk']; exact h
      | none =>
        have hk' : s.activeKeys.get t k = none := by rw [hA]; exact hk
        simp only [step, accept, hs, hk, hk']
        exact ⟨by rw [hA], getEq_updateIdBlock cfg hI ht id _⟩
  | perform l =>
    by_cases hc : l.confs < cfg.minConfs
    · simp only [step, performLog, hc, if_true]; exact h
    · cases hs : splitUpkeepKey l.key with
      | none => simp only [step, performLog, hc, if_false, hs]; exact h
      | some p =>
        obtain ⟨lc, id⟩ := p
        simp only [step, performLog, hc, if_false, hs]
        exact getEq_processLog cfg h ht _ _ _ _
  | stale l =>
    by_cases hc : l.confs < cfg.minConfs
    · simp only [step, staleLog, hc, if_true]; exact h
    · cases hs : splitUpkeepKey l.key with
      | none => simp only [step, staleLog, hc, if_false, hs]; exact h
      | some p =>
        obtain ⟨lc, id⟩ := p
        cases hi : increment lc with
        | none => simp only [step, staleLog, hc, if_false, hs, hi]; exact h
        | some nk =>
          simp only [step, staleLog, hc, if_false, hs, hi]
          exact getEq_processLog cfg h ht _ _ _ _

theorem getEq_run (cfg : Cfg) (t0 : Nat) (h : List (Nat × Op)) (s s' : State) (hs : GetEq t0 s s')
    (hh : ∀ p ∈ h, t0 ≤ p.1) : GetEq t0 (run cfg s h) (run cfg s' h) := by
  induction h generalizing s s' with
  | nil => exact hs
  | cons p h ih =>
    obtain ⟨t, op⟩ := p
    simp only [run]
    exact ih _ _ (getEq_step cfg hs (hh (t, op) (by simp)) op) (fun p hp => hh p (List.mem_cons_of_mem _ hp))

theorem isPending_getEq {t0 now : Nat} {s s' : State} (h : GetEq t0 s s') (hn : t0 ≤ now) (key : Str) :
    isPending s now key = isPending s' now key := by
  unfold isPending
  cases splitUpkeepKey key with
  | none => rfl
  | some p => obtain ⟨b, id⟩ := p; simp only [h.2 id now hn]

theorem isConfirmed_getEq {t0 now : Nat} {s s' : State} (h : GetEq t0 s s') (key : Str) :
    isConfirmed s now key = isConfirmed s' now key := by
  unfold isConfirmed; rw [h.1]

/-! ### several windows: a lock is live for one window after its last change -/

theorem sinceOf_setSince (l : List (Str × Nat)) (id : Str) (t : Nat) (k : Str) :
    sinceOf (setSince l id t) k = if k = id then some t else sinceOf l k := by
  unfold setSince
  by_cases h : k = id
  · subst h; simp [sinceOf]
  · have h' : ¬ id = k := fun e => h e.symm
    simp only [sinceOf, h', h, if_false]
    induction l with
    | nil => simp [sinceOf]
    | cons p l ih =>
      obtain ⟨pk, pr⟩ := p
      by_cases e : pk = id
      · subst e
        simp only [List.filter_cons, ne_eq, not_true_eq_false, decide_false, Bool.false_eq_true, if_false, ih, sinceOf, h']
      · simp only [List.filter_cons, ne_eq, e, not_false_eq_true, decide_true, if_true, sinceOf, ih]

theorem sinceOf_mem {l : List (Str × Nat)} {k : Str} {r : Nat} (h : sinceOf l k = some r) : (k, r) ∈ l := by
  induction l with
  | nil => simp [sinceOf] at h
  | cons p l ih =>
    obtain ⟨pk, pr⟩ := p
    simp only [sinceOf] at h
    by_cases e : pk = k
    · simp only [e, if_true, Option.some.injEq] at h
      subst e; subst h; exact List.mem_cons_self
    · simp only [e, if_false] at h
      exact List.mem_cons_of_mem _ (ih h)

/-- an operation leaves the prescribed blocking state of every other upkeep id alone -/
theorem block_step_other (cfg : Cfg) (g : Ghost) (op : Op) (id : Str) (h : opId op ≠ some id) :
    (g.step cfg op).block id = g.block id := by
  have hlog : ∀ (o : Op) (l : Log), (o = .perform l ∨ o = .stale l) → opId o ≠ some id →
      (g.addLog cfg o).block id = g.block id := by
    intro o l ho hne
    unfold Ghost.addLog
    cases hc : logContrib cfg o with
    | none => rfl
    | some q =>
      obtain ⟨k, id', x⟩ := q
      simp only
      split
      · have hid : opId o = some id' := by
          rcases ho with rfl | rfl
          · simp only [logContrib] at hc
            split at hc
            · simp at hc
            · cases hs : splitUpkeepKey l.key with
              | none => rw [hs] at hc; simp at hc
              | some p =>
                obtain ⟨c, i⟩ := p
                rw [hs] at hc
                simp only [Option.some.injEq, Prod.mk.injEq] at hc
                simp [opId, hs, hc.2.1]
          · simp only [logContrib] at hc
            split at hc
            · simp at hc
            · cases hs : splitUpkeepKey l.key with
              | none => rw [hs] at hc; simp at hc
              | some p =>
                obtain ⟨c, i⟩ := p
                rw [hs] at hc
                simp only at hc
                cases hp : parseBig c with
                | none => rw [hp] at hc; simp at hc
                | some v =>
                  rw [hp] at hc
                  simp only [Option.some.injEq, Prod.mk.injEq] at hc
                  simp [opId, hs, hc.2.1]
        have hne' : id' ≠ id := fun e => hne (by rw [hid, e])
        rw [block_of_contribs (g := g) rfl id]
        simp [hne']
      · rfl
  cases op with
  | accept k =>
    cases hs : splitUpkeepKey k with
    | none => rw [ghost_accept_none hs]
    | some p =>
      obtain ⟨c, id'⟩ := p
      rw [ghost_accept_some hs]
      have hne' : id' ≠ id := fun e => h (by simp [opId, hs, e])
      rw [block_of_contribs (g := g) rfl id]
      simp [hne']
  | perform l => exact hlog _ l (Or.inl rfl) h
  | stale l => exact hlog _ l (Or.inr rfl) h

/-- `updateIdBlock` leaves an entry alone or writes it with a whole window to live -/
theorem find_updateIdBlock_cases (cfg : Cfg) (c : Cache IdBlocker) (t : Nat) (id' : Str) (val : IdBlocker) (id : Str) :
    (updateIdBlock cfg c t id' val).find id = c.find id ∨
      ∃ v, (updateIdBlock cfg c t id' val).find id = some (v, t + cfg.window) := by
  have hset : (c.set t cfg.window id' val).find id = c.find id ∨
      ∃ v, (c.set t cfg.window id' val).find id = some (v, t + cfg.window) := by
    rw [find_set]
    by_cases e : id = id'
    · right; exact ⟨val, by simp [e, window_pos cfg]⟩
    · left; simp [e]
  unfold updateIdBlock
  split
  · split
    · exact hset
    · exact Or.inl rfl
  · exact hset

/-- … and so does every operation -/
theorem find_step_cases (cfg : Cfg) (s : State) (t : Nat) (op : Op) (id : Str) :
    (step cfg s t op).idBlocks.find id = s.idBlocks.find id ∨
      ∃ v, (step cfg s t op).idBlocks.find id = some (v, t + cfg.window) := by
  have hproc : ∀ key c id' tb, (processLog cfg s t key c id' tb).idBlocks.find id = s.idBlocks.find id ∨
      ∃ v, (processLog cfg s t key c id' tb).idBlocks.find id = some (v, t + cfg.window) := by
    intro key c id' tb
    unfold processLog
    split
    · exact Or.inl rfl
    · exact find_updateIdBlock_cases cfg _ t _ _ id
    · split
      · split
        · exact find_updateIdBlock_cases cfg _ t _ _ id
        · exact Or.inl rfl
      · exact Or.inl rfl
  cases op with
  | accept k =>
    simp only [step, accept]
    split
    · exact Or.inl rfl
    · split
      · exact Or.inl rfl
      · exact find_updateIdBlock_cases cfg _ t _ _ id
  | perform l =>
    simp only [step, performLog]
    split
    · exact Or.inl rfl
    · split
      · exact Or.inl rfl
      · exact hproc _ _ _ _
  | stale l =>
    simp only [step, staleLog]
    split
    · exact Or.inl rfl
    · split
      · exact Or.inl rfl
      · split
        · exact Or.inl rfl
        · exact hproc _ _ _ _

/-- the simulation without a common deadline: every stored lock lives at least one window past the last change of the
    blocking state the history prescribes for its id -/
structure LiveSim (cfg : Cfg) (limA : Nat) (s : State) (tg : TGhost) : Prop where
  sim : Sim2 0 limA [] [] s tg.g
  dl  : ∀ id b e, s.idBlocks.find id = some (b, e) → ∃ r, sinceOf tg.since id = some r ∧ r + cfg.window ≤ e

theorem liveSim_init (cfg : Cfg) (limA : Nat) : LiveSim cfg limA State.init TGhost.init := by
  refine ⟨sim_init2 _ _ _ _, ?_⟩
  intro id b e h
  simp [State.init, Cache.empty, Cache.find] at h

theorem Sim2.relimit {limI limI' limA : Nat} {PA PL : List Str} {s : State} {g : Ghost}
    (h : Sim2 limI limA PA PL s g) (hf : Fresh s.idBlocks limI') : Sim2 limI' limA PA PL s g :=
  ⟨hf, h.freshA, h.canon, h.blocks, h.active, h.wit, h.logAcc⟩

theorem fresh_zero {α} (c : Cache α) : Fresh c 0 := fun _ _ _ _ => Nat.zero_le _

theorem liveSim_step (cfg : Cfg) {limA t : Nat} {s : State} {tg : TGhost} (h : LiveSim cfg limA s tg) (op : Op)
    (hl : tg.liveAt cfg.window t = true) (hta : t ≤ limA) (ha : limA ≤ t + activeTtlNs) (hc : opCanon op = true) :
    LiveSim cfg limA (step cfg s t op) (tg.step cfg t op) := by
  have hlive : ∀ k r, sinceOf tg.since k = some r → r ≤ t ∧ t ≤ r + cfg.window := by
    intro k r hk
    have hm := sinceOf_mem hk
    simp only [TGhost.liveAt, List.all_eq_true, Bool.and_eq_true, decide_eq_true_eq] at hl
    exact hl (k, r) hm
  have hfresh : Fresh s.idBlocks t := by
    intro k v e hf
    obtain ⟨r, hr, hre⟩ := h.dl k v e hf
    have := hlive k r hr
    omega
  have S : Sim2 t limA [] [] s tg.g := h.sim.relimit hfresh
  have S' := sim_step cfg S op (Nat.le_refl t) (Nat.le_add_right t _) hta ha hc (opFree_nil op)
  refine ⟨S'.relimit (fresh_zero _), ?_⟩
  intro id b e hf
  have hsince : ∀ k, sinceOf (tg.step cfg t op).since k =
      if opId op = some k ∧ (tg.g.step cfg op).block k ≠ tg.g.block k then some t else sinceOf tg.since k := by
    intro k
    simp only [TGhost.step]
    cases ho : opId op with
    | none => simp
    | some id0 =>
      simp only [Option.some.injEq]
      by_cases hb : (tg.g.step cfg op).block id0 = tg.g.block id0
      · rw [if_pos hb]
        by_cases e : id0 = k
        · subst e; simp [hb]
        · simp [e]
      · rw [if_neg hb, sinceOf_setSince]
        by_cases e : k = id0
        · subst e; simp [hb]
        · have e' : ¬ id0 = k := fun x => e x.symm
          simp [e, e']
  have hblk : (tg.step cfg t op).g = tg.g.step cfg op := rfl
  rcases find_step_cases cfg s t op id with hsame | ⟨v, hset⟩
  · rw [hsame] at hf
    obtain ⟨r, hr, hre⟩ := h.dl id b e hf
    refine ⟨r, ?_, hre⟩
    rw [hsince]
    have hbe : (tg.g.step cfg op).block id = tg.g.block id := by
      rw [← S'.blocks id, ← S.blocks id, hsame]
    simp [hbe, hr]
  · rw [hset] at hf
    simp only [Option.some.injEq, Prod.mk.injEq] at hf
    rw [hsince]
    by_cases hch : opId op = some id ∧ (tg.g.step cfg op).block id ≠ tg.g.block id
    · exact ⟨t, by simp [hch], by omega⟩
    · have hbe : (tg.g.step cfg op).block id = tg.g.block id := by
        by_cases ho : opId op = some id
        · by_cases hb : (tg.g.step cfg op).block id = tg.g.block id
          · exact hb
          · exact absurd ⟨ho, hb⟩ hch
        · exact block_step_other cfg tg.g op id ho
      have hsome : (s.idBlocks.find id).map (fun p => ofBlk p.1) = some (ofBlk v) := by
        rw [S.blocks id, ← hbe, ← S'.blocks id, hset]; rfl
      cases hfo : s.idBlocks.find id with
      | none => rw [hfo] at hsome; simp at hsome
      | some q =>
        obtain ⟨b0, e0⟩ := q
        obtain ⟨r, hr, _⟩ := h.dl id b0 e0 hfo
        have := hlive id r hr
        refine ⟨r, ?_, by omega⟩
        rw [if_neg hch, hr]

theorem tghostFrom_g (cfg : Cfg) (h : List (Nat × Op)) (tg tg' : TGhost) (ht : tghostFrom cfg tg h = some tg') :
    tg'.g = ghostFrom cfg tg.g (h.map (·.2)) := by
  induction h generalizing tg with
  | nil => simp only [tghostFrom, Option.some.injEq] at ht; subst ht; rfl
  | cons p h ih =>
    obtain ⟨t, op⟩ := p
    simp only [tghostFrom] at ht
    split at ht
    · simpa [ghostFrom, TGhost.step] using ih _ ht
    · simp at ht

theorem liveSim_run (cfg : Cfg) (limA : Nat) (h : List (Nat × Op)) (s : State) (tg tg' : TGhost)
    (hs : LiveSim cfg limA s tg)
    (hh : ∀ p ∈ h, opCanon p.2 = true ∧ p.1 ≤ limA ∧ limA ≤ p.1 + activeTtlNs)
    (ht : tghostFrom cfg tg h = some tg') : LiveSim cfg limA (run cfg s h) tg' := by
  induction h generalizing s tg with
  | nil => simp only [tghostFrom, Option.some.injEq] at ht; subst ht; exact hs
  | cons p h ih =>
    obtain ⟨t, op⟩ := p
    obtain ⟨h1, h2, h3⟩ := hh (t, op) (by simp)
    simp only [tghostFrom] at ht
    split at ht
    · rename_i hl
      simp only [run]
      exact ih _ _ (liveSim_step cfg hs op hl h2 h3 h1) (fun p hp => hh p (List.mem_cons_of_mem _ hp)) ht
    · simp at ht

/-- reading `IsPending` off the simulation for a probe whose lock (if any) is still running -/
theorem isPending_of_liveSim {cfg : Cfg} {limA now : Nat} {s : State} {tg : TGhost} (h : LiveSim cfg limA s tg)
    (key : Str) (hc : probeCanon key = true) (hp : probeLive cfg.window tg now key = true) :
    isPending s now key = expPending tg.g key := by
  unfold isPending expPending
  cases hs : splitUpkeepKey key with
  | none => rfl
  | some p =>
    obtain ⟨b, id⟩ := p
    have hb : isCanon b = true := by simpa [probeCanon, hs] using hc
    simp only
    rw [← h.sim.blocks id]
    cases hf : s.idBlocks.find id with
    | none => simp [Cache.get, hf]
    | some q =>
      obtain ⟨bl, e⟩ := q
      have hbl := h.sim.canon id bl e hf
      obtain ⟨r, hr, hre⟩ := h.dl id bl e hf
      have hnow : now ≤ r + cfg.window := by
        simpa [probeLive, hs, hr] using hp
      have hne : ¬ (e > 0 ∧ now > e) := by omega
      simp only [Cache.get, hf, hne, if_false, Option.map_some, after_canon hb hbl.2, pendingN_ofBlk]

end AutoVerif.C17
