import AutoVerif.Model.Net
/-
Kernel-evaluable twin of the network machine, used ONLY to evaluate concrete schedules in Props/C09Net
(`decide +kernel`).  `Outcome.outcome` sorts with `List.mergeSort`, which is defined by well-founded recursion
and does not reduce in the kernel on lists of two or more elements.  Here:

  * `mergeSort_eq_isort` — for every transitive, total `le`, `mergeSort l le` IS the stable insertion sort
    `isort le l` (structural recursion), from core's `List.mergeSort_cons`;
  * `outcomeE`, `playRoundE`, `stepE`, `runE` — literal copies of `outcome`, `playRound`, `step`, `run` with
    `isort` in place of `mergeSort`;
  * `run_eq_runE : run cfg steps = runE cfg steps` for every configuration and schedule.

So a statement about `run cfg sched` for a concrete `sched` is proved by rewriting with `run_eq_runE` and letting
the kernel evaluate `runE`.  Nothing else depends on this file.
-/
namespace AutoVerif.Net
open AutoVerif.Outcome

/-! ### merge sort is stable insertion sort -/

/-- insert `a` after the elements strictly below it (so before every element it is `le` to): stable -/
def oinsert {α : Type} (le : α → α → Bool) (a : α) (s : List α) : List α :=
  s.takeWhile (fun b => !le a b) ++ a :: s.dropWhile (fun b => !le a b)

def isort {α : Type} (le : α → α → Bool) (l : List α) : List α := l.foldr (oinsert le) []

theorem mergeSort_eq_isort {α : Type} {le : α → α → Bool}
    (trans : ∀ (a b c : α), le a b → le b c → le a c) (total : ∀ (a b : α), le a b || le b a) :
    ∀ l : List α, l.mergeSort le = isort le l := by
  intro l
  induction l with
  | nil => simp [isort]
  | cons a l ih =>
    obtain ⟨l₁, l₂, h1, h2, h3⟩ := List.mergeSort_cons trans total a l
    have hs := List.pairwise_mergeSort trans total (a :: l)
    rw [h1] at hs
    have ha : ∀ c ∈ l₂, le a c = true := by
      intro c hc
      have := (List.pairwise_append.mp hs).2.1
      exact List.rel_of_pairwise_cons this hc
    have hp : ∀ b ∈ l₁, (fun b => !le a b) b = true := h3
    have ht : l₂.takeWhile (fun b => !le a b) = [] := by
      cases l₂ with
      | nil => rfl
      | cons c cs => simp [ha c (List.mem_cons_self ..)]
    have hd : l₂.dropWhile (fun b => !le a b) = l₂ := by
      cases l₂ with
      | nil => rfl
      | cons c cs => simp [ha c (List.mem_cons_self ..)]
    show _ = oinsert le a (isort le l)
    rw [← ih, h2, h1]
    unfold oinsert
    rw [List.takeWhile_append_of_pos hp, List.dropWhile_append_of_pos hp, ht, hd, List.append_nil]

private theorem str_trans : ∀ a b c : String, decide (a ≤ b) = true → decide (b ≤ c) = true → decide (a ≤ c) = true := by
  intro a b c h₁ h₂
  simp only [decide_eq_true_eq] at *
  exact String.le_trans h₁ h₂

private theorem str_total : ∀ a b : String, (decide (a ≤ b) || decide (b ≤ a)) = true := by
  intro a b
  simp only [Bool.or_eq_true, decide_eq_true_eq]
  exact String.le_total a b

def sortStringsE (l : List String) : List String := isort (fun a b => decide (a ≤ b)) l

def sortByKeyE {α : Type} (key : String → String) (wid : α → String) (l : List α) : List α :=
  isort (fun a b => decide (key (wid a) ≤ key (wid b))) l

theorem sortStrings_eq (l : List String) : sortStrings l = sortStringsE l :=
  mergeSort_eq_isort str_trans str_total l

theorem sortByKey_eq {α : Type} (key : String → String) (wid : α → String) (l : List α) :
    sortByKey key wid l = sortByKeyE key wid l := by
  unfold sortByKey sortByKeyE
  exact mergeSort_eq_isort (le := fun a b => decide (key (wid a) ≤ key (wid b)))
    (fun a b c => str_trans (key (wid a)) (key (wid b)) (key (wid c)))
    (fun a b => str_total (key (wid a)) (key (wid b))) l

/-! ### the twin of `outcome` -/

def agreedOfE (ctx : Ctx) (lim : Limits) (t : List Slot) (π : List String) : List CheckResult :=
  (sortByKeyE ctx.key (·.workID) (select (ctx.F + 1) t (sortStringsE π) [])).take lim.agreedLimit

def surfacedOfE (ctx : Ctx) (lim : Limits) (agreed : List CheckResult) (prev : List (List Proposal))
    (os : List Observation) (πblk : List BlockKey) : List (List Proposal) :=
  let carried := carryOver agreed prev
  match latestQuorumBlock (ctx.F + 1) (blockVotes os) πblk with
  | none => carried
  | some b =>
    let hist := if carried.length ≥ lim.roundHistory then carried.take (lim.roundHistory - 1) else carried
    let latest := (sortByKeyE ctx.key (·.workID) (newRound agreed hist b (os.flatMap (·.proposals)) [])).take lim.perRound
    latest :: hist

def outcomeE (ctx : Ctx) (lim : Limits) (prev : Outcome) (obs : List (Option Observation))
    (πres : List String) (πblk : List BlockKey) : Outcome :=
  let os := validObs ctx lim obs
  let agreed := agreedOfE ctx lim (tally ctx os) πres
  { agreed := agreed, surfaced := surfacedOfE ctx lim agreed prev.surfaced os πblk }

theorem outcome_eq_outcomeE (ctx : Ctx) (lim : Limits) (prev : Outcome) (obs : List (Option Observation))
    (πres : List String) (πblk : List BlockKey) :
    outcome ctx lim prev obs πres πblk = outcomeE ctx lim prev obs πres πblk := by
  have ha : ∀ t π, agreedOf ctx lim t π = agreedOfE ctx lim t π := by
    intro t π; simp only [agreedOf, agreedOfE, sortStrings_eq, sortByKey_eq]
  have hs : ∀ agreed pr os, surfacedOf ctx lim agreed pr os πblk = surfacedOfE ctx lim agreed pr os πblk := by
    intro agreed pr os; simp only [surfacedOf, surfacedOfE, sortByKey_eq]; rfl
  simp only [outcome, outcomeE, ha, hs]

/-! ### the twin of the machine -/

def playRoundE (cfg : Cfg) (rounds : List RoundRec) (seq : Nat) (key : String → String) (aobs : AttrObs)
    (πres : List String) (πblk : List BlockKey) : RoundRec :=
  let prev := prevOutcome rounds
  let out := outcomeE (cfg.ctx key) cfg.lim prev (aobs.map (·.2)) πres πblk
  { seq := seq, key := key, aobs := aobs, πres := πres, πblk := πblk, prev := prev, out := out,
    reports := C04.reports cfg.rep out.agreed }

def stepE (cfg : Cfg) (net : Net) : Step → Net
  | .round seq key aobs πres πblk =>
    { net with rounds := net.rounds ++ [playRoundE cfg net.rounds seq key aobs πres πblk] }
  | .accept i ref =>
    match reportAt net.rounds ref with
    | none => net
    | some rep =>
      let r := (net.nodes i).accept cfg.coord ref rep
      { net with nodes := setNode net.nodes i r.1, answers := net.answers ++ [.accept i ref r.2] }
  | .transmitQuery i ref =>
    match reportAt net.rounds ref with
    | none => net
    | some rep => { net with answers := net.answers ++ [.transmit i ref (willing (net.nodes i).st rep)] }
  | .events i evs => { net with nodes := setNode net.nodes i ((net.nodes i).events cfg.coord evs) }
  | .restart i => { net with nodes := setNode net.nodes i (net.nodes i).restart }
  | .tick i dt => { net with nodes := setNode net.nodes i ((net.nodes i).tick dt) }
  | .gc i => { net with nodes := setNode net.nodes i (net.nodes i).gc }

def runE (cfg : Cfg) (steps : List Step) : Net := steps.foldl (stepE cfg) Net.init

theorem step_eq_stepE (cfg : Cfg) (net : Net) (s : Step) : step cfg net s = stepE cfg net s := by
  cases s with
  | round seq key aobs πres πblk => simp only [step, stepE, playRound, playRoundE, outcome_eq_outcomeE]
  | accept i ref => rfl
  | transmitQuery i ref => rfl
  | events i evs => rfl
  | restart i => rfl
  | tick i dt => rfl
  | gc i => rfl

theorem run_eq_runE (cfg : Cfg) (steps : List Step) : run cfg steps = runE cfg steps := by
  have : step cfg = stepE cfg := funext fun net => funext fun s => step_eq_stepE cfg net s
  simp only [run, runFrom, runE, this]

/-- the canonical order of the result map's keys does not involve a sort; stated here for the evaluations -/
theorem resKeys_def (ctx : Ctx) (os : List Observation) : resKeys ctx os = (tally ctx os).map (·.key) := rfl

end AutoVerif.Net
