import AutoVerif.Model.C18
/-
Proof machinery for C18 (core Lean only).

"For every schedule" statements about the recoverer model are proved by
reflection: a finite set `K` of (encoded) core states is computed by a
fuel-bounded search, `closedK ls K` checks — by kernel evaluation — that `K` is
closed under every step whose label is in `ls`, and `closedK_sound` turns that
into: every state reached from a member of `K` by ANY schedule over `ls`, of
any length, is again in `K`.  A property checked on the members of `K` then
holds along every such schedule.  States are encoded as natural numbers only
to make the membership test cheap for the kernel; the round trip
`decode (encode c) = c` is checked for every state that enters `K`, so a
counter outside the encodable range makes the closure check fail (never
succeed wrongly).
-/
namespace AutoVerif.C18

/-! ### schedules -/

/-- every label of the schedule is taken from `ls` -/
def Sched (ls : List CLabel) (sched : List CLabel) : Prop := ∀ l ∈ sched, l ∈ ls

/-- any number of Close calls, any faults -/
def anyLabels : List CLabel := allCLabels
/-- at most one Close call (what libocr does), any faults, any timing -/
def oneClose : List CLabel := allCLabels.filter fun l => l != .closeAgain
/-- no further Close call and no panic in the service goroutine -/
def quiet : List CLabel := allCLabels.filter fun l => l != .closeCall && l != .closeAgain && l != .gPanic
/-- any number of Close calls, no panic in the service goroutine -/
def noPanic : List CLabel := allCLabels.filter fun l => l != .gPanic
/-- the system's own steps (goroutines of the recoverer, the service, a Close in progress, the cool-down timer):
    everything except the environment's choices "call Close" and "panic" -/
def sysLabels : List CLabel := quiet

/-- no system step is enabled -/
def terminal (c : Core) : Bool := (sysLabels.filterMap (stepCore c)).isEmpty

theorem runC_append (c : Core) (a b : List CLabel) :
    runC c (a ++ b) = (runC c a).bind fun c' => runC c' b := by
  induction a generalizing c with
  | nil => simp [runC]
  | cons l a ih =>
    simp only [List.cons_append, runC]
    cases stepCore c l with
    | none => simp
    | some c' => simp [ih]

/-! ### encoding -/

def SPc.code : SPc → Nat
  | .init => 0 | .spawn => 1 | .store => 2 | .sel => 3 | .parked => 4 | .cool => 5 | .respawn => 6 | .clear => 7 | .done => 8
def SPc.uncode : Nat → SPc
  | 0 => .init | 1 => .spawn | 2 => .store | 3 => .sel | 4 => .parked | 5 => .cool | 6 => .respawn | 7 => .clear | _ => .done
def CPc.code : CPc → Nat
  | .idle => 0 | .load => 1 | .svcClose => 2 | .waitDone => 3 | .signal => 4 | .ret => 5 | .drain => 6
def CPc.uncode : Nat → CPc
  | 0 => .idle | 1 => .load | 2 => .svcClose | 3 => .waitDone | 4 => .signal | 6 => .drain | _ => .ret
def Svc.code : Svc → Nat
  | .unstarted => 0 | .starting => 1 | .started => 2 | .stopping => 3 | .stopped => 4
def Svc.uncode : Nat → Svc
  | 0 => .unstarted | 1 => .starting | 2 => .started | 3 => .stopping | _ => .stopped
def CRes.code : CRes → Nat
  | .none => 0 | .notRunning => 1 | .ok => 2 | .svcRefused => 3
def CRes.uncode : Nat → CRes
  | 0 => .none | 1 => .notRunning | 2 => .ok | _ => .svcRefused
def bufToNat : Option Msg → Nat
  | none => 0 | some .nil => 1 | some .svcErr => 2 | some .stopped => 3 | some .cancelled => 4
def bufOfNat : Nat → Option Msg
  | 0 => none | 1 => some .nil | 2 => some .svcErr | 3 => some .stopped | _ => some .cancelled
def b2n (b : Bool) : Nat := if b then 1 else 0
def n2b (n : Nat) : Bool := n != 0

/-- mixed-radix code; the six goroutine counters are stored modulo 4 -/
def encode (c : Core) : Nat :=
  c.spc.code + 9 * (b2n c.running + 2 * (bufToNat c.buf + 5 * (c.svc.code + 5 * (b2n c.stopReq + 2 * (b2n c.done + 2 *
  (c.nCall % 4 + 4 * (c.nStarting % 4 + 4 * (c.nRun % 4 + 4 * (c.nSendNil % 4 + 4 * (c.nSendErr % 4 + 4 * (c.nSendStopped % 4 + 4 *
  (c.cpc.code + 7 * (b2n c.svcErr + 2 * (c.cres.code + 4 * (b2n c.dropped + 2 * (b2n c.panicked + 2 * (b2n c.latched + 2 * b2n c.latch)))))))))))))))))

def decode (k : Nat) : Core :=
  let spc := k % 9; let k := k / 9
  let running := k % 2; let k := k / 2
  let buf := k % 5; let k := k / 5
  let svc := k % 5; let k := k / 5
  let stopReq := k % 2; let k := k / 2
  let done := k % 2; let k := k / 2
  let nCall := k % 4; let k := k / 4
  let nStarting := k % 4; let k := k / 4
  let nRun := k % 4; let k := k / 4
  let nSendNil := k % 4; let k := k / 4
  let nSendErr := k % 4; let k := k / 4
  let nSendStopped := k % 4; let k := k / 4
  let cpc := k % 7; let k := k / 7
  let svcErr := k % 2; let k := k / 2
  let cres := k % 4; let k := k / 4
  let dropped := k % 2; let k := k / 2
  let panicked := k % 2; let k := k / 2
  let latched := k % 2; let k := k / 2
  let latch := k % 2
  { spc := SPc.uncode spc, running := n2b running, buf := bufOfNat buf, svc := Svc.uncode svc, stopReq := n2b stopReq,
    done := n2b done, nCall := nCall, nStarting := nStarting, nRun := nRun, nSendNil := nSendNil, nSendErr := nSendErr,
    nSendStopped := nSendStopped, cpc := CPc.uncode cpc, svcErr := n2b svcErr, cres := CRes.uncode cres,
    dropped := n2b dropped, panicked := n2b panicked, latched := n2b latched, latch := n2b latch }

/-! ### closure -/

def succsL (ls : List CLabel) (c : Core) : List Core := ls.filterMap (stepCore c)

/-- fuel-bounded search over encoded states (structural recursion, so the kernel evaluates it) -/
def explore (ls : List CLabel) : Nat → List Nat → List Nat → List Nat
  | 0, _, visited => visited
  | _ + 1, [], visited => visited
  | n + 1, k :: rest, visited =>
    if visited.contains k then explore ls n rest visited
    else explore ls n (rest ++ (succsL ls (decode k)).map encode) (k :: visited)

/-- `K` contains (the code of) every successor of every member, and each successor survives the round trip -/
def closedK (ls : List CLabel) (K : List Nat) : Bool :=
  K.all fun k => (succsL ls (decode k)).all fun c' => K.contains (encode c') && decide (decode (encode c') = c')

/-- `c` is the decoding of a member of `K` -/
def InK (K : List Nat) (c : Core) : Prop := ∃ k ∈ K, decode k = c

theorem inK_of_roundtrip {K : List Nat} {c : Core} (hm : K.contains (encode c) = true) (hr : decode (encode c) = c) : InK K c :=
  ⟨encode c, by simpa using hm, hr⟩

theorem closedK_step {ls : List CLabel} {K : List Nat} (h : closedK ls K = true) {c c' : Core} {l : CLabel}
    (hc : InK K c) (hl : l ∈ ls) (hs : stepCore c l = some c') : InK K c' := by
  obtain ⟨k, hk, rfl⟩ := hc
  simp only [closedK, List.all_eq_true] at h
  have h1 := h k hk c' (by
    simp only [succsL, List.mem_filterMap]
    exact ⟨l, hl, hs⟩)
  simp only [Bool.and_eq_true, decide_eq_true_eq] at h1
  exact inK_of_roundtrip h1.1 h1.2

/-- closure under single steps gives closure under every schedule, of any length -/
theorem closedK_sound {ls : List CLabel} {K : List Nat} (h : closedK ls K = true) :
    ∀ (sched : List CLabel) (c c' : Core), InK K c → Sched ls sched → runC c sched = some c' → InK K c' := by
  intro sched
  induction sched with
  | nil => intro c c' hc _ hr; simp [runC] at hr; exact hr ▸ hc
  | cons l ls' ih =>
    intro c c' hc hs hr
    simp only [runC] at hr
    cases hstep : stepCore c l with
    | none => simp [hstep] at hr
    | some c1 =>
      simp only [hstep] at hr
      exact ih c1 c' (closedK_step h hc (hs l (by simp)) hstep) (fun x hx => hs x (by simp [hx])) hr

/-- a Boolean property checked on the members of `K` holds of everything in `K` -/
theorem allK {K : List Nat} {P : Core → Bool} (h : K.all (fun k => P (decode k)) = true) {c : Core} (hc : InK K c) : P c = true := by
  obtain ⟨k, hk, rfl⟩ := hc
  exact (List.all_eq_true.mp h) k hk

/-! ### the potential that bounds the system's own steps -/

def wS : SPc → Nat
  | .done => 0 | .clear => 1 | .parked => 2 | .sel => 3 | .store => 4 | .respawn => 12 | .cool => 13 | .spawn => 13 | .init => 14
def wBuf : Option Msg → Nat
  | none => 0 | some m => wS (afterRecv m) + 1
/-- Close's loop: a failed send attempt (channel full) is paid for by the message that is then taken out of the channel —
    by the drain step, or by serviceStart, whose receive leaves two units for a drain attempt that finds nothing -/
def wC (cpc : CPc) (buf : Option Msg) : Nat :=
  match cpc with
  | .idle => 0 | .ret => 0 | .signal => 4 | .waitDone => 5 | .svcClose => 6 | .load => 7
  | .drain => if buf = none then 5 else 3

/-- every system step strictly lowers `potential` (Props: `system_steps_terminate`) -/
def potential (c : Core) : Nat :=
  wS c.spc + wBuf c.buf + wC c.cpc c.buf + 8 * c.nCall + 7 * c.nStarting + 6 * c.nRun + 5 * c.nSendNil + 5 * c.nSendErr + 15 * c.nSendStopped

/-- every step the system takes on its own strictly lowers `potential`, in every state -/
theorem potential_decreases (c c' : Core) (l : CLabel) (hl : l ∈ sysLabels) (h : stepCore c l = some c') :
    potential c' < potential c := by
  obtain ⟨spc, running, buf, svc, stopReq, done, nCall, nStarting, nRun, nSendNil, nSendErr, nSendStopped, cpc, svcErr, cres, dropped, panicked, latched, latch⟩ := c
  cases l
  case closeCall => exact absurd hl (by decide)
  case closeAgain => exact absurd hl (by decide)
  case gPanic => exact absurd hl (by decide)
  all_goals
    simp only [stepCore, send] at h
    try simp only [] at h
    repeat' split at h
    all_goals (try (simp at h; done))
    all_goals (simp only [Option.some.injEq, Option.map_some] at h)
    all_goals (try subst h)
    all_goals (try simp_all only [])
  all_goals (try (rename_i m; cases m))
  all_goals (simp only [potential, wS, wBuf, wC, afterRecv])
  all_goals (try omega)
  all_goals (try ((repeat' split) <;> simp_all <;> omega))
  all_goals (cases buf)
  all_goals (try (rename_i m; cases m))
  all_goals (first | (simp; done) | (simp; omega))

/-! ### Close never waits for ever -/

theorem terminal_none {c : Core} {l : CLabel} (ht : terminal c = true) (hl : l ∈ sysLabels) : stepCore c l = none := by
  cases h : stepCore c l with
  | none => rfl
  | some c1 =>
    have : c1 ∈ sysLabels.filterMap (stepCore c) := List.mem_filterMap.mpr ⟨l, hl, h⟩
    simp only [terminal, List.isEmpty_iff] at ht
    simp [ht] at this

/-- invariant behind `close_never_blocks`: (start-once kind) a started service has either left its loop (`done`) or has a goroutine
    in it, and a Close waiting for `done` has closed the stop channel -/
def NB (c : Core) : Prop :=
  c.latched = false ∧
  (c.svc = .started → c.done = true ∨ 1 ≤ c.nRun) ∧
  (c.cpc = .waitDone → c.stopReq = true ∧ (c.done = true ∨ 1 ≤ c.nRun))

theorem nb_step (c c' : Core) (l : CLabel) (h : stepCore c l = some c') (hn : NB c) : NB c' := by
  obtain ⟨spc, running, buf, svc, stopReq, done, nCall, nStarting, nRun, nSendNil, nSendErr, nSendStopped, cpc, svcErr, cres, dropped, panicked, latched, latch⟩ := c
  simp only [NB] at hn
  cases l
  all_goals
    simp only [stepCore, send] at h
    try simp only [] at h
    repeat' split at h
    all_goals (try (simp at h; done))
    all_goals (simp only [Option.some.injEq, Option.map_some] at h)
    all_goals (try subst h)
    all_goals (simp only [NB])
    all_goals (try (simp_all; done))
    all_goals (try (simp_all; omega))

theorem nb_terminal (c : Core) (hn : NB c) (ht : terminal c = true) : c.cpc = .idle ∨ c.cpc = .ret := by
  obtain ⟨spc, running, buf, svc, stopReq, done, nCall, nStarting, nRun, nSendNil, nSendErr, nSendStopped, cpc, svcErr, cres, dropped, panicked, latched, latch⟩ := c
  simp only [NB] at hn
  obtain ⟨hk, hn⟩ := hn
  subst hk
  cases cpc
  case idle => simp
  case ret => simp
  case load => have := terminal_none (l := .cLoad) ht (by decide); simp [stepCore] at this; split at this <;> simp at this
  case svcClose => have := terminal_none (l := .cSvcClose) ht (by decide); simp [stepCore] at this; split at this <;> simp at this
  case signal =>
    have := terminal_none (l := .cSignal) ht (by decide); simp [stepCore] at this
    repeat' split at this
    all_goals simp at this
  case drain => have := terminal_none (l := .cDrain) ht (by decide); simp [stepCore] at this
  case waitDone =>
    have h1 := terminal_none (l := .cWaitDone) ht (by decide)
    have h2 := terminal_none (l := .gStopSeen) ht (by decide)
    simp [stepCore] at h1 h2
    have := hn.2 rfl
    simp_all

theorem nb_init : NB init := by simp [NB, init]
theorem nb_settled : NB settled := by simp [NB, settled, init]

theorem nb_run : ∀ (sched : List CLabel) (c c' : Core), NB c → runC c sched = some c' → NB c' := by
  intro sched
  induction sched with
  | nil => intro c c' hn hr; simp [runC] at hr; exact hr ▸ hn
  | cons l ls ih =>
    intro c c' hn hr
    simp only [runC] at hr
    cases hstep : stepCore c l with
    | none => simp [hstep] at hr
    | some c1 => simp only [hstep] at hr; exact ih c1 c' (nb_step c c1 l hstep hn) hr

end AutoVerif.C18
