import AutoVerif.Spec.C18
import AutoVerif.Lemmas.C18
/-
Lemmas behind `trace_sound` (Props/C18): every event the trace checker accepts, and every hidden step it lets the
search fill in, is a sequence of `stepCore` steps — so a replayed explanation is a path of the model.  Core Lean only.
-/
namespace AutoVerif.C18

theorem runT_path {t t' : TState} {ls : List CLabel} {h : Option Msg} (hr : runT false t ls h = some t') :
    runC t.c ls = some t'.c := by
  unfold runT at hr
  simp only [Bool.false_eq_true, if_false] at hr
  cases hc : runC t.c ls with
  | none => simp [hc] at hr
  | some c' => simp [hc] at hr; rw [← hr]

theorem sendT_path {t t' : TState} {l : CLabel} {m : Msg} (hr : sendT false t l m = some t') :
    runC t.c [l] = some t'.c := by
  unfold sendT at hr
  split at hr
  · simp at hr
  · split at hr
    · exact runT_path hr
    · split at hr
      · exact runT_path hr
      · simp at hr

theorem tstep_path {t t' : TState} {e : Ev} (h : tstep false t e = some t') : ∃ ls, runC t.c ls = some t'.c := by
  unfold tstep at h
  simp only [] at h
  repeat' split at h
  all_goals (try (simp at h; done))
  all_goals (first
    | exact ⟨_, runT_path h⟩
    | exact ⟨_, sendT_path h⟩
    | (simp only [Option.some.injEq] at h; subst h; exact ⟨[], rfl⟩))

theorem replay_path {evs : Array Ev} : ∀ (items : List Item) (t t' : TState), replay false evs t items = some t' →
    ∃ ls, runC t.c ls = some t'.c := by
  intro items
  induction items with
  | nil => intro t t' h; simp [replay] at h; subst h; exact ⟨[], rfl⟩
  | cons it is ih =>
    intro t t' h
    cases it with
    | ev i =>
      simp only [replay] at h
      cases he : evs[i]? with
      | none => simp [he] at h
      | some e =>
        simp only [he] at h
        cases hs : tstep false t e with
        | none => simp [hs] at h
        | some t1 =>
          simp only [hs] at h
          obtain ⟨l1, h1⟩ := tstep_path hs
          obtain ⟨l2, h2⟩ := ih t1 t' h
          exact ⟨l1 ++ l2, by rw [runC_append, h1]; simpa using h2⟩
    | hid l =>
      simp only [replay] at h
      split at h
      · cases hs : stepCore t.c l with
        | none => simp [hs] at h
        | some c1 =>
          simp only [hs] at h
          obtain ⟨l2, h2⟩ := ih { t with c := c1 } t' h
          exact ⟨l :: l2, by simp only [runC, hs]; exact h2⟩
      · simp at h

theorem replay_take {old : Bool} {evs : Array Ev} : ∀ (items : List Item) (t t' : TState), replay old evs t items = some t' →
    ∀ k, ∃ tk, replay old evs t (items.take k) = some tk := by
  intro items
  induction items with
  | nil => intro t t' h k; simp [replay]
  | cons it is ih =>
    intro t t' h k
    cases k with
    | zero => simp [replay]
    | succ k =>
      simp only [List.take_succ_cons]
      cases it with
      | ev i =>
        simp only [replay] at h ⊢
        cases he : evs[i]? with
        | none => simp [he] at h
        | some e =>
          simp only [he] at h ⊢
          cases hs : tstep old t e with
          | none => simp [hs] at h
          | some t1 => simp only [hs] at h ⊢; exact ih t1 t' h k
      | hid l =>
        simp only [replay] at h ⊢
        split at h
        · rename_i hh
          simp only [hh, if_true]
          cases hs : stepCore t.c l with
          | none => simp [hs] at h
          | some c1 => simp only [hs] at h ⊢; exact ih _ t' h k
        · simp at h

/-! ### the OCR2 RecoverableService -/
namespace V2

theorem vrun_append (c : VCore) (a b : List VLabel) :
    vrun c (a ++ b) = (vrun c a).bind fun c' => vrun c' b := by
  induction a generalizing c with
  | nil => simp [vrun]
  | cons l a ih =>
    simp only [List.cons_append, vrun]
    cases vstep c l with
    | none => simp
    | some c' => simp [ih]

theorem vrunT_path {t t' : VTState} {ls : List VLabel} {h : Option Msg} (hr : vrunT t ls h = some t') :
    vrun t.c ls = some t'.c := by
  unfold vrunT at hr
  cases hc : vrun t.c ls with
  | none => simp [hc] at hr
  | some c' => simp [hc] at hr; rw [← hr]

theorem vsendT_path {t t' : VTState} {l : VLabel} {m : Msg} (hr : vsendT t l m = some t') :
    vrun t.c [l] = some t'.c := by
  unfold vsendT at hr
  split at hr
  · simp at hr
  · split at hr
    · exact vrunT_path hr
    · split at hr
      · exact vrunT_path hr
      · simp at hr

theorem vtstep_path {t t' : VTState} {e : Ev} (h : vtstep t e = some t') : ∃ ls, vrun t.c ls = some t'.c := by
  unfold vtstep at h
  simp only [] at h
  repeat' split at h
  all_goals (try (simp at h; done))
  all_goals (first
    | exact ⟨_, vrunT_path h⟩
    | exact ⟨_, vsendT_path h⟩
    | (simp only [Option.some.injEq] at h; subst h; exact ⟨[], rfl⟩))

theorem vreplay_path {evs : Array Ev} : ∀ (items : List VItem) (t t' : VTState), vreplay evs t items = some t' →
    ∃ ls, vrun t.c ls = some t'.c := by
  intro items
  induction items with
  | nil => intro t t' h; simp [vreplay] at h; subst h; exact ⟨[], rfl⟩
  | cons it is ih =>
    intro t t' h
    cases it with
    | ev i =>
      simp only [vreplay] at h
      cases he : evs[i]? with
      | none => simp [he] at h
      | some e =>
        simp only [he] at h
        cases hs : vtstep t e with
        | none => simp [hs] at h
        | some t1 =>
          simp only [hs] at h
          obtain ⟨l1, h1⟩ := vtstep_path hs
          obtain ⟨l2, h2⟩ := ih t1 t' h
          exact ⟨l1 ++ l2, by rw [vrun_append, h1]; simpa using h2⟩
    | park =>
      simp only [vreplay] at h
      split at h
      · cases hs : vstep t.c .wSel with
        | none => simp [hs] at h
        | some c1 =>
          simp only [hs] at h
          obtain ⟨l2, h2⟩ := ih { t with c := c1 } t' h
          exact ⟨.wSel :: l2, by simp only [vrun, hs]; exact h2⟩
      · simp at h

/-! #### closure (the state space is small: plain lists of states) -/

def vsuccs (c : VCore) : List VCore := allVLabels.filterMap (vstep c)

def vexplore : Nat → List VCore → List VCore → List VCore
  | 0, _, visited => visited
  | _ + 1, [], visited => visited
  | n + 1, c :: rest, visited =>
    if visited.contains c then vexplore n rest visited else vexplore n (rest ++ vsuccs c) (c :: visited)

def vclosed (S : List VCore) : Bool := S.all fun c => (vsuccs c).all fun c' => S.contains c'

theorem vclosed_sound {S : List VCore} (h : vclosed S = true) :
    ∀ (sched : List VLabel) (c c' : VCore), c ∈ S → vrun c sched = some c' → c' ∈ S := by
  intro sched
  induction sched with
  | nil => intro c c' hc hr; simp [vrun] at hr; exact hr ▸ hc
  | cons l ls ih =>
    intro c c' hc hr
    simp only [vrun] at hr
    cases hs : vstep c l with
    | none => simp [hs] at hr
    | some c1 =>
      simp only [hs] at hr
      have hl : l ∈ allVLabels := by cases l <;> decide
      have : c1 ∈ S := by
        simp only [vclosed, List.all_eq_true] at h
        have := h c hc c1 (by simp only [vsuccs, List.mem_filterMap]; exact ⟨l, hl, hs⟩)
        simpa using this
      exact ih c1 c' this hr

/-- no step of the service's own goroutines is enabled (Start, Stop and a panic are the environment's) -/
def vterminal (c : VCore) : Bool :=
  ((allVLabels.filter fun l => l != .start && l != .stop && l != .gPanic).filterMap (vstep c)).isEmpty

end V2

end AutoVerif.C18
