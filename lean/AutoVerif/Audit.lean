import Lean
/-
`#audit_module AutoVerif.Props.C04` prints one JSON line listing every theorem
declared in that module together with the axioms it depends on
(`Lean.collectAxioms`).  bin/check turns this into obligations / discharged
and refuses anything outside {propext, Classical.choice, Quot.sound}.
-/
open Lean Elab Command

def auditSkip (n : Name) : Bool :=
  n.isInternal || n.isInternalDetail ||
  (match n with
   | .str _ s => s.startsWith "eq_" || s.startsWith "match_" || s.startsWith "proof_" || s == "injEq" || s == "sizeOf_spec" || s == "inj" || s.startsWith "_"
   | _ => false)

elab "#audit_module " id:ident : command => do
  let env ← getEnv
  let modName := id.getId
  let some modIdx := env.getModuleIdx? modName
    | throwError "module {modName} not imported"
  let mut out : Array Json := #[]
  let names := env.header.moduleData[modIdx.toNat]!.constNames
  for n in names do
    if auditSkip n then continue
    match env.find? n with
    | some (.thmInfo _) =>
      let axs ← liftCoreM (collectAxioms n)
      out := out.push (Json.mkObj [("name", Json.str n.toString),
        ("axioms", Json.arr (axs.map (fun a => Json.str a.toString)))])
    | _ => pure ()
  logInfo m!"AUDIT {(Json.mkObj [("module", Json.str modName.toString), ("theorems", Json.arr out)]).compress}"
