package harness

import (
	"context"
	"fmt"
	"os"
	"reflect"
	"runtime"
	"strings"
	"sync"
	"sync/atomic"
	"testing"
	"testing/synctest"
	"time"
	"unsafe"

	"github.com/smartcontractkit/libocr/commontypes"
	offchainreporting "github.com/smartcontractkit/libocr/offchainreporting2plus"
	"github.com/smartcontractkit/libocr/offchainreporting2plus/ocr3types"
	ocr2plustypes "github.com/smartcontractkit/libocr/offchainreporting2plus/types"

	"github.com/smartcontractkit/chainlink-automation/pkg/v3/config"
	"github.com/smartcontractkit/chainlink-automation/pkg/v3/plugin"
	ocr2keepers "github.com/smartcontractkit/chainlink-common/pkg/types/automation"
)

// C14 through the plugin's COMPOSITION ROOT: plugin.NewDelegate turns the operator's
// DelegateConfig{MaxServiceWorkers, ServiceQueueLength, …} (0 = default) into the RunnerConfig of the one
// runner every flow of an instance shares.  The worker-limit clause must hold for the limit the OPERATOR
// configured: the case builds the delegate with real NewDelegate (libocr's NewOracle only stores its
// arguments), takes the ReportingPluginFactory NewDelegate wired out of the oracle (the fields are not
// exported: reflection), creates an instance the way libocr does (NewReportingPlugin under an
// initialisation context that ends), lets the log trigger flow poll a provider that returns many
// payloads per tick (more batches than workers), and gauges how many check pipeline calls overlap.
// No RunJobs caller is visible from here: the observation has no per-caller part, only the bound on
// concurrent pipeline calls, the leak check after Close, and "no crash".

type c14OcrLogger struct{}

func (c14OcrLogger) Trace(string, commontypes.LogFields)    {}
func (c14OcrLogger) Debug(string, commontypes.LogFields)    {}
func (c14OcrLogger) Info(string, commontypes.LogFields)     {}
func (c14OcrLogger) Warn(string, commontypes.LogFields)     {}
func (c14OcrLogger) Error(string, commontypes.LogFields)    {}
func (c14OcrLogger) Critical(string, commontypes.LogFields) {}

// c14LogFeed: `perTick` fresh log payloads on every poll
type c14LogFeed struct {
	mu      sync.Mutex
	perTick int
	polls   int
	next    int
	rng     *Rng
}

func (f *c14LogFeed) GetLatestPayloads(context.Context) ([]ocr2keepers.UpkeepPayload, error) {
	f.mu.Lock()
	defer f.mu.Unlock()
	f.polls++
	out := make([]ocr2keepers.UpkeepPayload, 0, f.perTick)
	for i := 0; i < f.perTick; i++ {
		uid := genUpkeepID(f.rng, true)
		res := genResult(f.rng, uid, uint64(100+f.next))
		f.next++
		out = append(out, ocr2keepers.UpkeepPayload{UpkeepID: uid, Trigger: res.Trigger, WorkID: res.WorkID})
	}
	return out, nil
}
func (f *c14LogFeed) SetConfig(ocr2keepers.LogEventProviderConfig) {}
func (f *c14LogFeed) Start(context.Context) error                  { return nil }
func (f *c14LogFeed) Close() error                                 { return nil }

// c14RecFeed: `perTick` fresh recovery proposals on every poll of the recovery proposal flow (a second
// tick-driven client of the shared runner next to the log trigger flow)
type c14RecFeed struct {
	mu      sync.Mutex
	perTick int
	next    int
	rng     *Rng
}

func (f *c14RecFeed) GetRecoveryProposals(context.Context) ([]ocr2keepers.UpkeepPayload, error) {
	f.mu.Lock()
	defer f.mu.Unlock()
	out := make([]ocr2keepers.UpkeepPayload, 0, f.perTick)
	for i := 0; i < f.perTick; i++ {
		uid := genUpkeepID(f.rng, true)
		res := genResult(f.rng, uid, uint64(5000+f.next))
		f.next++
		out = append(out, ocr2keepers.UpkeepPayload{UpkeepID: uid, Trigger: res.Trigger, WorkID: res.WorkID})
	}
	return out, nil
}

// c14Gauge: the check pipeline; every call takes `ms` virtual milliseconds (or ends with its context)
type c14Gauge struct {
	ms      int
	conc    atomic.Int64
	maxConc atomic.Int64
	calls   atomic.Int64
}

func (g *c14Gauge) CheckUpkeeps(ctx context.Context, ps ...ocr2keepers.UpkeepPayload) ([]ocr2keepers.CheckResult, error) {
	g.calls.Add(1)
	cur := g.conc.Add(1)
	for {
		m := g.maxConc.Load()
		if cur <= m || g.maxConc.CompareAndSwap(m, cur) {
			break
		}
	}
	defer g.conc.Add(-1)
	tm := time.NewTimer(time.Duration(g.ms) * time.Millisecond)
	select {
	case <-tm.C:
	case <-ctx.Done():
		tm.Stop()
		return nil, ctx.Err()
	}
	out := make([]ocr2keepers.CheckResult, len(ps))
	for i, p := range ps {
		out[i] = ocr2keepers.CheckResult{UpkeepID: p.UpkeepID, Trigger: p.Trigger, WorkID: p.WorkID}
	}
	return out, nil
}

// c14FactoryOf digs the reporting plugin factory out of the delegate NewDelegate built:
// Delegate.keeper (libocr *oracle) .oracleArgs (OCR3OracleArgs) .ReportingPluginFactory
func c14FactoryOf(d *plugin.Delegate) (fac ocr3types.ReportingPluginFactory[plugin.AutomationReportInfo], err error) {
	defer func() {
		if r := recover(); r != nil {
			err = fmt.Errorf("delegate layout changed: %v", r)
		}
	}()
	open := func(v reflect.Value) reflect.Value {
		return reflect.NewAt(v.Type(), unsafe.Pointer(v.UnsafeAddr())).Elem()
	}
	keeper := open(reflect.ValueOf(d).Elem().FieldByName("keeper")) // interface
	orc := keeper.Elem().Elem()                                     // *oracle -> oracle
	args := open(orc.FieldByName("oracleArgs")).Interface()
	a, ok := args.(offchainreporting.OCR3OracleArgs[plugin.AutomationReportInfo])
	if !ok {
		return nil, fmt.Errorf("unexpected oracle args %T", args)
	}
	return a.ReportingPluginFactory, nil
}

// c14RunDelegate executes one case on an instance wired by plugin.NewDelegate.
func c14RunDelegate(t *testing.T, in c14Input, verdict func(c14Impl)) (impl c14Impl) {
	defer func() {
		if r := recover(); r != nil {
			msg := fmt.Sprint(r)
			if strings.Contains(msg, "deadlock: main bubble goroutine has exited") {
				impl.Deadlocked = true
			} else {
				impl.Panic = msg
			}
		}
	}()
	impl.Callers = []c14Caller{}
	synctest.Test(t, func(t *testing.T) {
		base := c14BubbleGoroutines()
		feed := &c14LogFeed{perTick: in.PerTick, rng: NewRng(in.Salt + 99)}
		gauge := &c14Gauge{ms: in.LongMs}
		var rec ocr2keepers.RecoverableProvider = &fakeRecoverable{}
		if in.RecPerTick > 0 {
			rec = &c14RecFeed{perTick: in.RecPerTick, rng: NewRng(in.Salt + 77)}
		}
		workers := in.Workers
		if in.Unset {
			workers = 0 // the operator leaves the limit to the default (in.Workers holds that default)
		}
		d, err := plugin.NewDelegate(plugin.DelegateConfig{
			LocalConfig: ocr2plustypes.LocalConfig{
				DefaultMaxDurationInitialization:   30 * time.Second,
				BlockchainTimeout:                  time.Second,
				ContractConfigLoadTimeout:          time.Second,
				ContractConfigConfirmations:        1,
				ContractConfigTrackerPollInterval:  15 * time.Second,
				ContractTransmitterTransmitTimeout: time.Second,
				DatabaseTimeout:                    time.Second,
			},
			Logger:              c14OcrLogger{},
			LogProvider:         feed,
			EventProvider:       &fakeEvents{},
			BlockSubscriber:     &fakeBlocks{},
			RecoverableProvider: rec,
			PayloadBuilder:      fakeBuilder{},
			UpkeepProvider:      &fakeGetter{},
			UpkeepStateUpdater:  &fakeStateUpdater{},
			Runnable:            gauge,
			Encoder:             &recEncoder{},
			UpkeepTypeGetter:    utg,
			WorkIDGenerator:     wg,
			MaxServiceWorkers:   workers,
			ServiceQueueLength:  in.Queue,
		})
		if err != nil {
			impl.Panic = "NewDelegate: " + err.Error()
			return
		}
		fac, err := c14FactoryOf(d)
		if err != nil {
			impl.Panic = err.Error()
			return
		}
		ictx, icancel := context.WithCancel(context.Background())
		p, _, err := fac.NewReportingPlugin(ictx, ocr3types.ReportingPluginConfig{N: 4, F: 1, OffchainConfig: []byte(`{}`)})
		icancel() // libocr's initialisation context ends while the instance lives on
		if err != nil {
			impl.Panic = "NewReportingPlugin: " + err.Error()
			return
		}
		// the flows poll once per second; let `Ticks` polls happen, off the 1 s grid
		time.Sleep(1500*time.Millisecond + time.Duration(in.Ticks)*time.Second + 137*time.Millisecond)
		synctest.Wait()
		impl.MaxConc = int(gauge.maxConc.Load())
		impl.Phase = "verdict"
		if err := p.Close(); err != nil {
			impl.Panic = "Close: " + err.Error()
		}
		time.Sleep(11 * time.Second)
		synctest.Wait()
		impl.Phase = "final"
		impl.MaxConc = int(gauge.maxConc.Load())
		impl.Leaked = c14BubbleGoroutines() - base
		if os.Getenv("VERIF_C14_DEBUG") != "" {
			fmt.Fprintf(os.Stderr, "c14 delegate: workers=%d perTick=%d recPerTick=%d ticks=%d longMs=%d: pipeline calls=%d maxConc=%d leaked=%d\n",
				in.Workers, in.PerTick, in.RecPerTick, in.Ticks, in.LongMs, gauge.calls.Load(), gauge.maxConc.Load(), impl.Leaked)
		}
		if gauge.calls.Load() == 0 && in.PerTick > 0 && in.Ticks > 0 {
			impl.Panic = "the flows never called the check pipeline"
		}
	})
	_ = runtime.NumGoroutine
	return impl
}

// c14GenDelegate: limits below, at and above the defaults the plugin really uses (10*GOMAXPROCS workers,
// queue 1000), "unset", and per-tick loads of more batches than workers
func c14GenDelegate(r *Rng) c14Input {
	in := c14Input{Via: "delegate-v3", Mode: "none", JobKind: "long"}
	def := config.DefaultMaxServiceWorkers
	switch r.Intn(8) {
	case 0:
		in.Workers, in.Unset = def, true
	case 1:
		in.Workers = def + r.Range(0, 3)
	case 2:
		in.Workers = 1
	default:
		in.Workers = r.Range(2, 9) // an operator protecting a rate limited endpoint
	}
	in.Queue = []int{0, 0, 1, 10, 100, 1000, 5000}[r.Intn(7)]
	batches := in.Workers + r.Range(1, 2*in.Workers+4)
	if in.Workers >= def {
		batches = r.Range(5, 30)
	}
	in.PerTick = batches*10 - r.Intn(10)
	in.Ticks = r.Range(1, 3)
	in.LongMs = r.Range(20, 700)
	in.Salt = r.U64() % 1_000_000
	return in
}
