package harness

import (
	"context"
	"fmt"
	"math/big"
	"testing"
	"testing/synctest"
	"time"

	"github.com/smartcontractkit/libocr/offchainreporting2plus/ocr3types"

	ocr2keepersv3 "github.com/smartcontractkit/chainlink-automation/pkg/v3"
	"github.com/smartcontractkit/chainlink-automation/pkg/v3/plugin"
	ocr2keepers "github.com/smartcontractkit/chainlink-common/pkg/types/automation"
)

// C07, flow level: every path by which a unit of work can reach the check
// pipeline or an observation of a plugin built by the public factory must go
// through the coordinator.  One case = one plugin in a bubble:
//
//	1. (paths "retry", "staged-result", "staged-proposal" only) the target work w and a
//	   control work w0 enter the node BEFORE w is accepted (retry queue / result store /
//	   metadata store),
//	2. a report for w is accepted through ShouldAcceptAttestedReport; depending on the
//	   phase a confirmed transmit event for it is polled,
//	3. w and w0 are offered again through the path under test,
//	4. the call log of the check pipeline (fakeRunnable) and the next Observation are read.
//
// w0 is never accepted: it must reach the pipeline / observation, which shows that the
// path was really exercised.
type c07FlowInput struct {
	Kind  string `json:"kind"`  // "flow"
	Path  string `json:"path"`  // see c07Paths
	Type  int    `json:"type"`  // upkeep type of w and w0: 0 conditional, 1 log
	Phase string `json:"phase"` // pending | performed | failed | expired
	Cfg   c06Cfg `json:"cfg"`
	B     uint64 `json:"b"`   // accepted check block
	TB    uint64 `json:"tb"`  // transmit block of the event
	ETy   int    `json:"ety"` // event type for phase failed (2..4)
	CB    uint64 `json:"cb"`  // check block at which w is offered again
	// shape of the report that puts w in flight: N upkeeps (0 or 1 = w alone), w at index Pos;
	// FirstRefused: the first upkeep of the report is one the coordinator refuses (it already
	// awaits a higher block for it), otherwise every other upkeep of the report is acceptable
	N            int  `json:"n,omitempty"`
	Pos          int  `json:"pos,omitempty"`
	FirstRefused bool `json:"firstRefused,omitempty"`
	// the factory first builds and closes another instance with this configuration (libocr calls
	// NewReportingPlugin on one factory for every config): nothing of it may carry over
	Decoy *c06Cfg `json:"decoy,omitempty"`
}

type c07FlowImpl struct {
	Accepted    bool   `json:"accepted"`
	WChecked    bool   `json:"wChecked"`    // w reached CheckUpkeeps after the acceptance
	CtlChecked  bool   `json:"ctlChecked"`  // w0 did
	WResult     bool   `json:"wResult"`     // w is a performable of the observation built afterwards
	CtlResult   bool   `json:"ctlResult"`
	WProposal   bool   `json:"wProposal"`   // w is a proposal of that observation
	CtlProposal bool   `json:"ctlProposal"`
	Err         string `json:"err,omitempty"`
}

var c07Paths = []string{"log-trigger", "recovery-proposal", "final-recovery", "final-conditional", "conditional-sample", "retry", "staged-result", "staged-proposal"}

func c07PathTypes(path string) []int {
	switch path {
	case "log-trigger", "recovery-proposal", "final-recovery":
		return []int{1}
	case "final-conditional", "conditional-sample":
		return []int{0}
	}
	return []int{0, 1}
}

type c07FlowWork struct {
	uid  ocr2keepers.UpkeepIdentifier
	trig ocr2keepers.Trigger // without block number / hash
	wid  string
}

func c07NewFlowWork(r *Rng, ty int) c07FlowWork {
	w := c07FlowWork{uid: genUpkeepID(r, ty == 1)}
	if ty == 1 {
		w.trig.LogTriggerExtension = &ocr2keepers.LogTriggerExtension{TxHash: genHash(r), Index: uint32(r.Intn(5)), BlockHash: genHash(r), BlockNumber: 50}
	}
	w.wid = wg(w.uid, w.trig)
	return w
}

func (w c07FlowWork) trigger(block uint64, salt byte) ocr2keepers.Trigger {
	t := w.trig
	t.BlockNumber = ocr2keepers.BlockNumber(block)
	t.BlockHash[0], t.BlockHash[1], t.BlockHash[31] = salt, byte(block), 1 // a fresh hash per offer: never served from the runner's cache
	return t
}
func (w c07FlowWork) payload(block uint64, salt byte) ocr2keepers.UpkeepPayload {
	return ocr2keepers.UpkeepPayload{UpkeepID: w.uid, Trigger: w.trigger(block, salt), WorkID: w.wid}
}
func (w c07FlowWork) proposal(block uint64, salt byte) ocr2keepers.CoordinatedBlockProposal {
	return ocr2keepers.CoordinatedBlockProposal{UpkeepID: w.uid, Trigger: w.trigger(block, salt), WorkID: w.wid}
}

// c07FlowRun executes one flow case (inside a bubble).
func c07FlowRun(t *testing.T, in c07FlowInput) c07FlowImpl {
	var impl c07FlowImpl
	r := NewRng(uint64(len(in.Path))*1000 + uint64(in.Type)*100 + in.CB + uint64(in.N)*7919 + uint64(in.Pos)*104729)
	w, w0 := c07NewFlowWork(r, in.Type), c07NewFlowWork(r, in.Type)
	ctx := context.Background()
	conf := fmt.Sprintf(`{"performLockoutWindow":%d,"minConfirmations":%d}`, in.Cfg.WindowMs, in.Cfg.MinConf)
	opts := NodeOpts{N: 4, F: 1, OffchainConfig: []byte(conf)}
	if in.Decoy != nil {
		opts.Decoy = &NodeOpts{N: 4, F: 1, OffchainConfig: []byte(fmt.Sprintf(`{"performLockoutWindow":%d,"minConfirmations":%d}`, in.Decoy.WindowMs, in.Decoy.MinConf))}
	}
	node := NewNode(t, opts)
	defer func() {
		node.Close()
		time.Sleep(11 * time.Second)
		synctest.Wait()
	}()
	start := time.Now()
	at := func(ms int64) { c06SleepUntil(start, ms*c06Ms) }

	// the check pipeline: eligible result for whatever it is given, or a retryable failure
	failing := false
	node.Run.mu.Lock()
	node.Run.fn = func(_ context.Context, ps []ocr2keepers.UpkeepPayload) ([]ocr2keepers.CheckResult, error) {
		out := make([]ocr2keepers.CheckResult, 0, len(ps))
		for _, p := range ps {
			res := ocr2keepers.CheckResult{UpkeepID: p.UpkeepID, Trigger: p.Trigger, WorkID: p.WorkID, GasAllocated: 1000,
				PerformData: []byte{1}, FastGasWei: big.NewInt(1), LinkNative: big.NewInt(1)}
			if failing {
				res.PipelineExecutionState, res.Retryable, res.RetryInterval = 1, true, time.Second
			} else {
				res.Eligible = true
			}
			out = append(out, res)
		}
		return out, nil
	}
	node.Run.mu.Unlock()
	setFailing := func(b bool) { node.Run.mu.Lock(); failing = b; node.Run.mu.Unlock() }

	seq := uint64(10)
	observe := func(props ...ocr2keepers.CoordinatedBlockProposal) (ocr2keepersv3.AutomationObservation, error) {
		seq++
		var prev []byte
		if len(props) > 0 {
			prev = must(ocr2keepersv3.AutomationOutcome{SurfacedProposals: [][]ocr2keepers.CoordinatedBlockProposal{props}}.Encode())
		}
		raw, err := node.Plugin.Observation(ctx, ocr3types.OutcomeContext{SeqNr: seq, PreviousOutcome: prev}, nil)
		if err != nil {
			return ocr2keepersv3.AutomationObservation{}, err
		}
		return ocr2keepersv3.DecodeAutomationObservation(raw, utg, wg)
	}
	feedLogs := func(ps ...ocr2keepers.UpkeepPayload) {
		node.Logs.mu.Lock()
		node.Logs.payloads = append(node.Logs.payloads, ps...)
		node.Logs.mu.Unlock()
	}
	feedRecov := func(ps ...ocr2keepers.UpkeepPayload) {
		node.Recov.mu.Lock()
		node.Recov.payloads = append(node.Recov.payloads, ps...)
		node.Recov.mu.Unlock()
	}
	feedGetter := func(ps ...ocr2keepers.UpkeepPayload) {
		node.Getter.mu.Lock()
		node.Getter.upkeeps = ps
		node.Getter.mu.Unlock()
	}

	// 1. before the acceptance
	at(1637)
	now := int64(1637)
	switch in.Path {
	case "retry":
		setFailing(true)
		if in.Type == 1 {
			feedLogs(w.payload(in.CB, 1), w0.payload(in.CB, 1))
		} else if _, err := observe(w.proposal(in.CB, 1), w0.proposal(in.CB, 1)); err != nil {
			impl.Err = "observe: " + err.Error()
		}
		now += 1300
		at(now)
		setFailing(false)
	case "staged-result":
		if in.Type == 1 {
			feedLogs(w.payload(in.CB, 1), w0.payload(in.CB, 1))
		} else if _, err := observe(w.proposal(in.CB, 1), w0.proposal(in.CB, 1)); err != nil {
			impl.Err = "observe: " + err.Error()
		}
		now += 1300
		at(now)
	case "staged-proposal":
		if in.Type == 1 {
			feedRecov(w.payload(in.CB, 1), w0.payload(in.CB, 1))
			now += 1300
		} else {
			feedGetter(w.payload(in.CB, 1), w0.payload(in.CB, 1))
			now += 3300
		}
		at(now)
		feedGetter()
	}

	// 2. acceptance (and event): w is one upkeep of a report with in.N upkeeps
	repOf := func(x c07FlowWork, b uint64) ocr2keepers.CheckResult {
		return ocr2keepers.CheckResult{Eligible: true, UpkeepID: x.uid, Trigger: x.trigger(b, 9), WorkID: x.wid, GasAllocated: 1,
			PerformData: []byte{}, FastGasWei: big.NewInt(1), LinkNative: big.NewInt(1)}
	}
	accept := func(rs ...ocr2keepers.CheckResult) bool {
		raw := must(node.Enc.Encode(rs...))
		node.Enc.Take()
		return must(node.Plugin.ShouldAcceptAttestedReport(ctx, 1, ocr3types.ReportWithInfo[plugin.AutomationReportInfo]{Report: raw}))
	}
	n := in.N
	if n < 1 {
		n = 1
	}
	batch := make([]ocr2keepers.CheckResult, 0, n)
	for i := 0; i < n; i++ {
		if i == in.Pos || n == 1 {
			batch = append(batch, repOf(w, in.B))
			continue
		}
		f := c07NewFlowWork(r, (in.Type+i)%2)
		if i == 0 && in.FirstRefused {
			accept(repOf(f, in.B+50)) // the node already awaits a higher block for the first upkeep
		}
		batch = append(batch, repOf(f, in.B))
	}
	impl.Accepted = accept(batch...)
	switch in.Phase {
	case "performed", "failed":
		ty := 1
		if in.Phase == "failed" {
			ty = in.ETy
		}
		var tx [32]byte
		tx[0] = 7
		node.Events.Set(ocr2keepers.TransmitEvent{Type: ocr2keepers.TransmitEventType(ty), TransmitBlock: ocr2keepers.BlockNumber(in.TB),
			Confirmations: int64(in.Cfg.MinConf), TransactionHash: tx, UpkeepID: w.uid, WorkID: w.wid, CheckBlock: ocr2keepers.BlockNumber(in.B)})
		now += 1200
		at(now)
		node.Events.Set()
	case "expired":
		now += in.Cfg.WindowMs + 1
		at(now)
	}

	// 3. the work is offered again
	node.Run.mu.Lock()
	mark := len(node.Run.calls)
	node.Run.mu.Unlock()
	var err error
	switch in.Path {
	case "log-trigger":
		feedLogs(w.payload(in.CB, 2), w0.payload(in.CB, 2))
		now += 1300
	case "recovery-proposal":
		feedRecov(w.payload(in.CB, 2), w0.payload(in.CB, 2))
		now += 1300
	case "final-recovery", "final-conditional":
		_, err = observe(w.proposal(in.CB, 2), w0.proposal(in.CB, 2))
		now += 1300
	case "conditional-sample":
		feedGetter(w.payload(in.CB, 2), w0.payload(in.CB, 2))
		now += 3300
	case "retry":
		now += 5300 // the retry ticker runs every 5 s; the records are due 1 s after they were queued
	case "staged-result", "staged-proposal":
		now += 100
	}
	if err != nil {
		impl.Err = "observe: " + err.Error()
	}
	at(now)
	feedGetter()

	// 4. what reached the pipeline, what the next observation carries
	node.Run.mu.Lock()
	for _, call := range node.Run.calls[mark:] {
		for _, p := range call {
			if p.WorkID == w.wid {
				impl.WChecked = true
			}
			if p.WorkID == w0.wid {
				impl.CtlChecked = true
			}
		}
	}
	node.Run.mu.Unlock()
	obs, err := observe()
	if err != nil {
		impl.Err = "observe: " + err.Error()
	}
	for _, p := range obs.Performable {
		if p.WorkID == w.wid {
			impl.WResult = true
		}
		if p.WorkID == w0.wid {
			impl.CtlResult = true
		}
	}
	for _, p := range obs.UpkeepProposals {
		if p.WorkID == w.wid {
			impl.WProposal = true
		}
		if p.WorkID == w0.wid {
			impl.CtlProposal = true
		}
	}
	return impl
}

// c07FlowCases: every path × upkeep type × phase, conditional perform boundary blocks included.
func c07FlowCases() []c07FlowInput {
	var out []c07FlowInput
	cfgs := []c06Cfg{{MinConf: 1, WindowMs: 60000}, {MinConf: 0, WindowMs: 20000}}
	for pi, path := range c07Paths {
		for _, ty := range c07PathTypes(path) {
			for phi, phase := range []string{"pending", "performed", "failed", "expired"} {
				if path == "retry" && phase == "expired" {
					continue // the retry ticker (5 s) consumes the queued records long before the window is over
				}
				cfg := cfgs[(pi+phi)%len(cfgs)]
				base := c07FlowInput{Kind: "flow", Path: path, Type: ty, Phase: phase, Cfg: cfg, B: 100, TB: 120, ETy: 2 + (pi+ty)%3, CB: 101}
				switch {
				case phase == "performed" && ty == 0:
					for _, cb := range []uint64{119, 120, 121} { // around the perform block
						c := base
						c.CB = cb
						out = append(out, c)
					}
				case phase == "pending":
					out = append(out, base)
					c := base
					c.CB = 99 // also below the accepted block
					out = append(out, c)
				case phase == "failed":
					// every transmit event type that is not a perform, the unknown ones included
					for _, ety := range []int{0, 2, 3, 4, 5, 200} {
						c := base
						c.ETy = ety
						out = append(out, c)
					}
				case phase == "expired":
					out = append(out, base)
					// windows below / at / above one second, through the factory's config decoding
					for _, w := range []int64{1, 500, 999, 1000, 1001} {
						c := base
						c.Cfg.WindowMs = w
						out = append(out, c)
					}
				default:
					out = append(out, base)
				}
			}
		}
	}
	return out
}

// report shapes that put w in flight: (size, index of w, first upkeep refused)
var c07Shapes = []struct {
	n, pos       int
	firstRefused bool
}{{2, 1, false}, {3, 1, true}, {3, 2, false}, {4, 3, false}, {4, 3, true}, {4, 1, false}, {2, 0, false}, {3, 1, false}}

// configurations of the decoy instance: shorter / longer lockout window, other minimum confirmations
var c07Decoys = []*c06Cfg{{MinConf: 5, WindowMs: 1000}, {MinConf: 0, WindowMs: 1200000}, {MinConf: 4, WindowMs: 3000}}

// c07FlowBatched: the same grid with w accepted as part of a batched report — every shape for
// the phases in which w must be withheld, a rotating shape for the others.
func c07FlowBatched() []c07FlowInput {
	var out []c07FlowInput
	for i, c := range c07FlowCases() {
		if c.Phase == "pending" || c.Phase == "performed" {
			for _, sh := range c07Shapes {
				b := c
				b.N, b.Pos, b.FirstRefused = sh.n, sh.pos, sh.firstRefused
				if (i+sh.n+sh.pos)%2 == 0 {
					b.Decoy = c07Decoys[(i+sh.pos)%len(c07Decoys)]
				}
				out = append(out, b)
			}
		} else {
			sh := c07Shapes[i%len(c07Shapes)]
			c.N, c.Pos, c.FirstRefused = sh.n, sh.pos, sh.firstRefused
			c.Decoy = c07Decoys[i%len(c07Decoys)]
			out = append(out, c)
		}
	}
	return out
}

// c07FlowGen: a random flow case (the plugin-level share of the generated C07 cases).
func c07FlowGen(r *Rng) c07FlowInput {
	in := c07FlowInput{Kind: "flow", Path: c07Paths[r.Intn(len(c07Paths))]}
	tys := c07PathTypes(in.Path)
	in.Type = tys[r.Intn(len(tys))]
	in.Phase = []string{"pending", "pending", "performed", "performed", "failed", "expired"}[r.Intn(6)]
	if in.Path == "retry" && in.Phase == "expired" {
		in.Phase = "pending"
	}
	in.Cfg = c06Cfg{MinConf: []int{0, 1, 3}[r.Intn(3)], WindowMs: int64([]int{20000, 60000, 1200000}[r.Intn(3)])}
	if in.Phase == "expired" {
		in.Cfg.WindowMs = []int64{1, 400, 999, 1000, 20000}[r.Intn(5)]
	}
	in.B = uint64(r.Range(50, 150))
	in.TB = in.B + uint64(r.Range(1, 30))
	in.ETy = []int{0, 2, 3, 4, 5, 77}[r.Intn(6)]
	switch {
	case in.Phase == "performed" && in.Type == 0:
		in.CB = uint64(int64(in.TB) + int64(r.Range(-1, 1)))
	default:
		in.CB = uint64(int64(in.B) + int64(r.Range(-2, 3)))
	}
	in.N = r.Range(1, 4)
	in.Pos = r.Intn(in.N)
	in.FirstRefused = in.N > 1 && in.Pos > 0 && r.Chance(40)
	if r.Chance(50) {
		in.Decoy = c07Decoys[r.Intn(len(c07Decoys))]
	}
	return in
}

func c07FlowAll(t *testing.T, em *Emitter) {
	run := func(in c07FlowInput) {
		em.Hit("flow:" + in.Path)
		em.Hit(fmt.Sprintf("flow:report-size=%d", max(in.N, 1)))
		if in.Decoy != nil {
			em.Hit("flow:decoy-first")
		}
		synctest.Test(t, func(t *testing.T) { em.Emit("flow", in, c07FlowRun(t, in)) })
	}
	for _, in := range c07FlowCases() {
		run(in)
	}
	for _, in := range c07FlowBatched() {
		run(in)
	}
	r := NewRng(seed() + 7007)
	for i, n := 0, tierN(400, 6000); i < n; i++ {
		run(c07FlowGen(r))
	}
}
