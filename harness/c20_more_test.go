package harness

import (
	"bytes"
	"context"
	"encoding/json"
	"fmt"
	"io"
	"log"
	"math/big"
	"os"
	"os/exec"
	"path/filepath"
	"sort"
	"strings"
	"sync"
	"sync/atomic"
	"testing"
	"testing/synctest"
	"time"

	ocr2keepers "github.com/smartcontractkit/chainlink-common/pkg/types/automation"
	ocr2plustypes2 "github.com/smartcontractkit/libocr/offchainreporting2plus/types"

	"github.com/smartcontractkit/chainlink-automation/tools/simulator/config"
	"github.com/smartcontractkit/chainlink-automation/tools/simulator/run"
	"github.com/smartcontractkit/chainlink-automation/tools/simulator/simulate/chain"
	simdb "github.com/smartcontractkit/chainlink-automation/tools/simulator/simulate/db"
	"github.com/smartcontractkit/chainlink-automation/tools/simulator/simulate/loader"
	"github.com/smartcontractkit/chainlink-automation/tools/simulator/telemetry"
	"github.com/smartcontractkit/chainlink-automation/tools/simulator/util"
)

// C20 — further case kinds
//   perform  the REAL transmit loader wired to the REAL ProgressTelemetry, as node.NewGroup does: the count the
//            plan expects is registered by NewOCR3TransmitLoader, performs are forced through Transmit + Load,
//            the verdict is read with AllProgressComplete (virtual time)
//   resave   save → save → load through the real output path (run.SetupOutput twice into ONE directory, then
//            run.LoadSimulationPlan of <dir>/simulation_plan.json)
//   track with race=true: a track scenario in a child process of the race build (thorough tier)

// c20RepoDir: the tree under test (bin/check sets VERIF_REPO for runs against a scratch worktree).
func c20RepoDir() string {
	if r := os.Getenv("VERIF_REPO"); r != "" {
		return r
	}
	return "/repo"
}

// ---------------------------------------------------------------- perform

type c20PerformImpl struct {
	Err        string           `json:"err"`
	Success    bool             `json:"success"`
	Early      bool             `json:"early"`
	Lines      []c20TrackerLine `json:"lines"`
	Results    int              `json:"results"`     // len(loader.Results())
	LoadedTxs  int              `json:"loaded_txs"`  // transmits put into blocks
	LoadedPerf int              `json:"loaded_perf"` // results in the reports put into blocks
	Hang       bool             `json:"hang"`        // Load did not return within 30 virtual seconds
	HangBlock  int              `json:"hang_block"`  // 1-based index of the perform-carrying block whose Load hung
	Leak       bool             `json:"leak"`
}

func c20Report(round, n int) []byte {
	results := make([]ocr2keepers.CheckResult, n)
	for i := range results {
		results[i] = ocr2keepers.CheckResult{
			Eligible: true,
			UpkeepID: ocr2keepers.UpkeepIdentifier([32]byte{byte(round), byte(round >> 8), byte(i), byte(i >> 8)}),
			Trigger:  ocr2keepers.NewTrigger(ocr2keepers.BlockNumber(round), [32]byte{1}),
			WorkID:   fmt.Sprintf("work-%d-%d", round, i),
		}
	}
	b, _ := util.EncodeCheckResultsToReportBytes(results)
	return b
}

func c20RunPerform(t *testing.T, in c20Input) (impl c20PerformImpl) {
	impl.Lines = []c20TrackerLine{}
	plan, err := c20CanonToPlan(*in.Plan)
	if err != nil {
		impl.Err = "harness: " + err.Error()
		return impl
	}
	defer func() {
		if p := recover(); p != nil {
			if strings.Contains(fmt.Sprint(p), "blocked goroutines remain") {
				impl.Leak = true // a Load that never returned is still parked in the bubble
				return
			}
			panic(p)
		}
	}()
	synctest.Test(t, func(t *testing.T) {
		var out bytes.Buffer
		var mu sync.Mutex
		p := telemetry.NewProgressTelemetry(c20WriterFunc(func(b []byte) (int, error) { mu.Lock(); defer mu.Unlock(); return out.Write(b) }))
		t0 := time.Now()
		p.Start()
		verdict := make(chan bool, 1)
		go func() { verdict <- p.AllProgressComplete() }()
		synctest.Wait()
		select {
		case v := <-verdict:
			impl.Early = true
			verdict <- v
		default:
		}
		sleepUntil := func(ms int) {
			if d := time.Duration(ms)*time.Millisecond - time.Since(t0); d > 0 {
				time.Sleep(d)
			}
		}
		tl, err := loader.NewOCR3TransmitLoader(plan, p, log.New(io.Discard, "", 0))
		if err != nil {
			impl.Err = err.Error()
			_ = p.Close()
			<-verdict
			time.Sleep(1500 * time.Millisecond)
			return
		}
		incs := append([]c20Inc(nil), in.Performs...)
		sort.SliceStable(incs, func(a, b int) bool { return incs[a].AtMs < incs[b].AtMs })
		at := 0
		if len(incs) > 0 {
			at = incs[len(incs)-1].AtMs
		}
		for k := 0; k < in.TailBlocks; k++ {
			at += 53
			incs = append(incs, c20Inc{AtMs: at, N: int64(in.TailN)})
		}
		closeMs := in.CloseMs
		if in.TailBlocks > 0 {
			closeMs = at + 437
		}
		// the block source calls Load while it holds its lock: a Load that does not return stops block production
		// for good.  Watchdog in VIRTUAL time: with every goroutine blocked the bubble's clock jumps to the timer.
		load := func(block *chain.Block) bool {
			done := make(chan struct{})
			go func() { tl.Load(block); close(done) }()
			select {
			case <-done:
				return true
			case <-time.After(30 * time.Second):
				return false
			}
		}
		for i, inc := range incs {
			sleepUntil(inc.AtMs)
			if err := tl.Transmit(fmt.Sprintf("node-%d", i%4), c20Report(i+1, int(inc.N)), uint64(i+1)); err != nil {
				impl.Err = "transmit: " + err.Error()
			}
			block := chain.Block{Number: big.NewInt(int64(1000 + i))}
			if !load(&block) {
				impl.Hang, impl.HangBlock = true, i+1
				break
			}
			for _, tx := range block.Transactions {
				if pt, ok := tx.(chain.PerformUpkeepTransaction); ok {
					impl.LoadedTxs += len(pt.Transmits)
					for _, tr := range pt.Transmits {
						rs, _ := util.DecodeCheckResultsFromReportBytes(tr.Report)
						impl.LoadedPerf += len(rs)
					}
				}
			}
			synctest.Wait()
		}
		if !impl.Hang {
			sleepUntil(closeMs)
		}
		_ = p.Close()
		impl.Success = <-verdict
		if !impl.Hang {
			impl.Results = len(tl.Results()) // Results needs the loader's lock, which a hung Load keeps
		}
		time.Sleep(1500 * time.Millisecond)
		mu.Lock()
		text := c20StripANSI(out.String())
		mu.Unlock()
		seen := map[string]bool{}
		for _, line := range strings.Split(text, "\n") {
			if m := c20DoneRe.FindStringSubmatch(strings.TrimSpace(line)); m != nil && !seen[m[1]] {
				seen[m[1]] = true
				st := "done"
				if m[2] == "fail!" {
					st = "fail"
				}
				impl.Lines = append(impl.Lines, c20TrackerLine{Msg: strings.TrimSpace(m[1]), State: st, Value: m[3]})
			}
		}
	})
	return impl
}

// c20GenPerform: a runnable plan and performs forced around the count it expects: none, one short, exactly,
// one more, split over several blocks; for a plan that expects none: nothing, an empty report, real performs.
func c20GenPerform(r *Rng) (c20Input, error) {
	var p config.SimulationPlan
	if r.Chance(50) {
		p = c20GenExpectPlan(r)
	} else {
		p = c20GenRunnablePlan(r, false)
	}
	if r.Chance(35) { // make it a plan that expects nothing
		for i := range p.GenerateUpkeeps {
			switch r.Intn(3) {
			case 0:
				p.GenerateUpkeeps[i].Expected = config.NoneExpected
			case 1:
				p.GenerateUpkeeps[i].Count = 0
			default:
				p.GenerateUpkeeps[i].Expected = config.NoneExpected
			}
		}
	}
	in, err := c20PlanInput("perform", "", p, true)
	if err != nil {
		return in, err
	}
	exp := c20ExpectedOf(in.Upkeeps, in.Logs)
	var total int64
	switch r.Intn(6) {
	case 0:
		total = 0
	case 1:
		total = exp - 1
	case 2, 3:
		total = exp
	case 4:
		total = exp + int64(r.Range(1, 3))
	default:
		total = int64(r.Range(0, 6))
	}
	if total < 0 {
		total = 0
	}
	if total > 400 {
		total = 400 // keep reports small; a larger expectation is simply not reached
	}
	in.Performs = []c20Inc{}
	at := 137
	for left := total; left > 0; {
		n := left
		if r.Chance(60) && left > 1 {
			n = int64(r.Range(1, int(left)))
		}
		in.Performs = append(in.Performs, c20Inc{AtMs: at, N: n})
		left -= n
		at += 150 + r.Intn(40)
	}
	if total == 0 && r.Chance(25) {
		in.Performs = append(in.Performs, c20Inc{AtMs: at, N: 0}) // an empty report is put into a block
		at += 150
	}
	in.CloseMs = at + 437 + r.Intn(500)
	if r.Chance(12) {
		// a long run: performs keep arriving for several hundred blocks, typically after the counter has wound down
		// (total reached, or a negative assertion tripped by the first of them)
		in.TailBlocks, in.TailN = []int{101, 120, 250, 400}[r.Intn(4)], r.Range(1, 2)
	}
	return in, nil
}

// c20ExpectedOf: only used to aim the generator at the boundary (the oracle is the Lean model).
func c20ExpectedOf(ups []c20Upkeep, logs []c20Log) int64 {
	var n int64
	for _, u := range ups {
		if !u.Expected {
			continue
		}
		if u.Type == 0 {
			n += int64(len(u.EligibleAt))
			continue
		}
		create, _ := new(big.Int).SetString(u.Create, 10)
		for _, l := range logs {
			at, _ := new(big.Int).SetString(l.At, 10)
			if l.Value != u.By || at.Cmp(create) < 0 {
				continue
			}
			if u.Always {
				n++
				continue
			}
			for _, e := range u.EligibleAt {
				b, _ := new(big.Int).SetString(e, 10)
				if b.Cmp(at) >= 0 {
					n++
					break
				}
			}
		}
	}
	return n
}

// ---------------------------------------------------------------- resave

type c20ResaveImpl struct {
	Schema   c20Schema `json:"schema"`
	Err1     string    `json:"err1"`
	Err2     string    `json:"err2"`
	Size1    int64     `json:"size1"`
	Size2    int64     `json:"size2"` // length of the second plan's own encoding
	FileSize int64     `json:"file_size"`
	DecErr   string    `json:"dec_err"`
	DecIdx   int       `json:"dec_idx"`
	DecMsg   string    `json:"dec_msg"`
	Decoded  *c20Canon `json:"decoded"`
}

func c20RunResave(in c20Input) (impl c20ResaveImpl) {
	impl.Schema = c20ReflectSchema()
	a, err := c20CanonToPlan(*in.Plan)
	if err != nil {
		impl.Err1 = "harness: " + err.Error()
		return impl
	}
	b, err := c20CanonToPlan(*in.Plan2)
	if err != nil {
		impl.Err2 = "harness: " + err.Error()
		return impl
	}
	dir, err := os.MkdirTemp("", "c20resave")
	if err != nil {
		impl.Err1 = "harness: " + err.Error()
		return impl
	}
	defer os.RemoveAll(dir)
	file := filepath.Join(dir, "simulation_plan.json")
	out1, err := run.SetupOutput(dir, true, true, a)
	if err != nil {
		impl.Err1 = err.Error()
		return impl
	}
	_ = out1.Close()
	if st, err := os.Stat(file); err == nil {
		impl.Size1 = st.Size()
	}
	out2, err := run.SetupOutput(dir, true, true, b)
	if err != nil {
		impl.Err2 = err.Error()
		return impl
	}
	_ = out2.Close()
	if st, err := os.Stat(file); err == nil {
		impl.FileSize = st.Size()
	}
	if enc, err := b.Encode(); err == nil {
		impl.Size2 = int64(len(enc))
	}
	p, err := run.LoadSimulationPlan(file)
	impl.DecErr, impl.DecIdx = c20ClassifyDecodeErr(err)
	if err != nil {
		impl.DecMsg = err.Error()
		if len(impl.DecMsg) > 200 {
			impl.DecMsg = impl.DecMsg[:200]
		}
		return impl
	}
	c := c20PlanToCanon(p)
	impl.Decoded = &c
	return impl
}

// c20Shrink: a plan whose encoding is shorter than p's (events dropped, strings cut).
func c20Shrink(r *Rng, p config.SimulationPlan) config.SimulationPlan {
	q := p
	q.ConfigEvents = append([]config.OCR3ConfigEvent(nil), p.ConfigEvents...)
	q.GenerateUpkeeps = append([]config.GenerateUpkeepEvent(nil), p.GenerateUpkeeps...)
	q.LogEvents = append([]config.LogTriggerEvent(nil), p.LogEvents...)
	switch r.Intn(4) {
	case 0:
		if len(q.LogEvents) > 0 {
			q.LogEvents = q.LogEvents[:len(q.LogEvents)-1]
			break
		}
		fallthrough
	case 1:
		if len(q.GenerateUpkeeps) > 0 {
			q.GenerateUpkeeps = q.GenerateUpkeeps[:len(q.GenerateUpkeeps)-1]
			break
		}
		fallthrough
	case 2:
		if len(q.ConfigEvents) > 0 {
			q.ConfigEvents = q.ConfigEvents[:len(q.ConfigEvents)-1]
			break
		}
		fallthrough
	default:
		q.ConfigEvents, q.GenerateUpkeeps, q.LogEvents = nil, nil, nil
		q.Node.MaxQueueSize = 1 // one digit fewer at least, whatever p had
		q.Node.MaxServiceWorkers = 1
		q.RPC = config.RPC{}
	}
	return q
}

// ---------------------------------------------------------------- track in a child of the race build

const c20TrackInEnv = "C20_TRACK_IN"
const c20TrackOutEnv = "C20_TRACK_OUT"

// TestC20TrackChild is the helper run in the child process only.
func TestC20TrackChild(t *testing.T) {
	inPath, outPath := os.Getenv(c20TrackInEnv), os.Getenv(c20TrackOutEnv)
	if inPath == "" || outPath == "" {
		t.Skip("helper for TestC20 (child process only)")
	}
	b, err := os.ReadFile(inPath)
	if err != nil {
		t.Fatal(err)
	}
	var in c20Input
	if err := json.Unmarshal(b, &in); err != nil {
		t.Fatal(err)
	}
	in.Race = false
	c20LastTrack = c20TrackImpl{Lines: []c20TrackerLine{}, Crash: "scenario did not finish"}
	defer func() { // also runs when a detected race ends the test through runtime.Goexit
		o, _ := json.Marshal(c20LastTrack)
		_ = os.WriteFile(outPath, o, 0o644)
	}()
	c20LastTrack = c20RunTrack(t, in)
}

func c20RunTrackChild(in c20Input, exe string) c20TrackImpl {
	var r c20TrackImpl
	for attempt := 0; attempt < 3; attempt++ {
		var tsan bool
		r, tsan = c20RunTrackChildOnce(in, exe)
		if !tsan {
			break
		}
	}
	return r
}

func c20RunTrackChildOnce(in c20Input, exe string) (c20TrackImpl, bool) {
	impl := c20TrackImpl{Lines: []c20TrackerLine{}, RaceSites: []string{}, RaceBuild: true}
	dir, err := os.MkdirTemp("", "c20track")
	if err != nil {
		impl.Crash = "harness: " + err.Error()
		return impl, false
	}
	defer os.RemoveAll(dir)
	b, _ := json.Marshal(in)
	inPath, outPath := filepath.Join(dir, "in.json"), filepath.Join(dir, "out.json")
	_ = os.WriteFile(inPath, b, 0o644)
	cmd := exec.Command(exe, "-test.run", "^TestC20TrackChild$", "-test.timeout", "5m")
	coverChild(cmd)
	cmd.Env = append(os.Environ(), c20TrackInEnv+"="+inPath, c20TrackOutEnv+"="+outPath, "VERIF_OUT="+filepath.Join(dir, "unused.jsonl"))
	var buf bytes.Buffer
	cmd.Stdout, cmd.Stderr = &buf, &buf
	runErr := cmd.Run()
	if o, err := os.ReadFile(outPath); err == nil {
		_ = json.Unmarshal(o, &impl)
	} else {
		impl.Crash = "no result from the child: " + c20Tail(buf.String(), 300)
	}
	impl.RaceBuild, impl.RaceSites = true, []string{}
	if impl.Lines == nil {
		impl.Lines = []c20TrackerLine{}
	}
	impl.RacesIgnored = []string{}
	for _, rep := range c20RaceReports(buf.String()) {
		if !rep.ignored {
			impl.Races++
			impl.RaceSites = append(impl.RaceSites, rep.site)
		} else {
			impl.RacesIgnored = append(impl.RacesIgnored, rep.site)
		}
	}
	sort.Strings(impl.RaceSites)
	sort.Strings(impl.RacesIgnored)
	// the testing package fails a test in which the detector reported anything (exit 1), also for the ignored
	// go-pretty-internal reports
	if ee, ok := runErr.(*exec.ExitError); ok && impl.Races == 0 && len(impl.RacesIgnored) == 0 && impl.Crash == "" && ee.ExitCode() != 66 {
		impl.Crash = fmt.Sprintf("child exit %d: %s", ee.ExitCode(), c20Tail(buf.String(), 300))
	}
	return impl, strings.Contains(buf.String(), "ThreadSanitizer: CHECK failed")
}

// c20RaceExeFor builds the race-enabled test binary against the tree under test.
func c20RaceExeFor(t *testing.T) string {
	if os.Getenv("C20_NO_RACE") != "" {
		return ""
	}
	src := "."
	repo, _ := filepath.EvalSymlinks(c20RepoDir())
	if repo != "/repo" {
		// a scratch worktree: same harness sources, module replaced by that tree (as bin/check does for the plain build)
		tmp, err := os.MkdirTemp("", "c20racesrc")
		if err != nil {
			return ""
		}
		defer os.RemoveAll(tmp)
		files, _ := filepath.Glob("*.go")
		files = append(files, "go.mod")
		for _, f := range files {
			b, err := os.ReadFile(f)
			if err != nil {
				return ""
			}
			if f == "go.mod" {
				b = bytes.ReplaceAll(b, []byte("=> /repo"), []byte("=> "+repo))
			}
			_ = os.WriteFile(filepath.Join(tmp, f), b, 0o644)
		}
		if b, err := os.ReadFile(filepath.Join(repo, "go.sum")); err == nil {
			_ = os.WriteFile(filepath.Join(tmp, "go.sum"), b, 0o644)
		}
		src = tmp
	}
	exe := filepath.Join(os.TempDir(), fmt.Sprintf("c20race.%d.test", os.Getpid()))
	cmd := exec.Command("go1.26.8", "test", "-c", "-race", "-tags", "verif", "-o", exe, ".")
	if os.Getenv("VERIF_COVERDIR") != "" {
		cmd = exec.Command("go1.26.8", "test", "-c", "-race", "-tags", "verif", "-cover", "-coverpkg=github.com/smartcontractkit/chainlink-automation/...", "-o", exe, ".")
	}
	cmd.Dir = src
	cmd.Env = append(os.Environ(), "GOFLAGS=-mod=mod", "GOPROXY=off", "GOSUMDB=off", "GOTOOLCHAIN=local")
	if out, err := cmd.CombinedOutput(); err != nil {
		t.Logf("race build not available: %v\n%s", err, c20Tail(string(out), 600))
		return ""
	}
	return exe
}

// c20NegativePerformPlan: a plan that expects NO perform although its upkeep will be performed (an always
// eligible log-trigger upkeep marked expected:"none", its log emitted, healthy RPC): the verdict must be failure.
// It is also the LONG run of the quick tier: 130 blocks, more than the 100-element buffers between the chain
// components and their subscribers, with logs (and performs) spread over the whole run.
func c20NegativePerformPlan() config.SimulationPlan {
	genesis := int64(7000)
	return config.SimulationPlan{
		Node:         config.Node{Count: 4, MaxServiceWorkers: 100, MaxQueueSize: 1000},
		Network:      config.Network{MaxLatency: config.Duration(50 * time.Millisecond)},
		RPC:          config.RPC{MaxBlockDelay: 100, AverageLatency: 50, ErrorRate: 0, RateLimitThreshold: 1000},
		Blocks:       config.Blocks{Genesis: big.NewInt(genesis), Cadence: config.Duration(time.Second), Duration: 115, EndPadding: 15},
		ConfigEvents: []config.OCR3ConfigEvent{c20ConfigEvent(genesis+1, 1)},
		GenerateUpkeeps: []config.GenerateUpkeepEvent{{
			Event: config.Event{Type: config.GenerateUpkeepEventType, TriggerBlock: big.NewInt(genesis + 2)},
			Count: 2, StartID: big.NewInt(300), EligibilityFunc: "always", UpkeepType: config.LogTriggerUpkeepType,
			LogTriggeredBy: "test_trigger_event", Expected: config.NoneExpected,
		}},
		LogEvents: []config.LogTriggerEvent{
			{Event: config.Event{Type: config.LogTriggerEventType, TriggerBlock: big.NewInt(genesis + 12)}, TriggerValue: "test_trigger_event"},
			{Event: config.Event{Type: config.LogTriggerEventType, TriggerBlock: big.NewInt(genesis + 60)}, TriggerValue: "test_trigger_event"},
			{Event: config.Event{Type: config.LogTriggerEventType, TriggerBlock: big.NewInt(genesis + 105)}, TriggerValue: "test_trigger_event"},
		},
	}
}

// c20LateTransmitPlan: a log is emitted in the LAST block (slow 5 s cadence, no end padding): the always
// eligible log-trigger upkeeps are checked and their report is transmitted after the last block, inside the
// one-cadence window before the run is wound up — a transmit that is never included in a block (block number
// nil, "<nil>" in the chart), next to two earlier, included ones.  20 of 20 runs when this was written.
func c20LateTransmitPlan() config.SimulationPlan {
	genesis := int64(5000)
	return config.SimulationPlan{
		Node:         config.Node{Count: 4, MaxServiceWorkers: 100, MaxQueueSize: 1000},
		Network:      config.Network{MaxLatency: config.Duration(50 * time.Millisecond)},
		RPC:          config.RPC{MaxBlockDelay: 600, AverageLatency: 300, ErrorRate: 0, RateLimitThreshold: 1000},
		Blocks:       config.Blocks{Genesis: big.NewInt(genesis), Cadence: config.Duration(5 * time.Second), Duration: 18, EndPadding: 0},
		ConfigEvents: []config.OCR3ConfigEvent{c20ConfigEvent(genesis+1, 1)},
		GenerateUpkeeps: []config.GenerateUpkeepEvent{{
			Event: config.Event{Type: config.GenerateUpkeepEventType, TriggerBlock: big.NewInt(genesis)},
			Count: 2, StartID: big.NewInt(300), EligibilityFunc: "always", UpkeepType: config.LogTriggerUpkeepType,
			LogTriggeredBy: "test_trigger_event", Expected: config.AllExpected,
		}},
		LogEvents: []config.LogTriggerEvent{
			{Event: config.Event{Type: config.LogTriggerEventType, TriggerBlock: big.NewInt(genesis + 10)}, TriggerValue: "test_trigger_event"},
			{Event: config.Event{Type: config.LogTriggerEventType, TriggerBlock: big.NewInt(genesis + 18)}, TriggerValue: "test_trigger_event"},
		},
	}
}

// ---------------------------------------------------------------- collector stress (thorough tier)

// The summary (Group.ReportResults -> ContractEventCollector.Data) runs while the node services are still live
// and keep recording checks (WrappedContractCollector.CheckID).  Un-timed stress through the exported API, in a
// child process (an unsynchronised map access ends a Go process with an unrecoverable fatal error): `nodes`
// goroutines record every (upkeep, block) pair of an n_upkeep × n_block grid, `reads` calls of Data() run
// concurrently; a final Data() must list every upkeep with exactly n_block distinct blocks.

const c20CollectorOutEnv = "C20_COLLECTOR_OUT"

type c20CollectorResult struct {
	IDs    int  `json:"ids"`
	MinLen int  `json:"min_len"`
	MaxLen int  `json:"max_len"`
	Dup    bool `json:"dup"`
	Done   bool `json:"done"`
	// filled by the parent
	Crash     string   `json:"crash"`
	CrashAt   string   `json:"crash_at"`
	Races     int      `json:"races"`
	RaceSites []string `json:"race_sites"`
	RaceBuild bool     `json:"race_build"`
	WallMs    int64    `json:"wall_ms"`
}

// TestC20CollectorChild is the helper run in the child process only.
func TestC20CollectorChild(t *testing.T) {
	outPath := os.Getenv(c20CollectorOutEnv)
	if outPath == "" {
		t.Skip("helper for TestC20 (child process only)")
	}
	var in c20Input
	if err := json.Unmarshal([]byte(os.Getenv("C20_COLLECTOR_IN")), &in); err != nil {
		t.Fatal(err)
	}
	col := telemetry.NewContractEventCollector(log.New(io.Discard, "", 0))
	for n := 0; n < in.Nodes; n++ {
		_ = col.AddNode(fmt.Sprintf("n%d", n))
	}
	var wg sync.WaitGroup
	start := make(chan struct{})
	for n := 0; n < in.Nodes; n++ {
		wg.Add(1)
		go func(n int) {
			defer wg.Done()
			w := col.ContractEventCollectorNode(fmt.Sprintf("n%d", n))
			<-start
			for i := 0; i < in.Rounds; i++ {
				j := i + n*17
				w.CheckID(fmt.Sprintf("upkeep-%d", j%in.NUpkeep), uint64(1000+(j/in.NUpkeep)%in.NBlock), [32]byte{})
			}
		}(n)
	}
	close(start)
	for i := 0; i < in.Reads; i++ {
		col.Data()
	}
	wg.Wait()
	_, lookup := col.Data()
	res := c20CollectorResult{IDs: len(lookup), MinLen: -1, Done: true}
	for _, blocks := range lookup {
		seen := map[string]bool{}
		for _, b := range blocks {
			if seen[b] {
				res.Dup = true
			}
			seen[b] = true
		}
		if res.MinLen < 0 || len(blocks) < res.MinLen {
			res.MinLen = len(blocks)
		}
		if len(blocks) > res.MaxLen {
			res.MaxLen = len(blocks)
		}
	}
	b, _ := json.Marshal(res)
	_ = os.WriteFile(outPath, b, 0o644)
}

func c20RunCollector(in c20Input, exe string, raceBuild bool) c20CollectorResult {
	var r c20CollectorResult
	for attempt := 0; attempt < 3; attempt++ {
		var tsan bool
		r, tsan = c20RunCollectorOnce(in, exe, raceBuild)
		if !tsan {
			break
		}
	}
	return r
}

func c20RunCollectorOnce(in c20Input, exe string, raceBuild bool) (c20CollectorResult, bool) {
	res := c20CollectorResult{RaceSites: []string{}, RaceBuild: raceBuild}
	dir, err := os.MkdirTemp("", "c20collector")
	if err != nil {
		res.Crash = "harness: " + err.Error()
		return res, false
	}
	defer os.RemoveAll(dir)
	outPath := filepath.Join(dir, "result.json")
	inJSON, _ := json.Marshal(in)
	cmd := exec.Command(exe, "-test.run", "^TestC20CollectorChild$", "-test.timeout", "5m")
	coverChild(cmd)
	cmd.Env = append(os.Environ(), c20CollectorOutEnv+"="+outPath, "C20_COLLECTOR_IN="+string(inJSON), "VERIF_OUT="+filepath.Join(dir, "unused.jsonl"))
	var buf bytes.Buffer
	cmd.Stdout, cmd.Stderr = &buf, &buf
	t0 := time.Now()
	runErr := cmd.Run()
	if b, err := os.ReadFile(outPath); err == nil {
		_ = json.Unmarshal(b, &res)
	}
	res.RaceSites, res.RaceBuild = []string{}, raceBuild
	res.WallMs = time.Since(t0).Milliseconds()
	out := buf.String()
	for _, rep := range c20RaceReports(out) {
		if !rep.ignored {
			res.Races++
			res.RaceSites = append(res.RaceSites, rep.site)
		}
	}
	sort.Strings(res.RaceSites)
	res.Crash, res.CrashAt, _ = c20CrashSite(out)
	if ee, ok := runErr.(*exec.ExitError); ok && res.Crash == "" && res.Races == 0 {
		res.Crash = fmt.Sprintf("child exit %d: %s", ee.ExitCode(), c20Tail(out, 300))
	}
	return res, strings.Contains(out, "ThreadSanitizer: CHECK failed")
}

// ---------------------------------------------------------------- simulated databases under concurrent callers

// libocr calls a node's OCR3 database from several goroutines (protocol state, config), and the node's four
// ineligible post-processors (log trigger, retry, two recovery flows) share one upkeep-state updater.  Un-timed
// stress through the exported API in a child process (a plain build dies with an unrecoverable "concurrent map
// ..." fatal error when a map is not guarded): `nodes` goroutines x `rounds` calls.
//   part "ocr3":   Write/ReadProtocolState over 8 keys, Write/ReadConfig; every read must return a value some
//                  writer wrote; after the join every key holds the value of the last round that wrote it
//   part "upkeep": SetUpkeepState over 64 work ids; every call must return nil

const c20DBOutEnv = "C20_DB_OUT"

type c20DBResult struct {
	Calls    int64 `json:"calls"`
	Errors   int64 `json:"errors"`
	BadReads int64 `json:"bad_reads"` // a read returned something no writer wrote
	FinalOK  bool  `json:"final_ok"`
	Done     bool  `json:"done"`
	// filled by the parent
	Crash     string   `json:"crash"`
	CrashAt   string   `json:"crash_at"`
	Races     int      `json:"races"`
	RaceSites []string `json:"race_sites"`
	RaceBuild bool     `json:"race_build"`
	WallMs    int64    `json:"wall_ms"`
}

// TestC20DBChild is the helper run in the child process only.
func TestC20DBChild(t *testing.T) {
	outPath := os.Getenv(c20DBOutEnv)
	if outPath == "" {
		t.Skip("helper for TestC20 (child process only)")
	}
	var in c20Input
	if err := json.Unmarshal([]byte(os.Getenv("C20_DB_IN")), &in); err != nil {
		t.Fatal(err)
	}
	var res c20DBResult
	var calls, errs, bad atomic.Int64
	var wg sync.WaitGroup
	start := make(chan struct{})
	ctx := context.Background()
	const keys = 8
	switch in.Part {
	case "ocr3":
		d := simdb.NewSimulatedOCR3Database()
		var digest ocr2plustypes2.ConfigDigest
		for g := 0; g < in.Nodes; g++ {
			wg.Add(1)
			go func(g int) {
				defer wg.Done()
				<-start
				for i := 0; i < in.Rounds; i++ {
					key := fmt.Sprintf("k%d", i%keys)
					if err := d.WriteProtocolState(ctx, digest, key, []byte{byte(g), byte(i), byte(i >> 8)}); err != nil {
						errs.Add(1)
					}
					v, err := d.ReadProtocolState(ctx, digest, key)
					if err != nil {
						errs.Add(1)
					}
					if len(v) != 3 || int(v[0]) >= in.Nodes || (int(v[1])|int(v[2])<<8)%keys != i%keys {
						bad.Add(1)
					}
					calls.Add(2)
					if i%16 == 0 {
						if err := d.WriteConfig(ctx, ocr2plustypes2.ContractConfig{ConfigCount: uint64(i + 1)}); err != nil {
							errs.Add(1)
						}
						c, err := d.ReadConfig(ctx)
						if err != nil || c == nil || c.ConfigCount == 0 {
							bad.Add(1)
						}
						calls.Add(2)
					}
				}
			}(g)
		}
		close(start)
		wg.Wait()
		res.FinalOK = true
		for k := 0; k < keys && k < in.Rounds; k++ {
			last := in.Rounds - 1 - (in.Rounds-1-k)%keys // the last round that wrote key k
			v, _ := d.ReadProtocolState(ctx, digest, fmt.Sprintf("k%d", k))
			if len(v) != 3 || int(v[1])|int(v[2])<<8 != last&0xffff {
				res.FinalOK = false
			}
		}
		// "writing with a nil value is the same as deleting"; an unknown key reads as nil
		_ = d.WriteProtocolState(ctx, digest, "k0", nil)
		if v, _ := d.ReadProtocolState(ctx, digest, "k0"); v != nil {
			res.FinalOK = false
		}
		if v, err := d.ReadProtocolState(ctx, digest, "unknown"); v != nil || err != nil {
			res.FinalOK = false
		}
	case "upkeep":
		u := simdb.NewUpkeepStateDatabase()
		for g := 0; g < in.Nodes; g++ {
			wg.Add(1)
			go func(g int) {
				defer wg.Done()
				<-start
				for i := 0; i < in.Rounds; i++ {
					if err := u.SetUpkeepState(ctx, ocr2keepers.CheckResult{WorkID: fmt.Sprintf("w%d", (i+g)%64)}, ocr2keepers.Ineligible); err != nil {
						errs.Add(1)
					}
					calls.Add(1)
				}
			}(g)
		}
		close(start)
		wg.Wait()
		res.FinalOK = true
	default:
		t.Fatalf("unknown part %q", in.Part)
	}
	res.Calls, res.Errors, res.BadReads, res.Done = calls.Load(), errs.Load(), bad.Load(), true
	b, _ := json.Marshal(res)
	_ = os.WriteFile(outPath, b, 0o644)
}

func c20RunDB(in c20Input, exe string, raceBuild bool) c20DBResult {
	var r c20DBResult
	for attempt := 0; attempt < 3; attempt++ {
		var tsan bool
		r, tsan = c20RunDBOnce(in, exe, raceBuild)
		if !tsan {
			break
		}
	}
	return r
}

func c20RunDBOnce(in c20Input, exe string, raceBuild bool) (c20DBResult, bool) {
	res := c20DBResult{RaceSites: []string{}, RaceBuild: raceBuild}
	dir, err := os.MkdirTemp("", "c20db")
	if err != nil {
		res.Crash = "harness: " + err.Error()
		return res, false
	}
	defer os.RemoveAll(dir)
	outPath := filepath.Join(dir, "result.json")
	inJSON, _ := json.Marshal(in)
	cmd := exec.Command(exe, "-test.run", "^TestC20DBChild$", "-test.timeout", "5m")
	coverChild(cmd)
	cmd.Env = append(os.Environ(), c20DBOutEnv+"="+outPath, "C20_DB_IN="+string(inJSON), "VERIF_OUT="+filepath.Join(dir, "unused.jsonl"))
	var buf bytes.Buffer
	cmd.Stdout, cmd.Stderr = &buf, &buf
	t0 := time.Now()
	runErr := cmd.Run()
	if b, err := os.ReadFile(outPath); err == nil {
		_ = json.Unmarshal(b, &res)
	}
	res.RaceSites, res.RaceBuild = []string{}, raceBuild
	res.WallMs = time.Since(t0).Milliseconds()
	out := buf.String()
	for _, rep := range c20RaceReports(out) {
		if !rep.ignored {
			res.Races++
			res.RaceSites = append(res.RaceSites, rep.site)
		}
	}
	sort.Strings(res.RaceSites)
	res.Crash, res.CrashAt, _ = c20CrashSite(out)
	if ee, ok := runErr.(*exec.ExitError); ok && res.Crash == "" && res.Races == 0 {
		res.Crash = fmt.Sprintf("child exit %d: %s", ee.ExitCode(), c20Tail(out, 300))
	}
	return res, strings.Contains(out, "ThreadSanitizer: CHECK failed")
}

// c20FastChainPlan: a fast chain (25 ms blocks, the block source ticking many times while the run is wound up):
// 2400 blocks = 60 s, one log-trigger upkeep performed once.  Winding a run up (summary, closing the nodes one
// after the other, closing the collectors) takes many block cadences here.
func c20FastChainPlan() config.SimulationPlan {
	genesis := int64(9000)
	return config.SimulationPlan{
		Node:         config.Node{Count: 4, MaxServiceWorkers: 100, MaxQueueSize: 1000},
		Network:      config.Network{MaxLatency: config.Duration(30 * time.Millisecond)},
		RPC:          config.RPC{MaxBlockDelay: 10, AverageLatency: 20, ErrorRate: 0, RateLimitThreshold: 1000},
		Blocks:       config.Blocks{Genesis: big.NewInt(genesis), Cadence: config.Duration(25 * time.Millisecond), Duration: 2000, EndPadding: 400},
		ConfigEvents: []config.OCR3ConfigEvent{c20ConfigEvent(genesis+40, 1)},
		GenerateUpkeeps: []config.GenerateUpkeepEvent{{
			Event: config.Event{Type: config.GenerateUpkeepEventType, TriggerBlock: big.NewInt(genesis + 10)},
			Count: 1, StartID: big.NewInt(300), EligibilityFunc: "always", UpkeepType: config.LogTriggerUpkeepType,
			LogTriggeredBy: "test_trigger_event", Expected: config.AllExpected,
		}},
		LogEvents: []config.LogTriggerEvent{
			{Event: config.Event{Type: config.LogTriggerEventType, TriggerBlock: big.NewInt(genesis + 800)}, TriggerValue: "test_trigger_event"},
		},
	}
}
