package harness

import (
	"bytes"
	"encoding/json"
	"fmt"
	"io"
	"log"
	"math"
	"math/big"
	"os"
	"path/filepath"
	"regexp"
	"sort"
	"strconv"
	"strings"
	"sync"
	"testing"
	"testing/synctest"
	"time"

	ocr2keepers "github.com/smartcontractkit/chainlink-common/pkg/types/automation"

	"github.com/smartcontractkit/chainlink-automation/tools/simulator/config"
	"github.com/smartcontractkit/chainlink-automation/tools/simulator/node"
	"github.com/smartcontractkit/chainlink-automation/tools/simulator/simulate/chain"
	"github.com/smartcontractkit/chainlink-automation/tools/simulator/simulate/loader"
	"github.com/smartcontractkit/chainlink-automation/tools/simulator/telemetry"
)

// C20 — A simulation's verdict is faithful and its run upholds protocol invariants (PARTIAL).
//
// Five kinds of cases (input.kind), all through exported entry points of /repo:
//   plan    config.SimulationPlan.Encode → config.DecodeSimulationPlan (save → load)
//   expect  loader.NewOCR3TransmitLoader registers the expected perform count
//   stats   node.Group.ReportResults on a synthetic run record (panics caught)
//   track   telemetry.ProgressTelemetry under a scripted schedule, virtual time
//   sim     the whole simulator with real libocr in a child process (c20_sim_test.go)
//   churn   a node's block source with subscribers coming and going while blocks flow (c20_churn_test.go)

type c20Upkeep struct {
	Expected   bool     `json:"expected"`
	Type       int      `json:"type"` // chain.ConditionalType = 0, chain.LogTriggerType = 1
	EligibleAt []string `json:"eligible_at"`
	Create     string   `json:"create"`
	By         string   `json:"by"`
	Always     bool     `json:"always"`
}
type c20Log struct {
	At    string `json:"at"`
	Value string `json:"value"`
}
type c20Inc struct {
	AtMs int   `json:"at_ms"`
	N    int64 `json:"n"`
}
type c20Tracker struct {
	Total int64    `json:"total"`
	Incs  []c20Inc `json:"incs"`
}

type c20Input struct {
	Kind string `json:"kind"`
	Name string `json:"name,omitempty"`
	// plan / expect / sim
	Plan    *c20Canon   `json:"plan,omitempty"`
	Upkeeps []c20Upkeep `json:"upkeeps,omitempty"`
	Logs    []c20Log    `json:"logs,omitempty"`
	// stats
	Counts []int `json:"counts,omitempty"`
	// track
	PreMs      int          `json:"pre_ms,omitempty"`      // virtual time between Start() and the first Register()
	BlockFirst bool         `json:"block_first,omitempty"` // the caller blocks right after Start() (before anything is registered)
	Trackers   []c20Tracker `json:"trackers,omitempty"`
	CloseMs    int          `json:"close_ms,omitempty"`
	// sim
	Race bool `json:"race,omitempty"`
	// sim: run the child on the real clock (no synctest bubble)
	Realtime bool `json:"realtime,omitempty"`
	// perform (forced performs, in virtual ms) / resave (the second plan)
	Performs []c20Inc `json:"performs,omitempty"`
	// perform: after the listed performs, tail_blocks further blocks each carrying a report with tail_n results
	TailBlocks int `json:"tail_blocks,omitempty"`
	TailN      int `json:"tail_n,omitempty"`
	// collector (stress of the contract-event collector): nodes × rounds CheckID calls over upkeeps × blocks, reads Data() calls
	Nodes   int `json:"nodes,omitempty"`
	NUpkeep int `json:"n_upkeep,omitempty"`
	NBlock  int `json:"n_block,omitempty"`
	Reads   int `json:"reads,omitempty"`
	// pipeline (chain side of the nodes: trackers + check pipeline)
	Pipeline *c20PipelineIn `json:"pipeline,omitempty"`
	// db (stress of the simulated databases): part "ocr3" | "upkeep"; nodes goroutines x rounds calls
	Part  string    `json:"part,omitempty"`
	Plan2 *c20Canon `json:"plan2,omitempty"`
	// transmit (concurrent stress of the transmit loader)
	Rounds    int `json:"rounds,omitempty"`
	K         int `json:"k,omitempty"`
	PerReport int `json:"per_report,omitempty"`
	// churn (subscribers of a node's block source coming and going while blocks flow)
	Churn *c20ChurnIn `json:"churn,omitempty"`
}

// ---------------------------------------------------------------- plan

type c20PlanImpl struct {
	Schema    c20Schema `json:"schema"`
	EncErr    string    `json:"enc_err"`
	Skel      c20Skel   `json:"skel"`
	DecErr    string    `json:"dec_err"` // "" | "unrecognized" | "event" | "typed" | "decode"
	DecIdx    int       `json:"dec_idx"`
	Decoded   *c20Canon `json:"decoded"`
	ReencSame bool      `json:"reenc_same"`
}

var c20IdxRe = regexp.MustCompile(`at index (\d+)`)

func c20ClassifyDecodeErr(err error) (string, int) {
	if err == nil {
		return "", 0
	}
	s := err.Error()
	idx := 0
	if m := c20IdxRe.FindStringSubmatch(s); m != nil {
		idx, _ = strconv.Atoi(m[1])
	}
	switch {
	case strings.Contains(s, "unrecognized event"):
		return "unrecognized", idx
	case strings.Contains(s, "failed to decode event in simulation plan"):
		return "event", idx
	case strings.Contains(s, "event in simulation plan at index"):
		return "typed", idx
	}
	return "decode", 0
}

func c20RunPlan(in c20Input) c20PlanImpl {
	impl := c20PlanImpl{Schema: c20ReflectSchema(), Skel: c20Skel{Top: []string{}, Events: [][]string{}}}
	plan, err := c20CanonToPlan(*in.Plan)
	if err != nil {
		impl.EncErr = "harness: " + err.Error()
		return impl
	}
	b, err := plan.Encode()
	if err != nil {
		impl.EncErr = err.Error()
		return impl
	}
	impl.Skel = c20Skeleton(b)
	p2, err := config.DecodeSimulationPlan(b)
	impl.DecErr, impl.DecIdx = c20ClassifyDecodeErr(err)
	if err != nil {
		return impl
	}
	c := c20PlanToCanon(p2)
	impl.Decoded = &c
	// a plan that was loaded is in saved form: saving and loading it again must give it back exactly
	if b2, err := p2.Encode(); err == nil {
		if p3, err := config.DecodeSimulationPlan(b2); err == nil {
			impl.ReencSame = c20CanonEqual(c, c20PlanToCanon(p3))
		}
	}
	return impl
}

// ---------------------------------------------------------------- expect

type c20ExpectImpl struct {
	Expected  int64  `json:"expected"`
	Namespace string `json:"namespace"`
	GenSame   bool   `json:"gen_same"`
	Err       string `json:"err"`
}

type c20RecProgress struct {
	mu   sync.Mutex
	regs []struct {
		ns    string
		total int64
	}
}

func (p *c20RecProgress) Register(ns string, total int64) error {
	p.mu.Lock()
	defer p.mu.Unlock()
	p.regs = append(p.regs, struct {
		ns    string
		total int64
	}{ns, total})
	return nil
}
func (p *c20RecProgress) Increment(string, int64) {}

func c20Generated(plan config.SimulationPlan) ([]c20Upkeep, []c20Log, error) {
	ups, err := chain.GenerateAllUpkeeps(plan)
	if err != nil {
		return nil, nil, err
	}
	lgs, err := chain.GenerateLogTriggers(plan)
	if err != nil {
		return nil, nil, err
	}
	outU := []c20Upkeep{}
	for _, u := range ups {
		cu := c20Upkeep{Expected: u.Expected, Type: int(u.Type), EligibleAt: []string{}, Create: u.CreateInBlock.String(), By: u.TriggeredBy, Always: u.AlwaysEligible}
		for _, e := range u.EligibleAt {
			cu.EligibleAt = append(cu.EligibleAt, e.String())
		}
		outU = append(outU, cu)
	}
	outL := []c20Log{}
	for _, l := range lgs {
		outL = append(outL, c20Log{At: l.TriggerAt.String(), Value: l.TriggerValue})
	}
	return outU, outL, nil
}

func c20RunExpect(in c20Input) c20ExpectImpl {
	var impl c20ExpectImpl
	plan, err := c20CanonToPlan(*in.Plan)
	if err != nil {
		impl.Err = "harness: " + err.Error()
		return impl
	}
	rec := &c20RecProgress{}
	if _, err := loader.NewOCR3TransmitLoader(plan, rec, log.New(io.Discard, "", 0)); err != nil {
		impl.Err = err.Error()
		return impl
	}
	if len(rec.regs) != 1 {
		impl.Err = fmt.Sprintf("%d registrations", len(rec.regs))
		return impl
	}
	impl.Expected, impl.Namespace = rec.regs[0].total, rec.regs[0].ns
	u2, l2, err := c20Generated(plan)
	a, _ := json.Marshal([]any{u2, l2})
	b, _ := json.Marshal([]any{in.Upkeeps, in.Logs})
	impl.GenSame = err == nil && bytes.Equal(a, b)
	return impl
}

// ---------------------------------------------------------------- stats

type c20Printed struct {
	Q1x4    int64 `json:"q1x4"`
	Medx4   int64 `json:"medx4"`
	Q3x4    int64 `json:"q3x4"`
	IQRx4   int64 `json:"iqrx4"`
	LFx4    int64 `json:"lfx4"`
	UFx4    int64 `json:"ufx4"`
	Lowest  int64 `json:"lowest"`
	LowN    int64 `json:"low_n"`
	Highest int64 `json:"highest"`
	HighN   int64 `json:"high_n"`
}
type c20StatsImpl struct {
	Panic    string     `json:"panic"`
	End      bool       `json:"end"`
	TotalIDs int        `json:"total_ids"`
	Printed  c20Printed `json:"printed"`
}

func c20MinimalPlan() config.SimulationPlan {
	return config.SimulationPlan{
		Node:   config.Node{Count: 4, MaxServiceWorkers: 10, MaxQueueSize: 100},
		Blocks: config.Blocks{Genesis: big.NewInt(1000), Cadence: config.Duration(time.Second), Duration: 10, EndPadding: 2},
	}
}

// c20RunStats drives the summary through the exported report writer
// node.(*Group).ReportResults with a synthetic run record: len(counts) upkeeps,
// upkeep i checked at counts[i] distinct blocks (recorded through the exported
// contract-event collector), no transmits.
func c20RunStats(in c20Input) (impl c20StatsImpl) {
	impl.Printed = c20Printed{Lowest: -1, Highest: -1}
	var out bytes.Buffer
	var mu sync.Mutex
	logger := log.New(c20WriterFunc(func(b []byte) (int, error) { mu.Lock(); defer mu.Unlock(); return out.Write(b) }), "", 0)
	col := telemetry.NewContractEventCollector(logger)
	_ = col.AddNode("n0")
	_ = col.AddNode("n1")
	ups := make([]chain.SimulatedUpkeep, len(in.Counts))
	for i, c := range in.Counts {
		id := big.NewInt(int64(1000 + i))
		var uid [32]byte
		uid[0], uid[1], uid[2], uid[31] = byte(i>>8), byte(i), 0x5a, byte(i)
		ups[i] = chain.SimulatedUpkeep{ID: id, CreateInBlock: big.NewInt(1000), UpkeepID: uid, Type: chain.ConditionalType, EligibleAt: []*big.Int{}}
		key := ocr2keepers.UpkeepIdentifier(uid).String()
		for k := 0; k < c; k++ {
			// two nodes see overlapping block sets; Data() merges them
			col.ContractEventCollectorNode("n0").CheckID(key, uint64(1000+k), [32]byte{})
			if k%2 == 0 {
				col.ContractEventCollectorNode("n1").CheckID(key, uint64(1000+k), [32]byte{})
			}
		}
	}
	progress := telemetry.NewProgressTelemetry(io.Discard)
	g, err := node.NewGroup(node.GroupConfig{
		SimulationPlan: c20MinimalPlan(),
		Upkeeps:        ups,
		Collectors:     []telemetry.Collector{col},
		Logger:         logger,
	}, progress)
	defer func() {
		_ = progress.Close() // ends the track goroutines started by Register
		time.Sleep(time.Second)
	}()
	if err != nil {
		impl.Panic = "NewGroup: " + err.Error()
		return impl
	}
	func() {
		defer func() {
			if p := recover(); p != nil {
				impl.Panic = fmt.Sprint(p)
			}
		}()
		g.ReportResults()
	}()
	mu.Lock()
	text := out.String()
	mu.Unlock()
	x4 := func(s string) int64 {
		f, err := strconv.ParseFloat(strings.TrimSpace(s), 64)
		if err != nil || math.IsNaN(f) {
			return math.MinInt32
		}
		return int64(math.Round(f * 4))
	}
	num := func(s string) int64 { n, _ := strconv.ParseInt(strings.TrimSpace(s), 10, 64); return n }
	for _, line := range strings.Split(text, "\n") {
		after := func(prefix string) (string, bool) {
			if i := strings.Index(line, prefix); i >= 0 {
				return line[i+len(prefix):], true
			}
			return "", false
		}
		if v, ok := after("total ids: "); ok {
			impl.TotalIDs = int(num(v))
		} else if v, ok := after("IQR: "); ok {
			impl.Printed.IQRx4 = x4(v)
		} else if v, ok := after("Lower Fence (Q1 - 1.5*IQR): "); ok {
			impl.Printed.LFx4 = x4(v)
		} else if v, ok := after("Upper Fence (Q3 + 1.5*IQR): "); ok {
			impl.Printed.UFx4 = x4(v)
		} else if v, ok := after("Q1: "); ok {
			impl.Printed.Q1x4 = x4(v)
		} else if v, ok := after("Median: "); ok {
			impl.Printed.Medx4 = x4(v)
		} else if v, ok := after("Q3: "); ok {
			impl.Printed.Q3x4 = x4(v)
		} else if v, ok := after("lowest value: "); ok {
			impl.Printed.Lowest = num(v)
		} else if v, ok := after("lower outliers (count): "); ok {
			impl.Printed.LowN = num(v)
		} else if v, ok := after("highest value: "); ok {
			impl.Printed.Highest = num(v)
		} else if v, ok := after("upper outliers (count): "); ok {
			impl.Printed.HighN = num(v)
		} else if strings.Contains(line, "================ end ================") {
			impl.End = true
		}
	}
	return impl
}

// ---------------------------------------------------------------- track

type c20TrackImpl struct {
	Success bool             `json:"success"`
	Early   bool             `json:"early"` // verdict already taken before anything was registered
	Leak    bool             `json:"leak"`  // bubble ended with blocked goroutines (the renderer was never stopped)
	Lines   []c20TrackerLine `json:"lines"`
	// filled by the parent when the scenario ran in a child of the race build
	Races        int      `json:"races"`
	RaceSites    []string `json:"race_sites"`
	RacesIgnored []string `json:"races_ignored"`
	RaceBuild    bool     `json:"race_build"`
	Crash        string   `json:"crash"`
}

// c20RunTrack scripts the real ProgressTelemetry in virtual time, in the order
// cmd/simulator/main.go uses it: Start, (preparation time), Register…, increments, Close,
// AllProgressComplete.  Harness operations stay off the 100 ms tick grid.
var c20LastTrack c20TrackImpl

func c20RunTrack(t *testing.T, in c20Input) (impl c20TrackImpl) {
	impl.Lines = []c20TrackerLine{}
	defer func() {
		if p := recover(); p != nil {
			if strings.Contains(fmt.Sprint(p), "blocked goroutines remain") {
				impl.Leak = true
				return
			}
			panic(p)
		}
	}()
	synctest.Test(t, func(t *testing.T) {
		var out bytes.Buffer
		var mu sync.Mutex
		p := telemetry.NewProgressTelemetry(c20WriterFunc(func(b []byte) (int, error) { mu.Lock(); defer mu.Unlock(); return out.Write(b) }))
		t0 := time.Now()
		p.Start()
		if in.BlockFirst {
			// the caller blocks before anything else is started: the scheduler runs its run-next slot
			// (checkProgress, started last) before Render
			synctest.Wait()
		}
		// main.go goes straight on into node.NewGroup, whose Register calls start goroutines; the first of
		// them moves checkProgress out of the run-next slot, behind Render.  The goroutine below does the same.
		verdict := make(chan bool, 1)
		go func() { verdict <- p.AllProgressComplete() }()
		synctest.Wait()
		select {
		case v := <-verdict:
			impl.Early = true
			verdict <- v
		default:
		}
		sleepUntil := func(ms int) {
			if d := time.Duration(ms)*time.Millisecond - time.Since(t0); d > 0 {
				time.Sleep(d)
			}
		}
		sleepUntil(in.PreMs)
		ns := make([]string, len(in.Trackers))
		for i, tr := range in.Trackers {
			ns[i] = fmt.Sprintf("counter %d", i)
			_ = p.Register(ns[i], tr.Total)
		}
		type ev struct {
			at, i int
			n     int64
		}
		var evs []ev
		for i, tr := range in.Trackers {
			for _, inc := range tr.Incs {
				evs = append(evs, ev{inc.AtMs, i, inc.N})
			}
		}
		sort.SliceStable(evs, func(a, b int) bool { return evs[a].at < evs[b].at })
		for _, e := range evs {
			sleepUntil(in.PreMs + e.at)
			p.Increment(ns[e.i], e.n)
			synctest.Wait()
		}
		sleepUntil(in.PreMs + in.CloseMs)
		_ = p.Close()
		impl.Success = <-verdict
		time.Sleep(1500 * time.Millisecond)
		mu.Lock()
		text := c20StripANSI(out.String())
		mu.Unlock()
		seen := map[string]bool{}
		for _, line := range strings.Split(text, "\n") {
			if m := c20DoneRe.FindStringSubmatch(strings.TrimSpace(line)); m != nil && !seen[m[1]] {
				seen[m[1]] = true
				st := "done"
				if m[2] == "fail!" {
					st = "fail"
				}
				impl.Lines = append(impl.Lines, c20TrackerLine{Msg: strings.TrimSpace(m[1]), State: st, Value: m[3]})
			}
		}
		c20LastTrack = impl // for the child of the race build: a detected race ends the test with Goexit
	})
	return impl
}

// ---------------------------------------------------------------- generators

var c20Alphabet = []string{"a", "b", "x", "0", "7", " ", "-", "_", "\"", "\\", "<", ">", "&", "é", "世", "{", "}", ":", ",", "\n", "\t", "'", "/"}

func c20Str(r *Rng, max int) string {
	n := r.Intn(max + 1)
	var sb strings.Builder
	for i := 0; i < n; i++ {
		sb.WriteString(c20Alphabet[r.Intn(len(c20Alphabet))])
	}
	return sb.String()
}

func c20Dur(r *Rng) config.Duration {
	switch r.Intn(8) {
	case 0:
		return 0
	case 1:
		return config.Duration(1)
	case 2:
		return config.Duration(time.Duration(r.Range(1, 5000)) * time.Millisecond)
	case 3:
		return config.Duration(time.Duration(r.Range(1, 120)) * time.Second)
	case 4:
		return config.Duration(int64(r.U64() >> 1)) // any non-negative int64
	case 5:
		return config.Duration(-int64(r.U64() >> 2))
	case 6:
		return config.Duration(time.Hour*time.Duration(r.Range(1, 100)) + time.Duration(r.Range(0, 999999999)))
	}
	return config.Duration(time.Duration(r.Range(1, 2000)) * time.Microsecond)
}

func c20Big(r *Rng, nilOK bool) *big.Int {
	switch r.Intn(8) {
	case 0:
		if nilOK {
			return nil
		}
		return big.NewInt(0)
	case 1:
		return big.NewInt(0)
	case 2:
		return new(big.Int).Lsh(big.NewInt(int64(r.Range(1, 1000))), uint(r.Range(60, 200))) // beyond int64
	case 3:
		return big.NewInt(-int64(r.Range(1, 1000)))
	}
	return big.NewInt(int64(r.Range(1, 200000000)))
}

func c20Float(r *Rng) float64 {
	switch r.Intn(7) {
	case 0:
		return 0
	case 1:
		return 1
	case 2:
		return 0.02
	case 3:
		return 1e-7
	case 4:
		return 0.1 + 0.2
	}
	return float64(r.U64()>>11) / float64(1<<53)
}

// c20GenCodecPlan: any value the Go type can hold (event types possibly unset or wrong, empty
// `expected`, odd strings, negative numbers, nil big ints) — the save → load fragment.
func c20GenCodecPlan(r *Rng) config.SimulationPlan {
	p := config.SimulationPlan{
		Node:    config.Node{Count: r.Range(4, 10), MaxServiceWorkers: r.Range(0, 200), MaxQueueSize: r.Range(-1, 2000)},
		Network: config.Network{MaxLatency: c20Dur(r)},
		RPC:     config.RPC{MaxBlockDelay: r.Range(0, 2000), AverageLatency: r.Range(0, 1000), ErrorRate: c20Float(r), RateLimitThreshold: r.Range(0, 5000)},
		Blocks:  config.Blocks{Genesis: c20Big(r, true), Cadence: c20Dur(r), Jitter: c20Dur(r), Duration: r.Range(0, 500), EndPadding: r.Range(0, 50)},
	}
	typ := func(right config.EventType) config.EventType {
		switch r.Intn(6) {
		case 0:
			return ""
		case 1:
			return config.EventType(c20Str(r, 6))
		case 2:
			return config.LogTriggerEventType // wrong on purpose for two of the three lists
		}
		return right
	}
	ev := func(right config.EventType) config.Event {
		return config.Event{Type: typ(right), TriggerBlock: c20Big(r, true), Comment: c20Str(r, r.Intn(3)*6)}
	}
	nc, ng, nl := r.Intn(3), r.Intn(4), r.Intn(4)
	if r.Chance(15) {
		nc, ng = 0, 0
	}
	if r.Chance(10) {
		nl = 0
	}
	for i := 0; i < nc; i++ {
		p.ConfigEvents = append(p.ConfigEvents, config.OCR3ConfigEvent{
			Event: ev(config.OCR3ConfigEventType), MaxFaultyNodesF: r.Range(0, 3), Offchain: c20Str(r, 40), Rmax: r.U64() >> uint(r.Intn(64)),
			DeltaProgress: c20Dur(r), DeltaResend: c20Dur(r), DeltaInitial: c20Dur(r), DeltaRound: c20Dur(r), DeltaGrace: c20Dur(r),
			DeltaRequest: c20Dur(r), DeltaStage: c20Dur(r), MaxQuery: c20Dur(r), MaxObservation: c20Dur(r), MaxAccept: c20Dur(r), MaxTransmit: c20Dur(r),
		})
	}
	for i := 0; i < ng; i++ {
		exp := []string{"", "", config.AllExpected, config.NoneExpected, c20Str(r, 4)}[r.Intn(5)]
		p.GenerateUpkeeps = append(p.GenerateUpkeeps, config.GenerateUpkeepEvent{
			Event: ev(config.GenerateUpkeepEventType), Count: r.Range(-1, 50), StartID: c20Big(r, true),
			EligibilityFunc: []string{"", "always", "never", "30x - 15", c20Str(r, 8)}[r.Intn(5)],
			OffsetFunc:      []string{"", "2x + 1", c20Str(r, 5)}[r.Intn(3)],
			UpkeepType:      []config.UpkeepType{config.ConditionalUpkeepType, config.LogTriggerUpkeepType, "", config.UpkeepType(c20Str(r, 5))}[r.Intn(4)],
			LogTriggeredBy:  []string{"", "test_trigger_event", c20Str(r, 8)}[r.Intn(3)],
			Expected:        exp,
		})
	}
	for i := 0; i < nl; i++ {
		p.LogEvents = append(p.LogEvents, config.LogTriggerEvent{Event: ev(config.LogTriggerEventType), TriggerValue: c20Str(r, 12)})
	}
	return p
}

const c20Offchain = `{"version":"v3","performLockoutWindow":100000,"targetProbability":"0.999","targetInRounds":4,"minConfirmations":1,"gasLimitPerReport":1000000,"gasOverheadPerUpkeep":300000,"maxUpkeepBatchSize":10}`

func c20ConfigEvent(block int64, f int) config.OCR3ConfigEvent {
	ms := func(n int) config.Duration { return config.Duration(time.Duration(n) * time.Millisecond) }
	return config.OCR3ConfigEvent{
		Event:           config.Event{Type: config.OCR3ConfigEventType, TriggerBlock: big.NewInt(block), Comment: "initial ocr config"},
		MaxFaultyNodesF: f, Offchain: c20Offchain, Rmax: 7,
		DeltaProgress: ms(10000), DeltaResend: ms(10000), DeltaInitial: ms(300), DeltaRound: ms(1100), DeltaGrace: ms(300),
		DeltaRequest: ms(200), DeltaStage: ms(20000), MaxQuery: ms(50), MaxObservation: ms(100), MaxAccept: ms(50), MaxTransmit: ms(50),
	}
}

// c20GenRunnablePlan: a valid plan in the shape of the shipped ones: 4–10 nodes, 0..N upkeeps of
// both kinds (0/1/2 included), log events, RPC error rates.
func c20GenRunnablePlan(r *Rng, small bool) config.SimulationPlan {
	genesis := int64(r.Range(1000, 200000000))
	nodes := []int{4, 4, 5, 7, 10}[r.Intn(5)]
	f := (nodes - 1) / 3
	if f > 1 && r.Chance(50) {
		f = 1
	}
	dur, pad := r.Range(40, 60), r.Range(15, 20)
	if !small {
		dur = r.Range(20, 300)
	}
	p := config.SimulationPlan{
		Node:    config.Node{Count: nodes, MaxServiceWorkers: 100, MaxQueueSize: 1000},
		Network: config.Network{MaxLatency: config.Duration(time.Duration(r.Range(10, 150)) * time.Millisecond)},
		RPC: config.RPC{MaxBlockDelay: r.Range(0, 600), AverageLatency: r.Range(10, 300),
			ErrorRate: []float64{0, 0, 0.02, 0.02, 0.1, 1.0}[r.Intn(6)], RateLimitThreshold: 1000},
		Blocks: config.Blocks{Genesis: big.NewInt(genesis), Cadence: config.Duration(time.Second), Duration: dur, EndPadding: pad},
	}
	if r.Chance(30) {
		p.Blocks.Jitter = config.Duration(time.Duration(r.Range(1, 300)) * time.Millisecond)
	}
	if !r.Chance(8) { // a plan without OCR config performs nothing
		p.ConfigEvents = append(p.ConfigEvents, c20ConfigEvent(genesis+1, f))
	}
	expected := func() string {
		if p.RPC.ErrorRate == 1.0 || len(p.ConfigEvents) == 0 {
			return config.NoneExpected
		}
		return []string{"", config.AllExpected, config.AllExpected, config.NoneExpected}[r.Intn(4)]
	}
	maxCount := 12
	if small {
		maxCount = 4
	}
	nCond, nLog := r.Intn(3), r.Intn(3)
	for i := 0; i < nCond; i++ {
		period := r.Range(15, 40)
		p.GenerateUpkeeps = append(p.GenerateUpkeeps, config.GenerateUpkeepEvent{
			Event: config.Event{Type: config.GenerateUpkeepEventType, TriggerBlock: big.NewInt(genesis + int64(r.Range(0, 3)))},
			Count: []int{0, 1, 2, r.Range(1, maxCount)}[r.Intn(4)], StartID: big.NewInt(int64(200 + 1000*i)),
			EligibilityFunc: fmt.Sprintf("%dx - %d", period, r.Range(1, period-1)), OffsetFunc: fmt.Sprintf("%dx + %d", r.Range(1, 3), r.Range(0, 3)),
			UpkeepType: config.ConditionalUpkeepType, Expected: expected(),
		})
	}
	trig := "test_trigger_event"
	for i := 0; i < nLog; i++ {
		p.GenerateUpkeeps = append(p.GenerateUpkeeps, config.GenerateUpkeepEvent{
			Event: config.Event{Type: config.GenerateUpkeepEventType, TriggerBlock: big.NewInt(genesis + int64(r.Range(0, 20)))},
			Count: []int{0, 1, 2, r.Range(1, maxCount)}[r.Intn(4)], StartID: big.NewInt(int64(5000 + 1000*i)),
			EligibilityFunc: []string{"always", "always", "never"}[r.Intn(3)], UpkeepType: config.LogTriggerUpkeepType,
			LogTriggeredBy: []string{trig, trig, "other_event"}[r.Intn(3)], Expected: expected(),
		})
	}
	nEv := r.Intn(4)
	for i := 0; i < nEv; i++ {
		p.LogEvents = append(p.LogEvents, config.LogTriggerEvent{
			Event:        config.Event{Type: config.LogTriggerEventType, TriggerBlock: big.NewInt(genesis + int64(r.Range(5, dur-8)))},
			TriggerValue: []string{trig, trig, "other_event"}[r.Intn(3)],
		})
	}
	// expected defaults to "all" on load; keep the in-memory plan in loaded form so that sims and the
	// expectation agree with what the child reads back
	for i := range p.GenerateUpkeeps {
		if p.GenerateUpkeeps[i].Expected == "" {
			p.GenerateUpkeeps[i].Expected = config.AllExpected
		}
	}
	// a plan may re-configure the network any number of times: each further `ocr3config` event makes libocr close
	// the running plugin instances and build new ones while the chain goes on
	if len(p.ConfigEvents) > 0 && r.Chance(20) {
		used := map[int64]bool{genesis + 1: true}
		for i, n := 0, r.Range(1, 2); i < n; i++ {
			at := genesis + int64(r.Range(2, dur-2))
			if used[at] {
				continue
			}
			used[at] = true
			ev := c20ConfigEvent(at, f)
			ev.Event.Comment = "ocr config change"
			p.ConfigEvents = append(p.ConfigEvents, ev)
		}
	}
	return p
}

// c20LogUpkeepPlan: the plan of the expected-count boundary: log-trigger upkeeps whose eligibility is a
// periodic function (neither "always" nor "never"), and logs placed before / on / between / after their
// eligible blocks and before / on / after their creation.
func c20GenExpectPlan(r *Rng) config.SimulationPlan {
	p := c20GenRunnablePlan(r, false)
	genesis := p.Blocks.Genesis.Int64()
	dur := p.Blocks.Duration
	trig := "test_trigger_event"
	first := len(p.GenerateUpkeeps)
	for i, n := 0, r.Range(1, 3); i < n; i++ {
		period := r.Range(5, 45)
		var f string
		switch r.Intn(3) {
		case 0:
			f = fmt.Sprintf("%dx", period)
		case 1:
			f = fmt.Sprintf("%dx - %d", period, r.Range(1, period))
		default:
			f = fmt.Sprintf("%dx + %d", period, r.Range(1, 9))
		}
		p.GenerateUpkeeps = append(p.GenerateUpkeeps, config.GenerateUpkeepEvent{
			Event: config.Event{Type: config.GenerateUpkeepEventType, TriggerBlock: big.NewInt(genesis + int64(r.Range(0, dur/2)))},
			Count: []int{1, 1, 2, 3}[r.Intn(4)], StartID: big.NewInt(int64(9000 + 1000*i)),
			EligibilityFunc: f, OffsetFunc: fmt.Sprintf("%dx + %d", r.Range(0, 2), r.Range(0, 6)),
			UpkeepType: config.LogTriggerUpkeepType, LogTriggeredBy: []string{trig, trig, trig, "other_event"}[r.Intn(4)],
			Expected: []string{config.AllExpected, config.AllExpected, config.AllExpected, config.NoneExpected}[r.Intn(4)],
		})
	}
	ups, err := chain.GenerateAllUpkeeps(p)
	if err != nil {
		return p
	}
	var cands []int64
	nOld := 0
	for _, e := range p.GenerateUpkeeps[:first] {
		if e.Count > 0 {
			nOld += e.Count
		}
	}
	for _, u := range ups[nOld:] {
		c := u.CreateInBlock.Int64()
		cands = append(cands, c-1, c, c+1)
		if e := u.EligibleAt; len(e) > 0 {
			k := r.Intn(len(e))
			cands = append(cands, e[0].Int64()-1, e[0].Int64(), e[0].Int64()+1, e[k].Int64(), e[k].Int64()+1,
				e[len(e)-1].Int64()-1, e[len(e)-1].Int64(), e[len(e)-1].Int64()+1)
			if len(e) > 1 {
				cands = append(cands, (e[0].Int64()+e[1].Int64())/2, (e[len(e)-2].Int64()+e[len(e)-1].Int64())/2)
			}
		}
	}
	for i, n := 0, r.Range(1, 4); i < n && len(cands) > 0; i++ {
		b := cands[r.Intn(len(cands))]
		if b < 0 {
			b = 0
		}
		p.LogEvents = append(p.LogEvents, config.LogTriggerEvent{
			Event:        config.Event{Type: config.LogTriggerEventType, TriggerBlock: big.NewInt(b)},
			TriggerValue: []string{trig, trig, trig, "other_event"}[r.Intn(4)],
		})
	}
	return p
}

// c20ExpectEdge: hand-written plans around `logTriggersUpkeep` (genesis 100, 100 blocks; one log-trigger upkeep
// created at 100, offset "0x + 1", eligibility "30x": eligible at 101, 131, 161, 191).
func c20ExpectEdge() []config.SimulationPlan {
	mk := func(elig string, create int64, expected string, logs ...int64) config.SimulationPlan {
		p := config.SimulationPlan{
			Node:   config.Node{Count: 4, MaxServiceWorkers: 10, MaxQueueSize: 100},
			Blocks: config.Blocks{Genesis: big.NewInt(100), Cadence: config.Duration(time.Second), Duration: 100, EndPadding: 10},
		}
		p.ConfigEvents = append(p.ConfigEvents, c20ConfigEvent(101, 1))
		p.GenerateUpkeeps = append(p.GenerateUpkeeps, config.GenerateUpkeepEvent{
			Event: config.Event{Type: config.GenerateUpkeepEventType, TriggerBlock: big.NewInt(create)}, Count: 1, StartID: big.NewInt(300),
			EligibilityFunc: elig, OffsetFunc: "0x + 1", UpkeepType: config.LogTriggerUpkeepType, LogTriggeredBy: "test_trigger_event", Expected: expected,
		})
		for _, b := range logs {
			p.LogEvents = append(p.LogEvents, config.LogTriggerEvent{
				Event: config.Event{Type: config.LogTriggerEventType, TriggerBlock: big.NewInt(b)}, TriggerValue: "test_trigger_event"})
		}
		return p
	}
	return []config.SimulationPlan{
		mk("30x", 100, config.AllExpected, 150),                // between two eligible blocks: 1 expected
		mk("30x", 100, config.AllExpected, 101),                // on the first eligible block
		mk("30x", 100, config.AllExpected, 100, 102, 191, 192), // before the first, after the first, on the last, after the last: 3
		mk("30x", 160, config.AllExpected, 150, 160, 170),      // created after the first log
		mk("30x", 100, config.NoneExpected, 150),
		mk("always", 100, config.AllExpected, 99, 150),
		mk("never", 100, config.AllExpected, 150),
	}
}

func c20GenCounts(r *Rng) []int {
	n := 0
	switch r.Intn(6) {
	case 0:
		n = r.Range(0, 8) // the lengths the old code could not handle, and their neighbours
	case 1:
		n = r.Range(0, 8)
	default:
		n = r.Range(0, 50)
	}
	out := make([]int, n)
	mode := r.Intn(4)
	for i := range out {
		switch mode {
		case 0:
			out[i] = r.Range(0, 3)
		case 1:
			out[i] = r.Range(0, 40)
		case 2:
			out[i] = 5
			if r.Chance(15) {
				out[i] = r.Range(0, 60) // outliers
			}
		default:
			out[i] = r.Range(0, 12)
		}
	}
	return out
}

func c20GenTrack(r *Rng) c20Input {
	in := c20Input{Kind: "track"}
	if r.Chance(20) {
		in.PreMs = []int{37, 99, 137, 250, 1037}[r.Intn(5)] // plan preparation shorter / longer than one 100 ms check
	}
	n := r.Range(1, 5)
	last := 0
	for i := 0; i < n; i++ {
		tr := c20Tracker{Incs: []c20Inc{}}
		switch r.Intn(6) {
		case 0:
			tr.Total = 0
		default:
			tr.Total = int64(r.Range(1, 12))
		}
		k := r.Intn(5)
		var sum int64
		for j := 0; j < k; j++ {
			inc := c20Inc{N: int64(r.Range(0, 4))}
			if tr.Total > 0 {
				switch r.Intn(5) {
				case 0:
					inc.N = tr.Total - sum // reaches exactly
				case 1:
					inc.N = tr.Total - sum - 1 // one short
				case 2:
					inc.N = tr.Total - sum + int64(r.Range(1, 3)) // exceeds
				}
				if inc.N < 0 {
					inc.N = 0
				}
			}
			if tr.Total == 0 && r.Chance(70) {
				break // mostly: a zero total sees nothing
			}
			sum += inc.N
			tr.Incs = append(tr.Incs, inc)
		}
		in.Trackers = append(in.Trackers, tr)
	}
	// distinct instants, 150 ms apart, off the tick grid
	slot := 0
	for i := range in.Trackers {
		for j := range in.Trackers[i].Incs {
			slot++
			in.Trackers[i].Incs[j].AtMs = 137 + 150*slot + r.Intn(40)
			if in.Trackers[i].Incs[j].AtMs > last {
				last = in.Trackers[i].Incs[j].AtMs
			}
		}
	}
	// interleave trackers: shuffle the slots
	var all []*c20Inc
	for i := range in.Trackers {
		for j := range in.Trackers[i].Incs {
			all = append(all, &in.Trackers[i].Incs[j])
		}
	}
	perm := r.Perm(len(all))
	times := make([]int, len(all))
	for i, p := range all {
		times[i] = p.AtMs
	}
	for i, p := range all {
		p.AtMs = times[perm[i]]
	}
	in.CloseMs = last + 437 + r.Intn(1000)
	return in
}

func c20Edge() []c20Input {
	mk := func(pre int, close int, trs ...c20Tracker) c20Input {
		for i := range trs {
			if trs[i].Incs == nil {
				trs[i].Incs = []c20Inc{}
			}
		}
		return c20Input{Kind: "track", PreMs: pre, CloseMs: close, Trackers: trs}
	}
	out := []c20Input{
		// late registration (plan preparation longer than one 100 ms check): before /repo 1f2e429 the verdict
		// was taken at the first check with nothing registered — vacuous success.  Must pass now; a regression
		// is reported with "… (verdict taken before the counters were registered)"
		mk(137, 1537, c20Tracker{Total: 5}),
		mk(1037, 2537, c20Tracker{Total: 5, Incs: []c20Inc{{AtMs: 237, N: 4}}}, c20Tracker{Total: 0}),
		mk(250, 2037, c20Tracker{Total: 3, Incs: []c20Inc{{AtMs: 337, N: 3}}}, c20Tracker{Total: 0}), // late but satisfied
		// the shapes of the three shipped plans
		mk(0, 3037, c20Tracker{Total: 17, Incs: []c20Inc{{AtMs: 437, N: 9}, {AtMs: 637, N: 8}}}, c20Tracker{Total: 1, Incs: []c20Inc{{AtMs: 237, N: 1}}}),
		mk(0, 3037, c20Tracker{Total: 32, Incs: []c20Inc{{AtMs: 437, N: 14}, {AtMs: 637, N: 17}}}),
		mk(0, 1037, c20Tracker{Total: 0}),
		mk(0, 1537, c20Tracker{Total: 0, Incs: []c20Inc{{AtMs: 337, N: 0}}}), // zero-valued increment on a zero total
		mk(0, 1537, c20Tracker{Total: 2, Incs: []c20Inc{{AtMs: 337, N: 1}, {AtMs: 537, N: 5}}}),
		mk(0, 1037),
	}
	// the caller blocks right after Start(): before /repo b727630 checkProgress then ran before Render had set
	// its flag, skipped its loop and took the verdict at once.  Must pass now; a regression is reported with
	// "… (checkProgress left its loop before Render started)", tag start-race
	sr := mk(0, 1537, c20Tracker{Total: 5})
	sr.BlockFirst = true
	out = append(out, sr)
	for i, p := range c20ExpectEdge() {
		if in, err := c20PlanInput("expect", fmt.Sprintf("log-upkeep-edge-%d", i), p, true); err == nil {
			out = append(out, in)
		}
	}
	for _, counts := range [][]int{{}, {3}, {3, 1}, {1, 2, 3}, {4, 4, 4, 4}, {5, 1, 4, 2, 3}, {1, 2, 3, 4, 5, 6}, {9, 1, 1, 1, 1, 1, 40}, {0, 0, 0, 0, 0, 0, 0, 0}} {
		out = append(out, c20Input{Kind: "stats", Counts: counts})
	}
	return out
}

// ---------------------------------------------------------------- entry point

func c20Run(t *testing.T, in c20Input, simExe string) any {
	switch in.Kind {
	case "plan":
		return c20RunPlan(in)
	case "expect":
		return c20RunExpect(in)
	case "stats":
		var impl c20StatsImpl
		synctest.Test(t, func(t *testing.T) { impl = c20RunStats(in) })
		return impl
	case "track":
		if in.Race {
			return c20RunTrackChild(in, simExe)
		}
		return c20RunTrack(t, in)
	case "perform":
		return c20RunPerform(t, in)
	case "resave":
		return c20RunResave(in)
	case "collector":
		return c20RunCollector(in, simExe, in.Race)
	case "db":
		return c20RunDB(in, simExe, in.Race)
	case "pipeline":
		return c20RunPipelines([]c20PipelineIn{*in.Pipeline}, simExe, in.Race)[0]
	case "transmit":
		return c20RunTransmit(in, simExe, in.Race)
	case "churn":
		return c20RunChurn(in, simExe, in.Race)
	case "sim":
		plan, err := c20CanonToPlan(*in.Plan)
		if err != nil {
			return c20SimRecord{Result: c20ChildResult{Stage: "harness", Err: err.Error()}}
		}
		b, err := plan.Encode()
		if err != nil {
			return c20SimRecord{Result: c20ChildResult{Stage: "save", Err: err.Error()}}
		}
		return c20RunSim(t, b, simExe, in.Race, in.Realtime)
	}
	panic("unknown C20 case kind " + in.Kind)
}

func c20PlanInput(kind, name string, p config.SimulationPlan, withGenerated bool) (c20Input, error) {
	c := c20PlanToCanon(p)
	in := c20Input{Kind: kind, Name: name, Plan: &c}
	if withGenerated {
		u, l, err := c20Generated(p)
		if err != nil {
			return in, err
		}
		in.Upkeeps, in.Logs = u, l
		if in.Upkeeps == nil {
			in.Upkeeps = []c20Upkeep{}
		}
	}
	return in, nil
}

func TestC20(t *testing.T) {
	if os.Getenv(c20ChildPlanEnv) != "" {
		t.Skip("child process")
	}
	em := NewEmitter(t, "C20")
	defer em.Close()
	self, err := os.Executable()
	if err != nil {
		t.Fatal(err)
	}
	emit := func(src string, in c20Input, exe string) {
		em.Hit("kind=" + in.Kind)
		em.Emit(src, in, c20Run(t, in, exe))
	}
	names, raws, replayOnly := corpusInputs(t, "C20")
	for i, raw := range raws {
		var in c20Input
		if err := json.Unmarshal(raw, &in); err != nil {
			t.Fatalf("%s: %v", names[i], err)
		}
		emit(names[i], in, self)
	}
	if replayOnly {
		return
	}
	for _, in := range c20Edge() {
		emit("edge", in, self)
	}
	r := NewRng(seed())

	// (1) save → load: the shipped plans, then generated ones
	shipped, _ := filepath.Glob(filepath.Join(c20RepoDir(), "tools/simulator/plans/*.json"))
	sort.Strings(shipped)
	var shippedPlans []config.SimulationPlan
	for _, f := range shipped {
		b, err := os.ReadFile(f)
		if err != nil {
			t.Fatal(err)
		}
		p, err := config.DecodeSimulationPlan(b)
		if err != nil {
			t.Fatalf("%s does not load: %v", f, err)
		}
		shippedPlans = append(shippedPlans, p)
		in, _ := c20PlanInput("plan", filepath.Base(f), p, false)
		emit("shipped", in, self)
		in, err = c20PlanInput("expect", filepath.Base(f), p, true)
		if err != nil {
			t.Fatalf("%s: %v", f, err)
		}
		emit("shipped", in, self)
	}
	if len(shippedPlans) != 3 {
		t.Fatalf("expected the three shipped plans, found %d", len(shippedPlans))
	}
	for i, n := 0, tierN(400, 8000); i < n; i++ {
		var p config.SimulationPlan
		if i%4 == 3 {
			p = c20GenRunnablePlan(r, false)
			em.Hit("plan=runnable")
		} else {
			p = c20GenCodecPlan(r)
			em.Hit("plan=codec")
		}
		in, _ := c20PlanInput("plan", "", p, false)
		emit("gen", in, self)
	}
	for i, n := 0, tierN(150, 3000); i < n; i++ {
		p := c20GenRunnablePlan(r, false)
		in, err := c20PlanInput("expect", "", p, true)
		if err != nil {
			t.Fatalf("generated plan does not generate: %v", err)
		}
		emit("gen", in, self)
	}
	for i, n := 0, tierN(300, 5000); i < n; i++ {
		p := c20GenExpectPlan(r)
		in, err := c20PlanInput("expect", "", p, true)
		if err != nil {
			t.Fatalf("generated plan does not generate: %v", err)
		}
		for _, u := range in.Upkeeps {
			if u.Type == 1 && !u.Always && len(u.EligibleAt) > 0 {
				em.Hit("expect.periodic-log-upkeep")
				break
			}
		}
		emit("gen", in, self)
	}
	// (2) summary statistics on check-count vectors of length 0–50
	for i, n := 0, tierN(300, 6000); i < n; i++ {
		in := c20Input{Kind: "stats", Counts: c20GenCounts(r)}
		em.Hit(fmt.Sprintf("stats.len=%d", bucket(len(in.Counts))))
		emit("gen", in, self)
	}
	// the verdict logic of ProgressTelemetry under scripted schedules
	for i, n := 0, tierN(300, 6000); i < n; i++ {
		in := c20GenTrack(r)
		if in.PreMs >= 100 {
			em.Hit("track.late-register")
		}
		emit("gen", in, self)
	}
	// the real transmit loader wired to the real telemetry: forced performs around the expected count
	for i, n := 0, tierN(250, 4000); i < n; i++ {
		in, err := c20GenPerform(r)
		if err != nil {
			t.Fatalf("generated plan does not generate: %v", err)
		}
		emit("gen", in, self)
	}
	// save → save → load through the real output path, both into one directory
	for i, n := 0, tierN(150, 2500); i < n; i++ {
		a := c20GenCodecPlan(r)
		var b config.SimulationPlan
		switch r.Intn(3) {
		case 0:
			b = c20GenCodecPlan(r)
		default:
			b = c20Shrink(r, a)
		}
		ca, cb := c20PlanToCanon(a), c20PlanToCanon(b)
		emit("gen", c20Input{Kind: "resave", Plan: &ca, Plan2: &cb}, self)
	}
	// the chain side of the nodes (trackers + check pipeline): all scenarios of the run in one child process
	{
		var pins []c20PipelineIn
		pins = append(pins, c20PipelineEdge()...)
		for i, n := 0, tierN(40, 400); i < n; i++ {
			pins = append(pins, c20GenPipeline(r))
		}
		// chunks of scenarios, one child process (one bubble) per chunk, four at a time
		impls := make([]c20PipelineImpl, len(pins))
		const chunk = 25
		var pwg sync.WaitGroup
		psem := make(chan struct{}, 4)
		for lo := 0; lo < len(pins); lo += chunk {
			hi := lo + chunk
			if hi > len(pins) {
				hi = len(pins)
			}
			pwg.Add(1)
			go func(lo, hi int) {
				defer pwg.Done()
				psem <- struct{}{}
				defer func() { <-psem }()
				copy(impls[lo:hi], c20RunPipelines(pins[lo:hi], self, false))
			}(lo, hi)
		}
		pwg.Wait()
		for i := range pins {
			em.Hit("kind=pipeline")
			pin := pins[i]
			em.Emit("gen", c20Input{Kind: "pipeline", Pipeline: &pin}, impls[i])
		}
	}
	// the transmit loader under concurrent Transmit calls (un-timed, child process)
	stress := []c20Input{
		{Kind: "transmit", Rounds: tierN(2500, 12000), K: 8, PerReport: 1},
		{Kind: "transmit", Rounds: tierN(1500, 8000), K: 2, PerReport: 3},
		{Kind: "transmit", Rounds: tierN(1500, 8000), K: 16, PerReport: 2},
	}
	// (3) the real simulator, one child process per simulation
	type simCase struct {
		in  c20Input
		exe string
	}
	var sims []simCase
	for i, p := range shippedPlans {
		in, err := c20PlanInput("sim", filepath.Base(shipped[i]), p, true)
		if err != nil {
			t.Fatal(err)
		}
		sims = append(sims, simCase{in, self})
	}
	{ // a plan that expects no perform but whose upkeeps are performed: the verdict must be failure
		in, err := c20PlanInput("sim", "negative-with-perform", c20NegativePerformPlan(), true)
		if err != nil {
			t.Fatal(err)
		}
		sims = append(sims, simCase{in, self})
	}
	negIdx := len(sims) - 1
	{ // a transmit after the last block (never included): the chart, the summary and the verdict must cope
		in, err := c20PlanInput("sim", "late-transmit", c20LateTransmitPlan(), true)
		if err != nil {
			t.Fatal(err)
		}
		sims = append(sims, simCase{in, self})
	}
	{ // a fast chain on the REAL clock (no bubble): 10 nodes, 2 ms blocks, 3000 upkeeps in the summary — what takes wall
		// time (writing the summary, closing the nodes one after the other, closing the log files) takes several block
		// cadences while the block source keeps ticking
		p := c20FastChainPlan()
		p.Node.Count = 10
		p.ConfigEvents, p.LogEvents = nil, nil
		p.GenerateUpkeeps = []config.GenerateUpkeepEvent{{
			Event: config.Event{Type: config.GenerateUpkeepEventType, TriggerBlock: big.NewInt(p.Blocks.Genesis.Int64() + 2)},
			Count: 3000, StartID: big.NewInt(100), EligibilityFunc: "never", UpkeepType: config.LogTriggerUpkeepType,
			LogTriggeredBy: "x", Expected: config.NoneExpected,
		}}
		p.Blocks.Cadence = config.Duration(2 * time.Millisecond)
		p.Blocks.Duration, p.Blocks.EndPadding = 200, 20
		in, err := c20PlanInput("sim", "fast-chain-realtime", p, true)
		if err != nil {
			t.Fatal(err)
		}
		in.Realtime = true
		sims = append(sims, simCase{in, self})
	}
	{ // a fast chain: winding the run up takes many block cadences
		in, err := c20PlanInput("sim", "fast-chain", c20FastChainPlan(), true)
		if err != nil {
			t.Fatal(err)
		}
		sims = append(sims, simCase{in, self})
	}
	// plans with several config events: the plugin instances of every node are closed and replaced mid-run
	multiFrom := len(sims)
	for _, mc := range []struct {
		name string
		plan config.SimulationPlan
		real bool
	}{
		{"two-configs", c20MultiConfigPlan(r, 2), false},
		{"three-configs", c20MultiConfigPlan(r, 3), false},
		{"early-reconfig", c20EarlyReconfigPlan(r), false},
		{"reconfig-fast-chain-realtime", c20MultiConfigFastPlan(r), true},
	} {
		in, err := c20PlanInput("sim", mc.name, mc.plan, true)
		if err != nil {
			t.Fatal(err)
		}
		in.Realtime = mc.real
		sims = append(sims, simCase{in, self})
		em.Hit("sim.config-events>1")
	}
	multiTo := len(sims)
	nGen := tierN(0, 29) // with the three shipped plans, the corpus witness, the negative and the late-transmit plan and (thorough) three race-build runs: 8 / 40 simulations
	for i := 0; i < nGen; i++ {
		p := c20GenRunnablePlan(r, true)
		in, err := c20PlanInput("sim", fmt.Sprintf("gen%d", i), p, true)
		if err != nil {
			t.Fatal(err)
		}
		sims = append(sims, simCase{in, self})
	}
	raceExe := ""
	if thorough() {
		if raceExe = c20RaceExeFor(t); raceExe != "" {
			defer os.Remove(raceExe)
			for _, k := range []int{0, 2, negIdx, multiFrom, multiTo - 2} { // only_log_trigger.json, simplan_fast_check.json, the failing negative plan and two re-configured runs under the race detector
				in := sims[k].in
				in.Race = true
				sims = append(sims, simCase{in, raceExe})
				em.Hit("sim.race-build")
			}
		} else {
			em.Hit("sim.race-build-unavailable")
		}
	}
	for _, in := range stress {
		sims = append(sims, simCase{in, self})
	}
	{
		// the contract-event collector read by the summary while the nodes still record checks
		col := c20Input{Kind: "collector", Nodes: 8, NUpkeep: 20, NBlock: 30, Rounds: tierN(20000, 60000), Reads: tierN(2000, 6000)}
		sims = append(sims, simCase{col, self})
		if raceExe != "" {
			col.Race, col.Rounds, col.Reads = true, 3000, 300
			sims = append(sims, simCase{col, raceExe})
		}
	}
	{
		// a node's block source with subscribers (plugin instances) coming and going while blocks flow
		cad := []int{150, 200, 300}[r.Intn(3)]
		churn := []c20ChurnIn{
			{Mode: "stores", Workers: 16, Instances: tierN(1500, 6000), CadenceUs: 1000},
			{Mode: "stores", Workers: r.Range(6, 10), Instances: tierN(300, 3000), CadenceUs: cad, Slow: r.Range(1, 3), PauseUs: cad * 3 / 2},
			{Mode: "raw", Workers: r.Range(6, 10), Instances: tierN(300, 3000), CadenceUs: cad, Slow: r.Range(1, 3), PauseUs: cad * 3 / 2},
			{Mode: "raw", Workers: 16, Instances: tierN(500, 4000), CadenceUs: 500},
		}
		for i := range churn {
			sims = append(sims, simCase{c20Input{Kind: "churn", Churn: &churn[i]}, self})
		}
		if raceExe != "" {
			for _, k := range []int{0, 2} {
				c := churn[k]
				c.Instances = 150
				sims = append(sims, simCase{c20Input{Kind: "churn", Churn: &c, Race: true}, raceExe})
			}
		}
	}
	for _, part := range []string{"ocr3", "upkeep"} {
		// a node's simulated databases under the concurrent callers they have in a run
		db := c20Input{Kind: "db", Part: part, Nodes: 8, Rounds: tierN(20000, 100000)}
		sims = append(sims, simCase{db, self})
		if raceExe != "" {
			db.Race, db.Rounds = true, 2000
			sims = append(sims, simCase{db, raceExe})
		}
	}
	if raceExe != "" {
		// the perform history of an often performed upkeep read by the nodes' check goroutines while performs arrive
		many := c20PipelineEdge()[1]
		many.ConcurrentChecks = true
		sims = append(sims, simCase{c20Input{Kind: "pipeline", Pipeline: &many, Race: true}, raceExe})
	}
	if raceExe != "" {
		// failing verdicts with several incomplete trackers, under the race detector
		mk := func(close int, trs ...c20Tracker) c20Input {
			for i := range trs {
				if trs[i].Incs == nil {
					trs[i].Incs = []c20Inc{}
				}
			}
			return c20Input{Kind: "track", CloseMs: close, Trackers: trs, Race: true}
		}
		for _, in := range []c20Input{
			mk(1537, c20Tracker{Total: 5}, c20Tracker{Total: 1}, c20Tracker{Total: 12, Incs: []c20Inc{{AtMs: 237, N: 12}}}, c20Tracker{Total: 1}, c20Tracker{Total: 80, Incs: []c20Inc{{AtMs: 437, N: 80}}}),
			mk(1537, c20Tracker{Total: 0, Incs: []c20Inc{{AtMs: 237, N: 1}}}, c20Tracker{Total: 0, Incs: []c20Inc{{AtMs: 237, N: 2}}}, c20Tracker{Total: 3}),
			mk(1537, c20Tracker{Total: 2, Incs: []c20Inc{{AtMs: 237, N: 2}}}, c20Tracker{Total: 0}),
		} {
			sims = append(sims, simCase{in, raceExe})
		}
	}
	if raceExe != "" {
		sims = append(sims, simCase{c20Input{Kind: "transmit", Rounds: 1500, K: 8, PerReport: 1, Race: true}, raceExe})
	}
	results := make([]any, len(sims))
	var wg sync.WaitGroup
	sem := make(chan struct{}, 4)
	for i := range sims {
		wg.Add(1)
		go func(i int) {
			defer wg.Done()
			sem <- struct{}{}
			defer func() { <-sem }()
			results[i] = c20Run(t, sims[i].in, sims[i].exe)
		}(i)
	}
	wg.Wait()
	for i := range sims {
		em.Hit("kind=" + sims[i].in.Kind)
		em.Emit(sims[i].in.Kind+":"+sims[i].in.Name, sims[i].in, results[i])
	}
}
