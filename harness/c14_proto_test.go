package harness

import (
	"context"
	"runtime"
	"sync/atomic"
	"testing"
	"testing/synctest"

	"github.com/smartcontractkit/chainlink-automation/pkg/util"
)

// c14StressOnce runs RunJobs against a Stop issued after `yields` scheduler yields.
// Returns (returned, delivered, accepted-upper-bound).
func c14StressOnce(t *testing.T, workers, jobs, yields int, cancelInstead bool) (returned bool, delivered int64) {
	var ret atomic.Bool
	var del atomic.Int64
	synctest.Test(t, func(t *testing.T) {
		wg := util.NewWorkerGroup[int](workers, 10)
		ctx, cancel := context.WithCancel(context.Background())
		defer cancel()
		js := make([]int, jobs)
		go func() {
			util.RunJobs(ctx, wg, js, func(ctx context.Context, j int) (int, error) { return j, nil }, func(int, error) { del.Add(1) })
			ret.Store(true)
		}()
		go func() {
			for i := 0; i < yields; i++ {
				runtime.Gosched()
			}
			if cancelInstead {
				cancel()
			} else {
				wg.Stop()
			}
		}()
		synctest.Wait()
		if !ret.Load() {
			// every goroutine is durably blocked and RunJobs has not returned: exact deadlock verdict.
			// release what can be released so the bubble can end
			cancel()
			wg.Stop()
			synctest.Wait()
		} else {
			wg.Stop()
			synctest.Wait()
		}
	})
	return ret.Load(), del.Load()
}

func TestC14Proto(t *testing.T) {
	stuck := 0
	n := 20000
	for i := 0; i < n; i++ {
		ok, _ := c14StressOnce(t, 1+i%5, 10+i%40, i%197, i%3 == 0)
		if !ok {
			stuck++
		}
	}
	t.Logf("stuck %d of %d", stuck, n)
	if stuck > 0 {
		t.Fail()
	}
}
